//go:build c09

package harness

import (
	"fmt"
	"math/rand"
	"sort"
	"strings"
	"testing"

	sdkmath "cosmossdk.io/math"
	"github.com/google/uuid"

	sdk "github.com/cosmos/cosmos-sdk/types"
	authtypes "github.com/cosmos/cosmos-sdk/x/auth/types"
	"github.com/cosmos/cosmos-sdk/x/authz"
	banktypes "github.com/cosmos/cosmos-sdk/x/bank/types"

	simapp "github.com/provenance-io/provenance/app"
	markertypes "github.com/provenance-io/provenance/x/marker/types"
	mdkeeper "github.com/provenance-io/provenance/x/metadata/keeper"
	mdtypes "github.com/provenance-io/provenance/x/metadata/types"
)

// ---------------------------------------------------------------------------------------------
// C09: a scope has one value owner, changed only with the current owner's consent.
//
// Histories over 2-4 scopes and a fixed cast of accounts, every step through the REAL message
// handlers (MsgWriteScopeRequest, MsgUpdateValueOwnersRequest, MsgMigrateValueOwnerRequest,
// MsgDeleteScopeRequest, bank MsgSend of the scope token) with the Signers field drawn from the
// cast; authz grants through the real authz keeper; marker access lists through the real marker
// keeper.  After every step: every bank balance and the supply of every scope denom, keeper
// GetScopeValueOwner, gRPC Scope and ValueOwnership queries, accept/reject.
//
// Cast (model index): 0 metadata module account, 1-3 users (scope owners), 4 authz grantee,
// 5 stranger, 6 marker administrator, 7 unrestricted marker, 8 restricted marker, 9 smart contract
// (base account, sequence 0, no public key), 10 another module account (blocked), 99 anybody else.
// Quarantine of scope tokens (receiver opted in) is NOT generated here.
// ---------------------------------------------------------------------------------------------

const (
	c09Module   = 0
	c09Grantee  = 4
	c09Stranger = 5
	c09Admin    = 6
	c09Mk1      = 7
	c09Mk2      = 8
	c09Wasm     = 9
	c09Blocked  = 10
	c09Other    = 99
)

var c09Kinds = []string{"KWrite", "KUpdate", "KMigrate", "KDelete", "KAddData"}
var c09KindURL = []string{
	mdtypes.TypeURLMsgWriteScopeRequest, mdtypes.TypeURLMsgUpdateValueOwnersRequest,
	mdtypes.TypeURLMsgMigrateValueOwnerRequest, mdtypes.TypeURLMsgDeleteScopeRequest,
	mdtypes.TypeURLMsgAddScopeDataAccessRequest,
}

// party roles (PartyType enum values) and the required roles of the two existing scope specifications
const (
	c09Owner    = int(mdtypes.PartyType_PARTY_TYPE_OWNER)
	c09Investor = int(mdtypes.PartyType_PARTY_TYPE_INVESTOR)
	c09Servicer = int(mdtypes.PartyType_PARTY_TYPE_SERVICER)
)

var c09SpecRoles = map[int][]int{1: {c09Owner}, 2: {c09Owner, c09Investor}}

type c09Env struct {
	t     *testing.T
	app   *simapp.App
	base  sdk.Context
	addrs map[int]sdk.AccAddress
	order []int // model indexes in a fixed order
	specs []mdtypes.MetadataAddress
	mkDen map[int]string
}

func (e *c09Env) idx(a sdk.AccAddress) int {
	for _, i := range e.order {
		if e.addrs[i].Equals(a) {
			return i
		}
	}
	return c09Other
}

func c09N(i int) string { return fmt.Sprintf("%d%%N", i) }
func c09Ns(l []int) string {
	out := make([]string, len(l))
	for i, x := range l {
		out[i] = c09N(x)
	}
	return coqList(out)
}
func c09OptN(i int) string {
	if i < 0 {
		return "None"
	}
	return "(Some " + c09N(i) + ")"
}

type c09Marker struct {
	restricted        bool
	withdraw, deposit []int
}

func (m c09Marker) term() string {
	return fmt.Sprintf("{| mk_restricted := %s; mk_withdraw := %s; mk_deposit := %s |}", coqBool(m.restricted), c09Ns(m.withdraw), c09Ns(m.deposit))
}

func c09Setup(t *testing.T) *c09Env {
	app, ctx := newApp(t)
	e := &c09Env{t: t, app: app, base: ctx, addrs: map[int]sdk.AccAddress{}, mkDen: map[int]string{c09Mk1: "cninecoin", c09Mk2: "cninerest"}}
	e.addrs[c09Module] = authtypes.NewModuleAddress(mdtypes.ModuleName)
	e.addrs[c09Blocked] = authtypes.NewModuleAddress("mint")
	for i := 1; i <= 6; i++ {
		e.addrs[i] = addrN(9000 + i)
	}
	e.addrs[c09Wasm] = addrN(9009)
	e.addrs[c09Mk1] = markertypes.MustGetMarkerAddress(e.mkDen[c09Mk1])
	e.addrs[c09Mk2] = markertypes.MustGetMarkerAddress(e.mkDen[c09Mk2])
	e.order = []int{0, 1, 2, 3, 4, 5, 6, 7, 8, 9, 10}
	// ordinary accounts have signed before (sequence 1): the metadata module treats an existing base
	// account with sequence 0 and no public key as a smart contract
	for i := 1; i <= 6; i++ {
		acc := app.AccountKeeper.NewAccount(ctx, authtypes.NewBaseAccountWithAddress(e.addrs[i]))
		if err := acc.SetSequence(1); err != nil {
			t.Fatal(err)
		}
		app.AccountKeeper.SetAccount(ctx, acc)
	}
	ensureAccount(app, ctx, e.addrs[c09Wasm])
	// markers
	for _, mi := range []int{c09Mk1, c09Mk2} {
		mt := markertypes.MarkerType_Coin
		if mi == c09Mk2 {
			mt = markertypes.MarkerType_RestrictedCoin
		}
		ma := markertypes.NewMarkerAccount(authtypes.NewBaseAccountWithAddress(e.addrs[mi]), sdk.NewInt64Coin(e.mkDen[mi], 1000), e.addrs[c09Admin],
			[]markertypes.AccessGrant{{Address: e.addrs[c09Admin].String(), Permissions: []markertypes.Access{markertypes.Access_Mint, markertypes.Access_Admin}}},
			markertypes.StatusProposed, mt, true, false, false, nil)
		if err := app.MarkerKeeper.AddFinalizeAndActivateMarker(ctx, ma); err != nil {
			t.Fatalf("marker %s: %v", e.mkDen[mi], err)
		}
	}
	// two scope specifications exist, a third id does not
	for i := 1; i <= 3; i++ {
		id := mdtypes.ScopeSpecMetadataAddress(uuid.MustParse(fmt.Sprintf("00000000-0000-4000-9000-0000000000%02d", i)))
		e.specs = append(e.specs, id)
		if i <= 2 {
			var roles []mdtypes.PartyType
			for _, r := range c09SpecRoles[i] {
				roles = append(roles, mdtypes.PartyType(r))
			}
			app.MetadataKeeper.SetScopeSpecification(ctx, mdtypes.ScopeSpecification{SpecificationId: id,
				OwnerAddresses: []string{e.addrs[1].String()}, PartiesInvolved: roles})
		}
	}
	for _, i := range []int{c09Module, c09Blocked} {
		if !app.BankKeeper.BlockedAddr(e.addrs[i]) {
			t.Fatalf("account %d expected to be blocked", i)
		}
	}
	return e
}

// setMarker writes withdraw/deposit access lists of a marker through the marker keeper.
func (e *c09Env) setMarker(ctx sdk.Context, mi int, m c09Marker) {
	mk, err := e.app.MarkerKeeper.GetMarkerByDenom(ctx, e.mkDen[mi])
	if err != nil {
		e.t.Fatal(err)
	}
	ma := mk.(*markertypes.MarkerAccount)
	perms := map[int][]markertypes.Access{}
	for _, a := range m.withdraw {
		perms[a] = append(perms[a], markertypes.Access_Withdraw)
	}
	for _, a := range m.deposit {
		perms[a] = append(perms[a], markertypes.Access_Deposit)
	}
	perms[c09Admin] = append(perms[c09Admin], markertypes.Access_Mint, markertypes.Access_Admin)
	var keys []int
	for a := range perms {
		keys = append(keys, a)
	}
	sort.Ints(keys)
	var list []markertypes.AccessGrant
	for _, a := range keys {
		list = append(list, markertypes.AccessGrant{Address: e.addrs[a].String(), Permissions: perms[a]})
	}
	ma.AccessControl = list
	e.app.MarkerKeeper.SetMarker(ctx, ma)
}

func (e *c09Env) randMarker(r *rand.Rand, restricted bool) c09Marker {
	m := c09Marker{restricted: restricted}
	cands := []int{c09Admin, 1, c09Grantee, c09Wasm}
	for _, a := range cands {
		p := 4
		if a == c09Admin {
			p = 2
		}
		if r.Intn(p) == 0 || (a == c09Admin && r.Intn(3) > 0) {
			m.withdraw = append(m.withdraw, a)
		}
		if r.Intn(p) == 0 || (a == c09Admin && r.Intn(3) > 0) {
			m.deposit = append(m.deposit, a)
		}
	}
	return m
}

type c09VB interface {
	sdk.Msg
	ValidateBasic() error
}

func (e *c09Env) runMsg(ctx sdk.Context, m sdk.Msg) error {
	return try(func() error {
		if vb, ok := m.(c09VB); ok {
			if err := vb.ValidateBasic(); err != nil {
				return err
			}
		}
		h := e.app.MsgServiceRouter().Handler(m)
		if h == nil {
			return fmt.Errorf("no handler for %T", m)
		}
		_, err := h(ctx, m)
		return err
	})
}

type c09Party struct {
	a, role int
	opt     bool
}

type c09Scope struct {
	parties []c09Party
	spec    int // 1..3
	data    []int
	rollup  bool
}

func (sc *c09Scope) clone() c09Scope {
	return c09Scope{parties: append([]c09Party{}, sc.parties...), spec: sc.spec, data: append([]int{}, sc.data...), rollup: sc.rollup}
}

func c09PartiesTerm(ps []c09Party) string {
	out := make([]string, len(ps))
	for i, p := range ps {
		out[i] = fmt.Sprintf("(%s, %s, %s)", c09N(p.a), c09N(p.role), coqBool(p.opt))
	}
	return coqList(out)
}

// need: the addresses whose signature (or authz grant) the party rules ask for on a change of the
// scope: all parties (no rollup), or the required parties plus one party per role the given
// specification requires (rollup).
func (sc *c09Scope) need(spec int) []int {
	var out []int
	seen := map[int]bool{}
	add := func(a int) {
		if !seen[a] {
			seen[a] = true
			out = append(out, a)
		}
	}
	if !sc.rollup {
		for _, p := range sc.parties {
			add(p.a)
		}
		return out
	}
	used := make([]bool, len(sc.parties))
	for _, p := range sc.parties {
		if !p.opt {
			add(p.a)
		}
	}
	for _, role := range c09SpecRoles[spec] {
		found := false
		for i, p := range sc.parties {
			if !used[i] && p.role == role && seen[p.a] {
				used[i], found = true, true
				break
			}
		}
		if !found {
			for i, p := range sc.parties {
				if !used[i] && p.role == role {
					used[i] = true
					add(p.a)
					break
				}
			}
		}
	}
	return out
}

func (h *c09Hist) mkScope(d int, sc c09Scope, vo int) mdtypes.Scope {
	e := h.e
	scope := mdtypes.Scope{ScopeId: h.ids[d], SpecificationId: e.specs[sc.spec-1], RequirePartyRollup: sc.rollup}
	for _, p := range sc.parties {
		scope.Owners = append(scope.Owners, mdtypes.Party{Address: e.addrs[p.a].String(), Role: mdtypes.PartyType(p.role), Optional: p.opt})
	}
	for _, x := range sc.data {
		scope.DataAccess = append(scope.DataAccess, addrN(9100+x).String())
	}
	if vo >= 0 {
		scope.ValueOwnerAddress = e.addrs[vo].String()
	}
	return scope
}

type c09Op struct {
	term, dsc, cls string
	run            func(sdk.Context) error
}

func (h *c09Hist) opWrite(cls string, sg []int, d int, sc c09Scope, vo int) c09Op {
	msg := &mdtypes.MsgWriteScopeRequest{Scope: h.mkScope(d, sc, vo), Signers: h.strs(sg)}
	return c09Op{cls: cls,
		term: fmt.Sprintf("OWrite %s %s %s %s %s %s %s", c09Ns(sg), c09N(d+1), c09PartiesTerm(sc.parties), c09N(sc.spec), c09Ns(sc.data), coqBool(sc.rollup), c09OptN(vo)),
		dsc:  fmt.Sprintf("%s scope %d parties %v spec %d data %v rollup %v vo %d signers %v", cls, d+1, sc.parties, sc.spec, sc.data, sc.rollup, vo, sg),
		run: func(c sdk.Context) error {
			err := h.e.runMsg(c, msg)
			if err == nil {
				cp := sc.clone()
				h.scopes[d] = &cp
			}
			return err
		}}
}

func (h *c09Hist) opUpdate(sg []int, ds []int, to int) c09Op {
	ids := make([]mdtypes.MetadataAddress, len(ds))
	dn := make([]int, len(ds))
	for i, d := range ds {
		ids[i] = h.ids[d]
		dn[i] = d + 1
	}
	msg := &mdtypes.MsgUpdateValueOwnersRequest{ScopeIds: ids, ValueOwnerAddress: h.e.addrs[to].String(), Signers: h.strs(sg)}
	return c09Op{cls: "update", term: fmt.Sprintf("OUpdate %s %s %s", c09Ns(sg), c09Ns(dn), c09N(to)),
		dsc: fmt.Sprintf("update scopes %v to %d signers %v", dn, to, sg),
		run: func(c sdk.Context) error { return h.e.runMsg(c, msg) }}
}

func (h *c09Hist) opAddData(sg []int, d int, da []int) c09Op {
	var strs []string
	for _, x := range da {
		strs = append(strs, addrN(9100+x).String())
	}
	msg := &mdtypes.MsgAddScopeDataAccessRequest{ScopeId: h.ids[d], DataAccess: strs, Signers: h.strs(sg)}
	return c09Op{cls: "add-data-access", term: fmt.Sprintf("OAddData %s %s %s", c09Ns(sg), c09N(d+1), c09Ns(da)),
		dsc: fmt.Sprintf("add data access %v to scope %d signers %v", da, d+1, sg),
		run: func(c sdk.Context) error {
			err := h.e.runMsg(c, msg)
			if err == nil && h.scopes[d] != nil {
				h.scopes[d].data = append(h.scopes[d].data, da...)
			}
			return err
		}}
}

type c09Hist struct {
	e      *c09Env
	r      *rand.Rand
	ctx    sdk.Context
	ids    []mdtypes.MetadataAddress
	scopes map[int]*c09Scope // accepted writes, by scope index
	grants map[string]bool
	mks    map[int]c09Marker
}

func (h *c09Hist) strs(l []int) []string {
	out := make([]string, len(l))
	for i, a := range l {
		out[i] = h.e.addrs[a].String()
	}
	return out
}

func (h *c09Hist) holder(d int) int {
	vo, err := h.e.app.MetadataKeeper.GetScopeValueOwner(h.ctx, h.ids[d])
	if err != nil || len(vo) == 0 {
		return -1
	}
	return h.e.idx(vo)
}

// observe projects the real state.
func (h *c09Hist) observe(ok bool) string {
	e := h.e
	app := e.app
	bals := make([]map[int]int64, len(h.ids))
	denIdx := map[string]int{}
	for i, id := range h.ids {
		bals[i] = map[int]int64{}
		denIdx[id.Denom()] = i
	}
	app.BankKeeper.IterateAllBalances(h.ctx, func(a sdk.AccAddress, c sdk.Coin) bool {
		if i, ok := denIdx[c.Denom]; ok {
			bals[i][e.idx(a)] += c.Amount.Int64()
		}
		return false
	})
	var obal, osup, ovo, oq, oown []string
	for i, id := range h.ids {
		var ks []int
		for a := range bals[i] {
			ks = append(ks, a)
		}
		sort.Ints(ks)
		var ent []string
		for _, a := range ks {
			ent = append(ent, fmt.Sprintf("(%s, %s)", c09N(a), zI64(bals[i][a])))
		}
		obal = append(obal, fmt.Sprintf("(%s, %s)", c09N(i+1), coqList(ent)))
		osup = append(osup, fmt.Sprintf("(%s, %s)", c09N(i+1), zInt(app.BankKeeper.GetSupply(h.ctx, id.Denom()).Amount)))
		ovo = append(ovo, fmt.Sprintf("(%s, %s)", c09N(i+1), c09OptN(h.holder(i))))
		q := "None"
		var resp *mdtypes.ScopeResponse
		err := try(func() error {
			var err error
			resp, err = app.MetadataKeeper.Scope(h.ctx, &mdtypes.ScopeRequest{ScopeId: id.String()})
			return err
		})
		if err != nil {
			e.t.Fatalf("scope query: %v", err)
		}
		if resp.Scope != nil && resp.Scope.Scope != nil {
			v := -1
			if s := resp.Scope.Scope.ValueOwnerAddress; s != "" {
				v = e.idx(sdk.MustAccAddressFromBech32(s))
			}
			q = "(Some " + c09OptN(v) + ")"
		}
		oq = append(oq, fmt.Sprintf("(%s, %s)", c09N(i+1), q))
	}
	uu := map[string]int{}
	for i, id := range h.ids {
		u, _ := id.PrimaryUUID()
		uu[u.String()] = i + 1
	}
	for _, a := range e.order {
		var resp *mdtypes.ValueOwnershipResponse
		err := try(func() error {
			var err error
			resp, err = app.MetadataKeeper.ValueOwnership(h.ctx, &mdtypes.ValueOwnershipRequest{Address: e.addrs[a].String()})
			return err
		})
		if err != nil {
			e.t.Fatalf("value ownership query: %v", err)
		}
		var l []int
		for _, u := range resp.ScopeUuids {
			if i, ok := uu[u]; ok {
				l = append(l, i)
			} else {
				l = append(l, 0)
			}
		}
		if len(l) > 0 {
			oown = append(oown, fmt.Sprintf("(%s, %s)", c09N(a), c09Ns(l)))
		}
	}
	return fmt.Sprintf("{| o_ok := %s; o_bal := %s; o_sup := %s; o_vo := %s; o_q := %s; o_own := %s |}",
		coqBool(ok), coqList(obal), coqList(osup), coqList(ovo), coqList(oq), coqList(oown))
}

// pick helpers
func (h *c09Hist) anyAcct() int {
	// weights: users and markers common, contract/blocked/module rare
	switch x := h.r.Intn(20); {
	case x < 9:
		return 1 + h.r.Intn(3)
	case x < 11:
		return c09Grantee
	case x < 12:
		return c09Stranger
	case x < 13:
		return c09Admin
	case x < 15:
		return c09Mk1
	case x < 17:
		return c09Mk2
	case x < 18:
		return c09Wasm
	case x < 19:
		return c09Stranger
	default:
		if h.r.Intn(2) == 0 {
			return c09Blocked
		}
		return c09Module
	}
}

// goodSigners: the signers that should make a value owner change from [holders] to [to] pass
// (plus the owners of [owners] when owner signatures are needed).
func (h *c09Hist) goodSigners(kind int, holders []int, to int, owners []int) []int {
	var sg []int
	add := func(a int) {
		for _, x := range sg {
			if x == a {
				return
			}
		}
		sg = append(sg, a)
	}
	viaGrant := func(a int) bool {
		if (h.grants[fmt.Sprintf("%d/%d/%d", a, c09Grantee, kind)] || (kind == 4 && h.grants[fmt.Sprintf("%d/%d/0", a, c09Grantee)])) && h.r.Intn(3) > 0 {
			add(c09Grantee)
			return true
		}
		// a grant for ANOTHER message type must not help: try it now and then
		for k := 0; k < 5; k++ {
			if k != kind && h.grants[fmt.Sprintf("%d/%d/%d", a, c09Grantee, k)] && h.r.Intn(3) == 0 {
				add(c09Grantee)
				return true
			}
		}
		return false
	}
	for _, a := range owners {
		if !viaGrant(a) {
			add(a)
		}
	}
	for _, a := range holders {
		if a < 0 {
			continue
		}
		if m, ok := h.mks[a]; ok {
			if len(m.withdraw) > 0 {
				add(m.withdraw[h.r.Intn(len(m.withdraw))])
			} else {
				add(c09Admin)
			}
		} else if !viaGrant(a) {
			add(a)
		}
	}
	if m, ok := h.mks[to]; ok && m.restricted && len(m.deposit) > 0 && h.r.Intn(4) > 0 {
		add(m.deposit[h.r.Intn(len(m.deposit))])
	}
	if len(sg) == 0 {
		add(1 + h.r.Intn(3))
	}
	return sg
}

func (h *c09Hist) randSigners() []int {
	pool := []int{1, 2, 3, c09Grantee, c09Stranger, c09Admin, c09Wasm}
	var sg []int
	for _, i := range h.r.Perm(len(pool)) {
		if h.r.Intn(3) == 0 {
			sg = append(sg, pool[i])
		}
	}
	if len(sg) == 0 && h.r.Intn(8) > 0 {
		sg = []int{pool[h.r.Intn(len(pool))]}
	}
	return sg
}

// signers: mostly the right ones, sometimes with one dropped or a stranger instead, sometimes random.
func (h *c09Hist) signers(kind int, holders []int, to int, owners []int) []int {
	standIn := func() []int {
		sg := h.goodSigners(kind, nil, to, owners)
		for _, a := range sg {
			if a == c09Grantee {
				return sg
			}
		}
		return append(sg, c09Grantee)
	}
	for _, a := range holders {
		for k := 0; k < 5; k++ {
			// a value owner that granted the grantee SOMETHING: the grantee tries to act for it
			if h.grants[fmt.Sprintf("%d/%d/%d", a, c09Grantee, k)] && h.r.Intn(8) == 0 {
				return standIn()
			}
		}
	}
	switch x := h.r.Intn(13); {
	case x < 6:
		sg := h.goodSigners(kind, holders, to, owners)
		if h.r.Intn(6) == 0 {
			sg = append(sg, c09Stranger)
		}
		if h.r.Intn(12) == 0 {
			sg = append([]int{c09Wasm}, sg...)
		}
		return sg
	case x < 7: // the scope owners' side only (no consent of the value owner unless it is an owner)
		return h.goodSigners(kind, nil, to, owners)
	case x < 8: // the value owner's side only
		return h.goodSigners(kind, holders, to, nil)
	case x < 9: // the grantee stands in for the value owner, whatever its grants are for
		return standIn()
	case x < 11:
		sg := h.goodSigners(kind, holders, to, owners)
		i := h.r.Intn(len(sg))
		if h.r.Intn(2) == 0 {
			sg[i] = c09Stranger
		} else {
			sg = append(sg[:i], sg[i+1:]...)
		}
		return sg
	default:
		return h.randSigners()
	}
}

func (h *c09Hist) existingIdx() []int {
	var out []int
	for d := range h.ids {
		if h.scopes[d] != nil {
			out = append(out, d)
		}
	}
	sort.Ints(out)
	return out
}

// partyPool: accounts that appear as scope parties.
var c09PartyPool = []int{1, 2, 3, 1, 2, 3, c09Grantee, c09Admin}

func (h *c09Hist) newScope() c09Scope {
	r := h.r
	sc := c09Scope{rollup: r.Intn(2) == 0, spec: 1 + r.Intn(2)}
	if r.Intn(15) == 0 {
		sc.spec = 3
	}
	has := func(a, role int) bool {
		for _, p := range sc.parties {
			if p.a == a && p.role == role {
				return true
			}
		}
		return false
	}
	add := func(a, role int, opt bool) {
		if !has(a, role) {
			sc.parties = append(sc.parties, c09Party{a, role, opt && sc.rollup})
		}
	}
	add(1+r.Intn(3), c09Owner, r.Intn(6) == 0)
	if r.Intn(4) == 0 {
		add(1+r.Intn(3), c09Owner, r.Intn(2) == 0)
	}
	if sc.spec == 2 || r.Intn(2) == 0 {
		add(c09PartyPool[r.Intn(len(c09PartyPool))], c09Investor, r.Intn(3) > 0)
	}
	if r.Intn(3) == 0 {
		add(c09PartyPool[r.Intn(len(c09PartyPool))], c09Servicer, r.Intn(2) == 0)
	}
	if r.Intn(5) == 0 { // one account in two roles
		add(sc.parties[0].a, c09Servicer, r.Intn(2) == 0)
	}
	for x := 1; x <= 3; x++ {
		if r.Intn(4) == 0 {
			sc.data = append(sc.data, x)
		}
	}
	switch r.Intn(30) {
	case 0:
		sc.parties = nil
	case 1: // an optional party without rollup
		if !sc.rollup {
			sc.parties[0].opt = true
		}
	case 2: // a role the specification requires is missing
		sc.parties = sc.parties[1:]
		if len(sc.parties) == 0 {
			sc.parties = []c09Party{{1 + r.Intn(3), c09Servicer, false}}
		}
	case 3: // a contract as owner
		sc.parties = append(sc.parties, c09Party{c09Wasm, c09Owner, false})
	}
	return sc
}

// pickVO: (a) an account that is not a party, (b) a required party, (c) an optional party.
func (h *c09Hist) pickVO(sc *c09Scope) (int, string) {
	var req, opt []int
	for _, p := range sc.parties {
		if p.opt {
			opt = append(opt, p.a)
		} else {
			req = append(req, p.a)
		}
	}
	switch x := h.r.Intn(10); {
	case x < 4 && len(opt) > 0:
		return opt[h.r.Intn(len(opt))], "vo-optional-party"
	case x < 7 && len(req) > 0:
		return req[h.r.Intn(len(req))], "vo-required-party"
	default:
		return h.anyAcct(), "vo-any"
	}
}

func (h *c09Hist) voClass(d, a int) string {
	sc := h.scopes[d]
	if sc == nil || a < 0 {
		return "n/a"
	}
	cls := "not-a-party"
	for _, p := range sc.parties {
		if p.a == a {
			if !p.opt {
				return "required-party"
			}
			cls = "optional-party"
		}
	}
	return cls
}

// changeOther changes something other than the value owner.
func (h *c09Hist) changeOther(cur *c09Scope) c09Scope {
	r := h.r
	sc := cur.clone()
	switch r.Intn(6) {
	case 0, 1: // data access
		x := 1 + r.Intn(3)
		kept := sc.data[:0:0]
		found := false
		for _, y := range sc.data {
			if y == x {
				found = true
			} else {
				kept = append(kept, y)
			}
		}
		if !found {
			kept = append(kept, x)
		}
		sc.data = kept
	case 2: // add or drop a party
		a, role := c09PartyPool[r.Intn(len(c09PartyPool))], []int{c09Owner, c09Investor, c09Servicer}[r.Intn(3)]
		idx := -1
		for i, p := range sc.parties {
			if p.a == a && p.role == role {
				idx = i
			}
		}
		if idx < 0 {
			sc.parties = append(sc.parties, c09Party{a, role, sc.rollup && r.Intn(2) == 0})
		} else if len(sc.parties) > 1 {
			sc.parties = append(sc.parties[:idx], sc.parties[idx+1:]...)
		} else {
			sc.data = append(sc.data, 1+r.Intn(3))
		}
	case 3: // flip an optional flag
		if sc.rollup {
			i := r.Intn(len(sc.parties))
			sc.parties[i].opt = !sc.parties[i].opt
		} else {
			sc.data = append(sc.data, 1+r.Intn(3))
		}
	case 4: // the other specification
		sc.spec = 3 - cur.spec
		if r.Intn(6) == 0 {
			sc.spec = 3
		}
	default: // switch party rollup
		sc.rollup = !sc.rollup
		if !sc.rollup {
			for i := range sc.parties {
				sc.parties[i].opt = false
			}
		}
	}
	return sc
}

func (h *c09Hist) genOp(nIds int) c09Op {
	e, r := h.e, h.r
	x := r.Intn(100)
	existing := h.existingIdx()
	switch {
	case x < 30 || len(existing) == 0: // write scope
		d := r.Intn(nIds)
		if len(existing) > 0 && len(existing) < nIds && r.Intn(3) == 0 {
			for _, c := range r.Perm(nIds) {
				if h.scopes[c] == nil {
					d = c
					break
				}
			}
		}
		cur := h.scopes[d]
		hold := h.holder(d)
		if cur == nil {
			sc := h.newScope()
			vo, vcls := -1, "no-vo"
			if r.Intn(5) > 0 && len(sc.parties) > 0 {
				vo, vcls = h.pickVO(&sc)
			}
			return h.opWrite("write-new "+vcls, h.signers(0, nil, vo, nil), d, sc, vo)
		}
		sc := cur.clone()
		vo := -1
		cls := ""
		var need []int
		switch v := r.Intn(10); {
		case v < 4:
			cls = "write-vo-only"
			vo, _ = h.pickVO(cur)
			if hold < 0 || cur.rollup {
				need = cur.need(cur.spec)
			}
		case v < 6:
			cls = "write-vo-and-other"
			vo, _ = h.pickVO(cur)
			sc = h.changeOther(cur)
			need = cur.need(sc.spec)
		case v < 8:
			cls = "write-other"
			sc = h.changeOther(cur)
			need = cur.need(sc.spec)
		case v < 9:
			cls = "write-same-vo-other"
			vo = hold
			sc = h.changeOther(cur)
			need = cur.need(sc.spec)
		default:
			cls = "write-identical"
			vo = hold
			if r.Intn(2) == 0 {
				vo = -1
			}
			if len(sc.parties) > 1 {
				sc.parties[0], sc.parties[1] = sc.parties[1], sc.parties[0]
			}
			if cur.rollup {
				need = cur.need(cur.spec)
			}
		}
		var holders []int
		if vo >= 0 && hold >= 0 && hold != vo {
			holders = []int{hold}
		}
		sg := h.signers(0, holders, vo, need)
		if len(holders) > 0 && len(need) > 0 && r.Intn(3) == 0 {
			// everybody the party rules ask for signs, the value owner is not asked
			sg = h.goodSigners(0, nil, vo, need)
		}
		return h.opWrite(cls, sg, d, sc, vo)
	case x < 48: // update value owners
		var ds []int
		for _, d := range r.Perm(nIds) {
			if h.holder(d) >= 0 && (len(ds) == 0 || r.Intn(2) == 0) {
				ds = append(ds, d)
			}
		}
		if len(ds) == 0 || r.Intn(12) == 0 {
			ds = append(ds, r.Intn(nIds)) // a scope without token, or a duplicate
		}
		if r.Intn(40) == 0 {
			ds = nil
		}
		to := h.anyAcct()
		var holders []int
		for _, d := range ds {
			holders = append(holders, h.holder(d))
		}
		if r.Intn(3) > 0 {
			for tries := 0; tries < 5; tries++ {
				clash := false
				for _, a := range holders {
					if a == to {
						clash = true
					}
				}
				if !clash {
					break
				}
				to = h.anyAcct()
			}
		}
		sg := h.signers(1, holders, to, nil)
		if len(ds) > 0 && h.scopes[ds[0]] != nil && r.Intn(6) == 0 {
			// the scope's parties try to move the token without its holder
			sg = h.goodSigners(1, nil, to, h.scopes[ds[0]].need(h.scopes[ds[0]].spec))
		}
		return h.opUpdate(sg, ds, to)
	case x < 57: // migrate
		from := h.anyAcct()
		if r.Intn(4) > 0 {
			for _, d := range r.Perm(nIds) {
				if a := h.holder(d); a >= 0 {
					from = a
					break
				}
			}
		}
		to := h.anyAcct()
		sg := h.signers(2, []int{from}, to, nil)
		msg := &mdtypes.MsgMigrateValueOwnerRequest{Existing: e.addrs[from].String(), Proposed: e.addrs[to].String(), Signers: h.strs(sg)}
		return c09Op{cls: "migrate", term: fmt.Sprintf("OMigrate %s %s %s", c09Ns(sg), c09N(from), c09N(to)),
			dsc: fmt.Sprintf("migrate %d to %d signers %v", from, to, sg),
			run: func(c sdk.Context) error { return e.runMsg(c, msg) }}
	case x < 67: // delete
		d := r.Intn(nIds)
		if len(existing) > 0 && r.Intn(8) > 0 {
			d = existing[r.Intn(len(existing))]
			if r.Intn(2) == 0 {
				// prefer a scope whose value owner is an optional party
				for _, c := range existing {
					if h.voClass(c, h.holder(c)) == "optional-party" {
						d = c
					}
				}
			}
		}
		var need []int
		if sc := h.scopes[d]; sc != nil {
			need = sc.need(sc.spec)
		}
		hold := h.holder(d)
		sg := h.signers(3, []int{hold}, -1, need)
		_, isMk := h.mks[hold]
		if h.voClass(d, hold) == "optional-party" && len(need) > 0 && r.Intn(2) == 0 {
			sg = h.goodSigners(3, nil, -1, need)
		} else if (isMk || h.voClass(d, hold) == "not-a-party") && len(need) > 0 && r.Intn(3) == 0 {
			// the parties the rules ask for delete the scope; its value owner (a marker, an optional
			// party that does not sign, an outsider) is not asked
			sg = h.goodSigners(3, nil, -1, need)
		}
		msg := &mdtypes.MsgDeleteScopeRequest{ScopeId: h.ids[d], Signers: h.strs(sg)}
		return c09Op{cls: "delete vo-" + h.voClass(d, hold), term: fmt.Sprintf("ODelete %s %s", c09Ns(sg), c09N(d+1)),
			dsc: fmt.Sprintf("delete scope %d signers %v", d+1, sg),
			run: func(c sdk.Context) error {
				err := e.runMsg(c, msg)
				if err == nil {
					delete(h.scopes, d)
				}
				return err
			}}
	case x < 74: // add data access (rewrites the stored scope through SetScope)
		d := existing[r.Intn(len(existing))]
		if r.Intn(10) == 0 {
			d = r.Intn(nIds)
		}
		da := []int{1 + r.Intn(3)}
		if sc := h.scopes[d]; sc != nil && r.Intn(4) > 0 {
			for x := 1; x <= 4; x++ {
				used := false
				for _, y := range sc.data {
					used = used || y == x
				}
				if !used {
					da = []int{x}
					break
				}
			}
		}
		var need []int
		if sc := h.scopes[d]; sc != nil {
			need = sc.need(sc.spec)
		}
		return h.opAddData(h.signers(4, nil, -1, need), d, da)
	case x < 86: // plain bank send of the token
		d := r.Intn(nIds)
		from := h.holder(d)
		if from < 0 || r.Intn(5) == 0 {
			from = h.anyAcct()
		}
		to := h.anyAcct()
		amt := int64(1)
		if v := r.Intn(20); v == 0 {
			amt = 2
		} else if v == 1 {
			amt = 0
		}
		msg := &banktypes.MsgSend{FromAddress: e.addrs[from].String(), ToAddress: e.addrs[to].String(),
			Amount: sdk.Coins{sdk.Coin{Denom: h.ids[d].Denom(), Amount: sdkmath.NewInt(amt)}}}
		return c09Op{cls: "send", term: fmt.Sprintf("OSend %s %s %s %s", c09N(from), c09N(to), c09N(d+1), zI64(amt)),
			dsc: fmt.Sprintf("bank send scope %d token from %d to %d amount %d", d+1, from, to, amt),
			run: func(c sdk.Context) error { return e.runMsg(c, msg) }}
	case x < 95: // authz grant / revoke
		granter := 1 + r.Intn(3)
		if r.Intn(4) == 0 {
			// any account that can sign a MsgGrant (markers and module accounts have no key)
			granter = []int{1, 2, 3, c09Grantee, c09Stranger, c09Admin, c09Wasm}[r.Intn(7)]
		} else if r.Intn(2) == 0 {
			if a := h.holder(r.Intn(nIds)); a > 0 && a != c09Mk1 && a != c09Mk2 && a != c09Blocked && a != c09Other {
				granter = a // a current value owner
			}
		}
		grantee := c09Grantee
		if r.Intn(5) == 0 {
			grantee = c09Wasm
		}
		k := []int{0, 0, 1, 1, 2, 3, 3, 4}[r.Intn(8)]
		key := fmt.Sprintf("%d/%d/%d", granter, grantee, k)
		if h.grants[key] && r.Intn(2) == 0 {
			return c09Op{cls: "revoke", term: fmt.Sprintf("ORevoke %s %s %s", c09N(granter), c09N(grantee), c09Kinds[k]), dsc: "revoke " + key,
				run: func(c sdk.Context) error {
					err := e.app.AuthzKeeper.DeleteGrant(c, e.addrs[grantee], e.addrs[granter], c09KindURL[k])
					if err == nil {
						delete(h.grants, key)
					}
					return err
				}}
		}
		return c09Op{cls: "grant", term: fmt.Sprintf("OGrant %s %s %s", c09N(granter), c09N(grantee), c09Kinds[k]), dsc: "grant " + key,
			run: func(c sdk.Context) error {
				err := e.app.AuthzKeeper.SaveGrant(c, e.addrs[grantee], e.addrs[granter], authz.NewGenericAuthorization(c09KindURL[k]), nil)
				if err == nil {
					h.grants[key] = true
				}
				return err
			}}
	default: // marker access administration
		mi := c09Mk1
		if r.Intn(2) == 0 {
			mi = c09Mk2
		}
		m := e.randMarker(r, mi == c09Mk2)
		return c09Op{cls: "set-marker", term: fmt.Sprintf("OSetMarker %s %s", c09N(mi), m.term()),
			dsc: fmt.Sprintf("marker %d access withdraw %v deposit %v", mi, m.withdraw, m.deposit),
			run: func(c sdk.Context) error {
				e.setMarker(c, mi, m)
				h.mks[mi] = m
				return nil
			}}
	}
}

// c09History runs one history.  legacy > 0: scope 1 is first created as PRE-MIGRATION state (the
// value owner stored inside the scope record, through Keeper.V3WriteNewScope) and moved to the
// bank by Migrator.Migrate3To4, which leaves the old value_owner_address in the stored record; the
// history then starts with a scripted value-owner update by the holder followed by an
// AddScopeDataAccess by the owner (an endpoint that rewrites the STORED scope through SetScope).
func c09History(e *c09Env, r *rand.Rand, w *CaseWriter, hi int, legacy int) {
	ctx, _ := e.base.CacheContext()
	h := &c09Hist{e: e, r: r, ctx: ctx, scopes: map[int]*c09Scope{}, grants: map[string]bool{}, mks: map[int]c09Marker{}}
	nIds := 2 + r.Intn(3)
	for i := 0; i < nIds; i++ {
		h.ids = append(h.ids, mdtypes.ScopeMetadataAddress(uuid.MustParse(fmt.Sprintf("10000000-0000-4000-8000-%06d%06d", hi%1000000, i+1))))
	}
	h.mks[c09Mk1] = e.randMarker(r, false)
	h.mks[c09Mk2] = e.randMarker(r, true)
	e.setMarker(ctx, c09Mk1, h.mks[c09Mk1])
	e.setMarker(ctx, c09Mk2, h.mks[c09Mk2])
	start := fmt.Sprintf("(init [(1%%N, %s); (2%%N, %s)] [(%s, %s); (%s, %s)] [%s] [%s; %s])",
		c09Ns(c09SpecRoles[1]), c09Ns(c09SpecRoles[2]),
		c09N(c09Mk1), h.mks[c09Mk1].term(), c09N(c09Mk2), h.mks[c09Mk2].term(), c09N(c09Wasm), c09N(c09Module), c09N(c09Blocked))
	var queue []c09Op
	if legacy > 0 {
		owner, vo, next := 1+legacy%3, 1+(legacy+1)%3, []int{c09Stranger, c09Grantee, 1 + (legacy+2)%3}[legacy%3]
		sc := c09Scope{parties: []c09Party{{owner, c09Owner, false}}, spec: 1}
		if err := e.app.MetadataKeeper.V3WriteNewScope(ctx, h.mkScope(0, sc, vo)); err != nil {
			e.t.Fatalf("legacy scope: %v", err)
		}
		if err := mdkeeper.NewMigrator(e.app.MetadataKeeper).Migrate3To4(ctx); err != nil {
			e.t.Fatalf("migrate 3 to 4: %v", err)
		}
		h.scopes[0] = &sc
		// the same state in the model: the scope written with that value owner
		start = fmt.Sprintf("(run %s [OWrite %s 1%%N %s 1%%N [] false %s])", start, c09Ns([]int{owner}), c09PartiesTerm(sc.parties), c09OptN(vo))
		queue = append(queue, h.opUpdate([]int{vo}, []int{0}, next), h.opAddData([]int{owner}, 0, []int{1}))
		w.Count("legacy histories")
	}
	obs0 := h.observe(true)

	var steps, descs []string
	n := 10 + r.Intn(21)
	accepted, changed := 0, 0
	for s := 0; s < n; s++ {
		var op c09Op
		if len(queue) > 0 {
			op, queue = queue[0], queue[1:]
			op.cls = "legacy " + op.cls
		} else {
			op = h.genOp(nIds)
		}
		cls := op.cls
		before := make([]int, nIds)
		bcls := make([]string, nIds)
		for d := range h.ids {
			before[d] = h.holder(d)
			bcls[d] = h.voClass(d, before[d])
		}
		cctx, write := h.ctx.CacheContext()
		err := op.run(cctx)
		if err == nil {
			write()
			accepted++
			w.Count("accepted " + cls)
		} else {
			w.Count("rejected " + cls)
			if strings.Contains(err.Error(), "panic") {
				w.Count("panics")
			}
		}
		for d := range h.ids {
			if a := h.holder(d); a != before[d] {
				changed++
				w.Count("holder changes")
				kindOf := "user"
				if before[d] < 0 {
					kindOf = "mint"
				} else if _, ok := h.mks[before[d]]; ok {
					kindOf = "from-marker"
				} else {
					kindOf = "from-" + bcls[d]
				}
				if a < 0 {
					kindOf += "/burn"
				} else if m, ok := h.mks[a]; ok {
					if m.restricted {
						kindOf += "/to-restricted-marker"
					} else {
						kindOf += "/to-marker"
					}
				}
				base := strings.SplitN(cls, " ", 2)[0]
				w.Count("holder change " + base + " " + kindOf)
				w.Nontrivial(base + " " + kindOf)
			}
		}
		steps = append(steps, fmt.Sprintf("(%s, %s)", op.term, h.observe(err == nil)))
		descs = append(descs, fmt.Sprintf("%s -> %v", op.dsc, err == nil))
	}
	idN := make([]int, nIds)
	for i := range idN {
		idN[i] = i + 1
	}
	accN := append(append([]int{}, e.order...), c09Other)
	term := fmt.Sprintf("CHist %s %s %s %s %s", c09Ns(idN), c09Ns(accN), start, obs0, coqList(steps))
	w.Add(term, map[string]any{"history": hi, "scopes": nIds, "legacy": legacy, "steps": descs})
	w.Count("histories")
	w.CountN("history_steps", int64(len(steps)))
	w.CountN("history_steps_accepted", int64(accepted))
	if changed > 0 {
		w.Nontrivial(fmt.Sprintf("hist/%d", hi))
	}
}

func TestC09(t *testing.T) {
	e := c09Setup(t)
	r := newRand("C09")
	w := NewCaseWriter("C09", "PV.Corr.C09", "check_all", 40)
	n := scale(320, 2400)
	for hi := 0; hi < n; hi++ {
		legacy := 0
		if hi%20 == 0 {
			legacy = 1 + hi/20 // scripted pre-migration start state
		}
		c09History(e, r, w, hi, legacy)
	}
	w.Flush(t)
}
