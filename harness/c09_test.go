//go:build c09

package harness

import (
	"fmt"
	"math/rand"
	"sort"
	"strings"
	"testing"

	sdkmath "cosmossdk.io/math"
	"github.com/google/uuid"

	sdk "github.com/cosmos/cosmos-sdk/types"
	authtypes "github.com/cosmos/cosmos-sdk/x/auth/types"
	"github.com/cosmos/cosmos-sdk/x/authz"
	banktypes "github.com/cosmos/cosmos-sdk/x/bank/types"

	simapp "github.com/provenance-io/provenance/app"
	markertypes "github.com/provenance-io/provenance/x/marker/types"
	mdtypes "github.com/provenance-io/provenance/x/metadata/types"
)

// ---------------------------------------------------------------------------------------------
// C09: a scope has one value owner, changed only with the current owner's consent.
//
// Histories over 2-4 scopes and a fixed cast of accounts, every step through the REAL message
// handlers (MsgWriteScopeRequest, MsgUpdateValueOwnersRequest, MsgMigrateValueOwnerRequest,
// MsgDeleteScopeRequest, bank MsgSend of the scope token) with the Signers field drawn from the
// cast; authz grants through the real authz keeper; marker access lists through the real marker
// keeper.  After every step: every bank balance and the supply of every scope denom, keeper
// GetScopeValueOwner, gRPC Scope and ValueOwnership queries, accept/reject.
//
// Cast (model index): 0 metadata module account, 1-3 users (scope owners), 4 authz grantee,
// 5 stranger, 6 marker administrator, 7 unrestricted marker, 8 restricted marker, 9 smart contract
// (base account, sequence 0, no public key), 10 another module account (blocked), 99 anybody else.
// Quarantine of scope tokens (receiver opted in) is NOT generated here.
// ---------------------------------------------------------------------------------------------

const (
	c09Module   = 0
	c09Grantee  = 4
	c09Stranger = 5
	c09Admin    = 6
	c09Mk1      = 7
	c09Mk2      = 8
	c09Wasm     = 9
	c09Blocked  = 10
	c09Other    = 99
)

var c09Kinds = []string{"KWrite", "KUpdate", "KMigrate", "KDelete"}
var c09KindURL = []string{
	mdtypes.TypeURLMsgWriteScopeRequest, mdtypes.TypeURLMsgUpdateValueOwnersRequest,
	mdtypes.TypeURLMsgMigrateValueOwnerRequest, mdtypes.TypeURLMsgDeleteScopeRequest,
}

type c09Env struct {
	t     *testing.T
	app   *simapp.App
	base  sdk.Context
	addrs map[int]sdk.AccAddress
	order []int // model indexes in a fixed order
	specs []mdtypes.MetadataAddress
	mkDen map[int]string
}

func (e *c09Env) idx(a sdk.AccAddress) int {
	for _, i := range e.order {
		if e.addrs[i].Equals(a) {
			return i
		}
	}
	return c09Other
}

func c09N(i int) string { return fmt.Sprintf("%d%%N", i) }
func c09Ns(l []int) string {
	out := make([]string, len(l))
	for i, x := range l {
		out[i] = c09N(x)
	}
	return coqList(out)
}
func c09OptN(i int) string {
	if i < 0 {
		return "None"
	}
	return "(Some " + c09N(i) + ")"
}

type c09Marker struct {
	restricted        bool
	withdraw, deposit []int
}

func (m c09Marker) term() string {
	return fmt.Sprintf("{| mk_restricted := %s; mk_withdraw := %s; mk_deposit := %s |}", coqBool(m.restricted), c09Ns(m.withdraw), c09Ns(m.deposit))
}

func c09Setup(t *testing.T) *c09Env {
	app, ctx := newApp(t)
	e := &c09Env{t: t, app: app, base: ctx, addrs: map[int]sdk.AccAddress{}, mkDen: map[int]string{c09Mk1: "cninecoin", c09Mk2: "cninerest"}}
	e.addrs[c09Module] = authtypes.NewModuleAddress(mdtypes.ModuleName)
	e.addrs[c09Blocked] = authtypes.NewModuleAddress("mint")
	for i := 1; i <= 6; i++ {
		e.addrs[i] = addrN(9000 + i)
	}
	e.addrs[c09Wasm] = addrN(9009)
	e.addrs[c09Mk1] = markertypes.MustGetMarkerAddress(e.mkDen[c09Mk1])
	e.addrs[c09Mk2] = markertypes.MustGetMarkerAddress(e.mkDen[c09Mk2])
	e.order = []int{0, 1, 2, 3, 4, 5, 6, 7, 8, 9, 10}
	// ordinary accounts have signed before (sequence 1): the metadata module treats an existing base
	// account with sequence 0 and no public key as a smart contract
	for i := 1; i <= 6; i++ {
		acc := app.AccountKeeper.NewAccount(ctx, authtypes.NewBaseAccountWithAddress(e.addrs[i]))
		if err := acc.SetSequence(1); err != nil {
			t.Fatal(err)
		}
		app.AccountKeeper.SetAccount(ctx, acc)
	}
	ensureAccount(app, ctx, e.addrs[c09Wasm])
	// markers
	for _, mi := range []int{c09Mk1, c09Mk2} {
		mt := markertypes.MarkerType_Coin
		if mi == c09Mk2 {
			mt = markertypes.MarkerType_RestrictedCoin
		}
		ma := markertypes.NewMarkerAccount(authtypes.NewBaseAccountWithAddress(e.addrs[mi]), sdk.NewInt64Coin(e.mkDen[mi], 1000), e.addrs[c09Admin],
			[]markertypes.AccessGrant{{Address: e.addrs[c09Admin].String(), Permissions: []markertypes.Access{markertypes.Access_Mint, markertypes.Access_Admin}}},
			markertypes.StatusProposed, mt, true, false, false, nil)
		if err := app.MarkerKeeper.AddFinalizeAndActivateMarker(ctx, ma); err != nil {
			t.Fatalf("marker %s: %v", e.mkDen[mi], err)
		}
	}
	// two scope specifications exist, a third id does not
	for i := 1; i <= 3; i++ {
		id := mdtypes.ScopeSpecMetadataAddress(uuid.MustParse(fmt.Sprintf("00000000-0000-4000-9000-0000000000%02d", i)))
		e.specs = append(e.specs, id)
		if i <= 2 {
			app.MetadataKeeper.SetScopeSpecification(ctx, mdtypes.ScopeSpecification{SpecificationId: id,
				OwnerAddresses: []string{e.addrs[1].String()}, PartiesInvolved: []mdtypes.PartyType{mdtypes.PartyType_PARTY_TYPE_OWNER}})
		}
	}
	for _, i := range []int{c09Module, c09Blocked} {
		if !app.BankKeeper.BlockedAddr(e.addrs[i]) {
			t.Fatalf("account %d expected to be blocked", i)
		}
	}
	return e
}

// setMarker writes withdraw/deposit access lists of a marker through the marker keeper.
func (e *c09Env) setMarker(ctx sdk.Context, mi int, m c09Marker) {
	mk, err := e.app.MarkerKeeper.GetMarkerByDenom(ctx, e.mkDen[mi])
	if err != nil {
		e.t.Fatal(err)
	}
	ma := mk.(*markertypes.MarkerAccount)
	perms := map[int][]markertypes.Access{}
	for _, a := range m.withdraw {
		perms[a] = append(perms[a], markertypes.Access_Withdraw)
	}
	for _, a := range m.deposit {
		perms[a] = append(perms[a], markertypes.Access_Deposit)
	}
	perms[c09Admin] = append(perms[c09Admin], markertypes.Access_Mint, markertypes.Access_Admin)
	var keys []int
	for a := range perms {
		keys = append(keys, a)
	}
	sort.Ints(keys)
	var list []markertypes.AccessGrant
	for _, a := range keys {
		list = append(list, markertypes.AccessGrant{Address: e.addrs[a].String(), Permissions: perms[a]})
	}
	ma.AccessControl = list
	e.app.MarkerKeeper.SetMarker(ctx, ma)
}

func (e *c09Env) randMarker(r *rand.Rand, restricted bool) c09Marker {
	m := c09Marker{restricted: restricted}
	cands := []int{c09Admin, 1, c09Grantee, c09Wasm}
	for _, a := range cands {
		p := 4
		if a == c09Admin {
			p = 2
		}
		if r.Intn(p) == 0 || (a == c09Admin && r.Intn(3) > 0) {
			m.withdraw = append(m.withdraw, a)
		}
		if r.Intn(p) == 0 || (a == c09Admin && r.Intn(3) > 0) {
			m.deposit = append(m.deposit, a)
		}
	}
	return m
}

type c09VB interface {
	sdk.Msg
	ValidateBasic() error
}

func (e *c09Env) runMsg(ctx sdk.Context, m sdk.Msg) error {
	return try(func() error {
		if vb, ok := m.(c09VB); ok {
			if err := vb.ValidateBasic(); err != nil {
				return err
			}
		}
		h := e.app.MsgServiceRouter().Handler(m)
		if h == nil {
			return fmt.Errorf("no handler for %T", m)
		}
		_, err := h(ctx, m)
		return err
	})
}

type c09Scope struct {
	owners []int
	spec   int // 1..3
	data   int
}

type c09Hist struct {
	e      *c09Env
	r      *rand.Rand
	ctx    sdk.Context
	ids    []mdtypes.MetadataAddress
	scopes map[int]*c09Scope // accepted writes, by scope index
	grants map[string]bool
	mks    map[int]c09Marker
}

func (h *c09Hist) strs(l []int) []string {
	out := make([]string, len(l))
	for i, a := range l {
		out[i] = h.e.addrs[a].String()
	}
	return out
}

func (h *c09Hist) holder(d int) int {
	vo, err := h.e.app.MetadataKeeper.GetScopeValueOwner(h.ctx, h.ids[d])
	if err != nil || len(vo) == 0 {
		return -1
	}
	return h.e.idx(vo)
}

// observe projects the real state.
func (h *c09Hist) observe(ok bool) string {
	e := h.e
	app := e.app
	bals := make([]map[int]int64, len(h.ids))
	denIdx := map[string]int{}
	for i, id := range h.ids {
		bals[i] = map[int]int64{}
		denIdx[id.Denom()] = i
	}
	app.BankKeeper.IterateAllBalances(h.ctx, func(a sdk.AccAddress, c sdk.Coin) bool {
		if i, ok := denIdx[c.Denom]; ok {
			bals[i][e.idx(a)] += c.Amount.Int64()
		}
		return false
	})
	var obal, osup, ovo, oq, oown []string
	for i, id := range h.ids {
		var ks []int
		for a := range bals[i] {
			ks = append(ks, a)
		}
		sort.Ints(ks)
		var ent []string
		for _, a := range ks {
			ent = append(ent, fmt.Sprintf("(%s, %s)", c09N(a), zI64(bals[i][a])))
		}
		obal = append(obal, fmt.Sprintf("(%s, %s)", c09N(i+1), coqList(ent)))
		osup = append(osup, fmt.Sprintf("(%s, %s)", c09N(i+1), zInt(app.BankKeeper.GetSupply(h.ctx, id.Denom()).Amount)))
		ovo = append(ovo, fmt.Sprintf("(%s, %s)", c09N(i+1), c09OptN(h.holder(i))))
		q := "None"
		var resp *mdtypes.ScopeResponse
		err := try(func() error {
			var err error
			resp, err = app.MetadataKeeper.Scope(h.ctx, &mdtypes.ScopeRequest{ScopeId: id.String()})
			return err
		})
		if err != nil {
			e.t.Fatalf("scope query: %v", err)
		}
		if resp.Scope != nil && resp.Scope.Scope != nil {
			v := -1
			if s := resp.Scope.Scope.ValueOwnerAddress; s != "" {
				v = e.idx(sdk.MustAccAddressFromBech32(s))
			}
			q = "(Some " + c09OptN(v) + ")"
		}
		oq = append(oq, fmt.Sprintf("(%s, %s)", c09N(i+1), q))
	}
	uu := map[string]int{}
	for i, id := range h.ids {
		u, _ := id.PrimaryUUID()
		uu[u.String()] = i + 1
	}
	for _, a := range e.order {
		var resp *mdtypes.ValueOwnershipResponse
		err := try(func() error {
			var err error
			resp, err = app.MetadataKeeper.ValueOwnership(h.ctx, &mdtypes.ValueOwnershipRequest{Address: e.addrs[a].String()})
			return err
		})
		if err != nil {
			e.t.Fatalf("value ownership query: %v", err)
		}
		var l []int
		for _, u := range resp.ScopeUuids {
			if i, ok := uu[u]; ok {
				l = append(l, i)
			} else {
				l = append(l, 0)
			}
		}
		if len(l) > 0 {
			oown = append(oown, fmt.Sprintf("(%s, %s)", c09N(a), c09Ns(l)))
		}
	}
	return fmt.Sprintf("{| o_ok := %s; o_bal := %s; o_sup := %s; o_vo := %s; o_q := %s; o_own := %s |}",
		coqBool(ok), coqList(obal), coqList(osup), coqList(ovo), coqList(oq), coqList(oown))
}

// pick helpers
func (h *c09Hist) anyAcct() int {
	// weights: users and markers common, contract/blocked/module rare
	switch x := h.r.Intn(20); {
	case x < 9:
		return 1 + h.r.Intn(3)
	case x < 11:
		return c09Grantee
	case x < 12:
		return c09Stranger
	case x < 13:
		return c09Admin
	case x < 15:
		return c09Mk1
	case x < 17:
		return c09Mk2
	case x < 18:
		return c09Wasm
	case x < 19:
		return c09Stranger
	default:
		if h.r.Intn(2) == 0 {
			return c09Blocked
		}
		return c09Module
	}
}

// goodSigners: the signers that should make a value owner change from [holders] to [to] pass
// (plus the owners of [owners] when owner signatures are needed).
func (h *c09Hist) goodSigners(kind int, holders []int, to int, owners []int) []int {
	var sg []int
	add := func(a int) {
		for _, x := range sg {
			if x == a {
				return
			}
		}
		sg = append(sg, a)
	}
	viaGrant := func(a int) bool {
		if h.grants[fmt.Sprintf("%d/%d/%d", a, c09Grantee, kind)] && h.r.Intn(3) > 0 {
			add(c09Grantee)
			return true
		}
		// a grant for ANOTHER message type must not help: try it now and then
		for k := 0; k < 4; k++ {
			if k != kind && h.grants[fmt.Sprintf("%d/%d/%d", a, c09Grantee, k)] && h.r.Intn(3) == 0 {
				add(c09Grantee)
				return true
			}
		}
		return false
	}
	for _, a := range owners {
		if !viaGrant(a) {
			add(a)
		}
	}
	for _, a := range holders {
		if a < 0 {
			continue
		}
		if m, ok := h.mks[a]; ok {
			if len(m.withdraw) > 0 {
				add(m.withdraw[h.r.Intn(len(m.withdraw))])
			} else {
				add(c09Admin)
			}
		} else if !viaGrant(a) {
			add(a)
		}
	}
	if m, ok := h.mks[to]; ok && m.restricted && len(m.deposit) > 0 && h.r.Intn(4) > 0 {
		add(m.deposit[h.r.Intn(len(m.deposit))])
	}
	if len(sg) == 0 {
		add(1 + h.r.Intn(3))
	}
	return sg
}

func (h *c09Hist) randSigners() []int {
	pool := []int{1, 2, 3, c09Grantee, c09Stranger, c09Admin, c09Wasm}
	var sg []int
	for _, i := range h.r.Perm(len(pool)) {
		if h.r.Intn(3) == 0 {
			sg = append(sg, pool[i])
		}
	}
	if len(sg) == 0 && h.r.Intn(8) > 0 {
		sg = []int{pool[h.r.Intn(len(pool))]}
	}
	return sg
}

// signers: mostly the right ones, sometimes with one dropped or a stranger instead, sometimes random.
func (h *c09Hist) signers(kind int, holders []int, to int, owners []int) []int {
	switch x := h.r.Intn(12); {
	case x < 6:
		sg := h.goodSigners(kind, holders, to, owners)
		if h.r.Intn(6) == 0 {
			sg = append(sg, c09Stranger)
		}
		if h.r.Intn(12) == 0 {
			sg = append([]int{c09Wasm}, sg...)
		}
		return sg
	case x < 7: // the scope owners' side only (no consent of the value owner unless it is an owner)
		return h.goodSigners(kind, nil, to, owners)
	case x < 8: // the value owner's side only
		return h.goodSigners(kind, holders, to, nil)
	case x < 10:
		sg := h.goodSigners(kind, holders, to, owners)
		i := h.r.Intn(len(sg))
		if h.r.Intn(2) == 0 {
			sg[i] = c09Stranger
		} else {
			sg = append(sg[:i], sg[i+1:]...)
		}
		return sg
	default:
		return h.randSigners()
	}
}

func (h *c09Hist) existingIdx() []int {
	var out []int
	for d := range h.ids {
		if h.scopes[d] != nil {
			out = append(out, d)
		}
	}
	sort.Ints(out)
	return out
}

func c09History(e *c09Env, r *rand.Rand, w *CaseWriter, hi int) {
	ctx, _ := e.base.CacheContext()
	h := &c09Hist{e: e, r: r, ctx: ctx, scopes: map[int]*c09Scope{}, grants: map[string]bool{}, mks: map[int]c09Marker{}}
	nIds := 2 + r.Intn(3)
	for i := 0; i < nIds; i++ {
		h.ids = append(h.ids, mdtypes.ScopeMetadataAddress(uuid.MustParse(fmt.Sprintf("10000000-0000-4000-8000-%06d%06d", hi%1000000, i+1))))
	}
	h.mks[c09Mk1] = e.randMarker(r, false)
	h.mks[c09Mk2] = e.randMarker(r, true)
	e.setMarker(ctx, c09Mk1, h.mks[c09Mk1])
	e.setMarker(ctx, c09Mk2, h.mks[c09Mk2])
	start := fmt.Sprintf("(init [1%%N; 2%%N] [(%s, %s); (%s, %s)] [%s] [%s; %s])",
		c09N(c09Mk1), h.mks[c09Mk1].term(), c09N(c09Mk2), h.mks[c09Mk2].term(), c09N(c09Wasm), c09N(c09Module), c09N(c09Blocked))
	obs0 := h.observe(true)

	var steps, descs []string
	n := 10 + r.Intn(21)
	accepted, changed := 0, 0
	for s := 0; s < n; s++ {
		var term, dsc, cls string
		var run func(sdk.Context) error
		x := r.Intn(100)
		existing := h.existingIdx()
		switch {
		case x < 32 || len(existing) == 0: // write scope
			cls = "write"
			d := r.Intn(nIds)
			if len(existing) > 0 && len(existing) < nIds && r.Intn(3) == 0 {
				// prefer creating a scope that does not exist yet
				for _, c := range r.Perm(nIds) {
					if h.scopes[c] == nil {
						d = c
						break
					}
				}
			}
			cur := h.scopes[d]
			var sc c09Scope
			vo := -1
			hold := h.holder(d)
			var needOwners []int
			if cur == nil {
				cls = "write-new"
				for _, i := range r.Perm(3) {
					if len(sc.owners) == 0 || r.Intn(3) == 0 {
						sc.owners = append(sc.owners, i+1)
					}
				}
				sc.spec = 1 + r.Intn(2)
				if r.Intn(15) == 0 {
					sc.spec = 3
				}
				sc.data = r.Intn(3)
				if r.Intn(4) > 0 {
					vo = h.anyAcct()
				}
				if r.Intn(25) == 0 {
					sc.owners = nil
				}
			} else {
				sc = c09Scope{owners: append([]int{}, cur.owners...), spec: cur.spec, data: cur.data}
				other := func() {
					needOwners = cur.owners
					switch r.Intn(3) {
					case 0:
						sc.data = (cur.data + 1 + r.Intn(2)) % 3
					case 1:
						c := 1 + r.Intn(3)
						found := false
						for _, o := range sc.owners {
							if o == c {
								found = true
							}
						}
						if !found {
							sc.owners = append(sc.owners, c)
						} else if len(sc.owners) > 1 {
							sc.owners = sc.owners[1:]
						} else {
							sc.data = (cur.data + 1) % 3
						}
					default:
						sc.spec = 3 - cur.spec
						if r.Intn(6) == 0 {
							sc.spec = 3
						}
					}
				}
				switch v := r.Intn(10); {
				case v < 4: // only the value owner
					cls = "write-vo-only"
					vo = h.anyAcct()
					if hold < 0 {
						needOwners = cur.owners
					}
				case v < 6: // value owner and something else
					cls = "write-vo-and-other"
					vo = h.anyAcct()
					other()
				case v < 8: // something else, no value owner field
					cls = "write-other"
					other()
				case v < 9: // same value owner in the field, something else
					cls = "write-same-vo-other"
					vo = hold
					other()
				default: // reorder owners / identical rewrite
					cls = "write-identical"
					vo = hold
					if r.Intn(2) == 0 {
						vo = -1
					}
					if len(sc.owners) > 1 {
						sc.owners[0], sc.owners[1] = sc.owners[1], sc.owners[0]
					}
				}
			}
			var holders []int
			if vo >= 0 && hold >= 0 && hold != vo {
				holders = []int{hold}
			}
			sg := h.signers(0, holders, vo, needOwners)
			if cls == "write-vo-and-other" && r.Intn(3) == 0 {
				// all owners sign for the other changes, the value owner is not asked
				sg = h.goodSigners(0, nil, vo, needOwners)
			}
			scope := mdtypes.Scope{ScopeId: h.ids[d], SpecificationId: e.specs[sc.spec-1]}
			for _, o := range sc.owners {
				scope.Owners = append(scope.Owners, mdtypes.Party{Address: e.addrs[o].String(), Role: mdtypes.PartyType_PARTY_TYPE_OWNER})
			}
			if sc.data > 0 {
				scope.DataAccess = []string{addrN(9100 + sc.data).String()}
			}
			if vo >= 0 {
				scope.ValueOwnerAddress = e.addrs[vo].String()
			}
			msg := &mdtypes.MsgWriteScopeRequest{Scope: scope, Signers: h.strs(sg)}
			scCopy := sc
			run = func(c sdk.Context) error {
				err := e.runMsg(c, msg)
				if err == nil {
					h.scopes[d] = &scCopy
				}
				return err
			}
			term = fmt.Sprintf("OWrite %s %s %s %s %s %s", c09Ns(sg), c09N(d+1), c09Ns(sc.owners), c09N(sc.spec), c09N(sc.data), c09OptN(vo))
			dsc = fmt.Sprintf("%s scope %d owners %v spec %d data %d vo %d signers %v", cls, d+1, sc.owners, sc.spec, sc.data, vo, sg)
		case x < 52: // update value owners
			cls = "update"
			var ds []int
			for _, d := range r.Perm(nIds) {
				if h.holder(d) >= 0 && (len(ds) == 0 || r.Intn(2) == 0) {
					ds = append(ds, d)
				}
			}
			if len(ds) == 0 || r.Intn(12) == 0 {
				ds = append(ds, r.Intn(nIds)) // a scope without token, or a duplicate
			}
			if r.Intn(40) == 0 {
				ds = nil
			}
			to := h.anyAcct()
			var holders []int
			for _, d := range ds {
				holders = append(holders, h.holder(d))
			}
			if r.Intn(3) > 0 {
				for tries := 0; tries < 5; tries++ {
					clash := false
					for _, a := range holders {
						if a == to {
							clash = true
						}
					}
					if !clash {
						break
					}
					to = h.anyAcct()
				}
			}
			sg := h.signers(1, holders, to, nil)
			ids := make([]mdtypes.MetadataAddress, len(ds))
			dn := make([]int, len(ds))
			for i, d := range ds {
				ids[i] = h.ids[d]
				dn[i] = d + 1
			}
			msg := &mdtypes.MsgUpdateValueOwnersRequest{ScopeIds: ids, ValueOwnerAddress: e.addrs[to].String(), Signers: h.strs(sg)}
			run = func(c sdk.Context) error { return e.runMsg(c, msg) }
			term = fmt.Sprintf("OUpdate %s %s %s", c09Ns(sg), c09Ns(dn), c09N(to))
			dsc = fmt.Sprintf("update scopes %v to %d signers %v", dn, to, sg)
		case x < 62: // migrate
			cls = "migrate"
			from := h.anyAcct()
			if r.Intn(4) > 0 {
				for _, d := range r.Perm(nIds) {
					if a := h.holder(d); a >= 0 {
						from = a
						break
					}
				}
			}
			to := h.anyAcct()
			sg := h.signers(2, []int{from}, to, nil)
			msg := &mdtypes.MsgMigrateValueOwnerRequest{Existing: e.addrs[from].String(), Proposed: e.addrs[to].String(), Signers: h.strs(sg)}
			run = func(c sdk.Context) error { return e.runMsg(c, msg) }
			term = fmt.Sprintf("OMigrate %s %s %s", c09Ns(sg), c09N(from), c09N(to))
			dsc = fmt.Sprintf("migrate %d to %d signers %v", from, to, sg)
		case x < 70: // delete
			cls = "delete"
			d := r.Intn(nIds)
			if len(existing) > 0 && r.Intn(8) > 0 {
				d = existing[r.Intn(len(existing))]
			}
			var owners []int
			if h.scopes[d] != nil {
				owners = h.scopes[d].owners
			}
			sg := h.signers(3, []int{h.holder(d)}, -1, owners)
			if _, isMk := h.mks[h.holder(d)]; isMk && len(owners) > 0 && r.Intn(3) == 0 {
				// the owner parties alone try to delete a scope whose value owner is a marker
				// (nobody with withdraw access on it is asked)
				sg = h.goodSigners(3, nil, -1, owners)
			}
			msg := &mdtypes.MsgDeleteScopeRequest{ScopeId: h.ids[d], Signers: h.strs(sg)}
			run = func(c sdk.Context) error {
				err := e.runMsg(c, msg)
				if err == nil {
					delete(h.scopes, d)
				}
				return err
			}
			term = fmt.Sprintf("ODelete %s %s", c09Ns(sg), c09N(d+1))
			dsc = fmt.Sprintf("delete scope %d signers %v", d+1, sg)
		case x < 84: // plain bank send of the token
			cls = "send"
			d := r.Intn(nIds)
			from := h.holder(d)
			if from < 0 || r.Intn(5) == 0 {
				from = h.anyAcct()
			}
			to := h.anyAcct()
			amt := int64(1)
			if v := r.Intn(20); v == 0 {
				amt = 2
			} else if v == 1 {
				amt = 0
			}
			msg := &banktypes.MsgSend{FromAddress: e.addrs[from].String(), ToAddress: e.addrs[to].String(),
				Amount: sdk.Coins{sdk.Coin{Denom: h.ids[d].Denom(), Amount: sdkmath.NewInt(amt)}}}
			run = func(c sdk.Context) error { return e.runMsg(c, msg) }
			term = fmt.Sprintf("OSend %s %s %s %s", c09N(from), c09N(to), c09N(d+1), zI64(amt))
			dsc = fmt.Sprintf("bank send scope %d token from %d to %d amount %d", d+1, from, to, amt)
		case x < 94: // authz grant / revoke
			granter := 1 + r.Intn(3)
			if r.Intn(4) == 0 {
				// any account that can sign a MsgGrant (markers and module accounts have no key)
				granter = []int{1, 2, 3, c09Grantee, c09Stranger, c09Admin, c09Wasm}[r.Intn(7)]
			} else if r.Intn(2) == 0 {
				if a := h.holder(r.Intn(nIds)); a > 0 && a != c09Mk1 && a != c09Mk2 && a != c09Blocked && a != c09Other {
					granter = a // a current value owner
				}
			}
			grantee := c09Grantee
			if r.Intn(5) == 0 {
				grantee = c09Wasm
			}
			k := r.Intn(4)
			key := fmt.Sprintf("%d/%d/%d", granter, grantee, k)
			if h.grants[key] && r.Intn(2) == 0 {
				cls = "revoke"
				run = func(c sdk.Context) error {
					err := e.app.AuthzKeeper.DeleteGrant(c, e.addrs[grantee], e.addrs[granter], c09KindURL[k])
					if err == nil {
						delete(h.grants, key)
					}
					return err
				}
				term = fmt.Sprintf("ORevoke %s %s %s", c09N(granter), c09N(grantee), c09Kinds[k])
			} else {
				cls = "grant"
				run = func(c sdk.Context) error {
					err := e.app.AuthzKeeper.SaveGrant(c, e.addrs[grantee], e.addrs[granter], authz.NewGenericAuthorization(c09KindURL[k]), nil)
					if err == nil {
						h.grants[key] = true
					}
					return err
				}
				term = fmt.Sprintf("OGrant %s %s %s", c09N(granter), c09N(grantee), c09Kinds[k])
			}
			dsc = fmt.Sprintf("%s %s", cls, key)
		default: // marker access administration
			cls = "set-marker"
			mi := c09Mk1
			if r.Intn(2) == 0 {
				mi = c09Mk2
			}
			m := e.randMarker(r, mi == c09Mk2)
			run = func(c sdk.Context) error {
				e.setMarker(c, mi, m)
				h.mks[mi] = m
				return nil
			}
			term = fmt.Sprintf("OSetMarker %s %s", c09N(mi), m.term())
			dsc = fmt.Sprintf("marker %d access withdraw %v deposit %v", mi, m.withdraw, m.deposit)
		}
		before := make([]int, nIds)
		for d := range h.ids {
			before[d] = h.holder(d)
		}
		cctx, write := h.ctx.CacheContext()
		err := run(cctx)
		if err == nil {
			write()
			accepted++
			w.Count("accepted " + cls)
		} else {
			w.Count("rejected " + cls)
			if strings.Contains(err.Error(), "panic") {
				w.Count("panics")
			}
		}
		for d := range h.ids {
			if a := h.holder(d); a != before[d] {
				changed++
				w.Count("holder changes")
				kindOf := "user"
				if before[d] < 0 {
					kindOf = "mint"
				} else if _, ok := h.mks[before[d]]; ok {
					kindOf = "from-marker"
				}
				if a < 0 {
					kindOf += "/burn"
				} else if m, ok := h.mks[a]; ok {
					if m.restricted {
						kindOf += "/to-restricted-marker"
					} else {
						kindOf += "/to-marker"
					}
				}
				w.Count("holder change " + cls + " " + kindOf)
				w.Nontrivial(cls + " " + kindOf)
			}
		}
		steps = append(steps, fmt.Sprintf("(%s, %s)", term, h.observe(err == nil)))
		descs = append(descs, fmt.Sprintf("%s -> %v", dsc, err == nil))
	}
	idN := make([]int, nIds)
	for i := range idN {
		idN[i] = i + 1
	}
	accN := append(append([]int{}, e.order...), c09Other)
	term := fmt.Sprintf("CHist %s %s %s %s %s", c09Ns(idN), c09Ns(accN), start, obs0, coqList(steps))
	w.Add(term, map[string]any{"history": hi, "scopes": nIds, "steps": descs})
	w.Count("histories")
	w.CountN("history_steps", int64(len(steps)))
	w.CountN("history_steps_accepted", int64(accepted))
	if changed > 0 {
		w.Nontrivial(fmt.Sprintf("hist/%d", hi))
	}
}

func TestC09(t *testing.T) {
	e := c09Setup(t)
	r := newRand("C09")
	w := NewCaseWriter("C09", "PV.Corr.C09", "check_all", 40)
	n := scale(160, 2400)
	for hi := 0; hi < n; hi++ {
		c09History(e, r, w, hi)
	}
	w.Flush(t)
}
