//go:build c18

package harness

// C18, export / import of markers in EVERY status reached by EVERY route.
//
// Life-cycle markers: created PROPOSED or FINALIZED by MsgAddMarker (manager = sender), with four
// shapes of access lists (manager with / without ACCESS_DELETE, another account with / without it),
// then driven along a route: stay proposed / finalized / active, cancelled from proposed, from
// finalized, from active, deleted (DESTROYED; removed by the next BeginBlocker) in the middle of the
// history or in its LAST block (so that the export holds a destroyed marker).  A marker cancelled
// before it ever was active keeps its manager (MarkerAccount.SetStatus clears it on activation
// only), and DeleteMarker relies on it.
//
// Observed per operation: accepted / rejected and the marker's (status, manager) after the block;
// evaluated in Coq against Genesis/MarkerLifecycle.v (case CMarkerLife).  After the import the
// exporting chain and the imported chain run the SAME further blocks, among them MsgDelete by the
// manager of every cancelled marker; results and events must agree (CDigests "postimport").

import (
	"fmt"
	"strings"

	sdkmath "cosmossdk.io/math"

	sdk "github.com/cosmos/cosmos-sdk/types"

	markertypes "github.com/provenance-io/provenance/x/marker/types"
	nametypes "github.com/provenance-io/provenance/x/name/types"
)

// c18MarkerAccounts names the pseudo-module of the raw store comparison that holds the stored
// bytes of the marker accounts (they live in the auth module's account store).
const c18MarkerAccounts = "auth:marker-accounts"

const (
	c18LCManager = 14
	c18LCOther   = 15
)

type c18LC struct {
	denom     string
	manager   int
	other     int
	shape     int      // 0: manager holds DELETE; 1: only the other account does; 2: nobody (manager admin); 3: nobody (other admin)
	route     []string // remaining steps
	target    string
	lastBlock bool // the final "delete" step is kept for the last block of the history
	added     bool
	dead      bool // destroyed, or the add was rejected
	fails     int
	refs      int   // references other modules were asked to make to this marker (c18_refs_test.go)
	addedAt   int64 // height of the block that created it
	init      string
	ops       []string
	trace     []map[string]any
}

type c18LCOp struct {
	lc     *c18LC
	kind   string // add, finalize, activate, cancel, delete
	caller int
}

var c18LCTargets = []struct {
	name  string
	steps []string
	last  bool
}{
	{"proposed", nil, false},
	{"finalized", []string{"finalize"}, false},
	{"active", []string{"finalize", "activate"}, false},
	{"cancelled-from-proposed", []string{"cancel"}, false},
	{"cancelled-from-finalized", []string{"finalize", "cancel"}, false},
	{"cancelled-from-active", []string{"finalize", "activate", "cancel"}, false},
	{"destroyed-at-export-from-proposed", []string{"cancel", "delete"}, true},
	{"deleted-from-proposed", []string{"cancel", "delete"}, false},
	{"destroyed-at-export-from-active", []string{"finalize", "activate", "cancel", "delete"}, true},
	{"deleted-from-finalized", []string{"finalize", "cancel", "delete"}, false},
	{"deleted-from-active", []string{"finalize", "activate", "cancel", "delete"}, false},
}

func (g *c18Gen) lcAccess(lc *c18LC) []markertypes.AccessGrant {
	full := []markertypes.Access{markertypes.Access_Admin, markertypes.Access_Mint, markertypes.Access_Burn, markertypes.Access_Deposit, markertypes.Access_Delete}
	noDel := []markertypes.Access{markertypes.Access_Admin, markertypes.Access_Mint, markertypes.Access_Burn}
	switch lc.shape {
	case 0:
		return []markertypes.AccessGrant{{Address: g.astr(lc.manager), Permissions: full}}
	case 1:
		return []markertypes.AccessGrant{{Address: g.astr(lc.other), Permissions: full}}
	case 2:
		return []markertypes.AccessGrant{{Address: g.astr(lc.manager), Permissions: noDel}}
	default:
		return []markertypes.AccessGrant{{Address: g.astr(lc.other), Permissions: noDel}}
	}
}

func (lc *c18LC) hasDelete(who int) bool {
	return (lc.shape == 0 && who == lc.manager) || (lc.shape == 1 && who == lc.other)
}

// lcDenom: denoms whose validity depends on the unrestricted-denom regex in force
func (g *c18Gen) lcDenom() string {
	g.lcSeq++
	switch g.r.Intn(5) {
	case 0:
		return fmt.Sprintf("Lc-%d.x", g.lcSeq)
	case 1:
		return fmt.Sprintf("zz%d", g.lcSeq)
	default:
		return fmt.Sprintf("lc%d", g.lcSeq)
	}
}

// lcPlan proposes the next life-cycle transaction: a new marker, or the next step of one.
func (g *c18Gen) lcPlan() *c18Tx {
	r := g.r
	var ready []*c18LC
	for _, lc := range g.lcs {
		if lc.added && !lc.dead && len(lc.route) > 0 && !g.lcBusy[lc.denom] && !(lc.lastBlock && len(lc.route) == 1) && lc.fails < 3 {
			// a marker that will be deleted waits (a while) until other modules refer to it
			if lc.deletable() && lc.route[0] == "cancel" && lc.refs < len(c18RefKinds) && g.n.height-lc.addedAt < 30 {
				continue
			}
			ready = append(ready, lc)
		}
	}
	maxLC := scale(12, 24)
	if len(g.lcs) < maxLC && (len(ready) == 0 || r.Intn(3) == 0) {
		t := c18LCTargets[(g.lcSeq+g.lcShift)%len(c18LCTargets)]
		lc := &c18LC{manager: c18LCManager, other: c18LCOther, shape: r.Intn(4), target: t.name, lastBlock: t.last}
		if r.Intn(2) == 0 {
			lc.manager, lc.other = c18LCOther, c18LCManager
		}
		lc.route = append([]string{}, t.steps...)
		lc.denom = g.lcDenom()
		status := markertypes.StatusProposed
		if len(lc.route) > 0 && lc.route[0] == "finalize" && r.Intn(3) == 0 {
			status = markertypes.StatusFinalized // created FINALIZED directly
			lc.route = lc.route[1:]
		}
		mt := markertypes.MarkerType_Coin
		var reqAttrs []string
		if r.Intn(3) == 0 {
			mt = markertypes.MarkerType_RestrictedCoin
			// required attribute: a name of the history (names are deleted by name-delete later on)
			var mine []string
			_ = g.n.app.NameKeeper.IterateRecords(g.n.queryCtx(), nametypes.NameKeyPrefix, func(rec nametypes.NameRecord) error {
				if strings.HasPrefix(rec.Name, "n") && strings.HasSuffix(rec.Name, "."+c18Root) {
					mine = append(mine, rec.Name)
				}
				return nil
			})
			if len(mine) > 0 {
				reqAttrs = []string{mine[r.Intn(len(mine))]}
			}
		}
		msg := markertypes.NewMsgAddMarkerRequest(lc.denom, sdkmath.NewInt(int64(100+r.Intn(900))), g.addr(lc.manager), g.addr(lc.manager), mt, r.Intn(2) == 0, r.Intn(2) == 0, false, reqAttrs, uint64(r.Intn(3))*500, 100)
		msg.Status = status
		msg.AccessList = g.lcAccess(lc)
		g.lcs = append(g.lcs, lc)
		if !g.ghost {
			g.lcBusy[lc.denom] = true
		}
		return &c18Tx{kind: "lc-add", strict: true, signers: []int{lc.manager}, msgs: []sdk.Msg{msg}, lc: &c18LCOp{lc: lc, kind: "add", caller: lc.manager}}
	}
	if len(ready) == 0 {
		return nil
	}
	lc := ready[r.Intn(len(ready))]
	return g.lcStep(lc, lc.route[0], r.Intn(8) == 0)
}

// lcStep: one step on a life-cycle marker by the account entitled to it (wrong = by the other one)
func (g *c18Gen) lcStep(lc *c18LC, step string, wrong bool) *c18Tx {
	caller := lc.manager
	status := g.lcStatus(lc)
	switch step {
	case "cancel":
		if status != markertypes.StatusProposed && !lc.hasDelete(lc.manager) {
			caller = lc.other // only a DELETE grant lets a finalized / active marker be cancelled
		} else if status == markertypes.StatusProposed && lc.hasDelete(lc.other) && g.r.Intn(2) == 0 {
			caller = lc.other
		}
	case "delete":
		if lc.hasDelete(lc.other) && g.r.Intn(2) == 0 {
			caller = lc.other
		}
	}
	if wrong {
		if caller == lc.manager {
			caller = lc.other
		} else {
			caller = lc.manager
		}
	}
	var msg sdk.Msg
	switch step {
	case "finalize":
		msg = markertypes.NewMsgFinalizeRequest(lc.denom, g.addr(caller))
	case "activate":
		msg = markertypes.NewMsgActivateRequest(lc.denom, g.addr(caller))
	case "cancel":
		msg = markertypes.NewMsgCancelRequest(lc.denom, g.addr(caller))
	default:
		msg = markertypes.NewMsgDeleteRequest(lc.denom, g.addr(caller))
	}
	if !g.ghost {
		g.lcBusy[lc.denom] = true
	}
	return &c18Tx{kind: "lc-" + step, strict: true, signers: []int{caller}, msgs: []sdk.Msg{msg}, lc: &c18LCOp{lc: lc, kind: step, caller: caller}}
}

func (g *c18Gen) lcStatus(lc *c18LC) markertypes.MarkerStatus {
	m, err := g.n.app.MarkerKeeper.GetMarkerByDenom(g.n.queryCtx(), lc.denom)
	if err != nil || m == nil {
		return markertypes.StatusUndefined
	}
	return m.GetStatus()
}

func c18LMarkerTerm(m markertypes.MarkerAccountI) string {
	var acc []string
	hasMint := false
	for _, ag := range m.GetAccessList() {
		var perms []string
		for _, p := range ag.Permissions {
			perms = append(perms, c18N(uint64(uint32(p))))
			if p == markertypes.Access_Mint {
				hasMint = true
			}
		}
		acc = append(acc, fmt.Sprintf("{| ac_addr := %s; ac_perms := %s |}", hx(c18AddrOpt(ag.Address)), coqList(perms)))
	}
	_ = hasMint
	return fmt.Sprintf("{| lm_status := %s; lm_manager := %s; lm_access := %s; lm_supply_zero := %s |}",
		c18N(uint64(uint32(m.GetStatus()))), hx(m.GetManager()), coqList(acc), coqBool(m.GetSupply().Amount.IsZero()))
}

// lcObserve records the outcome of the life-cycle operations of the block that just ran.
func (g *c18Gen) lcObserve(ops []*c18LCOp, oks []bool) {
	ctx := g.n.queryCtx()
	for i, op := range ops {
		lc, ok := op.lc, oks[i]
		m, err := g.n.app.MarkerKeeper.GetMarkerByDenom(ctx, lc.denom)
		found := err == nil && m != nil
		if op.kind == "add" {
			if ok && found {
				lc.added = true
				lc.addedAt = g.n.height
				lc.init = c18LMarkerTerm(m)
				lc.trace = append(lc.trace, map[string]any{"op": "add", "status": m.GetStatus().String(), "manager_is": g.acctIndex(m.GetManager().String()), "target": lc.target, "access_shape": lc.shape})
				g.w.Count("lifecycle_added")
			} else {
				lc.dead = true
				g.w.Count("lifecycle_add_rejected")
			}
			continue
		}
		status, manager := uint64(0), []byte(nil)
		if found {
			status, manager = uint64(uint32(m.GetStatus())), m.GetManager()
		}
		ctor := map[string]string{"finalize": "LFinalize", "activate": "LActivate", "cancel": "LCancel", "delete": "LDelete"}[op.kind]
		lc.ops = append(lc.ops, fmt.Sprintf("(%s %s, %s, %s, %s)", ctor, hx(g.addr(op.caller)), coqBool(ok), c18N(status), hx(manager)))
		lc.trace = append(lc.trace, map[string]any{"op": op.kind, "caller_is_manager": op.caller == lc.manager, "caller_has_delete": lc.hasDelete(op.caller), "accepted": ok, "status_after": status, "manager_kept": len(manager) > 0})
		g.w.Count("lifecycle_op_" + op.kind)
		if ok {
			g.w.Count("lifecycle_op_accepted")
			if len(lc.route) > 0 && lc.route[0] == op.kind {
				lc.route = lc.route[1:]
			}
			lc.fails = 0
			if op.kind == "delete" {
				lc.dead = true
			}
		} else {
			g.w.Count("lifecycle_op_rejected")
			lc.fails++
		}
	}
}

// lcLastBlock: the delete steps that were kept for the last block of the history
func (g *c18Gen) lcLastBlock() []*c18Tx {
	var out []*c18Tx
	for _, lc := range g.lcs {
		if lc.added && !lc.dead && lc.lastBlock && len(lc.route) == 1 && lc.route[0] == "delete" && g.lcStatus(lc) == markertypes.StatusCancelled {
			out = append(out, g.lcStep(lc, "delete", false))
		}
	}
	return out
}

// lcDeletes: after the import, the manager of every cancelled life-cycle marker asks for its
// deletion (accepted iff the manager is still recorded, or holds ACCESS_DELETE)
func (g *c18Gen) lcDeletes() []*c18Tx {
	var out []*c18Tx
	seen := map[int]bool{}
	for _, lc := range g.lcs {
		if !lc.added || lc.dead || seen[lc.manager] || g.lcStatus(lc) != markertypes.StatusCancelled {
			continue
		}
		seen[lc.manager] = true
		out = append(out, g.lcStep(lc, "delete", false))
		out[len(out)-1].signers = []int{lc.manager}
		out[len(out)-1].msgs = []sdk.Msg{markertypes.NewMsgDeleteRequest(lc.denom, g.addr(lc.manager))}
		out[len(out)-1].lc.caller = lc.manager
	}
	return out
}

// lcEmit writes one CMarkerLife case per life-cycle marker and the statistics of which statuses
// and routes the history's final state holds.
func (g *c18Gen) lcEmit(label string) {
	for _, lc := range g.lcs {
		if !lc.added {
			continue
		}
		g.w.Add(fmt.Sprintf("CMarkerLife %s\n (%s)\n %s", coqStr(label+"/"+lc.denom), lc.init, coqList(lc.ops)),
			map[string]any{"kind": "marker_lifecycle", "label": label, "denom": lc.denom, "target": lc.target, "trace": lc.trace})
		g.w.Count("lifecycle_markers")
	}
}

// lcFinalStats counts, at export time, the life-cycle markers by status and whether the manager is set.
func (g *c18Gen) lcFinalStats() map[string]int {
	out := map[string]int{}
	ctx := g.n.queryCtx()
	for _, lc := range g.lcs {
		if !lc.added {
			continue
		}
		m, err := g.n.app.MarkerKeeper.GetMarkerByDenom(ctx, lc.denom)
		if err != nil || m == nil {
			out["removed"]++
			continue
		}
		k := strings.ToLower(strings.TrimPrefix(m.GetStatus().String(), "MARKER_STATUS_"))
		if len(m.GetManager()) > 0 {
			k += "+manager"
		}
		if lc.hasDelete(lc.manager) {
			k += "+manager-has-delete"
		}
		out[k]++
	}
	return out
}

// c18StateMarkers: the marker accounts as they are STORED (auth account store, walked through the
// marker registry), for the comparison with what ExportGenesis writes.
func (n *c18Net) stateMarkers() string {
	var items []string
	_ = try(func() error {
		n.app.MarkerKeeper.IterateMarkers(n.queryCtx(), func(m markertypes.MarkerAccountI) bool {
			if ma, ok := m.(*markertypes.MarkerAccount); ok {
				items = append(items, c18MarkerTerm(*ma))
			}
			return false
		})
		return nil
	})
	return coqList(items)
}

// rawMarkerAccounts: the stored bytes of every marker account (they live in the auth store)
func (n *c18Net) rawMarkerAccounts() []string {
	var out []string
	_ = try(func() error {
		ctx := n.queryCtx()
		n.app.MarkerKeeper.IterateMarkers(ctx, func(m markertypes.MarkerAccountI) bool {
			if ma, ok := m.(*markertypes.MarkerAccount); ok {
				bz, err := ma.Marshal()
				if err == nil {
					out = append(out, fmt.Sprintf("%x=%x", ma.GetAddress().Bytes(), bz))
				}
			}
			return false
		})
		return nil
	})
	return out
}
