// genprefix: store-prefix audit of the custom modules' genesis code for property C18.
//
// usage: genprefix <repo-root>
//
// For every custom module it lists
//   - the top-level store prefixes the module declares: package-level `X = []byte{0xNN}` (one
//     element) in the module's key files, and, for the exchange module's style, the constants
//     `KeyType… = byte(0xNN)`;
//   - for each of them, whether the module's ExportGenesis and InitGenesis REACH a mention of it:
//     the call graph is followed BY NAME through all functions and methods of the module's own
//     packages (x/<m>, x/<m>/keeper, x/<m>/types); nothing is type checked (go/parser + go/ast
//     only), so same-named methods of different types are merged: the reach is an
//     over-approximation, a prefix reported as NOT reached is certainly not touched;
//   - the genesis functions found (a module without one of them is reported).
//
// The result is compared, inside Coq, with the reviewed table Genesis/StorePrefixDoc.v: a prefix
// that is new, that changed its byte, or that the export / the import no longer reaches although
// the review says "exported" / "rebuilt by InitGenesis" is a broken obligation.
//
// Output: one JSON object, everything sorted.
package main

import (
	"encoding/json"
	"fmt"
	"go/ast"
	"go/parser"
	"go/token"
	"os"
	"path/filepath"
	"sort"
	"strconv"
	"strings"
)

var modules = []string{"attribute", "exchange", "hold", "marker", "metadata", "msgfees", "name", "quarantine", "sanction", "trigger"}

type prefix struct {
	Module string `json:"module"`
	Name   string `json:"name"`
	Byte   int    `json:"byte"`
	File   string `json:"file"`
	Export bool   `json:"export_reaches"`
	Init   bool   `json:"init_reaches"`
}

type modInfo struct {
	Module      string   `json:"module"`
	HasExport   bool     `json:"has_export_genesis"`
	HasInit     bool     `json:"has_init_genesis"`
	ExportFuncs int      `json:"functions_reached_from_export"`
	InitFuncs   int      `json:"functions_reached_from_init"`
	Files       int      `json:"files"`
	Unparsed    []string `json:"unparsed"`
}

func byteLit(e ast.Expr) (int, bool) {
	if b, ok := e.(*ast.BasicLit); ok && (b.Kind == token.INT || b.Kind == token.CHAR) {
		if b.Kind == token.CHAR {
			s, err := strconv.Unquote(b.Value)
			if err != nil || len(s) != 1 {
				return 0, false
			}
			return int(s[0]), true
		}
		v, err := strconv.ParseInt(b.Value, 0, 64)
		if err != nil || v < 0 || v > 255 {
			return 0, false
		}
		return int(v), true
	}
	return 0, false
}

// prefixValue recognises `[]byte{0xNN}` and `byte(0xNN)`.
func prefixValue(name string, e ast.Expr) (int, bool) {
	switch x := e.(type) {
	case *ast.CompositeLit:
		at, ok := x.Type.(*ast.ArrayType)
		if !ok || at.Len != nil {
			return 0, false
		}
		if id, ok := at.Elt.(*ast.Ident); !ok || id.Name != "byte" {
			return 0, false
		}
		if len(x.Elts) != 1 {
			return 0, false
		}
		return byteLit(x.Elts[0])
	case *ast.CallExpr:
		if id, ok := x.Fun.(*ast.Ident); ok && id.Name == "byte" && len(x.Args) == 1 && strings.HasPrefix(name, "KeyType") {
			return byteLit(x.Args[0])
		}
	}
	return 0, false
}

func main() {
	if len(os.Args) != 2 {
		fmt.Fprintln(os.Stderr, "usage: genprefix <repo-root>")
		os.Exit(2)
	}
	root := os.Args[1]
	var all []prefix
	var infos []modInfo
	for _, m := range modules {
		info := modInfo{Module: m}
		fset := token.NewFileSet()
		var files []*ast.File
		var names []string
		for _, d := range []string{"", "keeper", "types"} {
			dir := filepath.Join(root, "x", m, d)
			ents, err := os.ReadDir(dir)
			if err != nil {
				continue
			}
			for _, e := range ents {
				n := e.Name()
				if e.IsDir() || !strings.HasSuffix(n, ".go") || strings.HasSuffix(n, "_test.go") || strings.HasSuffix(n, ".pb.go") || strings.HasSuffix(n, ".pb.gw.go") {
					continue
				}
				p := filepath.Join(dir, n)
				f, err := parser.ParseFile(fset, p, nil, 0)
				if err != nil {
					info.Unparsed = append(info.Unparsed, filepath.ToSlash(filepath.Join("x", m, d, n)))
					continue
				}
				files = append(files, f)
				names = append(names, filepath.ToSlash(filepath.Join("x", m, d, n)))
			}
		}
		info.Files = len(files)
		// declared prefixes
		prefs := map[string]*prefix{}
		for i, f := range files {
			for _, decl := range f.Decls {
				gd, ok := decl.(*ast.GenDecl)
				if !ok || (gd.Tok != token.VAR && gd.Tok != token.CONST) {
					continue
				}
				for _, sp := range gd.Specs {
					vs, ok := sp.(*ast.ValueSpec)
					if !ok {
						continue
					}
					for j, id := range vs.Names {
						if j >= len(vs.Values) {
							continue
						}
						if b, ok := prefixValue(id.Name, vs.Values[j]); ok {
							prefs[id.Name] = &prefix{Module: m, Name: id.Name, Byte: b, File: names[i]}
						}
					}
				}
			}
		}
		// functions by bare name
		funcs := map[string][]*ast.FuncDecl{}
		for _, f := range files {
			for _, decl := range f.Decls {
				if fd, ok := decl.(*ast.FuncDecl); ok && fd.Body != nil {
					funcs[fd.Name.Name] = append(funcs[fd.Name.Name], fd)
				}
			}
		}
		reach := func(rootName string) (map[string]bool, int, bool) {
			seen := map[string]bool{}
			hit := map[string]bool{}
			var todo []string
			if _, ok := funcs[rootName]; !ok {
				return hit, 0, false
			}
			todo = append(todo, rootName)
			for len(todo) > 0 {
				n := todo[len(todo)-1]
				todo = todo[:len(todo)-1]
				if seen[n] {
					continue
				}
				seen[n] = true
				for _, fd := range funcs[n] {
					ast.Inspect(fd.Body, func(x ast.Node) bool {
						switch y := x.(type) {
						case *ast.Ident:
							if _, ok := prefs[y.Name]; ok {
								hit[y.Name] = true
							}
							if _, ok := funcs[y.Name]; ok && !seen[y.Name] {
								todo = append(todo, y.Name)
							}
						case *ast.SelectorExpr:
							if _, ok := prefs[y.Sel.Name]; ok {
								hit[y.Sel.Name] = true
							}
							if _, ok := funcs[y.Sel.Name]; ok && !seen[y.Sel.Name] {
								todo = append(todo, y.Sel.Name)
							}
						}
						return true
					})
				}
			}
			return hit, len(seen), true
		}
		eh, en, eok := reach("ExportGenesis")
		ih, in, iok := reach("InitGenesis")
		info.HasExport, info.HasInit, info.ExportFuncs, info.InitFuncs = eok, iok, en, in
		var ks []string
		for k := range prefs {
			ks = append(ks, k)
		}
		sort.Strings(ks)
		for _, k := range ks {
			p := prefs[k]
			p.Export, p.Init = eh[k], ih[k]
			all = append(all, *p)
		}
		sort.Strings(info.Unparsed)
		infos = append(infos, info)
	}
	out := map[string]any{"prefixes": all, "modules": infos}
	bz, _ := json.MarshalIndent(out, "", " ")
	fmt.Println(string(bz))
}
