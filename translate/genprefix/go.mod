module genprefix

go 1.21
