// goextract: the source-to-table translator of the verification framework.
//
// It parses NON-test Go files of the provenance repository with go/parser (no type checking, no
// dependencies) and prints one JSON document with the tables that coq/Gen/*.v are rendered from
// by translate/gen_coq.py.  It translates TABLES (which guard protects which endpoint, which
// permission constant a helper tests, which comparison an authority check makes), never
// algorithms.  Every shape it does not recognise is emitted as a row of kind "Unrecognised"
// carrying the source text, never dropped: the Coq obligations over the generated tables then
// fail to check.
//
// usage: goextract <repo-root>   (JSON on stdout)
package main

import (
	"bytes"
	"encoding/json"
	"fmt"
	"go/ast"
	"go/parser"
	"go/printer"
	"go/token"
	"os"
	"path/filepath"
	"regexp"
	"sort"
	"strconv"
	"strings"
)

var fset = token.NewFileSet()
var repoRoot string

// ---------------------------------------------------------------- helpers

var wsRE = regexp.MustCompile(`\s+`)

// src renders a node as one line of normalised source text.
func src(n ast.Node) string {
	if n == nil {
		return ""
	}
	var b bytes.Buffer
	if err := printer.Fprint(&b, fset, n); err != nil {
		return "<unprintable>"
	}
	return strings.TrimSpace(wsRE.ReplaceAllString(b.String(), " "))
}

func relPath(p string) string {
	r, err := filepath.Rel(repoRoot, p)
	if err != nil {
		return p
	}
	return r
}

func lineOf(n ast.Node) int { return fset.Position(n.Pos()).Line }

func parseFile(path string) (*ast.File, error) {
	return parser.ParseFile(fset, path, nil, parser.SkipObjectResolution)
}

// rootIdent returns the identifier a selector / call / index chain starts from ("" if none).
func rootIdent(e ast.Expr) string {
	for {
		switch x := e.(type) {
		case *ast.Ident:
			return x.Name
		case *ast.SelectorExpr:
			e = x.X
		case *ast.CallExpr:
			e = x.Fun
		case *ast.IndexExpr:
			e = x.X
		case *ast.ParenExpr:
			e = x.X
		case *ast.StarExpr:
			e = x.X
		case *ast.UnaryExpr:
			e = x.X
		default:
			return ""
		}
	}
}

// selChain renders a.b.c (without the root) for a selector chain rooted at an identifier.
func selChain(e ast.Expr) string {
	var parts []string
	for {
		s, ok := e.(*ast.SelectorExpr)
		if !ok {
			break
		}
		parts = append([]string{s.Sel.Name}, parts...)
		e = s.X
	}
	return strings.Join(parts, ".")
}

// usesIdent reports whether the identifier occurs in n (not counting selector field names).
func usesIdent(n ast.Node, name string) bool {
	if name == "" || name == "_" || n == nil {
		return false
	}
	found := false
	ast.Inspect(n, func(x ast.Node) bool {
		if found {
			return false
		}
		switch v := x.(type) {
		case *ast.SelectorExpr:
			if usesIdent(v.X, name) {
				found = true
			}
			return false
		case *ast.Ident:
			if v.Name == name {
				found = true
			}
		}
		return true
	})
	return found
}

// recvCalls lists the calls (selector chain without the receiver) made on the receiver in n.
func recvCalls(n ast.Node, recv string) []string {
	var out []string
	ast.Inspect(n, func(x ast.Node) bool {
		if c, ok := x.(*ast.CallExpr); ok {
			if s, ok := c.Fun.(*ast.SelectorExpr); ok && rootIdent(s) == recv {
				if _, isCall := s.X.(*ast.CallExpr); !isCall {
					out = append(out, selChain(s))
				}
			}
		}
		return true
	})
	return out
}

func isNil(e ast.Expr) bool {
	id, ok := e.(*ast.Ident)
	return ok && id.Name == "nil"
}

// isErrReturn: the block is exactly `return nil, <non-nil>` (nres=2) or `return <non-nil>` (nres=1).
func isErrReturn(b *ast.BlockStmt, nres int) bool {
	if b == nil || len(b.List) != 1 {
		return false
	}
	r, ok := b.List[0].(*ast.ReturnStmt)
	if !ok || len(r.Results) != nres {
		return false
	}
	if nres == 2 {
		return isNil(r.Results[0]) && !isNil(r.Results[1])
	}
	return !isNil(r.Results[0])
}

func recvTypeName(d *ast.FuncDecl) string {
	if d.Recv == nil || len(d.Recv.List) != 1 {
		return ""
	}
	t := d.Recv.List[0].Type
	if s, ok := t.(*ast.StarExpr); ok {
		t = s.X
	}
	if id, ok := t.(*ast.Ident); ok {
		return id.Name
	}
	return ""
}

func recvName(d *ast.FuncDecl) string {
	if d.Recv == nil || len(d.Recv.List) != 1 || len(d.Recv.List[0].Names) != 1 {
		return ""
	}
	n := d.Recv.List[0].Names[0].Name
	if n == "_" {
		return ""
	}
	return n
}

// handlerSig: func (r T) Name(ctx <any>, msg *<Req>) (*<Resp>, error); returns msg param name and request type name.
func handlerSig(d *ast.FuncDecl) (msgName, reqType string, ok bool) {
	ft := d.Type
	if ft.Params == nil || ft.Results == nil || len(ft.Params.List) != 2 || len(ft.Results.List) != 2 {
		return
	}
	if id, isId := ft.Results.List[1].Type.(*ast.Ident); !isId || id.Name != "error" {
		return
	}
	p := ft.Params.List[1]
	st, isStar := p.Type.(*ast.StarExpr)
	if !isStar {
		return
	}
	switch t := st.X.(type) {
	case *ast.Ident:
		reqType = t.Name
	case *ast.SelectorExpr:
		reqType = t.Sel.Name
	default:
		return
	}
	if len(p.Names) == 1 {
		msgName = p.Names[0].Name
	}
	if len(ft.Params.List[0].Names) > 1 {
		return "", "", false
	}
	return msgName, reqType, true
}

// msgField: e is <msg>.<Field>; returns Field.
func msgField(e ast.Expr, msg string) (string, bool) {
	s, ok := e.(*ast.SelectorExpr)
	if !ok {
		return "", false
	}
	id, ok := s.X.(*ast.Ident)
	if !ok || id.Name != msg || msg == "" || msg == "_" {
		return "", false
	}
	return s.Sel.Name, true
}

var predicateRE = regexp.MustCompile(`^(Can[A-Z]\w*|HasPermission|ValidateAuthority|IsAuthority|GetAuthority)$`)

func mentionsPredicate(n ast.Node) bool {
	found := false
	ast.Inspect(n, func(x ast.Node) bool {
		if c, ok := x.(*ast.CallExpr); ok {
			if s, ok := c.Fun.(*ast.SelectorExpr); ok && predicateRE.MatchString(s.Sel.Name) {
				found = true
			}
		}
		return !found
	})
	return found
}

func isErrNotNil(e ast.Expr, errName string) bool {
	b, ok := e.(*ast.BinaryExpr)
	if !ok || b.Op != token.NEQ {
		return false
	}
	id, ok := b.X.(*ast.Ident)
	return ok && id.Name == errName && isNil(b.Y)
}

// ---------------------------------------------------------------- 1. exchange MsgServer endpoints

type Endpoint struct {
	Name           string   `json:"name"`
	File           string   `json:"file"`
	Line           int      `json:"line"`
	Guard          string   `json:"guard"` // Can | Authority | Reject | None | Unrecognised
	Helper         string   `json:"helper"`
	MarketField    string   `json:"market_field"`
	CallerField    string   `json:"caller_field"`
	AuthorityField string   `json:"authority_field"`
	FirstCall      string   `json:"first_call"`
	Index          int      `json:"index"`
	Precall        bool     `json:"precall"`
	Precalls       []string `json:"precalls"`
	Text           string   `json:"text"`
}

func matchCanGuard(st ast.Stmt, recv, msg string) (helper, mf, cf string, ok bool) {
	ifs, isIf := st.(*ast.IfStmt)
	if !isIf || ifs.Init != nil || ifs.Else != nil || !isErrReturn(ifs.Body, 2) {
		return
	}
	u, isU := ifs.Cond.(*ast.UnaryExpr)
	if !isU || u.Op != token.NOT {
		return
	}
	c, isC := u.X.(*ast.CallExpr)
	if !isC || len(c.Args) != 3 {
		return
	}
	s, isS := c.Fun.(*ast.SelectorExpr)
	if !isS || rootIdent(s) != recv || !strings.HasPrefix(s.Sel.Name, "Can") {
		return
	}
	if _, isId := c.Args[0].(*ast.Ident); !isId {
		return
	}
	var ok1, ok2 bool
	mf, ok1 = msgField(c.Args[1], msg)
	cf, ok2 = msgField(c.Args[2], msg)
	if !ok1 || !ok2 {
		return
	}
	return s.Sel.Name, mf, cf, true
}

// matchValidateAuthority: if err := <recv…>.ValidateAuthority(<msg>.<F>); err != nil { return nil, <err> }
func matchValidateAuthority(st ast.Stmt, recv, msg string) (field string, ok bool) {
	ifs, isIf := st.(*ast.IfStmt)
	if !isIf || ifs.Init == nil || ifs.Else != nil || !isErrReturn(ifs.Body, 2) {
		return
	}
	as, isAs := ifs.Init.(*ast.AssignStmt)
	if !isAs || len(as.Lhs) != 1 || len(as.Rhs) != 1 {
		return
	}
	errId, isId := as.Lhs[0].(*ast.Ident)
	if !isId || !isErrNotNil(ifs.Cond, errId.Name) {
		return
	}
	c, isC := as.Rhs[0].(*ast.CallExpr)
	if !isC || len(c.Args) != 1 {
		return
	}
	s, isS := c.Fun.(*ast.SelectorExpr)
	if !isS || s.Sel.Name != "ValidateAuthority" || rootIdent(s) != recv {
		return
	}
	if f, isF := msgField(c.Args[0], msg); isF {
		return f, true
	}
	// msg.GetAuthority()
	if cc, isCC := c.Args[0].(*ast.CallExpr); isCC && len(cc.Args) == 0 {
		if f, isF := msgField(cc.Fun, msg); isF && strings.HasPrefix(f, "Get") {
			return strings.TrimPrefix(f, "Get"), true
		}
	}
	return
}

func exchangeEndpoints() ([]Endpoint, error) {
	path := filepath.Join(repoRoot, "x/exchange/keeper/msg_server.go")
	f, err := parseFile(path)
	if err != nil {
		return nil, err
	}
	var out []Endpoint
	for _, decl := range f.Decls {
		d, ok := decl.(*ast.FuncDecl)
		if !ok || recvTypeName(d) != "MsgServer" || d.Body == nil {
			continue
		}
		msg, _, isH := handlerSig(d)
		if !isH {
			continue
		}
		recv := recvName(d)
		ep := Endpoint{Name: d.Name.Name, File: relPath(path), Line: lineOf(d), Index: -1, Precalls: []string{}}
		found := false
		for i, st := range d.Body.List {
			if !usesIdent(st, recv) {
				continue // no use of the keeper at all: context unwrapping, address parsing, error returns
			}
			if h, mf, cf, okc := matchCanGuard(st, recv, msg); okc {
				ep.Guard, ep.Helper, ep.MarketField, ep.CallerField, ep.Index = "Can", h, mf, cf, i
				found = true
				break
			}
			if af, oka := matchValidateAuthority(st, recv, msg); oka {
				ep.Guard, ep.AuthorityField, ep.Index = "Authority", af, i
				found = true
				break
			}
			if mentionsPredicate(st) {
				ep.Guard, ep.Index, ep.Text = "Unrecognised", i, src(st)
				found = true
				break
			}
			ep.Precalls = append(ep.Precalls, recvCalls(st, recv)...)
		}
		if !found {
			n := len(d.Body.List)
			if len(ep.Precalls) == 0 && n > 0 {
				if r, isR := d.Body.List[n-1].(*ast.ReturnStmt); isR && len(r.Results) == 2 && isNil(r.Results[0]) && !isNil(r.Results[1]) && n == 1 {
					ep.Guard, ep.Index = "Reject", 0
				}
			}
			if ep.Guard == "" {
				ep.Guard = "None"
				if len(ep.Precalls) > 0 {
					ep.FirstCall = ep.Precalls[0]
				}
			}
		}
		ep.Precall = len(ep.Precalls) > 0
		out = append(out, ep)
	}
	return out, nil
}

// ---------------------------------------------------------------- 2. Can* helpers, HasPermission

type CanHelper struct {
	Name       string `json:"name"`
	File       string `json:"file"`
	Line       int    `json:"line"`
	Permission string `json:"permission"` // Permission_xxx or "Unrecognised: <text>"
}

type FuncShape struct {
	Name  string   `json:"name"`
	File  string   `json:"file"`
	Line  int      `json:"line"`
	Sig   string   `json:"sig"`
	Stmts []string `json:"stmts"`
}

func paramNames(ft *ast.FuncType) []string {
	var out []string
	if ft.Params == nil {
		return out
	}
	for _, p := range ft.Params.List {
		for _, n := range p.Names {
			out = append(out, n.Name)
		}
	}
	return out
}

func paramTypes(ft *ast.FuncType) []string {
	var out []string
	if ft.Params == nil {
		return out
	}
	for _, p := range ft.Params.List {
		k := len(p.Names)
		if k == 0 {
			k = 1
		}
		for i := 0; i < k; i++ {
			out = append(out, src(p.Type))
		}
	}
	return out
}

func funcShape(d *ast.FuncDecl, path string) FuncShape {
	fs := FuncShape{Name: d.Name.Name, File: relPath(path), Line: lineOf(d), Stmts: []string{}}
	fs.Sig = "(" + strings.Join(paramNames(d.Type), ", ") + ")"
	if d.Body != nil {
		for _, st := range d.Body.List {
			fs.Stmts = append(fs.Stmts, src(st))
		}
	}
	return fs
}

func marketHelpers() (helpers []CanHelper, hasPerm, storeHasPerm FuncShape, err error) {
	path := filepath.Join(repoRoot, "x/exchange/keeper/market.go")
	f, e := parseFile(path)
	if e != nil {
		err = e
		return
	}
	hasPerm = FuncShape{Name: "HasPermission", Stmts: []string{"<not found>"}}
	storeHasPerm = FuncShape{Name: "storeHasPermission", Stmts: []string{"<not found>"}}
	for _, decl := range f.Decls {
		d, ok := decl.(*ast.FuncDecl)
		if !ok || d.Body == nil {
			continue
		}
		if d.Recv == nil && d.Name.Name == "storeHasPermission" {
			storeHasPerm = funcShape(d, path)
			continue
		}
		if recvTypeName(d) != "Keeper" {
			continue
		}
		if d.Name.Name == "HasPermission" {
			hasPerm = funcShape(d, path)
			continue
		}
		if !strings.HasPrefix(d.Name.Name, "Can") {
			continue
		}
		pt := paramTypes(d.Type)
		if len(pt) != 3 || pt[2] != "string" {
			continue // CanCreateAsk/Bid/Commitment take an sdk.AccAddress: attribute checks, not permission helpers
		}
		pn := paramNames(d.Type)
		recv := recvName(d)
		h := CanHelper{Name: d.Name.Name, File: relPath(path), Line: lineOf(d)}
		h.Permission = "Unrecognised: " + src(d.Body)
		if len(d.Body.List) == 1 {
			if r, isR := d.Body.List[0].(*ast.ReturnStmt); isR && len(r.Results) == 1 {
				if c, isC := r.Results[0].(*ast.CallExpr); isC && len(c.Args) == 4 {
					s, isS := c.Fun.(*ast.SelectorExpr)
					a0, ok0 := c.Args[0].(*ast.Ident)
					a1, ok1 := c.Args[1].(*ast.Ident)
					a2, ok2 := c.Args[2].(*ast.Ident)
					p, ok3 := c.Args[3].(*ast.SelectorExpr)
					if isS && s.Sel.Name == "HasPermission" && rootIdent(s) == recv && selChain(s) == "HasPermission" &&
						ok0 && ok1 && ok2 && ok3 && len(pn) == 3 &&
						a0.Name == pn[0] && a1.Name == pn[1] && a2.Name == pn[2] &&
						rootIdent(p) == "exchange" && strings.HasPrefix(p.Sel.Name, "Permission_") {
						h.Permission = p.Sel.Name
					}
				}
			}
		}
		helpers = append(helpers, h)
	}
	return
}

// ---------------------------------------------------------------- CancelOrder, payments, custom signers

type CancelGuard struct {
	File      string   `json:"file"`
	Line      int      `json:"line"`
	Kind      string   `json:"kind"` // OwnerOr | Unrecognised
	Signer    string   `json:"signer"`
	Owner     string   `json:"owner"`
	OwnerSrc  string   `json:"owner_src"`
	Helper    string   `json:"helper"`
	MarketSrc string   `json:"market_src"`
	Caller    string   `json:"caller"`
	Index     int      `json:"index"`
	Precalls  []string `json:"precalls"`
	PreWrite  bool     `json:"pre_write"`
	Text      string   `json:"text"`
}

var readOnlyRE = regexp.MustCompile(`^(Keeper\.)?(Get|Has|Is|Validate|Can|Lookup|Resolve|get|has|is|validate|require)\w*$`)

func anyWrite(calls []string) bool {
	for _, c := range calls {
		if !readOnlyRE.MatchString(c) {
			return true
		}
	}
	return false
}

func cancelOrderGuard() (CancelGuard, error) {
	path := filepath.Join(repoRoot, "x/exchange/keeper/orders.go")
	g := CancelGuard{File: relPath(path), Kind: "Unrecognised", Text: "func (k Keeper) CancelOrder not found", Index: -1, Precalls: []string{}}
	f, err := parseFile(path)
	if err != nil {
		return g, err
	}
	for _, decl := range f.Decls {
		d, ok := decl.(*ast.FuncDecl)
		if !ok || d.Body == nil || recvTypeName(d) != "Keeper" || d.Name.Name != "CancelOrder" {
			continue
		}
		recv := recvName(d)
		pn := paramNames(d.Type)
		g.Line = lineOf(d)
		g.Text = "no `if signer != owner && !k.Can…(ctx, order.GetMarketID(), signer)` statement in CancelOrder"
		assigns := map[string]string{}
		for i, st := range d.Body.List {
			if as, isAs := st.(*ast.AssignStmt); isAs && len(as.Lhs) == 1 && len(as.Rhs) == 1 {
				if id, isId := as.Lhs[0].(*ast.Ident); isId {
					assigns[id.Name] = src(as.Rhs[0])
				}
			}
			ifs, isIf := st.(*ast.IfStmt)
			if isIf && mentionsPredicate(ifs.Cond) {
				g.Index = i
				g.Text = src(st)
				b, isB := ifs.Cond.(*ast.BinaryExpr)
				if !isB || b.Op != token.LAND || ifs.Init != nil || ifs.Else != nil || !isErrReturn(ifs.Body, 1) {
					return g, nil
				}
				l, isL := b.X.(*ast.BinaryExpr)
				u, isU := b.Y.(*ast.UnaryExpr)
				if !isL || l.Op != token.NEQ || !isU || u.Op != token.NOT {
					return g, nil
				}
				c, isC := u.X.(*ast.CallExpr)
				if !isC || len(c.Args) != 3 {
					return g, nil
				}
				s, isS := c.Fun.(*ast.SelectorExpr)
				if !isS || rootIdent(s) != recv {
					return g, nil
				}
				g.Signer, g.Owner = src(l.X), src(l.Y)
				g.Helper, g.MarketSrc, g.Caller = s.Sel.Name, src(c.Args[1]), src(c.Args[2])
				g.OwnerSrc = assigns[g.Owner]
				if len(pn) == 3 && g.Signer == pn[2] && g.Caller == pn[2] {
					g.Kind = "OwnerOr"
					g.Text = ""
				}
				g.PreWrite = anyWrite(g.Precalls)
				return g, nil
			}
			if usesIdent(st, recv) {
				g.Precalls = append(g.Precalls, recvCalls(st, recv)...)
			}
		}
		return g, nil
	}
	return g, nil
}

type PaymentFunc struct {
	Func    string     `json:"func"`
	File    string     `json:"file"`
	Line    int        `json:"line"`
	Sig     string     `json:"sig"`
	Conds   [][]string `json:"conds"`   // top-level `if A != B { return err }`
	Lookups []string   `json:"lookups"` // calls that read payments from the store
}

func paymentFuncs() ([]PaymentFunc, error) {
	path := filepath.Join(repoRoot, "x/exchange/keeper/payments.go")
	f, err := parseFile(path)
	if err != nil {
		return nil, err
	}
	want := map[string]bool{"AcceptPayment": true, "RejectPayment": true, "RejectPayments": true, "CancelPayments": true, "UpdatePaymentTarget": true}
	lookupRE := regexp.MustCompile(`^(requirePaymentFromStore|getPaymentFromStore|getPaymentsForTargetAndSourceFromStore)$`)
	var out []PaymentFunc
	for _, decl := range f.Decls {
		d, ok := decl.(*ast.FuncDecl)
		if !ok || d.Body == nil || recvTypeName(d) != "Keeper" || !want[d.Name.Name] {
			continue
		}
		pf := PaymentFunc{Func: d.Name.Name, File: relPath(path), Line: lineOf(d), Conds: [][]string{}, Lookups: []string{}}
		pf.Sig = "(" + strings.Join(paramNames(d.Type), ", ") + ")"
		for _, st := range d.Body.List {
			if ifs, isIf := st.(*ast.IfStmt); isIf && ifs.Init == nil && ifs.Else == nil && isErrReturn(ifs.Body, 1) {
				if b, isB := ifs.Cond.(*ast.BinaryExpr); isB && b.Op == token.NEQ {
					pf.Conds = append(pf.Conds, []string{src(b.X), src(b.Y)})
				}
			}
		}
		ast.Inspect(d.Body, func(x ast.Node) bool {
			if c, isC := x.(*ast.CallExpr); isC {
				if s, isS := c.Fun.(*ast.SelectorExpr); isS && lookupRE.MatchString(s.Sel.Name) {
					pf.Lookups = append(pf.Lookups, src(c))
				}
			}
			return true
		})
		delete(want, d.Name.Name)
		out = append(out, pf)
	}
	var missing []string
	for n := range want {
		missing = append(missing, n)
	}
	sort.Strings(missing)
	for _, n := range missing {
		out = append(out, PaymentFunc{Func: n, File: relPath(path), Sig: "Unrecognised: function not found", Conds: [][]string{}, Lookups: []string{}})
	}
	return out, nil
}

type CustomSigner struct {
	Msg   string `json:"msg"`
	Field string `json:"field"`
	File  string `json:"file"`
	Line  int    `json:"line"`
}

func customSigners() ([]CustomSigner, error) {
	path := filepath.Join(repoRoot, "x/exchange/msgs.go")
	f, err := parseFile(path)
	if err != nil {
		return nil, err
	}
	var out []CustomSigner
	for _, decl := range f.Decls {
		d, ok := decl.(*ast.FuncDecl)
		if !ok || d.Body == nil || d.Name.Name != "DefineCustomGetSigners" {
			continue
		}
		ast.Inspect(d.Body, func(x ast.Node) bool {
			c, isC := x.(*ast.CallExpr)
			if !isC {
				return true
			}
			s, isS := c.Fun.(*ast.SelectorExpr)
			if !isS || s.Sel.Name != "DefineCustomGetSigners" || len(c.Args) != 2 {
				return true
			}
			cs := CustomSigner{Msg: "Unrecognised: " + src(c.Args[0]), Field: "Unrecognised: " + src(c.Args[1]), File: relPath(path), Line: lineOf(c)}
			ast.Inspect(c.Args[0], func(y ast.Node) bool {
				if cl, isCl := y.(*ast.CompositeLit); isCl {
					if id, isId := cl.Type.(*ast.Ident); isId {
						cs.Msg = id.Name
					}
				}
				return true
			})
			if c2, isC2 := c.Args[1].(*ast.CallExpr); isC2 && len(c2.Args) == 2 {
				if id, isId := c2.Fun.(*ast.Ident); isId && id.Name == "createPaymentGetSignersFunc" {
					if lit, isLit := c2.Args[1].(*ast.BasicLit); isLit && lit.Kind == token.STRING {
						if v, e := strconv.Unquote(lit.Value); e == nil {
							cs.Field = "payment." + v
						}
					}
				}
			}
			out = append(out, cs)
			return false
		})
	}
	return out, nil
}

// ---------------------------------------------------------------- 3. governance endpoints of every module

type GovRow struct {
	Module   string   `json:"module"`
	Endpoint string   `json:"endpoint"`
	Request  string   `json:"request"`
	File     string   `json:"file"`
	Line     int      `json:"line"`
	Guard    string   `json:"guard"` // Authority | AuthorityOr | Other | Reject | None | Unrecognised
	Detail   string   `json:"detail"`
	Index    int      `json:"index"`
	Precalls []string `json:"precalls"`
	PreWrite bool     `json:"pre_write"`
}

// authority-typed request structs of one module: struct types in tx.pb.go with a field `Authority string`.
func authorityRequests(moduleDir string) (map[string]string, error) {
	out := map[string]string{}
	err := filepath.Walk(moduleDir, func(p string, info os.FileInfo, err error) error {
		if err != nil {
			return err
		}
		if info.IsDir() || filepath.Base(p) != "tx.pb.go" {
			return nil
		}
		f, e := parseFile(p)
		if e != nil {
			return e
		}
		for _, decl := range f.Decls {
			gd, ok := decl.(*ast.GenDecl)
			if !ok || gd.Tok != token.TYPE {
				continue
			}
			for _, sp := range gd.Specs {
				ts := sp.(*ast.TypeSpec)
				st, isSt := ts.Type.(*ast.StructType)
				if !isSt {
					continue
				}
				for _, fl := range st.Fields.List {
					for _, n := range fl.Names {
						if n.Name == "Authority" && src(fl.Type) == "string" {
							out[ts.Name.Name] = relPath(p) + ":" + strconv.Itoa(lineOf(ts))
						}
					}
				}
			}
		}
		return nil
	})
	return out, err
}

// isField: <msg>.Authority or <msg>.GetAuthority()
func isAuthorityField(e ast.Expr, msg string) bool {
	if f, ok := msgField(e, msg); ok && f == "Authority" {
		return true
	}
	if c, ok := e.(*ast.CallExpr); ok && len(c.Args) == 0 {
		if f, ok := msgField(c.Fun, msg); ok && f == "GetAuthority" {
			return true
		}
	}
	return false
}

// isKeeperAuthority: <recv…>.GetAuthority() or <recv…>.authority
func isKeeperAuthority(e ast.Expr, recv string) (string, bool) {
	if c, ok := e.(*ast.CallExpr); ok && len(c.Args) == 0 {
		if s, ok := c.Fun.(*ast.SelectorExpr); ok && s.Sel.Name == "GetAuthority" && rootIdent(s) == recv {
			ch := selChain(s)
			if ch == "GetAuthority" || ch == "Keeper.GetAuthority" {
				return "GetAuthority", true
			}
		}
		return "", false
	}
	if s, ok := e.(*ast.SelectorExpr); ok && s.Sel.Name == "authority" && rootIdent(s) == recv {
		ch := selChain(s)
		if ch == "authority" || ch == "Keeper.authority" {
			return "authority", true
		}
	}
	return "", false
}

// splitFieldCompare: b is `<field> op X` or `X op <field>`; returns X.
func splitFieldCompare(b *ast.BinaryExpr, msg string) (ast.Expr, bool) {
	if isAuthorityField(b.X, msg) {
		return b.Y, true
	}
	if isAuthorityField(b.Y, msg) {
		return b.X, true
	}
	return nil, false
}

func usesAuthorityField(n ast.Node, msg string) bool {
	found := false
	ast.Inspect(n, func(x ast.Node) bool {
		if e, ok := x.(ast.Expr); ok && isAuthorityField(e, msg) {
			found = true
		}
		return !found
	})
	return found
}

func matchGovGuard(st ast.Stmt, recv, msg string) (guard, detail string, ok bool) {
	if f, okv := matchValidateAuthority(st, recv, msg); okv {
		if f == "Authority" {
			return "Authority", "ValidateAuthority", true
		}
		return
	}
	ifs, isIf := st.(*ast.IfStmt)
	if !isIf || ifs.Init != nil {
		return
	}
	b, isB := ifs.Cond.(*ast.BinaryExpr)
	if !isB {
		return
	}
	switch b.Op {
	case token.NEQ:
		if ifs.Else != nil || !isErrReturn(ifs.Body, 2) {
			return
		}
		x, okx := splitFieldCompare(b, msg)
		if !okx {
			return
		}
		if via, isA := isKeeperAuthority(x, recv); isA {
			return "Authority", via, true
		}
		return "Other", src(x), true
	case token.LAND:
		if ifs.Else != nil || !isErrReturn(ifs.Body, 2) {
			return
		}
		l, isL := b.X.(*ast.BinaryExpr)
		r, isR := b.Y.(*ast.BinaryExpr)
		if !isL || !isR || l.Op != token.NEQ || r.Op != token.NEQ {
			return
		}
		lx, okl := splitFieldCompare(l, msg)
		rx, okr := splitFieldCompare(r, msg)
		if !okl || !okr {
			return
		}
		_, la := isKeeperAuthority(lx, recv)
		_, ra := isKeeperAuthority(rx, recv)
		switch {
		case la && !ra:
			return "AuthorityOr", src(rx), true
		case ra && !la:
			return "AuthorityOr", src(lx), true
		}
		return
	case token.EQL:
		x, okx := splitFieldCompare(b, msg)
		if !okx {
			return
		}
		if _, isA := isKeeperAuthority(x, recv); !isA {
			return
		}
		e2, isE2 := ifs.Else.(*ast.IfStmt)
		if !isE2 || e2.Init == nil || e2.Else != nil || !isErrReturn(e2.Body, 2) {
			return
		}
		as, isAs := e2.Init.(*ast.AssignStmt)
		if !isAs || len(as.Lhs) != 1 || len(as.Rhs) != 1 {
			return
		}
		errId, isId := as.Lhs[0].(*ast.Ident)
		if !isId || !isErrNotNil(e2.Cond, errId.Name) {
			return
		}
		c, isC := as.Rhs[0].(*ast.CallExpr)
		if !isC || !usesAuthorityField(c, msg) {
			return
		}
		// the authority branch itself must not return success
		for _, s := range ifs.Body.List {
			bad := false
			ast.Inspect(s, func(y ast.Node) bool {
				if r, isR := y.(*ast.ReturnStmt); isR && len(r.Results) == 2 && isNil(r.Results[1]) {
					bad = true
				}
				return !bad
			})
			if bad {
				return
			}
		}
		return "AuthorityOr", src(c), true
	}
	return
}

func govEndpoints() ([]GovRow, []FuncShape, error) {
	xdir := filepath.Join(repoRoot, "x")
	ents, err := os.ReadDir(xdir)
	if err != nil {
		return nil, nil, err
	}
	var rows []GovRow
	var validators []FuncShape
	for _, ent := range ents {
		if !ent.IsDir() {
			continue
		}
		module := ent.Name()
		mdir := filepath.Join(xdir, module)
		reqs, err := authorityRequests(mdir)
		if err != nil {
			return nil, nil, err
		}
		var files []string
		err = filepath.Walk(mdir, func(p string, info os.FileInfo, err error) error {
			if err != nil {
				return err
			}
			if info.IsDir() {
				return nil
			}
			n := filepath.Base(p)
			if !strings.HasSuffix(n, ".go") || strings.HasSuffix(n, "_test.go") || strings.HasSuffix(n, ".pb.go") || strings.HasSuffix(n, ".pb.gw.go") {
				return nil
			}
			files = append(files, p)
			return nil
		})
		if err != nil {
			return nil, nil, err
		}
		sort.Strings(files)
		seen := map[string]bool{}
		for _, p := range files {
			f, err := parseFile(p)
			if err != nil {
				return nil, nil, err
			}
			for _, decl := range f.Decls {
				d, ok := decl.(*ast.FuncDecl)
				if !ok || d.Recv == nil || d.Body == nil {
					continue
				}
				if recvTypeName(d) == "Keeper" && (d.Name.Name == "ValidateAuthority" || d.Name.Name == "IsAuthority" || d.Name.Name == "GetAuthority") {
					fs := funcShape(d, p)
					fs.Name = module + "." + d.Name.Name
					// normalise the receiver name away
					if r := recvName(d); r != "" && r != "k" {
						for i := range fs.Stmts {
							fs.Stmts[i] = regexp.MustCompile(`\b`+regexp.QuoteMeta(r)+`\.`).ReplaceAllString(fs.Stmts[i], "k.")
						}
					}
					validators = append(validators, fs)
					continue
				}
				msg, req, isH := handlerSig(d)
				if !isH {
					continue
				}
				if _, isAuth := reqs[req]; !isAuth {
					continue
				}
				seen[req] = true
				recv := recvName(d)
				row := GovRow{Module: module, Endpoint: d.Name.Name, Request: req, File: relPath(p), Line: lineOf(d), Index: -1, Precalls: []string{}}
				for i, st := range d.Body.List {
					if g, det, okg := matchGovGuard(st, recv, msg); okg {
						row.Guard, row.Detail, row.Index = g, det, i
						break
					}
					if usesAuthorityField(st, msg) || (usesIdent(st, recv) && mentionsPredicate(st)) {
						row.Guard, row.Detail, row.Index = "Unrecognised", src(st), i
						break
					}
					if usesIdent(st, recv) {
						row.Precalls = append(row.Precalls, recvCalls(st, recv)...)
					}
				}
				if row.Guard == "" {
					n := len(d.Body.List)
					if n == 1 && len(row.Precalls) == 0 {
						if r, isR := d.Body.List[0].(*ast.ReturnStmt); isR && len(r.Results) == 2 && isNil(r.Results[0]) && !isNil(r.Results[1]) {
							row.Guard, row.Index = "Reject", 0
						}
					}
					if row.Guard == "" {
						row.Guard = "None"
						if len(row.Precalls) > 0 {
							row.Detail = row.Precalls[0]
						}
					}
				}
				row.PreWrite = anyWrite(row.Precalls)
				rows = append(rows, row)
			}
		}
		var missing []string
		for r := range reqs {
			if !seen[r] {
				missing = append(missing, r)
			}
		}
		sort.Strings(missing)
		for _, r := range missing {
			rows = append(rows, GovRow{Module: module, Endpoint: "?", Request: r, File: strings.Split(reqs[r], ":")[0], Guard: "Unrecognised",
				Detail: "request type has an Authority field but no handler method (ctx, *" + r + ") (*Resp, error) was found", Index: -1, Precalls: []string{}})
		}
	}
	return rows, validators, nil
}

// ---------------------------------------------------------------- main

type Output struct {
	Repo               string         `json:"repo"`
	ExchangeEndpoints  []Endpoint     `json:"exchange_endpoints"`
	CanHelpers         []CanHelper    `json:"can_helpers"`
	HasPermission      FuncShape      `json:"has_permission"`
	StoreHasPermission FuncShape      `json:"store_has_permission"`
	CancelOrder        CancelGuard    `json:"cancel_order"`
	PaymentFuncs       []PaymentFunc  `json:"payment_funcs"`
	CustomSigners      []CustomSigner `json:"custom_signers"`
	GovEndpoints       []GovRow       `json:"gov_endpoints"`
	AuthorityFuncs     []FuncShape    `json:"authority_funcs"`
}

func main() {
	if len(os.Args) != 2 {
		fmt.Fprintln(os.Stderr, "usage: goextract <repo-root>")
		os.Exit(2)
	}
	var err error
	repoRoot, err = filepath.Abs(os.Args[1])
	if err != nil {
		fmt.Fprintln(os.Stderr, err)
		os.Exit(1)
	}
	out := Output{Repo: repoRoot}
	fail := func(e error) {
		if e != nil {
			fmt.Fprintln(os.Stderr, "goextract:", e)
			os.Exit(1)
		}
	}
	out.ExchangeEndpoints, err = exchangeEndpoints()
	fail(err)
	out.CanHelpers, out.HasPermission, out.StoreHasPermission, err = marketHelpers()
	fail(err)
	out.CancelOrder, err = cancelOrderGuard()
	fail(err)
	out.PaymentFuncs, err = paymentFuncs()
	fail(err)
	out.CustomSigners, err = customSigners()
	fail(err)
	out.GovEndpoints, out.AuthorityFuncs, err = govEndpoints()
	fail(err)
	enc := json.NewEncoder(os.Stdout)
	enc.SetIndent("", " ")
	fail(enc.Encode(out))
}
