// goextract: the source-to-table translator of the verification framework.
//
// It parses NON-test Go files of the provenance repository with go/parser (no type checking, no
// dependencies) and prints one JSON document with the tables that coq/Gen/*.v are rendered from
// by translate/gen_coq.py.  It translates TABLES (which guard protects which endpoint, which
// permission constant a helper tests, which comparison an authority check makes), never
// algorithms.
//
// Robustness to harmless rewrites: everything the tables contain is ALPHA-NORMALISED.  Local
// variables are replaced by what they are bound to (`addr, err := sdk.AccAddressFromBech32(address)`
// makes `addr` print as `sdk.AccAddressFromBech32(#2)`), parameters print by position (#i; the
// context as `ctx`, a handler's request as `msg`), the receiver as `k`, protobuf getters as fields
// (`msg.GetAuthority()` = `msg.Authority`).  Guards are recognised through these bindings, so
// `if err := f(); err != nil`, `err := f()` followed by `if err != nil`, a comparison through a
// freshly bound local, swapped operands of ==/!=, `!strings.EqualFold(a, b)`, and `else { if … }`
// versus `else if …` all give the same row.  Error VALUES are not part of any row.
//
// Every shape it does not recognise is emitted as a row of kind "Unrecognised" carrying the
// normalised text, never dropped: the Coq obligations over the generated tables then fail to check.
//
// usage: goextract <repo-root>   (JSON on stdout)
package main

import (
	"bytes"
	"encoding/json"
	"fmt"
	"go/ast"
	"go/parser"
	"go/printer"
	"go/token"
	"os"
	"path/filepath"
	"regexp"
	"sort"
	"strconv"
	"strings"
)

var fset = token.NewFileSet()
var repoRoot string

// ---------------------------------------------------------------- generic helpers

var wsRE = regexp.MustCompile(`\s+`)

// src renders a node as one line of source text (used only as a fallback and for diagnostics).
func src(n ast.Node) string {
	if n == nil {
		return ""
	}
	var b bytes.Buffer
	if err := printer.Fprint(&b, fset, n); err != nil {
		return "<unprintable>"
	}
	return strings.TrimSpace(wsRE.ReplaceAllString(b.String(), " "))
}

func relPath(p string) string {
	r, err := filepath.Rel(repoRoot, p)
	if err != nil {
		return p
	}
	return r
}

func lineOf(n ast.Node) int { return fset.Position(n.Pos()).Line }

func parseFile(path string) (*ast.File, error) {
	return parser.ParseFile(fset, path, nil, parser.SkipObjectResolution)
}

func rootIdent(e ast.Expr) string {
	for {
		switch x := e.(type) {
		case *ast.Ident:
			return x.Name
		case *ast.SelectorExpr:
			e = x.X
		case *ast.CallExpr:
			e = x.Fun
		case *ast.IndexExpr:
			e = x.X
		case *ast.ParenExpr:
			e = x.X
		case *ast.StarExpr:
			e = x.X
		case *ast.UnaryExpr:
			e = x.X
		default:
			return ""
		}
	}
}

func selChain(e ast.Expr) string {
	var parts []string
	for {
		s, ok := e.(*ast.SelectorExpr)
		if !ok {
			break
		}
		parts = append([]string{s.Sel.Name}, parts...)
		e = s.X
	}
	return strings.Join(parts, ".")
}

// usesIdent reports whether the identifier occurs in n (not counting selector field names).
func usesIdent(n ast.Node, name string) bool {
	if name == "" || name == "_" || n == nil {
		return false
	}
	found := false
	ast.Inspect(n, func(x ast.Node) bool {
		if found {
			return false
		}
		switch v := x.(type) {
		case *ast.SelectorExpr:
			if usesIdent(v.X, name) {
				found = true
			}
			return false
		case *ast.Ident:
			if v.Name == name {
				found = true
			}
		}
		return true
	})
	return found
}

// recvCalls lists the calls (selector chain without the receiver) made on the receiver in n.
func recvCalls(n ast.Node, recv string) []string {
	var out []string
	ast.Inspect(n, func(x ast.Node) bool {
		if c, ok := x.(*ast.CallExpr); ok {
			if s, ok := c.Fun.(*ast.SelectorExpr); ok && rootIdent(s) == recv {
				if _, isCall := s.X.(*ast.CallExpr); !isCall {
					out = append(out, selChain(s))
				}
			}
		}
		return true
	})
	return out
}

func isNil(e ast.Expr) bool {
	id, ok := e.(*ast.Ident)
	return ok && id.Name == "nil"
}

func recvTypeName(d *ast.FuncDecl) string {
	if d.Recv == nil || len(d.Recv.List) != 1 {
		return ""
	}
	t := d.Recv.List[0].Type
	if s, ok := t.(*ast.StarExpr); ok {
		t = s.X
	}
	if id, ok := t.(*ast.Ident); ok {
		return id.Name
	}
	return ""
}

func recvName(d *ast.FuncDecl) string {
	if d.Recv == nil || len(d.Recv.List) != 1 || len(d.Recv.List[0].Names) != 1 {
		return ""
	}
	n := d.Recv.List[0].Names[0].Name
	if n == "_" {
		return ""
	}
	return n
}

// handlerSig: func (r T) Name(ctx <any>, msg *<Req>) (*<Resp>, error); returns msg param name and request type name.
func handlerSig(d *ast.FuncDecl) (msgName, reqType string, ok bool) {
	ft := d.Type
	if ft.Params == nil || ft.Results == nil || len(ft.Params.List) != 2 || len(ft.Results.List) != 2 {
		return
	}
	if id, isId := ft.Results.List[1].Type.(*ast.Ident); !isId || id.Name != "error" {
		return
	}
	p := ft.Params.List[1]
	st, isStar := p.Type.(*ast.StarExpr)
	if !isStar {
		return
	}
	switch t := st.X.(type) {
	case *ast.Ident:
		reqType = t.Name
	case *ast.SelectorExpr:
		reqType = t.Sel.Name
	default:
		return
	}
	if len(p.Names) == 1 {
		msgName = p.Names[0].Name
	}
	if len(ft.Params.List[0].Names) > 1 {
		return "", "", false
	}
	return msgName, reqType, true
}

func paramNames(ft *ast.FuncType) []string {
	var out []string
	if ft.Params == nil {
		return out
	}
	for _, p := range ft.Params.List {
		for _, n := range p.Names {
			out = append(out, n.Name)
		}
	}
	return out
}

func paramTypes(ft *ast.FuncType) []string {
	var out []string
	if ft.Params == nil {
		return out
	}
	for _, p := range ft.Params.List {
		k := len(p.Names)
		if k == 0 {
			k = 1
		}
		for i := 0; i < k; i++ {
			out = append(out, src(p.Type))
		}
	}
	return out
}

// ---------------------------------------------------------------- scopes: bindings of locals, normalised text

type binding struct {
	expr ast.Expr // the bound right-hand side (nil when text is set)
	idx  int      // which result of expr
	n    int      // how many results expr has
	text string   // fixed rendering (range variables)
	val  string   // rendering of expr in the scope it was bound in (locals are inlined with the value they had then)
	uses int
	name string
}

type scope struct {
	recv    string
	params  map[string]string
	env     map[string]*binding
	all     *[]*binding
	errOnly bool      // the function returns a single `error`: its non-nil return values print as $error
	lookups *[]string // calls matching lookupRE seen while printing
	depth   int
}

var lookupRE = regexp.MustCompile(`^(requirePaymentFromStore|getPaymentFromStore|getPaymentsForTargetAndSourceFromStore)$`)

func isContextType(t string) bool { return t == "sdk.Context" || t == "context.Context" }

// newScope: handler=true names the second parameter msg.
func newScope(d *ast.FuncDecl, handler bool) *scope {
	s := &scope{recv: recvName(d), params: map[string]string{}, env: map[string]*binding{}, all: &[]*binding{}, lookups: &[]string{}}
	names, types := paramNames(d.Type), paramTypes(d.Type)
	if len(names) == len(types) {
		for i, n := range names {
			if n == "_" {
				continue
			}
			switch {
			case isContextType(types[i]):
				s.params[n] = "ctx"
			case handler && i == 1:
				s.params[n] = "msg"
			default:
				s.params[n] = "#" + strconv.Itoa(i)
			}
		}
	}
	if r := d.Type.Results; r != nil && len(r.List) == 1 && len(r.List[0].Names) <= 1 && src(r.List[0].Type) == "error" {
		s.errOnly = true
	}
	return s
}

func (s *scope) child() *scope {
	c := *s
	c.env = make(map[string]*binding, len(s.env))
	for k, v := range s.env {
		c.env[k] = v
	}
	return &c
}

func (s *scope) set(name string, b *binding) {
	if name == "_" {
		return
	}
	if b.expr != nil && b.val == "" {
		b.val = s.nt(b.expr)
	}
	b.name = name
	s.env[name] = b
	*s.all = append(*s.all, b)
}

// bind records `a, b := f(x)` / `a = e` / `var a = e` when every left-hand side is a plain identifier.
func (s *scope) bind(st ast.Stmt) bool {
	switch v := st.(type) {
	case *ast.AssignStmt:
		if v.Tok != token.DEFINE && v.Tok != token.ASSIGN {
			return false
		}
		for _, l := range v.Lhs {
			if _, ok := l.(*ast.Ident); !ok {
				return false
			}
		}
		if len(v.Rhs) == 1 {
			val := s.nt(v.Rhs[0])
			for i, l := range v.Lhs {
				s.set(l.(*ast.Ident).Name, &binding{expr: v.Rhs[0], idx: i, n: len(v.Lhs), val: val})
			}
			return true
		}
		if len(v.Rhs) == len(v.Lhs) {
			vals := make([]string, len(v.Rhs))
			for i := range v.Rhs {
				vals[i] = s.nt(v.Rhs[i])
			}
			for i, l := range v.Lhs {
				s.set(l.(*ast.Ident).Name, &binding{expr: v.Rhs[i], idx: 0, n: 1, val: vals[i]})
			}
			return true
		}
	case *ast.DeclStmt:
		gd, ok := v.Decl.(*ast.GenDecl)
		if !ok || gd.Tok != token.VAR {
			return false
		}
		for _, sp := range gd.Specs {
			vs, ok := sp.(*ast.ValueSpec)
			if !ok {
				return false
			}
			if len(vs.Values) == 0 {
				for _, n := range vs.Names { // zero value: nothing to inline
					delete(s.env, n.Name)
				}
				continue
			}
			if len(vs.Values) != len(vs.Names) {
				return false
			}
			for i, n := range vs.Names {
				s.set(n.Name, &binding{expr: vs.Values[i], idx: 0, n: 1})
			}
		}
		return true
	}
	return false
}

// bindingRHS returns the right-hand sides of a statement that bind() accepts.
func bindingRHS(st ast.Stmt) []ast.Expr {
	switch v := st.(type) {
	case *ast.AssignStmt:
		return v.Rhs
	case *ast.DeclStmt:
		var out []ast.Expr
		if gd, ok := v.Decl.(*ast.GenDecl); ok {
			for _, sp := range gd.Specs {
				if vs, ok := sp.(*ast.ValueSpec); ok {
					out = append(out, vs.Values...)
				}
			}
		}
		return out
	}
	return nil
}

// resolve follows identifiers through their bindings; for a multi-valued binding it returns the
// bound call together with the binding (which says which result).
func (s *scope) resolve(e ast.Expr) (ast.Expr, *binding) {
	for i := 0; i < 20; i++ {
		switch v := e.(type) {
		case *ast.ParenExpr:
			e = v.X
			continue
		case *ast.Ident:
			if b, ok := s.env[v.Name]; ok && b.expr != nil {
				if b.n == 1 {
					e = b.expr
					continue
				}
				return b.expr, b
			}
		}
		break
	}
	return e, nil
}

// callOf: e (through bindings) is a result of a call; returns the call and which result.
func (s *scope) callOf(e ast.Expr) (*ast.CallExpr, int, int) {
	r, b := s.resolve(e)
	c, ok := r.(*ast.CallExpr)
	if !ok {
		return nil, 0, 0
	}
	if b != nil {
		return c, b.idx, b.n
	}
	return c, 0, 1
}

var getterRE = regexp.MustCompile(`^Get([A-Z]\w*)$`)

// nt: normalised text of an expression.
func (s *scope) nt(e ast.Expr) string {
	if s.depth > 40 {
		return "<deep>"
	}
	s.depth++
	defer func() { s.depth-- }()
	switch v := e.(type) {
	case nil:
		return ""
	case *ast.Ident:
		if v.Name == s.recv && s.recv != "" {
			return "k"
		}
		if p, ok := s.params[v.Name]; ok {
			if _, shadow := s.env[v.Name]; !shadow {
				return p
			}
		}
		if b, ok := s.env[v.Name]; ok {
			b.uses++
			if b.text != "" {
				return b.text
			}
			// a context derived from the context is the context
			if b.val == "sdk.UnwrapSDKContext(ctx)" {
				return "ctx"
			}
			t := b.val
			if b.n > 1 && b.idx > 0 {
				return "$" + strconv.Itoa(b.idx+1) + "of(" + t + ")"
			}
			return t
		}
		return v.Name
	case *ast.BasicLit:
		return v.Value
	case *ast.ParenExpr:
		return "(" + s.nt(v.X) + ")"
	case *ast.StarExpr:
		return "*" + s.nt(v.X)
	case *ast.UnaryExpr:
		return v.Op.String() + s.nt(v.X)
	case *ast.BinaryExpr:
		return s.nt(v.X) + " " + v.Op.String() + " " + s.nt(v.Y)
	case *ast.SelectorExpr:
		return s.nt(v.X) + "." + v.Sel.Name
	case *ast.IndexExpr:
		return s.nt(v.X) + "[" + s.nt(v.Index) + "]"
	case *ast.CallExpr:
		if sel, ok := v.Fun.(*ast.SelectorExpr); ok && len(v.Args) == 0 {
			if m := getterRE.FindStringSubmatch(sel.Sel.Name); m != nil {
				base := s.nt(sel.X)
				if base == "msg" || strings.HasPrefix(base, "msg.") || strings.HasPrefix(base, "#") {
					return base + "." + m[1] // protobuf getter
				}
			}
		}
		var args []string
		for _, a := range v.Args {
			args = append(args, s.nt(a))
		}
		ell := ""
		if v.Ellipsis.IsValid() {
			ell = "..."
		}
		t := s.nt(v.Fun) + "(" + strings.Join(args, ", ") + ell + ")"
		if t == "sdk.UnwrapSDKContext(ctx)" { // a context derived from the context is the context
			return "ctx"
		}
		if sel, ok := v.Fun.(*ast.SelectorExpr); ok && lookupRE.MatchString(sel.Sel.Name) {
			seen := false
			for _, l := range *s.lookups {
				if l == t {
					seen = true
				}
			}
			if !seen {
				*s.lookups = append(*s.lookups, t)
			}
		}
		return t
	}
	return src(e)
}

// elseIf unwraps `else if …` and `else { if … }`.
func elseIf(e ast.Stmt) *ast.IfStmt {
	switch v := e.(type) {
	case *ast.IfStmt:
		return v
	case *ast.BlockStmt:
		if len(v.List) == 1 {
			if i, ok := v.List[0].(*ast.IfStmt); ok {
				return i
			}
		}
	}
	return nil
}

// ntStmts: normalised statements of a block; binding statements only feed the scope.
func (s *scope) ntStmts(list []ast.Stmt) []string {
	var out []string
	for _, st := range list {
		out = append(out, s.ntStmt(st)...)
	}
	return out
}

func (s *scope) ntBlock(b *ast.BlockStmt) string {
	if b == nil {
		return "{ }"
	}
	c := s.child()
	return "{ " + strings.Join(c.ntStmts(b.List), "; ") + " }"
}

func (s *scope) ntStmt(st ast.Stmt) []string {
	switch v := st.(type) {
	case *ast.AssignStmt, *ast.DeclStmt:
		if s.bind(st) { // (binding renders the right-hand sides, which also feeds the side table of store lookups)
			return nil
		}
		if a, ok := v.(*ast.AssignStmt); ok {
			var l, r []string
			for _, x := range a.Lhs {
				l = append(l, s.nt(x))
			}
			for _, x := range a.Rhs {
				r = append(r, s.nt(x))
			}
			return []string{strings.Join(l, ", ") + " " + a.Tok.String() + " " + strings.Join(r, ", ")}
		}
		return []string{src(st)}
	case *ast.ExprStmt:
		return []string{s.nt(v.X)}
	case *ast.ReturnStmt:
		if s.errOnly && len(v.Results) == 1 && !isNil(v.Results[0]) {
			return []string{"return $error"}
		}
		var r []string
		for _, x := range v.Results {
			r = append(r, s.nt(x))
		}
		return []string{strings.TrimSpace("return " + strings.Join(r, ", "))}
	case *ast.BlockStmt:
		return []string{s.ntBlock(v)}
	case *ast.IfStmt:
		c := s.child()
		t := "if "
		if v.Init != nil && !c.bind(v.Init) {
			t += strings.Join(c.ntStmt(v.Init), "; ") + "; "
		}
		t += c.nt(v.Cond) + " " + c.ntBlock(v.Body)
		if v.Else != nil {
			if ei := elseIf(v.Else); ei != nil {
				t += " else " + strings.Join(c.ntStmt(ei), "; ")
			} else if b, ok := v.Else.(*ast.BlockStmt); ok {
				t += " else " + c.ntBlock(b)
			}
		}
		return []string{t}
	case *ast.RangeStmt:
		c := s.child()
		x := c.nt(v.X)
		if id, ok := v.Key.(*ast.Ident); ok && v.Key != nil {
			c.set(id.Name, &binding{text: "$key(" + x + ")"})
		}
		if id, ok := v.Value.(*ast.Ident); ok && v.Value != nil {
			c.set(id.Name, &binding{text: "$elem(" + x + ")"})
		}
		return []string{"for range " + x + " " + c.ntBlock(v.Body)}
	}
	return []string{src(st)}
}

// unused: bindings nobody read (their right-hand sides would otherwise vanish from a fingerprint).
func (s *scope) unused() []string {
	var out []string
	for _, b := range *s.all {
		if b.uses == 0 && b.expr != nil && b.idx == 0 {
			out = append(out, "$unused("+b.val+")")
		}
	}
	return out
}

// ---------------------------------------------------------------- shape recognisers shared by the tables

// isErrReturn: the block ends in `return nil, <non-nil>` (nres=2) / `return <non-nil>` (nres=1) and
// does nothing with the keeper before that.
func isErrReturn(b *ast.BlockStmt, nres int, recv string) bool {
	if b == nil || len(b.List) == 0 {
		return false
	}
	for _, st := range b.List[:len(b.List)-1] {
		if usesIdent(st, recv) {
			return false
		}
		hasRet := false
		ast.Inspect(st, func(x ast.Node) bool {
			if _, ok := x.(*ast.ReturnStmt); ok {
				hasRet = true
			}
			return !hasRet
		})
		if hasRet {
			return false
		}
	}
	r, ok := b.List[len(b.List)-1].(*ast.ReturnStmt)
	if !ok || len(r.Results) != nres {
		return false
	}
	if nres == 2 {
		return isNil(r.Results[0]) && !isNil(r.Results[1])
	}
	return !isNil(r.Results[0])
}

// compare: cond (through bindings) is `x != y`, `x == y`, `!strings.EqualFold(x, y)` or `strings.EqualFold(x, y)`.
func (s *scope) compare(cond ast.Expr) (op token.Token, x, y ast.Expr, ok bool) {
	e, _ := s.resolve(cond)
	neg := false
	for {
		if p, isP := e.(*ast.ParenExpr); isP {
			e = p.X
			continue
		}
		if u, isU := e.(*ast.UnaryExpr); isU && u.Op == token.NOT {
			neg = !neg
			e, _ = s.resolve(u.X)
			continue
		}
		break
	}
	switch v := e.(type) {
	case *ast.BinaryExpr:
		if v.Op == token.NEQ || v.Op == token.EQL {
			op = v.Op
			x, y = v.X, v.Y
		} else {
			return
		}
	case *ast.CallExpr:
		if src(v.Fun) != "strings.EqualFold" || len(v.Args) != 2 {
			return
		}
		op, x, y = token.EQL, v.Args[0], v.Args[1]
	default:
		return
	}
	if neg {
		if op == token.EQL {
			op = token.NEQ
		} else {
			op = token.EQL
		}
	}
	return op, x, y, true
}

// errCheck: cond is `e != nil` where e is the LAST result of a call; returns the call.
func (s *scope) errCheck(cond ast.Expr) *ast.CallExpr {
	op, x, y, ok := s.compare(cond)
	if !ok || op != token.NEQ {
		return nil
	}
	if isNil(x) {
		x, y = y, x
	}
	if !isNil(y) {
		return nil
	}
	c, idx, n := s.callOf(x)
	if c == nil || idx != n-1 {
		return nil
	}
	return c
}

// negatedCall: cond is `!f(...)` (through bindings); returns the call.
func (s *scope) negatedCall(cond ast.Expr) *ast.CallExpr {
	e, _ := s.resolve(cond)
	if p, ok := e.(*ast.ParenExpr); ok {
		e = p.X
	}
	u, ok := e.(*ast.UnaryExpr)
	if !ok || u.Op != token.NOT {
		return nil
	}
	c, idx, n := s.callOf(u.X)
	if c == nil || idx != 0 || n != 1 {
		return nil
	}
	return c
}

var predicateRE = regexp.MustCompile(`^(Can[A-Z]\w*|HasPermission|ValidateAuthority|IsAuthority|GetAuthority)$`)
var predicateTextRE = regexp.MustCompile(`\bk\.(Keeper\.)?(Can[A-Z]\w*|HasPermission|ValidateAuthority|IsAuthority|GetAuthority)\(|\bk\.(Keeper\.)?authority\b`)

// recvMethod: the call is <receiver…>.<name>(…); returns name.
func recvMethod(c *ast.CallExpr, recv string) string {
	sel, ok := c.Fun.(*ast.SelectorExpr)
	if !ok || rootIdent(sel) != recv || recv == "" {
		return ""
	}
	ch := selChain(sel)
	return strings.TrimPrefix(ch, "Keeper.")
}

// isPredicateBinding: `x := k.GetAuthority()`, `err := k.ValidateAuthority(…)`, `ok := k.CanX(…)`: reads of
// the authority / of permissions that a later statement uses as its guard.
func isPredicateBinding(st ast.Stmt, recv string) bool {
	rhs := bindingRHS(st)
	if len(rhs) != 1 {
		return false
	}
	c, ok := rhs[0].(*ast.CallExpr)
	if !ok {
		if sel, isSel := rhs[0].(*ast.SelectorExpr); isSel && sel.Sel.Name == "authority" && rootIdent(sel) == recv {
			return true
		}
		return false
	}
	return predicateRE.MatchString(recvMethod(c, recv)) && !strings.Contains(recvMethod(c, recv), ".")
}

// msgFieldOf: e normalises to msg.<Field>.
func (s *scope) msgFieldOf(e ast.Expr) (string, bool) {
	t := s.nt(e)
	if strings.HasPrefix(t, "msg.") && !strings.ContainsAny(t[4:], ".( ") {
		return t[4:], true
	}
	return "", false
}

// ---------------------------------------------------------------- 1. exchange MsgServer endpoints

type Endpoint struct {
	Name           string   `json:"name"`
	File           string   `json:"file"`
	Line           int      `json:"line"`
	Guard          string   `json:"guard"` // Can | Authority | Reject | None | Unrecognised
	Helper         string   `json:"helper"`
	MarketField    string   `json:"market_field"`
	CallerField    string   `json:"caller_field"`
	AuthorityField string   `json:"authority_field"`
	FirstCall      string   `json:"first_call"`
	FirstCallText  string   `json:"first_call_text"`
	Index          int      `json:"index"`
	Precall        bool     `json:"precall"`
	Precalls       []string `json:"precalls"`
	Text           string   `json:"text"`
}

// matchCanGuard: if !k.CanXxx(ctx, msg.A, msg.B) { return nil, <error> }
func matchCanGuard(s *scope, ifs *ast.IfStmt) (helper, mf, cf string, ok bool) {
	if ifs.Else != nil || !isErrReturn(ifs.Body, 2, s.recv) {
		return
	}
	c := s.negatedCall(ifs.Cond)
	if c == nil || len(c.Args) != 3 {
		return
	}
	name := recvMethod(c, s.recv)
	if !strings.HasPrefix(name, "Can") || strings.Contains(name, ".") {
		return
	}
	if s.nt(c.Args[0]) != "ctx" {
		return
	}
	var ok1, ok2 bool
	mf, ok1 = s.msgFieldOf(c.Args[1])
	cf, ok2 = s.msgFieldOf(c.Args[2])
	if !ok1 || !ok2 {
		return
	}
	return name, mf, cf, true
}

// matchValidateAuthority: the error of k.ValidateAuthority(msg.F) is checked and returned.
func matchValidateAuthority(s *scope, ifs *ast.IfStmt) (field string, ok bool) {
	if ifs.Else != nil || !isErrReturn(ifs.Body, 2, s.recv) {
		return
	}
	c := s.errCheck(ifs.Cond)
	if c == nil || len(c.Args) != 1 || recvMethod(c, s.recv) != "ValidateAuthority" {
		return
	}
	return s.msgFieldOf(c.Args[0])
}

// ifScope: the scope inside an if statement (its init bound); usable=false when the init is not a
// plain binding or evaluates something other than a predicate on the keeper.
func ifScope(s *scope, ifs *ast.IfStmt) (*scope, bool) {
	c := s.child()
	if ifs.Init == nil {
		return c, true
	}
	if usesIdent(ifs.Init, s.recv) && !isPredicateBinding(ifs.Init, s.recv) {
		return c, false
	}
	return c, c.bind(ifs.Init)
}

// matchWrapperGuard: `if err := k.<helper>(…); err != nil { return nil, <error> }` where <helper> is a
// function of the same directory that only checks (paths.go wrapperPred) and what it checks is one
// Can* helper on request fields / ValidateAuthority on a request field.
func matchWrapperGuard(s *scope, ifs *ast.IfStmt) (p *Pred, ok bool) {
	if ifs.Else != nil || !isErrReturn(ifs.Body, 2, s.recv) {
		return nil, false
	}
	c := s.errCheck(ifs.Cond)
	if c == nil {
		return nil, false
	}
	wp := s.wrapperPred(c)
	if wp == nil {
		return nil, false
	}
	return wp, true
}

func msgField(t string) (string, bool) {
	if strings.HasPrefix(t, "msg.") && !strings.ContainsAny(t[4:], ".( ") {
		return t[4:], true
	}
	return "", false
}

// writeCalls: the calls on the receiver in the statement that are not read-only by name.
func writeCalls(st ast.Stmt, recv string) []string {
	var out []string
	for _, c := range recvCalls(st, recv) {
		if !isReadName(c) {
			out = append(out, c)
		}
	}
	return out
}

func exchangeEndpoints() ([]Endpoint, error) {
	path := filepath.Join(repoRoot, "x/exchange/keeper/msg_server.go")
	currentDir = filepath.Dir(path)
	f, err := parseFile(path)
	if err != nil {
		return nil, err
	}
	var out []Endpoint
	for _, decl := range f.Decls {
		d, ok := decl.(*ast.FuncDecl)
		if !ok || recvTypeName(d) != "MsgServer" || d.Body == nil {
			continue
		}
		if _, _, isH := handlerSig(d); !isH {
			continue
		}
		s := newScope(d, true)
		ep := Endpoint{Name: d.Name.Name, File: relPath(path), Line: lineOf(d), Index: -1, Precalls: []string{}}
		found := false
		pending := ""
		for i, st := range d.Body.List {
			if isPredicateBinding(st, s.recv) && s.bind(st) {
				pending = strings.Join(s.ntStmtNoBind(st), "; ")
				continue
			}
			ifs, isIf := st.(*ast.IfStmt)
			if isIf { // a guard extracted into a helper of this package that only checks
				c := s.child()
				if ifs.Init == nil || c.bind(ifs.Init) {
					if wp, okw := matchWrapperGuard(c, ifs); okw {
						if mf, ok1 := msgField(wp.B); wp.K == "can" && ok1 {
							if cf, ok2 := msgField(wp.C); ok2 {
								ep.Guard, ep.Helper, ep.MarketField, ep.CallerField, ep.Index = "Can", wp.A, mf, cf, i
								found = true
								break
							}
						}
						if af, ok1 := msgField(wp.A); wp.K == "auth" && ok1 && wp.B == "ValidateAuthority" {
							ep.Guard, ep.AuthorityField, ep.Index = "Authority", af, i
							found = true
							break
						}
					}
				}
			}
			if !usesIdent(st, s.recv) && !(isIf && pending != "") {
				s.bind(st) // context unwrapping, address parsing, error returns: no use of the keeper
				continue
			}
			if isIf {
				if c, usable := ifScope(s, ifs); usable {
					if h, mf, cf, okc := matchCanGuard(c, ifs); okc {
						ep.Guard, ep.Helper, ep.MarketField, ep.CallerField, ep.Index = "Can", h, mf, cf, i
						found = true
						break
					}
					if af, oka := matchValidateAuthority(c, ifs); oka {
						ep.Guard, ep.AuthorityField, ep.Index = "Authority", af, i
						found = true
						break
					}
				}
			}
			// an independent read-only validation (writes nothing; falls through or returns an error)
			// may come before the guard: the dominance obligation over the paths covers the order
			if readOnlyCheck(s.child(), st, true) {
				s.bind(st)
				continue
			}
			if t := strings.Join(s.child().ntStmt(st), "; "); predicateTextRE.MatchString(t) {
				ep.Guard, ep.Index, ep.Text = "Unrecognised", i, t
				found = true
				break
			}
			if ep.FirstCallText == "" {
				ep.FirstCallText = firstRecvCallText(s.child(), st)
			}
			s.bind(st)
			ep.Precalls = append(ep.Precalls, writeCalls(st, s.recv)...)
		}
		if !found && pending != "" {
			ep.Guard, ep.Text = "Unrecognised", "permission/authority predicate evaluated but not used as a guard: "+pending
			found = true
		}
		if !found {
			n := len(d.Body.List)
			if len(ep.Precalls) == 0 && n == 1 {
				if r, isR := d.Body.List[0].(*ast.ReturnStmt); isR && len(r.Results) == 2 && isNil(r.Results[0]) && !isNil(r.Results[1]) {
					ep.Guard, ep.Index = "Reject", 0
				}
			}
			if ep.Guard == "" {
				ep.Guard = "None"
				if len(ep.Precalls) > 0 {
					ep.FirstCall = ep.Precalls[0]
				}
			}
		}
		ep.Precall = len(ep.Precalls) > 0
		out = append(out, ep)
	}
	return out, nil
}

// firstRecvCallText: the normalised text of the first call on the receiver in the statement (with
// the statement's own if-init bound), e.g. k.Keeper.RejectPayment(ctx, sdk.AccAddressFromBech32(msg.Target), …).
func firstRecvCallText(s *scope, st ast.Stmt) string {
	var first *ast.CallExpr
	ast.Inspect(st, func(x ast.Node) bool {
		if first != nil {
			return false
		}
		if c, ok := x.(*ast.CallExpr); ok {
			if sel, ok := c.Fun.(*ast.SelectorExpr); ok && rootIdent(sel) == s.recv {
				if _, isCall := sel.X.(*ast.CallExpr); !isCall {
					first = c
					return false
				}
			}
		}
		return true
	})
	if first == nil {
		return ""
	}
	return s.nt(first)
}

// ntStmtNoBind renders a binding statement itself (diagnostics only).
func (s *scope) ntStmtNoBind(st ast.Stmt) []string {
	var r []string
	for _, e := range bindingRHS(st) {
		r = append(r, s.nt(e))
	}
	return r
}

// ---------------------------------------------------------------- 2. Can* helpers, HasPermission

type CanHelper struct {
	Name       string `json:"name"`
	File       string `json:"file"`
	Line       int    `json:"line"`
	Permission string `json:"permission"` // Permission_xxx or "Unrecognised: <text>"
}

type FuncShape struct {
	Name  string   `json:"name"`
	File  string   `json:"file"`
	Line  int      `json:"line"`
	Sig   string   `json:"sig"`
	Stmts []string `json:"stmts"`
}

// funcShape: the alpha-normalised statements of a small function (a structural fingerprint: local
// and parameter names, hoisting into locals and error values do not matter).
func funcShape(d *ast.FuncDecl, path string) FuncShape {
	fs := FuncShape{Name: d.Name.Name, File: relPath(path), Line: lineOf(d), Stmts: []string{}}
	fs.Sig = "(" + strings.Join(paramTypes(d.Type), ", ") + ")"
	if d.Body != nil {
		s := newScope(d, false)
		fs.Stmts = append(fs.Stmts, s.ntStmts(d.Body.List)...)
		fs.Stmts = append(fs.Stmts, s.unused()...)
	}
	return fs
}

func marketHelpers() (helpers []CanHelper, hasPerm, storeHasPerm FuncShape, err error) {
	path := filepath.Join(repoRoot, "x/exchange/keeper/market.go")
	f, e := parseFile(path)
	if e != nil {
		err = e
		return
	}
	hasPerm = FuncShape{Name: "HasPermission", Stmts: []string{"<not found>"}}
	storeHasPerm = FuncShape{Name: "storeHasPermission", Stmts: []string{"<not found>"}}
	for _, decl := range f.Decls {
		d, ok := decl.(*ast.FuncDecl)
		if !ok || d.Body == nil {
			continue
		}
		if d.Recv == nil && d.Name.Name == "storeHasPermission" {
			storeHasPerm = funcShape(d, path)
			continue
		}
		if recvTypeName(d) != "Keeper" {
			continue
		}
		if d.Name.Name == "HasPermission" {
			hasPerm = funcShape(d, path)
			continue
		}
		if !strings.HasPrefix(d.Name.Name, "Can") {
			continue
		}
		pt := paramTypes(d.Type)
		if len(pt) != 3 || pt[2] != "string" {
			continue // CanCreateAsk/Bid/Commitment take an sdk.AccAddress: attribute checks, not permission helpers
		}
		s := newScope(d, false)
		h := CanHelper{Name: d.Name.Name, File: relPath(path), Line: lineOf(d)}
		stmts := s.child().ntStmts(d.Body.List)
		h.Permission = "Unrecognised: " + strings.Join(stmts, "; ")
		// the normalised body is exactly: return k.HasPermission(ctx, #1, #2, exchange.Permission_X)
		if len(stmts) == 1 {
			if m := regexp.MustCompile(`^return k\.HasPermission\(ctx, #1, #2, exchange\.(Permission_\w+)\)$`).FindStringSubmatch(stmts[0]); m != nil {
				h.Permission = m[1]
			}
		}
		helpers = append(helpers, h)
	}
	return
}

// ---------------------------------------------------------------- CancelOrder, payments, custom signers

type CancelGuard struct {
	File      string   `json:"file"`
	Line      int      `json:"line"`
	Kind      string   `json:"kind"` // OwnerOr | Unrecognised
	Signer    string   `json:"signer"`
	Owner     string   `json:"owner"`
	OwnerSrc  string   `json:"owner_src"`
	Helper    string   `json:"helper"`
	MarketSrc string   `json:"market_src"`
	Caller    string   `json:"caller"`
	Index     int      `json:"index"`
	Precalls  []string `json:"precalls"`
	PreWrite  bool     `json:"pre_write"`
	Text      string   `json:"text"`
}

var readOnlyRE = regexp.MustCompile(`^(Keeper\.)?(Get|Has|Is|Validate|Can|Lookup|Resolve|get|has|is|validate|require)\w*$`)

func anyWrite(calls []string) bool {
	for _, c := range calls {
		if !readOnlyRE.MatchString(c) {
			return true
		}
	}
	return false
}

func cancelOrderGuard() (CancelGuard, error) {
	path := filepath.Join(repoRoot, "x/exchange/keeper/orders.go")
	g := CancelGuard{File: relPath(path), Kind: "Unrecognised", Text: "func (k Keeper) CancelOrder not found", Index: -1, Precalls: []string{}}
	f, err := parseFile(path)
	if err != nil {
		return g, err
	}
	for _, decl := range f.Decls {
		d, ok := decl.(*ast.FuncDecl)
		if !ok || d.Body == nil || recvTypeName(d) != "Keeper" || d.Name.Name != "CancelOrder" {
			continue
		}
		s := newScope(d, false)
		g.Line = lineOf(d)
		g.Text = "no `if signer != owner && !k.Can…(ctx, order.GetMarketID(), signer)` statement in CancelOrder"
		for i, st := range d.Body.List {
			ifs, isIf := st.(*ast.IfStmt)
			if isIf {
				c, usable := ifScope(s, ifs)
				text := strings.Join(s.child().ntStmt(st), "; ")
				if predicateTextRE.MatchString(text) {
					g.Index = i
					g.Text = text
					if !usable || ifs.Else != nil || !isErrReturn(ifs.Body, 1, s.recv) {
						return g, nil
					}
					cond, _ := c.resolve(ifs.Cond)
					b, isB := cond.(*ast.BinaryExpr)
					if !isB || b.Op != token.LAND {
						return g, nil
					}
					// one conjunct is the owner comparison, the other the negated helper call
					cmpE, callE := b.X, b.Y
					if c.negatedCall(cmpE) != nil {
						cmpE, callE = callE, cmpE
					}
					op, x, y, okc := c.compare(cmpE)
					call := c.negatedCall(callE)
					if !okc || op != token.NEQ || call == nil || len(call.Args) != 3 {
						return g, nil
					}
					helper := recvMethod(call, s.recv)
					if helper == "" || strings.Contains(helper, ".") || c.nt(call.Args[0]) != "ctx" {
						return g, nil
					}
					xs, ys := c.nt(x), c.nt(y)
					if ys == "#2" { // the signer is the third parameter, whichever side it is on
						xs, ys = ys, xs
					}
					g.Signer, g.Owner, g.OwnerSrc = xs, ys, ys
					g.Helper, g.MarketSrc, g.Caller = helper, c.nt(call.Args[1]), c.nt(call.Args[2])
					if g.Signer == "#2" && g.Caller == "#2" {
						g.Kind = "OwnerOr"
						g.Text = ""
					}
					g.PreWrite = anyWrite(g.Precalls)
					return g, nil
				}
			}
			if usesIdent(st, s.recv) && !isPredicateBinding(st, s.recv) {
				g.Precalls = append(g.Precalls, recvCalls(st, s.recv)...)
			}
			s.bind(st)
		}
		return g, nil
	}
	return g, nil
}

type PaymentFunc struct {
	Func    string     `json:"func"`
	File    string     `json:"file"`
	Line    int        `json:"line"`
	Sig     string     `json:"sig"`
	Conds   [][]string `json:"conds"`   // top-level `if A != B { return err }`, operands normalised and sorted
	Lookups []string   `json:"lookups"` // calls that read payments from the store, normalised
}

func paymentFuncs() ([]PaymentFunc, error) {
	path := filepath.Join(repoRoot, "x/exchange/keeper/payments.go")
	f, err := parseFile(path)
	if err != nil {
		return nil, err
	}
	want := map[string]bool{"AcceptPayment": true, "RejectPayment": true, "RejectPayments": true, "CancelPayments": true, "UpdatePaymentTarget": true}
	var out []PaymentFunc
	for _, decl := range f.Decls {
		d, ok := decl.(*ast.FuncDecl)
		if !ok || d.Body == nil || recvTypeName(d) != "Keeper" || !want[d.Name.Name] {
			continue
		}
		pf := PaymentFunc{Func: d.Name.Name, File: relPath(path), Line: lineOf(d), Conds: [][]string{}, Lookups: []string{}}
		pf.Sig = "(" + strings.Join(paramTypes(d.Type), ", ") + ")"
		// pass 1: print the whole body, collecting the store lookups with their normalised arguments
		s1 := newScope(d, false)
		s1.ntStmts(d.Body.List)
		pf.Lookups = append(pf.Lookups, *s1.lookups...)
		// pass 2: the top-level identity comparisons
		s := newScope(d, false)
		for _, st := range d.Body.List {
			if ifs, isIf := st.(*ast.IfStmt); isIf && ifs.Else == nil && isErrReturn(ifs.Body, 1, "") {
				c := s.child()
				if ifs.Init == nil || c.bind(ifs.Init) {
					if op, x, y, okc := c.compare(ifs.Cond); okc && op == token.NEQ && !isNil(x) && !isNil(y) {
						a, b := c.nt(x), c.nt(y)
						if b < a {
							a, b = b, a
						}
						pf.Conds = append(pf.Conds, []string{a, b})
					}
				}
			}
			s.bind(st)
		}
		delete(want, d.Name.Name)
		out = append(out, pf)
	}
	var missing []string
	for n := range want {
		missing = append(missing, n)
	}
	sort.Strings(missing)
	for _, n := range missing {
		out = append(out, PaymentFunc{Func: n, File: relPath(path), Sig: "Unrecognised: function not found", Conds: [][]string{}, Lookups: []string{}})
	}
	return out, nil
}

type CustomSigner struct {
	Msg   string `json:"msg"`
	Field string `json:"field"`
	File  string `json:"file"`
	Line  int    `json:"line"`
}

func customSigners() ([]CustomSigner, error) {
	path := filepath.Join(repoRoot, "x/exchange/msgs.go")
	f, err := parseFile(path)
	if err != nil {
		return nil, err
	}
	var out []CustomSigner
	for _, decl := range f.Decls {
		d, ok := decl.(*ast.FuncDecl)
		if !ok || d.Body == nil || d.Name.Name != "DefineCustomGetSigners" {
			continue
		}
		ast.Inspect(d.Body, func(x ast.Node) bool {
			c, isC := x.(*ast.CallExpr)
			if !isC {
				return true
			}
			s, isS := c.Fun.(*ast.SelectorExpr)
			if !isS || s.Sel.Name != "DefineCustomGetSigners" || len(c.Args) != 2 {
				return true
			}
			cs := CustomSigner{Msg: "Unrecognised: " + src(c.Args[0]), Field: "Unrecognised: " + src(c.Args[1]), File: relPath(path), Line: lineOf(c)}
			ast.Inspect(c.Args[0], func(y ast.Node) bool {
				if cl, isCl := y.(*ast.CompositeLit); isCl {
					if id, isId := cl.Type.(*ast.Ident); isId {
						cs.Msg = id.Name
					}
				}
				return true
			})
			if c2, isC2 := c.Args[1].(*ast.CallExpr); isC2 && len(c2.Args) == 2 {
				if id, isId := c2.Fun.(*ast.Ident); isId && id.Name == "createPaymentGetSignersFunc" {
					if lit, isLit := c2.Args[1].(*ast.BasicLit); isLit && lit.Kind == token.STRING {
						if v, e := strconv.Unquote(lit.Value); e == nil {
							cs.Field = "payment." + v
						}
					}
				}
			}
			out = append(out, cs)
			return false
		})
	}
	return out, nil
}

// ---------------------------------------------------------------- 3. governance endpoints of every module

type GovRow struct {
	Module   string   `json:"module"`
	Endpoint string   `json:"endpoint"`
	Request  string   `json:"request"`
	File     string   `json:"file"`
	Line     int      `json:"line"`
	Guard    string   `json:"guard"` // Authority | AuthorityOr | Other | Reject | None | Unrecognised
	Detail   string   `json:"detail"`
	Index    int      `json:"index"`
	Precalls []string `json:"precalls"`
	PreWrite bool     `json:"pre_write"`
}

// authority-typed request structs of one module: struct types in tx.pb.go with a field `Authority string`.
func authorityRequests(moduleDir string) (map[string]string, error) {
	out := map[string]string{}
	err := filepath.Walk(moduleDir, func(p string, info os.FileInfo, err error) error {
		if err != nil {
			return err
		}
		if info.IsDir() || filepath.Base(p) != "tx.pb.go" {
			return nil
		}
		f, e := parseFile(p)
		if e != nil {
			return e
		}
		for _, decl := range f.Decls {
			gd, ok := decl.(*ast.GenDecl)
			if !ok || gd.Tok != token.TYPE {
				continue
			}
			for _, sp := range gd.Specs {
				ts := sp.(*ast.TypeSpec)
				st, isSt := ts.Type.(*ast.StructType)
				if !isSt {
					continue
				}
				for _, fl := range st.Fields.List {
					for _, n := range fl.Names {
						if n.Name == "Authority" && src(fl.Type) == "string" {
							out[ts.Name.Name] = relPath(p) + ":" + strconv.Itoa(lineOf(ts))
						}
					}
				}
			}
		}
		return nil
	})
	return out, err
}

func (s *scope) isAuthorityField(e ast.Expr) bool { return s.nt(e) == "msg.Authority" }

// keeperAuthority: e (through bindings) is the keeper's configured authority; returns how it is read.
func (s *scope) keeperAuthority(e ast.Expr) (string, bool) {
	switch s.nt(e) {
	case "k.GetAuthority()", "k.Keeper.GetAuthority()":
		return "GetAuthority", true
	case "k.authority", "k.Keeper.authority":
		return "authority", true
	}
	return "", false
}

func (s *scope) splitFieldCompare(x, y ast.Expr) (ast.Expr, bool) {
	if s.isAuthorityField(x) {
		return y, true
	}
	if s.isAuthorityField(y) {
		return x, true
	}
	return nil, false
}

// returnsSuccess: some return in the block has a nil error.
func returnsSuccess(b *ast.BlockStmt) bool {
	bad := false
	ast.Inspect(b, func(y ast.Node) bool {
		if r, isR := y.(*ast.ReturnStmt); isR && len(r.Results) == 2 && isNil(r.Results[1]) {
			bad = true
		}
		return !bad
	})
	return bad
}

func matchGovGuard(s *scope, ifs *ast.IfStmt) (guard, detail string, ok bool) {
	if f, okv := matchValidateAuthority(s, ifs); okv {
		if f == "Authority" {
			return "Authority", "ValidateAuthority", true
		}
		return
	}
	// `a != b && c != d` (through bindings)
	if cond, _ := s.resolve(ifs.Cond); cond != nil {
		if b, isB := cond.(*ast.BinaryExpr); isB && b.Op == token.LAND {
			if ifs.Else != nil || !isErrReturn(ifs.Body, 2, s.recv) {
				return
			}
			op1, x1, y1, ok1 := s.compare(b.X)
			op2, x2, y2, ok2 := s.compare(b.Y)
			if !ok1 || !ok2 || op1 != token.NEQ || op2 != token.NEQ {
				return
			}
			lx, okl := s.splitFieldCompare(x1, y1)
			rx, okr := s.splitFieldCompare(x2, y2)
			if !okl || !okr {
				return
			}
			_, la := s.keeperAuthority(lx)
			_, ra := s.keeperAuthority(rx)
			switch {
			case la && !ra:
				return "AuthorityOr", s.nt(rx), true
			case ra && !la:
				return "AuthorityOr", s.nt(lx), true
			}
			return
		}
	}
	op, x, y, okc := s.compare(ifs.Cond)
	if !okc {
		return
	}
	other, okf := s.splitFieldCompare(x, y)
	if !okf {
		return
	}
	switch op {
	case token.NEQ:
		if ifs.Else != nil || !isErrReturn(ifs.Body, 2, s.recv) {
			return
		}
		if via, isA := s.keeperAuthority(other); isA {
			return "Authority", via, true
		}
		return "Other", s.nt(other), true
	case token.EQL:
		if _, isA := s.keeperAuthority(other); !isA {
			return
		}
		e2 := elseIf(ifs.Else)
		if e2 == nil || e2.Else != nil || !isErrReturn(e2.Body, 2, s.recv) || returnsSuccess(ifs.Body) {
			return
		}
		c2 := s.child()
		if e2.Init != nil && !c2.bind(e2.Init) {
			return
		}
		c := c2.errCheck(e2.Cond)
		if c == nil {
			return
		}
		t := c2.nt(c)
		if !strings.Contains(t, "msg.Authority") {
			return
		}
		return "AuthorityOr", t, true
	}
	return
}

func usesAuthorityField(n ast.Node, msg string) bool {
	found := false
	ast.Inspect(n, func(x ast.Node) bool {
		if sel, ok := x.(*ast.SelectorExpr); ok {
			if id, isId := sel.X.(*ast.Ident); isId && id.Name == msg && msg != "" && msg != "_" &&
				(sel.Sel.Name == "Authority" || sel.Sel.Name == "GetAuthority") {
				found = true
			}
		}
		return !found
	})
	return found
}

func govEndpoints() ([]GovRow, []FuncShape, error) {
	xdir := filepath.Join(repoRoot, "x")
	ents, err := os.ReadDir(xdir)
	if err != nil {
		return nil, nil, err
	}
	var rows []GovRow
	var validators []FuncShape
	for _, ent := range ents {
		if !ent.IsDir() {
			continue
		}
		module := ent.Name()
		mdir := filepath.Join(xdir, module)
		reqs, err := authorityRequests(mdir)
		if err != nil {
			return nil, nil, err
		}
		var files []string
		err = filepath.Walk(mdir, func(p string, info os.FileInfo, err error) error {
			if err != nil {
				return err
			}
			if info.IsDir() {
				return nil
			}
			n := filepath.Base(p)
			if !strings.HasSuffix(n, ".go") || strings.HasSuffix(n, "_test.go") || strings.HasSuffix(n, ".pb.go") || strings.HasSuffix(n, ".pb.gw.go") {
				return nil
			}
			files = append(files, p)
			return nil
		})
		if err != nil {
			return nil, nil, err
		}
		sort.Strings(files)
		seen := map[string]bool{}
		for _, p := range files {
			f, err := parseFile(p)
			if err != nil {
				return nil, nil, err
			}
			for _, decl := range f.Decls {
				d, ok := decl.(*ast.FuncDecl)
				if !ok || d.Recv == nil || d.Body == nil {
					continue
				}
				if recvTypeName(d) == "Keeper" && (d.Name.Name == "ValidateAuthority" || d.Name.Name == "IsAuthority" || d.Name.Name == "GetAuthority") {
					fs := funcShape(d, p)
					fs.Name = module + "." + d.Name.Name
					validators = append(validators, fs)
					continue
				}
				msg, req, isH := handlerSig(d)
				if !isH {
					continue
				}
				if _, isAuth := reqs[req]; !isAuth {
					continue
				}
				seen[req] = true
				s := newScope(d, true)
				row := GovRow{Module: module, Endpoint: d.Name.Name, Request: req, File: relPath(p), Line: lineOf(d), Index: -1, Precalls: []string{}}
				pending := ""
				for i, st := range d.Body.List {
					if isPredicateBinding(st, s.recv) && s.bind(st) {
						pending = strings.Join(s.ntStmtNoBind(st), "; ")
						continue
					}
					if ifs, isIf := st.(*ast.IfStmt); isIf {
						if c, usable := ifScope(s, ifs); usable {
							if g, det, okg := matchGovGuard(c, ifs); okg {
								row.Guard, row.Detail, row.Index = g, det, i
								break
							}
						}
					}
					if usesAuthorityField(st, msg) || (usesIdent(st, s.recv) && predicateTextRE.MatchString(strings.Join(s.child().ntStmt(st), "; "))) {
						row.Guard, row.Detail, row.Index = "Unrecognised", strings.Join(s.child().ntStmt(st), "; "), i
						break
					}
					if usesIdent(st, s.recv) {
						row.Precalls = append(row.Precalls, recvCalls(st, s.recv)...)
					}
					s.bind(st)
				}
				if row.Guard == "" && pending != "" {
					row.Guard, row.Detail = "Unrecognised", "authority predicate evaluated but not used as a guard: "+pending
				}
				if row.Guard == "" {
					n := len(d.Body.List)
					if n == 1 && len(row.Precalls) == 0 {
						if r, isR := d.Body.List[0].(*ast.ReturnStmt); isR && len(r.Results) == 2 && isNil(r.Results[0]) && !isNil(r.Results[1]) {
							row.Guard, row.Index = "Reject", 0
						}
					}
					if row.Guard == "" {
						row.Guard = "None"
						if len(row.Precalls) > 0 {
							row.Detail = row.Precalls[0]
						}
					}
				}
				row.PreWrite = anyWrite(row.Precalls)
				rows = append(rows, row)
			}
		}
		var missing []string
		for r := range reqs {
			if !seen[r] {
				missing = append(missing, r)
			}
		}
		sort.Strings(missing)
		for _, r := range missing {
			rows = append(rows, GovRow{Module: module, Endpoint: "?", Request: r, File: strings.Split(reqs[r], ":")[0], Guard: "Unrecognised",
				Detail: "request type has an Authority field but no handler method (ctx, *" + r + ") (*Resp, error) was found", Index: -1, Precalls: []string{}})
		}
	}
	return rows, validators, nil
}

// ---------------------------------------------------------------- main

type Output struct {
	Repo               string             `json:"repo"`
	ExchangeEndpoints  []Endpoint         `json:"exchange_endpoints"`
	CanHelpers         []CanHelper        `json:"can_helpers"`
	HasPermission      FuncShape          `json:"has_permission"`
	StoreHasPermission FuncShape          `json:"store_has_permission"`
	CancelOrder        CancelGuard        `json:"cancel_order"`
	PaymentFuncs       []PaymentFunc      `json:"payment_funcs"`
	CustomSigners      []CustomSigner     `json:"custom_signers"`
	GovEndpoints       []GovRow           `json:"gov_endpoints"`
	AuthorityFuncs     []FuncShape        `json:"authority_funcs"`
	ExchangePaths      []HandlerPaths     `json:"exchange_paths"`
	MsgPaths           []HandlerPaths     `json:"msg_paths"`
	QueryHandlers      []QueryHandler     `json:"query_handlers"`
	AuthoritySources   []AuthoritySource  `json:"authority_sources"`
	AuthorityMentions  []AuthorityMention `json:"authority_mentions"`
	ValidateAccepting  FuncShape          `json:"validate_accepting_commitments"`
}

func main() {
	if len(os.Args) != 2 {
		fmt.Fprintln(os.Stderr, "usage: goextract <repo-root>")
		os.Exit(2)
	}
	var err error
	repoRoot, err = filepath.Abs(os.Args[1])
	if err != nil {
		fmt.Fprintln(os.Stderr, err)
		os.Exit(1)
	}
	out := Output{Repo: repoRoot}
	fail := func(e error) {
		if e != nil {
			fmt.Fprintln(os.Stderr, "goextract:", e)
			os.Exit(1)
		}
	}
	out.ExchangeEndpoints, err = exchangeEndpoints()
	fail(err)
	out.CanHelpers, out.HasPermission, out.StoreHasPermission, err = marketHelpers()
	fail(err)
	out.CancelOrder, err = cancelOrderGuard()
	fail(err)
	out.PaymentFuncs, err = paymentFuncs()
	fail(err)
	out.CustomSigners, err = customSigners()
	fail(err)
	out.GovEndpoints, out.AuthorityFuncs, err = govEndpoints()
	fail(err)
	out.ExchangePaths, err = exchangePaths()
	fail(err)
	out.MsgPaths, out.QueryHandlers, out.AuthoritySources, out.AuthorityMentions, err = handlerTables()
	fail(err)
	out.ValidateAccepting = namedFuncShape("x/exchange/keeper/market.go", "validateMarketUpdateAcceptingCommitments")
	enc := json.NewEncoder(os.Stdout)
	enc.SetIndent("", " ")
	fail(enc.Encode(out))
}
