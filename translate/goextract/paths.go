// paths.go: control-flow paths of handlers as ordered event lists (property C11, "the guard
// DOMINATES every state-writing call").
//
// For a function body made of structured control flow only (if / else, switch, for / range, return,
// panic) it enumerates every path (loops: zero or one iteration; closures and deferred calls are
// taken to run where they are written) and prints, per path, the ordered list of
//
//	guard  pass|fail <predicate>   the path took the branch on which a recognised predicate holds /
//	                               does not hold (conditions are read THROUGH bindings, like the rest
//	                               of the translator: `err := k.ValidateAuthority(x)` … `if err != nil`)
//	write  <callee>                a call that can reach the store (it is made on the keeper, on the
//	                               context, on a store, or is handed one of them) whose name is not on
//	                               the reviewed list of read-only name patterns
//	ret    ok|err                  return with a nil / non-nil last result
//	panic                          panic(...)
//	unstructured <what>            goto, labels, labelled break/continue, fallthrough, select, go:
//	                               the Coq obligations over the table reject any path containing it
//
// Identical event lists are merged, so independent branches that neither guard nor write do not
// multiply paths.  Nothing is dropped silently: what is not understood becomes `unstructured`.
package main

import (
	"encoding/json"
	"go/ast"
	"go/token"
	"os"
	"path/filepath"
	"regexp"
	"sort"
	"strings"
)

// ---------------------------------------------------------------- predicates and events

type Pred struct {
	K string  `json:"k"` // can | auth | eq | callok | any | all
	A string  `json:"a,omitempty"`
	B string  `json:"b,omitempty"`
	C string  `json:"c,omitempty"`
	L []*Pred `json:"l,omitempty"`
}

type Ev struct {
	K    string `json:"k"` // guard | write | ret | panic | unstructured
	Pass bool   `json:"pass"`
	G    *Pred  `json:"g,omitempty"`
	C    string `json:"c,omitempty"` // callee name (write) / description (unstructured)
	T    string `json:"t,omitempty"` // normalised text of the call (write)
	Ok   bool   `json:"ok"`
}

func (e Ev) key() string {
	b, _ := json.Marshal(e)
	return string(b)
}

type evPath []Ev

func pathKey(p evPath) string {
	var sb strings.Builder
	for _, e := range p {
		sb.WriteString(e.key())
		sb.WriteByte('|')
	}
	return sb.String()
}

func dedupe(ps []evPath) []evPath {
	seen := map[string]bool{}
	var out []evPath
	for _, p := range ps {
		k := pathKey(p)
		if !seen[k] {
			seen[k] = true
			out = append(out, p)
		}
	}
	return out
}

func extend(ps []evPath, evs ...Ev) []evPath {
	if len(evs) == 0 {
		return ps
	}
	out := make([]evPath, 0, len(ps))
	for _, p := range ps {
		np := make(evPath, 0, len(p)+len(evs))
		np = append(np, p...)
		np = append(np, evs...)
		out = append(out, np)
	}
	return out
}

// ---------------------------------------------------------------- which calls can write

// Reviewed list of name patterns of calls that do not write state.  Everything else that is made on
// the keeper / context / a store (or is handed one) counts as a write.
var readPrefixRE = regexp.MustCompile(`^(Get|get|Has|has|Is|is|Can|can|Lookup|lookup|Resolve|resolve|Iterate|iterate|Calculate|calculate|Calc|calc|Normalize|normalize|Parse|parse|Make|make|Must|Unwrap|Find|find|Require|require|Check|check|Verify|verify|Count|count|With|Unmarshal|MustUnmarshal|Marshal|MustMarshal|Unpack|Equal|log|Log|extract)([A-Z_0-9]\w*)?$`)
var readExactRE = regexp.MustCompile(`^(String|Bytes|Len|Logger|Info|Debug|Warn|Error|Errorf|Wrap|Wrapf|Sprintf|Sprint|EventManager|AddressHasAccess|AllowsForcedTransfer|Paginate|FilteredPaginate|CollectionPaginate|CollectionFilteredPaginate|Iterator|ReverseIterator|Valid|Key|Value|Next|Close|KVStore|NewStore|GasMeter|BlockHeight|BlockTime|ChainID|HeaderInfo|CacheContext|Err|Done|Deadline|Walk|Empty|Validate|append|len|string|int64|uint64|uint32)$`)

func isReadName(name string) bool {
	if i := strings.LastIndex(name, "."); i >= 0 {
		name = name[i+1:]
	}
	if strings.HasPrefix(name, "Validate") || strings.HasPrefix(name, "validate") {
		// ValidateBasic, ValidateAuthority, ValidateMarket, … read; "ValidateAnd<Do>" does something too
		return !strings.Contains(name, "And")
	}
	return readPrefixRE.MatchString(name) || readExactRE.MatchString(name)
}

var canNameRE = regexp.MustCompile(`^Can[A-Z]\w*$`)
var ctxTokenRE = regexp.MustCompile(`\bctx\b`)

// storeish: the normalised text denotes the keeper, the context or a store.
func storeish(t string) bool {
	switch {
	case t == "k", t == "k.Keeper", t == "&k", t == "&k.Keeper":
		return true
	case t == "ctx", strings.HasPrefix(t, "ctx."), strings.HasPrefix(t, "ctx)"):
		return true
	case strings.HasPrefix(t, "k.getStore("), strings.HasPrefix(t, "k.Keeper.getStore("),
		strings.HasPrefix(t, "prefix.NewStore("), strings.HasPrefix(t, "ctx.KVStore("):
		return true
	}
	return false
}

// callInfo: does the call act on the keeper / context / a store, what is it called, its text.
func (s *scope) callInfo(c *ast.CallExpr) (acts bool, name, text string) {
	text = s.nt(c)
	fun := s.nt(c.Fun)
	name = fun
	if i := strings.LastIndex(fun, "."); i >= 0 {
		name = fun[i+1:]
		base := fun[:i]
		if base == "k" || base == "k.Keeper" || strings.HasPrefix(base, "k.") || base == "ctx" || strings.HasPrefix(base, "ctx.") || storeish(base) {
			acts = true
		}
	}
	for _, a := range c.Args {
		if storeish(s.nt(a)) {
			acts = true
		}
	}
	if fun == "sdk.UnwrapSDKContext" || fun == "panic" {
		acts = false
	}
	return
}

// callEvents: the write events of the calls in n, inner calls first.
func (s *scope) callEvents(n ast.Node) []Ev {
	if n == nil {
		return nil
	}
	var out []Ev
	var stack []ast.Node
	ast.Inspect(n, func(x ast.Node) bool {
		if x == nil {
			top := stack[len(stack)-1]
			stack = stack[:len(stack)-1]
			if c, ok := top.(*ast.CallExpr); ok {
				if acts, name, text := s.callInfo(c); acts && !isReadName(name) {
					out = append(out, Ev{K: "write", C: name, T: text})
				}
			}
			return true
		}
		stack = append(stack, x)
		return true
	})
	return out
}

// ---------------------------------------------------------------- predicates of conditions

func sorted2(a, b string) (string, string) {
	if b < a {
		return b, a
	}
	return a, b
}

// callPred: the predicate "this call succeeded / returned true".
func (s *scope) callPred(c *ast.CallExpr) *Pred {
	name := recvMethod(c, s.recv)
	switch {
	case name == "ValidateAuthority" && len(c.Args) == 1:
		return &Pred{K: "auth", A: s.nt(c.Args[0]), B: "ValidateAuthority"}
	case name == "IsAuthority" && len(c.Args) == 1:
		return &Pred{K: "auth", A: s.nt(c.Args[0]), B: "IsAuthority"}
	case canNameRE.MatchString(name) && len(c.Args) == 3 && s.nt(c.Args[0]) == "ctx":
		return &Pred{K: "can", A: name, B: s.nt(c.Args[1]), C: s.nt(c.Args[2])}
	}
	if src(c.Fun) == "strings.EqualFold" && len(c.Args) == 2 {
		return s.eqPred(c.Args[0], c.Args[1])
	}
	if wp := s.wrapperPred(c); wp != nil {
		return wp
	}
	_, nm, text := s.callInfo(c)
	if !isReadName(nm) {
		return nil
	}
	return &Pred{K: "callok", A: text}
}

// ---------------------------------------------------------------- guard wrappers (extracted helpers)

// currentDir: the directory of the file whose functions are being analysed (set by the table
// builders); helperIndex: its top-level functions and methods by name.
var currentDir string
var helperIndex = map[string]map[string]*ast.FuncDecl{}
var wrapperDepth int

func dirFuncs(dir string) map[string]*ast.FuncDecl {
	if m, ok := helperIndex[dir]; ok {
		return m
	}
	m := map[string]*ast.FuncDecl{}
	helperIndex[dir] = m
	ents, err := os.ReadDir(dir)
	if err != nil {
		return m
	}
	for _, ent := range ents {
		n := ent.Name()
		if ent.IsDir() || !strings.HasSuffix(n, ".go") || strings.HasSuffix(n, "_test.go") || strings.HasSuffix(n, ".pb.go") || strings.HasSuffix(n, ".pb.gw.go") {
			continue
		}
		f, err := parseFile(filepath.Join(dir, n))
		if err != nil {
			continue
		}
		for _, decl := range f.Decls {
			if d, ok := decl.(*ast.FuncDecl); ok && d.Body != nil {
				if _, dup := m[d.Name.Name]; dup {
					m[d.Name.Name] = nil // ambiguous (methods of different types): not inlined
				} else {
					m[d.Name.Name] = d
				}
			}
		}
	}
	return m
}

var paramTokenRE = regexp.MustCompile(`#(\d+)`)

func substPred(p *Pred, args []string) *Pred {
	sub := func(t string) string {
		return paramTokenRE.ReplaceAllStringFunc(t, func(m string) string {
			i := 0
			for _, ch := range m[1:] {
				i = i*10 + int(ch-'0')
			}
			if i < len(args) {
				return args[i]
			}
			return m
		})
	}
	q := &Pred{K: p.K, A: p.A, B: sub(p.B), C: sub(p.C)}
	if p.K != "can" {
		q.A = sub(p.A)
	}
	for _, x := range p.L {
		q.L = append(q.L, substPred(x, args))
	}
	return q
}

// wrapperPred: the call is to a function of the same directory that does nothing but check: it
// returns a single error, writes nothing on any path, and returns nil on exactly one path, on which
// every recognised predicate holds.  "The call returned no error" is then the conjunction of those
// predicates, with the parameters replaced by the arguments of the call.
func (s *scope) wrapperPred(c *ast.CallExpr) *Pred {
	if currentDir == "" || wrapperDepth > 1 {
		return nil
	}
	var name string
	switch f := c.Fun.(type) {
	case *ast.Ident:
		name = f.Name
	case *ast.SelectorExpr:
		if rootIdent(f) != s.recv || s.recv == "" {
			return nil
		}
		name = f.Sel.Name
	default:
		return nil
	}
	d := dirFuncs(currentDir)[name]
	if d == nil || predicateRE.MatchString(name) {
		return nil
	}
	if r := d.Type.Results; r == nil || len(r.List) != 1 || len(r.List[0].Names) > 1 || src(r.List[0].Type) != "error" {
		return nil
	}
	nparams := len(paramNames(d.Type))
	if nparams != len(c.Args) {
		return nil
	}
	wrapperDepth++
	paths, _ := funcPaths(d, false)
	wrapperDepth--
	var okPath evPath
	nOK := 0
	for _, p := range paths {
		for _, e := range p {
			if e.K == "write" || e.K == "unstructured" || e.K == "panic" {
				return nil
			}
		}
		if len(p) > 0 && p[len(p)-1].K == "ret" && p[len(p)-1].Ok {
			nOK++
			okPath = p
		}
	}
	if nOK != 1 {
		return nil
	}
	var preds []*Pred
	args := make([]string, len(c.Args))
	for i, a := range c.Args {
		args[i] = s.nt(a)
	}
	for _, e := range okPath {
		if e.K == "guard" {
			if !e.Pass {
				return nil
			}
			preds = append(preds, substPred(e.G, args))
		}
	}
	switch len(preds) {
	case 0:
		return nil
	case 1:
		return preds[0]
	}
	return &Pred{K: "all", L: preds}
}

func (s *scope) eqPred(x, y ast.Expr) *Pred {
	if via, ok := s.keeperAuthority(x); ok {
		return &Pred{K: "auth", A: s.nt(y), B: via}
	}
	if via, ok := s.keeperAuthority(y); ok {
		return &Pred{K: "auth", A: s.nt(x), B: via}
	}
	a, b := sorted2(s.nt(x), s.nt(y))
	return &Pred{K: "eq", A: a, B: b}
}

// pred: cond ≡ (positive ? P : not P); ok=false when the condition is not understood.
func (s *scope) pred(e ast.Expr) (p *Pred, positive bool, ok bool) {
	if s.depth > 40 {
		return nil, false, false
	}
	s.depth++
	defer func() { s.depth-- }()
	e, bnd := s.resolve(e)
	if bnd != nil { // one result of a multi-valued call: `ok` of `v, ok := f()`
		return nil, false, false
	}
	switch v := e.(type) {
	case *ast.ParenExpr:
		return s.pred(v.X)
	case *ast.UnaryExpr:
		if v.Op == token.NOT {
			p, pos, ok := s.pred(v.X)
			return p, !pos, ok
		}
	case *ast.BinaryExpr:
		switch v.Op {
		case token.LAND, token.LOR:
			p1, pos1, ok1 := s.pred(v.X)
			p2, pos2, ok2 := s.pred(v.Y)
			if !ok1 || !ok2 || pos1 != pos2 {
				return nil, false, false
			}
			kind := "all"
			if (v.Op == token.LAND) != pos1 { // not A && not B = not (A or B); A || B
				kind = "any"
			}
			return &Pred{K: kind, L: []*Pred{p1, p2}}, pos1, true
		case token.EQL, token.NEQ:
			x, y := v.X, v.Y
			if isNil(x) {
				x, y = y, x
			}
			if isNil(y) {
				c, idx, n := s.callOf(x)
				if c == nil || idx != n-1 {
					return nil, false, false
				}
				cp := s.callPred(c)
				if cp == nil {
					return nil, false, false
				}
				return cp, v.Op == token.EQL, true // err == nil: the call succeeded
			}
			return s.eqPred(x, y), v.Op == token.EQL, true
		}
	case *ast.CallExpr:
		if cp := s.callPred(v); cp != nil {
			return cp, true, true
		}
	}
	return nil, false, false
}

func predMentionsAuth(p *Pred, into map[string]bool) {
	if p == nil {
		return
	}
	if p.K == "auth" {
		into[p.A] = true
	}
	for _, q := range p.L {
		predMentionsAuth(q, into)
	}
}

// ---------------------------------------------------------------- the walker

const maxPaths = 3000

type walker struct {
	nres      int // number of results of the function
	authWho   map[string]bool
	overflow  bool
	lastIsErr bool // the last result has type error
}

type flow struct {
	open   []evPath // fall through to the next statement
	closed []evPath // returned / panicked
	jumped []evPath // left the enclosing loop or switch by break / continue
}

func hasLabelOrGoto(b *ast.BlockStmt) string {
	what := ""
	if b == nil {
		return ""
	}
	ast.Inspect(b, func(x ast.Node) bool {
		switch v := x.(type) {
		case *ast.LabeledStmt:
			what = "label " + v.Label.Name
		case *ast.BranchStmt:
			if v.Tok == token.GOTO {
				what = "goto"
			} else if v.Label != nil {
				what = v.Tok.String() + " " + v.Label.Name
			}
		case *ast.FuncLit:
			return true
		}
		return what == ""
	})
	return what
}

func (w *walker) retEv(r *ast.ReturnStmt) Ev {
	if len(r.Results) == 0 {
		return Ev{K: "ret", Ok: !w.lastIsErr} // bare return (named results): unknown, count as success unless proven otherwise
	}
	last := r.Results[len(r.Results)-1]
	if w.lastIsErr {
		return Ev{K: "ret", Ok: isNil(last)}
	}
	return Ev{K: "ret", Ok: true}
}

func isPanicCall(st ast.Stmt) bool {
	es, ok := st.(*ast.ExprStmt)
	if !ok {
		return false
	}
	c, ok := es.X.(*ast.CallExpr)
	if !ok {
		return false
	}
	id, ok := c.Fun.(*ast.Ident)
	return ok && id.Name == "panic"
}

func (w *walker) block(s *scope, list []ast.Stmt, open []evPath) flow {
	f := flow{open: open}
	for _, st := range list {
		if len(f.open) == 0 {
			break
		}
		g := w.stmt(s, st, f.open)
		f.open = dedupe(g.open)
		f.closed = append(f.closed, g.closed...)
		f.jumped = append(f.jumped, g.jumped...)
		if len(f.open)+len(f.closed)+len(f.jumped) > maxPaths {
			w.overflow = true
			f.open = f.open[:1]
		}
	}
	f.closed = dedupe(f.closed)
	f.jumped = dedupe(f.jumped)
	return f
}

func (w *walker) guardEvs(p *Pred, positive, ok bool, taken bool) []Ev {
	if !ok || p == nil {
		return nil
	}
	predMentionsAuth(p, w.authWho)
	return []Ev{{K: "guard", Pass: positive == taken, G: p}}
}

func (w *walker) ifStmt(s *scope, v *ast.IfStmt, open []evPath) flow {
	c := s.child()
	if v.Init != nil {
		open = extend(open, c.callEvents(v.Init)...)
		if !c.bind(v.Init) {
			c.ntStmt(v.Init)
		}
	}
	open = extend(open, c.callEvents(v.Cond)...)
	p, pos, ok := c.pred(v.Cond)
	thenF := w.block(c.child(), v.Body.List, extend(open, w.guardEvs(p, pos, ok, true)...))
	elseOpen := extend(open, w.guardEvs(p, pos, ok, false)...)
	var elseF flow
	switch e := v.Else.(type) {
	case nil:
		elseF = flow{open: elseOpen}
	case *ast.IfStmt:
		elseF = w.ifStmt(c.child(), e, elseOpen)
	case *ast.BlockStmt:
		elseF = w.block(c.child(), e.List, elseOpen)
	default:
		elseF = flow{open: extend(elseOpen, Ev{K: "unstructured", C: "else of unknown shape"})}
	}
	return flow{open: append(thenF.open, elseF.open...), closed: append(thenF.closed, elseF.closed...), jumped: append(thenF.jumped, elseF.jumped...)}
}

func (w *walker) stmt(s *scope, st ast.Stmt, open []evPath) flow {
	switch v := st.(type) {
	case nil:
		return flow{open: open}
	case *ast.ReturnStmt:
		evs := s.callEvents(v)
		evs = append(evs, w.retEv(v))
		return flow{closed: extend(open, evs...)}
	case *ast.IfStmt:
		return w.ifStmt(s, v, open)
	case *ast.BlockStmt:
		return w.block(s.child(), v.List, open)
	case *ast.ForStmt:
		c := s.child()
		if v.Init != nil {
			open = extend(open, c.callEvents(v.Init)...)
			c.bind(v.Init)
		}
		if v.Cond != nil {
			open = extend(open, c.callEvents(v.Cond)...)
		}
		body := w.block(c, v.Body.List, open)
		bodyEnd := append(append([]evPath{}, body.open...), body.jumped...) // continue runs the post statement too
		if v.Post != nil {
			bodyEnd = extend(bodyEnd, c.callEvents(v.Post)...)
		}
		after := append(append([]evPath{}, open...), bodyEnd...)
		return flow{open: dedupe(after), closed: body.closed}
	case *ast.RangeStmt:
		c := s.child()
		open = extend(open, c.callEvents(v.X)...)
		x := c.nt(v.X)
		if id, ok := v.Key.(*ast.Ident); ok && v.Key != nil {
			c.set(id.Name, &binding{text: "$key(" + x + ")"})
		}
		if id, ok := v.Value.(*ast.Ident); ok && v.Value != nil {
			c.set(id.Name, &binding{text: "$elem(" + x + ")"})
		}
		body := w.block(c, v.Body.List, open)
		after := append(append([]evPath{}, open...), body.open...)
		after = append(after, body.jumped...)
		return flow{open: dedupe(after), closed: body.closed}
	case *ast.SwitchStmt:
		c := s.child()
		if v.Init != nil {
			open = extend(open, c.callEvents(v.Init)...)
			c.bind(v.Init)
		}
		if v.Tag != nil {
			open = extend(open, c.callEvents(v.Tag)...)
		}
		var out flow
		rest := open // paths on which no earlier case matched
		hasDefault := false
		var defaultBody []ast.Stmt
		for _, cl := range v.Body.List {
			cc := cl.(*ast.CaseClause)
			for _, b := range cc.Body {
				if br, isBr := b.(*ast.BranchStmt); isBr && br.Tok == token.FALLTHROUGH {
					rest = extend(rest, Ev{K: "unstructured", C: "fallthrough"})
				}
			}
			if cc.List == nil {
				hasDefault = true
				defaultBody = cc.Body
				continue
			}
			taken := rest
			for _, e := range cc.List {
				taken = extend(taken, c.callEvents(e)...)
			}
			if v.Tag == nil && len(cc.List) == 1 {
				p, pos, ok := c.pred(cc.List[0])
				bf := w.block(c.child(), cc.Body, extend(taken, w.guardEvs(p, pos, ok, true)...))
				out.open = append(out.open, bf.open...)
				out.open = append(out.open, bf.jumped...) // break leaves the switch
				out.closed = append(out.closed, bf.closed...)
				rest = extend(taken, w.guardEvs(p, pos, ok, false)...)
				continue
			}
			bf := w.block(c.child(), cc.Body, taken)
			out.open = append(out.open, bf.open...)
			out.open = append(out.open, bf.jumped...)
			out.closed = append(out.closed, bf.closed...)
			rest = taken
		}
		if hasDefault {
			bf := w.block(c.child(), defaultBody, rest)
			out.open = append(out.open, bf.open...)
			out.open = append(out.open, bf.jumped...)
			out.closed = append(out.closed, bf.closed...)
		} else {
			out.open = append(out.open, rest...)
		}
		out.open = dedupe(out.open)
		return out
	case *ast.TypeSwitchStmt:
		c := s.child()
		if v.Init != nil {
			open = extend(open, c.callEvents(v.Init)...)
			c.bind(v.Init)
		}
		open = extend(open, c.callEvents(v.Assign)...)
		var out flow
		hasDefault := false
		for _, cl := range v.Body.List {
			cc := cl.(*ast.CaseClause)
			if cc.List == nil {
				hasDefault = true
			}
			bf := w.block(c.child(), cc.Body, open)
			out.open = append(out.open, bf.open...)
			out.open = append(out.open, bf.jumped...)
			out.closed = append(out.closed, bf.closed...)
		}
		if !hasDefault {
			out.open = append(out.open, open...)
		}
		out.open = dedupe(out.open)
		return out
	case *ast.BranchStmt:
		if v.Label != nil || v.Tok == token.GOTO || v.Tok == token.FALLTHROUGH {
			return flow{open: extend(open, Ev{K: "unstructured", C: v.Tok.String()})}
		}
		return flow{jumped: open} // break / continue
	case *ast.LabeledStmt:
		return w.stmt(s, v.Stmt, extend(open, Ev{K: "unstructured", C: "label " + v.Label.Name}))
	case *ast.GoStmt:
		return flow{open: extend(open, append([]Ev{{K: "unstructured", C: "go statement"}}, s.callEvents(v.Call)...)...)}
	case *ast.SelectStmt:
		return flow{open: extend(open, Ev{K: "unstructured", C: "select"})}
	case *ast.DeferStmt:
		return flow{open: extend(open, s.callEvents(v.Call)...)}
	case *ast.ExprStmt:
		if isPanicCall(st) {
			evs := s.callEvents(st)
			return flow{closed: extend(open, append(evs, Ev{K: "panic"})...)}
		}
		return flow{open: extend(open, s.callEvents(st)...)}
	case *ast.AssignStmt, *ast.DeclStmt:
		evs := s.callEvents(st)
		if !s.bind(st) {
			// an assignment to something that is not a plain identifier (a field, an index): a stale
			// binding of the root identifier must not be used afterwards
			if a, ok := v.(*ast.AssignStmt); ok {
				for _, l := range a.Lhs {
					if r := rootIdent(l); r != "" {
						if _, isParam := s.params[r]; !isParam {
							delete(s.env, r)
						}
					}
				}
			}
		}
		return flow{open: extend(open, evs...)}
	case *ast.IncDecStmt, *ast.SendStmt, *ast.EmptyStmt:
		return flow{open: extend(open, s.callEvents(st)...)}
	}
	return flow{open: extend(open, Ev{K: "unstructured", C: "statement of unknown kind"})}
}

// readOnlyCheck: the statement writes nothing, contains only structured control flow, and every
// path through it either falls through or returns an error (an independent validation that may
// come before or after the guard).
func readOnlyCheck(s *scope, st ast.Stmt, lastIsErr bool) bool {
	w := &walker{authWho: map[string]bool{}, lastIsErr: lastIsErr}
	f := w.stmt(s, st, []evPath{{}})
	if w.overflow || len(f.jumped) > 0 {
		return false
	}
	for _, ps := range [][]evPath{f.open, f.closed} {
		for _, p := range ps {
			for _, e := range p {
				if e.K == "write" || e.K == "unstructured" || (e.K == "ret" && e.Ok) {
					return false
				}
			}
		}
	}
	return true
}

// funcPaths: all paths of a function body.
func funcPaths(d *ast.FuncDecl, handler bool) (paths []evPath, authWho []string) {
	s := newScope(d, handler)
	w := &walker{authWho: map[string]bool{}}
	if r := d.Type.Results; r != nil {
		for _, f := range r.List {
			k := len(f.Names)
			if k == 0 {
				k = 1
			}
			w.nres += k
			w.lastIsErr = src(f.Type) == "error"
		}
	}
	start := []evPath{{}}
	if what := hasLabelOrGoto(d.Body); what != "" {
		start = []evPath{{Ev{K: "unstructured", C: what}}}
	}
	f := w.block(s, d.Body.List, start)
	paths = append(paths, f.closed...)
	for _, p := range f.open { // falls off the end (functions without results)
		paths = append(paths, append(append(evPath{}, p...), Ev{K: "ret", Ok: true}))
	}
	for _, p := range f.jumped {
		paths = append(paths, append(append(evPath{}, p...), Ev{K: "unstructured", C: "break/continue outside a loop"}))
	}
	if w.overflow {
		paths = append(paths, evPath{Ev{K: "unstructured", C: "too many paths"}})
	}
	paths = dedupe(paths)
	for a := range w.authWho {
		authWho = append(authWho, a)
	}
	sort.Strings(authWho)
	return
}

// ---------------------------------------------------------------- tables

type HandlerPaths struct {
	Kind     string   `json:"kind"` // exchange | msg | keeper
	Module   string   `json:"module"`
	Endpoint string   `json:"endpoint"`
	Request  string   `json:"request"`
	File     string   `json:"file"`
	Line     int      `json:"line"`
	AuthWho  []string `json:"auth_who"` // what is compared with the keeper's authority anywhere in the body
	HasField bool     `json:"has_authority_field"`
	Paths    []evPath `json:"paths"`
}

type QueryWrite struct {
	Call     string `json:"call"`
	Text     string `json:"text"`
	Branched bool   `json:"branched"` // every context the call is given comes from CacheContext() in this function
}

type QueryHandler struct {
	Module   string       `json:"module"`
	Endpoint string       `json:"endpoint"`
	Request  string       `json:"request"`
	File     string       `json:"file"`
	Line     int          `json:"line"`
	Writes   []QueryWrite `json:"writes"`
	Unstruct []string     `json:"unstructured"`
}

// AuthorityMention: a function under x/<module>/ whose body consults the keeper's authority
// (k.authority, k.GetAuthority(), k.IsAuthority(…), k.ValidateAuthority(…) on its receiver).
type AuthorityMention struct {
	Module string `json:"module"`
	Func   string `json:"func"` // <receiver type>.<name>
	Name   string `json:"name"`
	File   string `json:"file"`
	Line   int    `json:"line"`
}

func mentionsKeeperAuthority(d *ast.FuncDecl) bool {
	recv := recvName(d)
	if recv == "" || d.Body == nil || strings.HasPrefix(recvTypeName(d), "Msg") || strings.HasPrefix(recvTypeName(d), "Query") && !strings.HasSuffix(recvTypeName(d), "Server") {
		return false // (methods of the request types themselves: msg.GetAuthority() is the field's getter)
	}
	found := false
	ast.Inspect(d.Body, func(x ast.Node) bool {
		if sel, ok := x.(*ast.SelectorExpr); ok && !found {
			switch sel.Sel.Name {
			case "authority", "GetAuthority", "IsAuthority", "ValidateAuthority":
				if rootIdent(sel.X) == recv {
					found = true
				}
			}
		}
		return !found
	})
	return found
}

type AuthoritySource struct {
	Module string `json:"module"`
	File   string `json:"file"`
	Line   int    `json:"line"`
	Text   string `json:"text"` // what the keeper's authority field is initialised with, normalised
}

// structNames: the struct types declared in files of the given base name under dir.
func structNames(dir, base string) (map[string]bool, error) {
	out := map[string]bool{}
	err := filepath.Walk(dir, func(p string, info os.FileInfo, err error) error {
		if err != nil {
			return err
		}
		if info.IsDir() || filepath.Base(p) != base {
			return nil
		}
		f, e := parseFile(p)
		if e != nil {
			return e
		}
		for _, decl := range f.Decls {
			gd, ok := decl.(*ast.GenDecl)
			if !ok || gd.Tok != token.TYPE {
				continue
			}
			for _, sp := range gd.Specs {
				ts := sp.(*ast.TypeSpec)
				if _, isSt := ts.Type.(*ast.StructType); isSt {
					out[ts.Name.Name] = true
				}
			}
		}
		return nil
	})
	return out, err
}

func moduleGoFiles(mdir string) ([]string, error) {
	var files []string
	err := filepath.Walk(mdir, func(p string, info os.FileInfo, err error) error {
		if err != nil {
			return err
		}
		if info.IsDir() {
			if n := info.Name(); n == "simulation" || n == "client" || n == "testutil" {
				return filepath.SkipDir
			}
			return nil
		}
		n := filepath.Base(p)
		if !strings.HasSuffix(n, ".go") || strings.HasSuffix(n, "_test.go") || strings.HasSuffix(n, ".pb.go") || strings.HasSuffix(n, ".pb.gw.go") {
			return nil
		}
		files = append(files, p)
		return nil
	})
	sort.Strings(files)
	return files, err
}

var cacheCtxRE = regexp.MustCompile(`ctx\.CacheContext\(\)`)

func branchedOnly(text string) bool {
	return !ctxTokenRE.MatchString(cacheCtxRE.ReplaceAllString(text, "")) && strings.Contains(text, "ctx.CacheContext()")
}

// handlerTables: paths of every Msg handler of every module that has an Authority field or compares
// anything with the keeper's authority; writes of every Query handler.
func handlerTables() (msgRows []HandlerPaths, queries []QueryHandler, sources []AuthoritySource, mentions []AuthorityMention, err error) {
	xdir := filepath.Join(repoRoot, "x")
	ents, e := os.ReadDir(xdir)
	if e != nil {
		return nil, nil, nil, nil, e
	}
	for _, ent := range ents {
		if !ent.IsDir() {
			continue
		}
		module := ent.Name()
		mdir := filepath.Join(xdir, module)
		authReqs, e := authorityRequests(mdir)
		if e != nil {
			return nil, nil, nil, nil, e
		}
		msgTypes, e := structNames(mdir, "tx.pb.go")
		if e != nil {
			return nil, nil, nil, nil, e
		}
		queryTypes, e := structNames(mdir, "query.pb.go")
		if e != nil {
			return nil, nil, nil, nil, e
		}
		files, e := moduleGoFiles(mdir)
		if e != nil {
			return nil, nil, nil, nil, e
		}
		for _, p := range files {
			f, e := parseFile(p)
			if e != nil {
				return nil, nil, nil, nil, e
			}
			currentDir = filepath.Dir(p)
			for _, decl := range f.Decls {
				d, ok := decl.(*ast.FuncDecl)
				if !ok || d.Body == nil {
					continue
				}
				// how the keeper's authority is configured
				if d.Recv == nil && strings.HasPrefix(d.Name.Name, "NewKeeper") && filepath.Base(filepath.Dir(p)) == "keeper" {
					s := newScope(d, false)
					ast.Inspect(d.Body, func(x ast.Node) bool {
						kv, isKV := x.(*ast.KeyValueExpr)
						if !isKV {
							return true
						}
						if id, isId := kv.Key.(*ast.Ident); isId && id.Name == "authority" {
							t := s.nt(kv.Value)
							if strings.HasPrefix(t, "#") { // a constructor parameter: what app.go passes there
								t = appKeeperArg(module, d.Name.Name, t)
							}
							sources = append(sources, AuthoritySource{Module: module, File: relPath(p), Line: lineOf(kv), Text: t})
						}
						return true
					})
				}
				if d.Recv == nil {
					continue
				}
				if mentionsKeeperAuthority(d) {
					mentions = append(mentions, AuthorityMention{Module: module, Func: recvTypeName(d) + "." + d.Name.Name, Name: d.Name.Name, File: relPath(p), Line: lineOf(d)})
				}
				_, req, isH := handlerSig(d)
				if !isH {
					continue
				}
				switch {
				case msgTypes[req]:
					paths, who := funcPaths(d, true)
					_, hasField := authReqs[req]
					if !hasField && len(who) == 0 {
						continue
					}
					if !hasField {
						paths = authGuardsOnly(paths)
					}
					msgRows = append(msgRows, HandlerPaths{Kind: "msg", Module: module, Endpoint: d.Name.Name, Request: req,
						File: relPath(p), Line: lineOf(d), AuthWho: who, HasField: hasField, Paths: paths})
				case queryTypes[req]:
					paths, _ := funcPaths(d, true)
					q := QueryHandler{Module: module, Endpoint: d.Name.Name, Request: req, File: relPath(p), Line: lineOf(d), Writes: []QueryWrite{}, Unstruct: []string{}}
					seen := map[string]bool{}
					for _, pth := range paths {
						for _, ev := range pth {
							switch ev.K {
							case "write":
								if !seen[ev.T] {
									seen[ev.T] = true
									q.Writes = append(q.Writes, QueryWrite{Call: ev.C, Text: ev.T, Branched: branchedOnly(ev.T)})
								}
							case "unstructured":
								if !seen["u:"+ev.C] {
									seen["u:"+ev.C] = true
									q.Unstruct = append(q.Unstruct, ev.C)
								}
							}
						}
					}
					queries = append(queries, q)
				}
			}
		}
	}
	return
}

// authGuardsOnly drops the guard events that do not mention the keeper's authority (used for the
// handlers whose request has no Authority field: only how they use the authority matters there).
func authGuardsOnly(paths []evPath) []evPath {
	var out []evPath
	for _, p := range paths {
		var q evPath
		for _, e := range p {
			if e.K == "guard" {
				m := map[string]bool{}
				predMentionsAuth(e.G, m)
				if len(m) == 0 {
					continue
				}
			}
			q = append(q, e)
		}
		out = append(out, q)
	}
	return dedupe(out)
}

// appKeeperArg: the normalised text of the argument app/app.go passes to <module>keeper.<ctor> at the
// position of constructor parameter #i.
func appKeeperArg(module, ctor, param string) string {
	idx := 0
	for _, ch := range param[1:] {
		if ch < '0' || ch > '9' {
			break
		}
		idx = idx*10 + int(ch-'0')
	}
	path := filepath.Join(repoRoot, "app/app.go")
	f, err := parseFile(path)
	if err != nil {
		return "Unrecognised: app/app.go does not parse"
	}
	res := "Unrecognised: no call of " + module + "keeper." + ctor + " in app/app.go"
	for _, decl := range f.Decls {
		d, ok := decl.(*ast.FuncDecl)
		if !ok || d.Body == nil || d.Name.Name != "New" {
			continue
		}
		s := newScope(d, false)
		for _, st := range d.Body.List {
			ast.Inspect(st, func(x ast.Node) bool {
				c, isC := x.(*ast.CallExpr)
				if !isC {
					return true
				}
				sel, isS := c.Fun.(*ast.SelectorExpr)
				if !isS || sel.Sel.Name != ctor {
					return true
				}
				if pk, isId := sel.X.(*ast.Ident); !isId || !strings.HasPrefix(pk.Name, module) {
					return true
				}
				if idx < len(c.Args) {
					res = s.nt(c.Args[idx])
				}
				return true
			})
			s.bind(st)
		}
	}
	return res
}

// namedFuncShape: the alpha-normalised statements of a top-level function of a file.
func namedFuncShape(rel, name string) FuncShape {
	path := filepath.Join(repoRoot, rel)
	fs := FuncShape{Name: name, File: rel, Stmts: []string{"<not found>"}}
	f, err := parseFile(path)
	if err != nil {
		return fs
	}
	for _, decl := range f.Decls {
		if d, ok := decl.(*ast.FuncDecl); ok && d.Body != nil && d.Recv == nil && d.Name.Name == name {
			return funcShape(d, path)
		}
	}
	return fs
}

// exchangePaths: the MsgServer endpoints of x/exchange/keeper/msg_server.go and the keeper functions
// that carry their own identity / permission checks.
func exchangePaths() ([]HandlerPaths, error) {
	var out []HandlerPaths
	path := filepath.Join(repoRoot, "x/exchange/keeper/msg_server.go")
	currentDir = filepath.Dir(path)
	f, err := parseFile(path)
	if err != nil {
		return nil, err
	}
	for _, decl := range f.Decls {
		d, ok := decl.(*ast.FuncDecl)
		if !ok || recvTypeName(d) != "MsgServer" || d.Body == nil {
			continue
		}
		_, req, isH := handlerSig(d)
		if !isH {
			continue
		}
		paths, who := funcPaths(d, true)
		out = append(out, HandlerPaths{Kind: "exchange", Module: "exchange", Endpoint: d.Name.Name, Request: req, File: relPath(path), Line: lineOf(d), AuthWho: who, Paths: paths})
	}
	want := map[string]string{"CancelOrder": "x/exchange/keeper/orders.go", "SetOrderExternalID": "x/exchange/keeper/orders.go",
		"AcceptPayment": "x/exchange/keeper/payments.go", "RejectPayment": "x/exchange/keeper/payments.go"}
	names := []string{"CancelOrder", "SetOrderExternalID", "AcceptPayment", "RejectPayment"}
	for _, n := range names {
		p := filepath.Join(repoRoot, want[n])
		f, err := parseFile(p)
		if err != nil {
			return nil, err
		}
		found := false
		for _, decl := range f.Decls {
			d, ok := decl.(*ast.FuncDecl)
			if !ok || d.Body == nil || recvTypeName(d) != "Keeper" || d.Name.Name != n {
				continue
			}
			paths, who := funcPaths(d, false)
			out = append(out, HandlerPaths{Kind: "keeper", Module: "exchange", Endpoint: n, Request: "", File: relPath(p), Line: lineOf(d), AuthWho: who, Paths: paths})
			found = true
		}
		if !found {
			out = append(out, HandlerPaths{Kind: "keeper", Module: "exchange", Endpoint: n, File: relPath(p),
				Paths: []evPath{{Ev{K: "unstructured", C: "function not found"}}}})
		}
	}
	return out, nil
}
