module goextract

go 1.23
