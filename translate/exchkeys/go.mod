module exchkeys

go 1.21
