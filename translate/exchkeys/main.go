// exchkeys: table extractor for property C13 (exchange store keys).
//
// Usage: exchkeys <repo-root>            prints JSON to stdout
//
// Reads x/exchange/keeper/keys.go of the repository given as the first argument (go/parser +
// go/ast only; nothing is type checked or executed) and prints
//
//	consts        one row per constant declared in that file (every const block, every name, in
//	              source order), never dropped:
//	                kind "byte"          the value expression is byte(<int literal>) (or uint8(...), or
//	                                     an int literal in a spec typed byte/uint8)  -> value = number
//	                                     Also: the value expression is <pkg>.<Name> where <pkg> is an
//	                                     import of keys.go that lives in the same Go module and <Name>
//	                                     is declared there as byte(<int literal>): the row carries the
//	                                     resolved number and "via" = the selector text (today:
//	                                     OrderKeyTypeAsk/Bid = exchange.OrderTypeByteAsk/Bid).
//	                kind "string"        the value expression is a string literal -> value = the string
//	                kind "unrecognised"  anything else -> value = source text of the expression
//	              Package-level `var` declarations of keys.go are emitted as "unrecognised" rows as
//	              well (a key prefix could be declared that way; today there is none).
//	raw_literals  one row (kind "raw-literal") per byte/string LITERAL that a function of keys.go
//	              puts into a byte slice without going through a named constant:
//	                where "composite"     element of a []byte{...} / [n]byte{...} composite literal
//	                where "call:<f>"      argument of a function of keys.go in a parameter position
//	                                      typed byte (today: prepKey arg 0, keyPrefixMarketType arg 1,
//	                                      marketKeyReqAttr arg 1 -- the table of such functions is
//	                                      computed from the file, not hard-wired)
//	                where "append"        argument (after the first) of the builtin append
//	                where "index-assign"  right-hand side of  x[i] = <literal>  (keyPrefixPayment
//	                                      builds its key as rv[0] = KeyTypePayment)
//	                where "conversion"    byte(<literal>) / uint8(<literal>) anywhere else in a body
//	                where "bytes-of-string"  []byte("<string literal>")
//	              value = the number (for string literals: the first byte, 0 when empty), text = the
//	              source text.  Expected today: none.
//
// Identifiers are never followed (except the one-step selector resolution above): a key byte that
// reaches a slice through a local variable initialised from a literal is caught at the literal's
// conversion (`byte(0x0A)`) or not at all when it is an untyped local constant (`const x = 0x0A`
// inside a function body).  Only keys.go is read: a key built elsewhere in the package is not seen.
package main

import (
	"encoding/json"
	"fmt"
	"go/ast"
	"go/parser"
	"go/token"
	"os"
	"path/filepath"
	"strconv"
	"strings"
)

type constRow struct {
	Name  string      `json:"name"`
	Kind  string      `json:"kind"`
	Value interface{} `json:"value"`
	Via   string      `json:"via,omitempty"`
	Line  int         `json:"line"`
}

type rawRow struct {
	Func  string `json:"func"`
	Kind  string `json:"kind"`
	Value int64  `json:"value"`
	Text  string `json:"text"`
	Where string `json:"where"`
	Line  int    `json:"line"`
}

type output struct {
	File        string     `json:"file"`
	Consts      []constRow `json:"consts"`
	RawLiterals []rawRow   `json:"raw_literals"`
}

const keysRel = "x/exchange/keeper/keys.go"

type source struct {
	fset *token.FileSet
	src  []byte
}

func (s *source) text(n ast.Node) string {
	a, b := s.fset.Position(n.Pos()).Offset, s.fset.Position(n.End()).Offset
	if a < 0 || b > len(s.src) || a > b {
		return "?"
	}
	return strings.Join(strings.Fields(string(s.src[a:b])), " ")
}

func (s *source) line(n ast.Node) int { return s.fset.Position(n.Pos()).Line }

func unparen(e ast.Expr) ast.Expr {
	for {
		p, ok := e.(*ast.ParenExpr)
		if !ok {
			return e
		}
		e = p.X
	}
}

func isByteIdent(e ast.Expr) bool {
	id, ok := e.(*ast.Ident)
	return ok && (id.Name == "byte" || id.Name == "uint8")
}

// byteConv: e is byte(<x>) or uint8(<x>); returns <x>.
func byteConv(e ast.Expr) (ast.Expr, bool) {
	c, ok := unparen(e).(*ast.CallExpr)
	if !ok || len(c.Args) != 1 || !isByteIdent(unparen(c.Fun)) {
		return nil, false
	}
	return c.Args[0], true
}

// intLit: e is an integer or character literal.
func intLit(e ast.Expr) (int64, *ast.BasicLit, bool) {
	l, ok := unparen(e).(*ast.BasicLit)
	if !ok {
		return 0, nil, false
	}
	switch l.Kind {
	case token.INT:
		n, err := strconv.ParseInt(l.Value, 0, 64)
		if err != nil {
			return 0, nil, false
		}
		return n, l, true
	case token.CHAR:
		s, err := strconv.Unquote(l.Value)
		if err != nil {
			return 0, nil, false
		}
		for _, r := range s {
			return int64(r), l, true
		}
	}
	return 0, nil, false
}

// literalByte: e is <int/char literal> or byte(<int/char literal>).
func literalByte(e ast.Expr) (int64, *ast.BasicLit, bool) {
	if inner, ok := byteConv(e); ok {
		return intLit(inner)
	}
	return intLit(e)
}

func stringLit(e ast.Expr) (string, *ast.BasicLit, bool) {
	l, ok := unparen(e).(*ast.BasicLit)
	if !ok || l.Kind != token.STRING {
		return "", nil, false
	}
	s, err := strconv.Unquote(l.Value)
	if err != nil {
		return "", nil, false
	}
	return s, l, true
}

// byteValue recognises the two spellings of a byte constant: byte(<int literal>) and
// `<name> byte = <int literal>`.
func byteValue(typ, val ast.Expr) (int64, bool) {
	if val == nil {
		return 0, false
	}
	if inner, ok := byteConv(val); ok && (typ == nil || isByteIdent(typ)) {
		if n, l, ok := intLit(inner); ok && l.Kind == token.INT && n >= 0 && n <= 255 {
			return n, true
		}
		return 0, false
	}
	if typ != nil && isByteIdent(typ) {
		if n, l, ok := intLit(val); ok && l.Kind == token.INT && n >= 0 && n <= 255 {
			return n, true
		}
	}
	return 0, false
}

// resolver follows <pkg>.<Name> one step into a package of the same module.
type resolver struct {
	root    string
	module  string
	imports map[string]string // local name -> import path
	cache   map[string]map[string]string
}

func newResolver(root string, f *ast.File) *resolver {
	r := &resolver{root: root, imports: map[string]string{}, cache: map[string]map[string]string{}}
	if bz, err := os.ReadFile(filepath.Join(root, "go.mod")); err == nil {
		for _, ln := range strings.Split(string(bz), "\n") {
			ln = strings.TrimSpace(ln)
			if strings.HasPrefix(ln, "module ") {
				r.module = strings.Trim(strings.TrimSpace(strings.TrimPrefix(ln, "module ")), "\"")
				break
			}
		}
	}
	for _, im := range f.Imports {
		p, err := strconv.Unquote(im.Path.Value)
		if err != nil {
			continue
		}
		name := p[strings.LastIndex(p, "/")+1:]
		if im.Name != nil {
			name = im.Name.Name
		}
		r.imports[name] = p
	}
	return r
}

// byteConsts returns name -> "<number>" for the byte constants of the package directory, and
// name -> "!<text>" for its other constants.
func (r *resolver) byteConsts(dir string) map[string]string {
	if m, ok := r.cache[dir]; ok {
		return m
	}
	m := map[string]string{}
	r.cache[dir] = m
	ents, err := os.ReadDir(dir)
	if err != nil {
		return m
	}
	for _, e := range ents {
		n := e.Name()
		if e.IsDir() || !strings.HasSuffix(n, ".go") || strings.HasSuffix(n, "_test.go") {
			continue
		}
		p := filepath.Join(dir, n)
		src, err := os.ReadFile(p)
		if err != nil {
			continue
		}
		fset := token.NewFileSet()
		f, err := parser.ParseFile(fset, p, src, 0)
		if err != nil {
			continue
		}
		s := &source{fset: fset, src: src}
		for _, d := range f.Decls {
			g, ok := d.(*ast.GenDecl)
			if !ok || g.Tok != token.CONST {
				continue
			}
			for _, sp := range g.Specs {
				vs := sp.(*ast.ValueSpec)
				for i, id := range vs.Names {
					var val ast.Expr
					if i < len(vs.Values) {
						val = vs.Values[i]
					}
					if v, ok := byteValue(vs.Type, val); ok {
						m[id.Name] = strconv.FormatInt(v, 10)
					} else if val != nil {
						m[id.Name] = "!" + s.text(val)
					} else {
						m[id.Name] = "!(no value expression)"
					}
				}
			}
		}
	}
	return m
}

func (r *resolver) resolve(sel *ast.SelectorExpr) (int64, string, bool) {
	x, ok := sel.X.(*ast.Ident)
	if !ok {
		return 0, "", false
	}
	via := x.Name + "." + sel.Sel.Name
	path, ok := r.imports[x.Name]
	if !ok || r.module == "" || !strings.HasPrefix(path, r.module+"/") {
		return 0, via + " (package not in this module)", false
	}
	dir := filepath.Join(r.root, filepath.FromSlash(strings.TrimPrefix(path, r.module+"/")))
	v, ok := r.byteConsts(dir)[sel.Sel.Name]
	if !ok {
		return 0, via + " (not found in " + path + ")", false
	}
	if strings.HasPrefix(v, "!") {
		return 0, via + " (= " + v[1:] + ")", false
	}
	n, _ := strconv.ParseInt(v, 10, 64)
	return n, via, true
}

func main() {
	if len(os.Args) != 2 {
		fmt.Fprintln(os.Stderr, "usage: exchkeys <repo-root>")
		os.Exit(2)
	}
	root := os.Args[1]
	path := filepath.Join(root, filepath.FromSlash(keysRel))
	src, err := os.ReadFile(path)
	if err != nil {
		fmt.Fprintln(os.Stderr, err)
		os.Exit(1)
	}
	fset := token.NewFileSet()
	file, err := parser.ParseFile(fset, path, src, 0)
	if err != nil {
		fmt.Fprintln(os.Stderr, err)
		os.Exit(1)
	}
	s := &source{fset: fset, src: src}
	res := newResolver(root, file)
	out := output{File: keysRel, Consts: []constRow{}, RawLiterals: []rawRow{}}

	// ---- constants (and package-level variables) ----
	for _, d := range file.Decls {
		g, ok := d.(*ast.GenDecl)
		if !ok || (g.Tok != token.CONST && g.Tok != token.VAR) {
			continue
		}
		for _, sp := range g.Specs {
			vs := sp.(*ast.ValueSpec)
			for i, id := range vs.Names {
				var val ast.Expr
				if i < len(vs.Values) {
					val = vs.Values[i]
				}
				row := constRow{Name: id.Name, Line: s.line(id)}
				switch {
				case g.Tok == token.VAR:
					row.Kind, row.Value = "unrecognised", "var "+s.text(vs)
				case val == nil:
					row.Kind, row.Value = "unrecognised", "(no value expression: repeats the previous one)"
				default:
					if n, ok := byteValue(vs.Type, val); ok {
						row.Kind, row.Value = "byte", n
					} else if str, _, ok := stringLit(val); ok && vs.Type == nil {
						row.Kind, row.Value = "string", str
					} else if sel, ok := unparen(val).(*ast.SelectorExpr); ok && vs.Type == nil {
						if n, via, ok := res.resolve(sel); ok {
							row.Kind, row.Value, row.Via = "byte", n, via
						} else {
							row.Kind, row.Value = "unrecognised", via
						}
					} else {
						txt := s.text(val)
						if vs.Type != nil {
							txt = s.text(vs.Type) + " = " + txt
						}
						row.Kind, row.Value = "unrecognised", txt
					}
				}
				out.Consts = append(out.Consts, row)
			}
		}
	}

	// ---- functions of keys.go with a parameter typed byte ----
	byteParams := map[string][]int{}
	for _, d := range file.Decls {
		fd, ok := d.(*ast.FuncDecl)
		if !ok || fd.Recv != nil || fd.Type.Params == nil {
			continue
		}
		idx := 0
		for _, fld := range fd.Type.Params.List {
			n := len(fld.Names)
			if n == 0 {
				n = 1
			}
			for k := 0; k < n; k++ {
				if isByteIdent(fld.Type) {
					byteParams[fd.Name.Name] = append(byteParams[fd.Name.Name], idx)
				}
				idx++
			}
		}
	}

	// ---- literals inside function bodies ----
	for _, d := range file.Decls {
		fd, ok := d.(*ast.FuncDecl)
		if !ok || fd.Body == nil {
			continue
		}
		fname := fd.Name.Name
		if fd.Recv != nil && len(fd.Recv.List) == 1 {
			fname = s.text(fd.Recv.List[0].Type) + "." + fname
		}
		seen := map[token.Pos]bool{}
		report := func(l *ast.BasicLit, v int64, whole ast.Node, where string) {
			if seen[l.Pos()] {
				return
			}
			seen[l.Pos()] = true
			out.RawLiterals = append(out.RawLiterals, rawRow{Func: fname, Kind: "raw-literal", Value: v,
				Text: s.text(whole), Where: where, Line: s.line(l)})
		}
		first := func(str string) int64 {
			if len(str) == 0 {
				return 0
			}
			return int64(str[0])
		}
		ast.Inspect(fd.Body, func(n ast.Node) bool {
			switch v := n.(type) {
			case *ast.CompositeLit:
				if at, ok := v.Type.(*ast.ArrayType); ok && isByteIdent(at.Elt) {
					for _, el := range v.Elts {
						if kv, ok := el.(*ast.KeyValueExpr); ok {
							el = kv.Value
						}
						if b, l, ok := literalByte(el); ok {
							report(l, b, v, "composite")
						}
					}
				}
			case *ast.CallExpr:
				// []byte("literal")
				if at, ok := unparen(v.Fun).(*ast.ArrayType); ok && isByteIdent(at.Elt) && len(v.Args) == 1 {
					if str, l, ok := stringLit(v.Args[0]); ok {
						report(l, first(str), v, "bytes-of-string")
					}
				}
				if id, ok := unparen(v.Fun).(*ast.Ident); ok {
					if id.Name == "append" {
						for i, a := range v.Args {
							if i == 0 {
								continue
							}
							if b, l, ok := literalByte(a); ok {
								report(l, b, v, "append")
							} else if str, l, ok := stringLit(a); ok {
								report(l, first(str), v, "append")
							}
						}
					}
					for _, i := range byteParams[id.Name] {
						if i < len(v.Args) {
							if b, l, ok := literalByte(v.Args[i]); ok {
								report(l, b, v, "call:"+id.Name)
							}
						}
					}
				}
				if inner, ok := byteConv(v); ok {
					if b, l, ok := intLit(inner); ok {
						report(l, b, v, "conversion")
					}
				}
			case *ast.AssignStmt:
				for i, lhs := range v.Lhs {
					if _, ok := unparen(lhs).(*ast.IndexExpr); ok && i < len(v.Rhs) {
						if b, l, ok := literalByte(v.Rhs[i]); ok {
							report(l, b, v, "index-assign")
						}
					}
				}
			}
			return true
		})
	}

	enc := json.NewEncoder(os.Stdout)
	enc.SetEscapeHTML(false)
	enc.SetIndent("", " ")
	if err := enc.Encode(out); err != nil {
		fmt.Fprintln(os.Stderr, err)
		os.Exit(1)
	}
}
