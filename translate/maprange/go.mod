module maprange

go 1.21
