// maprange: map-iteration site extractor for property C18 (determinism).
//
// usage: maprange <repo-root>
//
// Go randomises the iteration order of maps, so a `for ... range <map>` that feeds store writes,
// events or any other ordered output makes nodes diverge. This tool lists every range statement
// over a map in the consensus-relevant part of the repository so that the list can be compared
// with a reviewed allow-list (checks/c18_map_ranges.json).
//
// Nothing is type checked or executed (go/parser + go/ast only). Whether the ranged expression
// is a map is decided syntactically:
//
//   - composite literal of map type, make(map[...]...)
//   - identifier: its declaration in the enclosing function (parameters, results, :=, var), else a
//     package-level var; `x := f(...)` uses the declared result type of f
//   - selector a.F: the field F of the (syntactically inferred) type of a, else any struct field
//     named F in the loaded packages ("by-field-name": map as soon as one of them is a map)
//   - call a.M(): the method M of the inferred type of a, else all methods/interface methods
//     named M (used only when they agree)
//   - named types (`type Foo map[K]V`) are followed through the loaded packages.
//
// "Loaded" packages are the scanned directories plus the repository-internal packages they
// import and their *.pb.go files; those extra files only contribute declarations, their range
// statements are neither listed nor counted.
//
// What cannot be resolved is kind "unknown": always counted in "unresolved", listed in "sites"
// only when the expression or what is known about its type mentions "map"/"Map".
//
// The output is one JSON object; everything in it is sorted.
package main

import (
	"bytes"
	"encoding/json"
	"fmt"
	"go/ast"
	"go/parser"
	"go/printer"
	"go/token"
	"os"
	"path/filepath"
	"sort"
	"strings"
)

// ---------------------------------------------------------------------------------------------
// what is scanned

var modules = []string{"exchange", "hold", "marker", "metadata", "name", "attribute", "quarantine", "sanction", "trigger", "msgfees"}

func scanDirs() []string {
	dirs := []string{"app", "internal/handlers", "internal/sdk", "internal/antewrapper"}
	for _, m := range modules {
		for _, sub := range []string{"", "keeper", "types", "module"} {
			dirs = append(dirs, filepath.Join("x", m, sub))
		}
	}
	sort.Strings(dirs)
	return dirs
}

var skipDirParts = map[string]bool{"testutil": true, "simulation": true, "client": true, "spec": true}

func skippedDir(rel string) bool {
	for _, p := range strings.Split(filepath.ToSlash(rel), "/") {
		if skipDirParts[p] {
			return true
		}
	}
	return false
}

func isGenerated(name string) bool {
	return strings.HasSuffix(name, ".pb.go") || strings.HasSuffix(name, ".pb.gw.go")
}

var consensusRoots = []string{"AggregateEvents", "BeginBlock", "BeginBlocker", "EndBlock", "EndBlocker", "ExportAppStateAndValidators",
	"ExportGenesis", "ExportGenesisForModules", "InitChainer", "InitGenesis", "PreBlocker", "prepForZeroHeightGenesis"}

// functions the bank keeper (outside the repository) calls back during a transfer.
var extraMsgRoots = map[string]bool{"SendRestrictionFn": true, "GetLockedCoins": true, "AnteHandle": true, "PostHandle": true}

// ---------------------------------------------------------------------------------------------
// external knowledge: the few types and functions of other modules that show up as range
// operands, written as Go type expressions.

var extTypes = map[string]string{
	"github.com/cosmos/cosmos-sdk/types.Coins":               "[]Coin",
	"github.com/cosmos/cosmos-sdk/types.DecCoins":            "[]DecCoin",
	"github.com/cosmos/cosmos-sdk/types.AccAddress":          "[]byte",
	"github.com/cosmos/cosmos-sdk/types.ValAddress":          "[]byte",
	"github.com/cosmos/cosmos-sdk/types.ConsAddress":         "[]byte",
	"github.com/cosmos/cosmos-sdk/types.Events":              "[]Event",
	"github.com/cosmos/cosmos-sdk/types.Event":               "struct{ Type string; Attributes []EventAttribute }",
	"github.com/cosmos/cosmos-sdk/types.Msg":                 "interface{}",
	"github.com/cosmos/cosmos-sdk/types.Context":             "struct{}",
	"github.com/cosmos/cosmos-sdk/types.Coin":                "struct{ Denom string }",
	"github.com/cosmos/cosmos-sdk/types.Tx":                  "interface{ GetMsgs() []Msg }",
	"github.com/cosmos/cosmos-sdk/types.FeeTx":               "interface{ GetMsgs() []Msg }",
	"github.com/cometbft/cometbft/abci/types.Event":          "struct{ Type string; Attributes []EventAttribute }",
	"github.com/cosmos/cosmos-sdk/types/module.Manager":      "struct{ Modules map[string]interface{}; OrderInitGenesis []string; OrderExportGenesis []string; OrderBeginBlockers []string; OrderEndBlockers []string; OrderPreBlockers []string; OrderMigrations []string }",
	"github.com/cosmos/cosmos-sdk/types/module.BasicManager": "map[string]AppModuleBasic",
	"github.com/cosmos/cosmos-sdk/types/module.VersionMap":   "map[string]uint64",
	"cosmossdk.io/store/types.StoreKey":                      "interface{}",
	"encoding/json.RawMessage":                               "[]byte",
}

var extFuncs = map[string]string{
	"strings.Split": "[]string", "strings.SplitN": "[]string", "strings.Fields": "[]string", "strings.SplitAfter": "[]string",
	"strings.ToLower": "string", "strings.ToUpper": "string", "strings.TrimSpace": "string",
	"bytes.Split":   "[][]byte",
	"slices.Sorted": "[]E", "slices.Collect": "[]E", "slices.Clone": "[]E",
	// keys/values of a map in map order (x/exp returns an unsorted slice, the standard library an
	// iterator): ranging over them is ranging over the map, so they are reported as maps.
	"golang.org/x/exp/maps.Keys": "map[K]V", "golang.org/x/exp/maps.Values": "map[K]V",
	"maps.Keys": "map[K]V", "maps.Values": "map[K]V", "maps.All": "map[K]V",
	"github.com/cosmos/cosmos-sdk/types.NewCoins": "[]Coin",
	"reflect.ValueOf":                               "struct{}",
	"github.com/spf13/cast.ToIntSlice":              "[]int",
	"github.com/cosmos/cosmos-sdk/types/tx.GetMsgs": "[]Msg",
}

// methods of types declared outside the repository, by name only.
var extMethods = map[string]string{
	"GetMsgs": "[]Msg", "GetSigners": "[][]byte", "Events": "[]Event", "ABCIEvents": "[]Event", "Denoms": "[]string",
	"Sort": "[]Coin", "Add": "[]Coin", "Sub": "[]Coin", "GetFee": "[]Coin", "Bytes": "[]byte", "String": "string",
	"GetMemo": "string", "GetAttributes": "[]Attribute",
	// staking keeper, sdk.Context, sdk.EventManagerWithHistoryI, codec.Codec
	"GetAllDelegations": "[]Delegation", "GetValidatorDelegations": "[]Delegation", "GetAllValidators": "[]Validator",
	"MinGasPrices": "[]DecCoin", "GetABCIEventHistory": "[]Event", "GetMsgV1Signers": "[][]byte",
}

// fields of struct types declared outside the repository, by name only; consulted only when no
// struct of the loaded packages has a field of that name.
var extFields = map[string]string{
	"Events":      "[]Event",       // abci ResponseBeginBlock / ResponseFinalizeBlock / ExecTxResult
	"Validators":  "[]*Validator",  // cometbft types.ValidatorSet
	"Methods":     "[]MethodDesc",  // grpc.ServiceDesc
	"DenomUnits":  "[]*DenomUnit",  // bank Metadata
	"DenomOwners": "[]*DenomOwner", // bank QueryDenomOwnersResponse
	"Messages":    "[]*Any",        // gov v1 Proposal
}

// ---------------------------------------------------------------------------------------------
// loaded source

type fileInfo struct {
	path string // relative to the repository root
	dir  string
	ast  *ast.File
	scan bool
}

type typeDecl struct {
	spec *ast.TypeSpec
	f    *fileInfo
}

type varDecl struct {
	typ   ast.Expr
	val   ast.Expr
	idx   int // position among the names when one call initialises several
	multi bool
	f     *fileInfo
}

type sig struct {
	name    string
	recv    string
	results []ast.Expr
	f       *fileInfo
	tp      *ast.FieldList
}

type pkgInfo struct {
	dir     string
	name    string
	files   []*fileInfo
	types   map[string]*typeDecl
	funcs   map[string][]*sig
	vars    map[string]*varDecl
	methods map[string][]*sig // "Type.Method"
}

// typ is a type expression together with the file it was written in (its imports and its
// package give the identifiers their meaning) and the type parameters in force there.
type typ struct {
	e  ast.Expr
	f  *fileInfo
	tp *ast.FieldList
}

type universe struct {
	root          string
	modpath       string
	fset          *token.FileSet
	pkgs          map[string]*pkgInfo
	order         []string // pkgs in load order (sorted per phase)
	methodsByName map[string][]*sig
	fieldsByName  map[string][]*typ
	extCache      map[string]ast.Expr
}

func (u *universe) text(n ast.Node) string {
	if n == nil {
		return ""
	}
	var b bytes.Buffer
	_ = printer.Fprint(&b, u.fset, n)
	return strings.Join(strings.Fields(b.String()), " ")
}

func (u *universe) loadDir(rel string, scan bool) *pkgInfo {
	if p, ok := u.pkgs[rel]; ok {
		return p
	}
	ents, err := os.ReadDir(filepath.Join(u.root, rel))
	if err != nil {
		return nil
	}
	p := &pkgInfo{dir: rel, types: map[string]*typeDecl{}, funcs: map[string][]*sig{}, vars: map[string]*varDecl{}, methods: map[string][]*sig{}}
	var names []string
	for _, e := range ents {
		n := e.Name()
		if e.IsDir() || !strings.HasSuffix(n, ".go") || strings.HasSuffix(n, "_test.go") {
			continue
		}
		names = append(names, n)
	}
	sort.Strings(names)
	for _, n := range names {
		full := filepath.Join(u.root, rel, n)
		af, err := parser.ParseFile(u.fset, full, nil, parser.SkipObjectResolution)
		if err != nil {
			fmt.Fprintf(os.Stderr, "maprange: %v\n", err)
			os.Exit(1)
		}
		fi := &fileInfo{path: filepath.ToSlash(filepath.Join(rel, n)), dir: rel, ast: af, scan: scan && !isGenerated(n)}
		p.files = append(p.files, fi)
		if p.name == "" {
			p.name = af.Name.Name
		}
	}
	if len(p.files) == 0 {
		return nil
	}
	u.pkgs[rel] = p
	u.order = append(u.order, rel)
	for _, fi := range p.files {
		u.indexFile(p, fi)
	}
	return p
}

func flattenResults(ft *ast.FuncType) []ast.Expr {
	var out []ast.Expr
	if ft == nil || ft.Results == nil {
		return out
	}
	for _, f := range ft.Results.List {
		n := len(f.Names)
		if n == 0 {
			n = 1
		}
		for i := 0; i < n; i++ {
			out = append(out, f.Type)
		}
	}
	return out
}

func recvTypeName(fd *ast.FuncDecl) string {
	if fd.Recv == nil || len(fd.Recv.List) == 0 {
		return ""
	}
	return baseTypeName(fd.Recv.List[0].Type)
}

func baseTypeName(t ast.Expr) string {
	for {
		switch v := t.(type) {
		case *ast.StarExpr:
			t = v.X
		case *ast.ParenExpr:
			t = v.X
		case *ast.IndexExpr:
			t = v.X
		case *ast.IndexListExpr:
			t = v.X
		case *ast.Ident:
			return v.Name
		case *ast.SelectorExpr:
			return v.Sel.Name
		default:
			return "?"
		}
	}
}

func (u *universe) indexFile(p *pkgInfo, fi *fileInfo) {
	for _, d := range fi.ast.Decls {
		switch d := d.(type) {
		case *ast.FuncDecl:
			s := &sig{name: d.Name.Name, recv: recvTypeName(d), results: flattenResults(d.Type), f: fi, tp: d.Type.TypeParams}
			if d.Recv == nil {
				p.funcs[s.name] = append(p.funcs[s.name], s)
			} else {
				p.methods[s.recv+"."+s.name] = append(p.methods[s.recv+"."+s.name], s)
				u.methodsByName[s.name] = append(u.methodsByName[s.name], s)
			}
		case *ast.GenDecl:
			for _, sp := range d.Specs {
				switch sp := sp.(type) {
				case *ast.TypeSpec:
					if _, dup := p.types[sp.Name.Name]; !dup {
						p.types[sp.Name.Name] = &typeDecl{spec: sp, f: fi}
					}
				case *ast.ValueSpec:
					for i, n := range sp.Names {
						v := &varDecl{typ: sp.Type, f: fi}
						if len(sp.Values) == len(sp.Names) {
							v.val = sp.Values[i]
						} else if len(sp.Values) == 1 {
							v.val, v.idx, v.multi = sp.Values[0], i, true
						}
						if _, dup := p.vars[n.Name]; !dup {
							p.vars[n.Name] = v
						}
					}
				}
			}
		}
	}
	// every struct field and every interface method, wherever the type is written
	ast.Inspect(fi.ast, func(n ast.Node) bool {
		switch t := n.(type) {
		case *ast.StructType:
			for _, f := range t.Fields.List {
				for _, nm := range f.Names {
					u.fieldsByName[nm.Name] = append(u.fieldsByName[nm.Name], &typ{e: f.Type, f: fi})
				}
			}
		case *ast.InterfaceType:
			for _, f := range t.Methods.List {
				ft, ok := f.Type.(*ast.FuncType)
				if !ok {
					continue
				}
				for _, nm := range f.Names {
					u.methodsByName[nm.Name] = append(u.methodsByName[nm.Name], &sig{name: nm.Name, recv: "(interface)", results: flattenResults(ft), f: fi})
				}
			}
		}
		return true
	})
}

// importPath gives the import path the identifier alias stands for in file f ("" if none).
func (u *universe) importPath(f *fileInfo, alias string) string {
	for _, im := range f.ast.Imports {
		path := strings.Trim(im.Path.Value, "\"`")
		if im.Name != nil {
			if im.Name.Name == alias {
				return path
			}
			continue
		}
		if u.defaultName(path) == alias {
			return path
		}
	}
	return ""
}

func (u *universe) defaultName(path string) string {
	if dir, ok := u.internalDir(path); ok {
		if p := u.pkgs[dir]; p != nil {
			return p.name
		}
	}
	parts := strings.Split(path, "/")
	last := parts[len(parts)-1]
	if len(parts) > 1 && len(last) >= 2 && last[0] == 'v' && strings.Trim(last[1:], "0123456789") == "" {
		last = parts[len(parts)-2]
	}
	if i := strings.Index(last, ".v"); i > 0 { // gopkg.in/yaml.v2
		last = last[:i]
	}
	return strings.ReplaceAll(last, "-", "_")
}

func (u *universe) internalDir(path string) (string, bool) {
	if path == u.modpath {
		return ".", true
	}
	if strings.HasPrefix(path, u.modpath+"/") {
		return strings.TrimPrefix(path, u.modpath+"/"), true
	}
	return "", false
}

func (u *universe) pkgOfImport(f *fileInfo, alias string) (*pkgInfo, string) {
	path := u.importPath(f, alias)
	if path == "" {
		return nil, ""
	}
	if dir, ok := u.internalDir(path); ok {
		return u.pkgs[dir], path
	}
	return nil, path
}

func (u *universe) ext(table map[string]string, key string) ast.Expr {
	src, ok := table[key]
	if !ok {
		return nil
	}
	if e, ok := u.extCache[src]; ok {
		return e
	}
	e, err := parser.ParseExpr(src)
	if err != nil {
		panic("bad external type " + src)
	}
	u.extCache[src] = e
	return e
}

// ---------------------------------------------------------------------------------------------
// types

var basicTypes = map[string]bool{"bool": true, "string": true, "int": true, "int8": true, "int16": true, "int32": true, "int64": true,
	"uint": true, "uint8": true, "uint16": true, "uint32": true, "uint64": true, "uintptr": true, "byte": true, "rune": true,
	"float32": true, "float64": true, "complex64": true, "complex128": true, "error": true, "any": true, "comparable": true}

func unparen(e ast.Expr) ast.Expr {
	for {
		p, ok := e.(*ast.ParenExpr)
		if !ok {
			return e
		}
		e = p.X
	}
}

func typeParam(tp *ast.FieldList, name string) ast.Expr {
	if tp == nil {
		return nil
	}
	for _, f := range tp.List {
		for _, n := range f.Names {
			if n.Name == name {
				return f.Type
			}
		}
	}
	return nil
}

// named finds the declaration behind a type name (Foo, pkg.Foo, Foo[T]).
func (u *universe) named(t *typ) *typeDecl {
	switch e := unparen(t.e).(type) {
	case *ast.Ident:
		if t.f == nil || typeParam(t.tp, e.Name) != nil {
			return nil
		}
		if p := u.pkgs[t.f.dir]; p != nil {
			return p.types[e.Name]
		}
	case *ast.SelectorExpr:
		x, ok := e.X.(*ast.Ident)
		if !ok || t.f == nil {
			return nil
		}
		if p, _ := u.pkgOfImport(t.f, x.Name); p != nil {
			return p.types[e.Sel.Name]
		}
	case *ast.IndexExpr:
		return u.named(&typ{e: e.X, f: t.f, tp: t.tp})
	case *ast.IndexListExpr:
		return u.named(&typ{e: e.X, f: t.f, tp: t.tp})
	}
	return nil
}

// underlying follows type names until a type literal or a basic type is reached; nil when a name
// cannot be followed.
func (u *universe) underlying(t *typ) *typ {
	for depth := 0; t != nil && depth < 16; depth++ {
		switch e := unparen(t.e).(type) {
		case *ast.MapType, *ast.ArrayType, *ast.ChanType, *ast.FuncType, *ast.StructType, *ast.InterfaceType, *ast.Ellipsis, *ast.StarExpr:
			return &typ{e: e, f: t.f, tp: t.tp}
		case *ast.Ident:
			if c := typeParam(t.tp, e.Name); c != nil {
				if un, ok := c.(*ast.UnaryExpr); ok && un.Op == token.TILDE {
					t = &typ{e: un.X, f: t.f, tp: t.tp}
					continue
				}
				return nil
			}
			if d := u.named(t); d != nil {
				t = &typ{e: d.spec.Type, f: d.f, tp: d.spec.TypeParams}
				continue
			}
			if basicTypes[e.Name] {
				return &typ{e: e, f: t.f}
			}
			return nil
		case *ast.SelectorExpr:
			if d := u.named(t); d != nil {
				t = &typ{e: d.spec.Type, f: d.f, tp: d.spec.TypeParams}
				continue
			}
			if x, ok := e.X.(*ast.Ident); ok && t.f != nil {
				if path := u.importPath(t.f, x.Name); path != "" {
					if ee := u.ext(extTypes, path+"."+e.Sel.Name); ee != nil {
						t = &typ{e: ee}
						continue
					}
				}
			}
			return nil
		case *ast.IndexExpr:
			t = &typ{e: e.X, f: t.f, tp: t.tp}
		case *ast.IndexListExpr:
			t = &typ{e: e.X, f: t.f, tp: t.tp}
		default:
			return nil
		}
	}
	return nil
}

const (
	kMap     = "map"
	kNotMap  = "notmap"
	kUnknown = "unknown"
)

func (u *universe) classify(t *typ) string {
	if t == nil {
		return kUnknown
	}
	ul := u.underlying(t)
	if ul == nil {
		return kUnknown
	}
	if _, ok := ul.e.(*ast.MapType); ok {
		return kMap
	}
	return kNotMap
}

var intType = &typ{e: ast.NewIdent("int")}
var boolType = &typ{e: ast.NewIdent("bool")}
var stringType = &typ{e: ast.NewIdent("string")}
var runeType = &typ{e: ast.NewIdent("rune")}

// elem gives the key (which=0) or value (which=1) type produced by ranging over / indexing t.
func (u *universe) elem(t *typ, which int) *typ {
	ul := u.underlying(t)
	if ul == nil {
		return nil
	}
	switch e := ul.e.(type) {
	case *ast.MapType:
		if which == 0 {
			return &typ{e: e.Key, f: ul.f, tp: ul.tp}
		}
		return &typ{e: e.Value, f: ul.f, tp: ul.tp}
	case *ast.ArrayType:
		if which == 0 {
			return intType
		}
		return &typ{e: e.Elt, f: ul.f, tp: ul.tp}
	case *ast.Ellipsis:
		if which == 0 {
			return intType
		}
		return &typ{e: e.Elt, f: ul.f, tp: ul.tp}
	case *ast.ChanType:
		return &typ{e: e.Value, f: ul.f, tp: ul.tp}
	case *ast.StarExpr:
		return u.elem(&typ{e: e.X, f: ul.f, tp: ul.tp}, which)
	case *ast.Ident:
		if e.Name == "string" {
			if which == 0 {
				return intType
			}
			return runeType
		}
		if which == 0 {
			return intType
		}
	}
	return nil
}

func (u *universe) deref(t *typ) *typ {
	if t == nil {
		return nil
	}
	if s, ok := unparen(t.e).(*ast.StarExpr); ok {
		return &typ{e: s.X, f: t.f, tp: t.tp}
	}
	if _, ok := unparen(t.e).(*ast.Ident); ok {
		return t
	}
	if ul := u.underlying(t); ul != nil {
		if s, ok := ul.e.(*ast.StarExpr); ok {
			return &typ{e: s.X, f: ul.f, tp: ul.tp}
		}
	}
	return t
}

// fieldOn finds field name in the struct type behind t (through embedded structs).
func (u *universe) fieldOn(t *typ, name string, depth int) *typ {
	if t == nil || depth > 4 {
		return nil
	}
	ul := u.underlying(u.deref(t))
	if ul == nil {
		return nil
	}
	if s, ok := ul.e.(*ast.StarExpr); ok {
		ul = u.underlying(&typ{e: s.X, f: ul.f, tp: ul.tp})
		if ul == nil {
			return nil
		}
	}
	st, ok := ul.e.(*ast.StructType)
	if !ok {
		return nil
	}
	for _, f := range st.Fields.List {
		for _, n := range f.Names {
			if n.Name == name {
				return &typ{e: f.Type, f: ul.f, tp: ul.tp}
			}
		}
	}
	for _, f := range st.Fields.List {
		if len(f.Names) == 0 {
			if baseTypeName(f.Type) == name {
				return &typ{e: f.Type, f: ul.f, tp: ul.tp}
			}
			if r := u.fieldOn(&typ{e: f.Type, f: ul.f, tp: ul.tp}, name, depth+1); r != nil {
				return r
			}
		}
	}
	return nil
}

// methodOn finds method name of the type behind t (declared methods, embedded fields, interface
// methods).
func (u *universe) methodOn(t *typ, name string, depth int) *sig {
	if t == nil || depth > 4 {
		return nil
	}
	t = u.deref(t)
	if d := u.named(t); d != nil {
		if p := u.pkgs[d.f.dir]; p != nil {
			if ss := p.methods[d.spec.Name.Name+"."+name]; len(ss) > 0 {
				return ss[0]
			}
		}
	}
	ul := u.underlying(t)
	if ul == nil {
		return nil
	}
	switch e := ul.e.(type) {
	case *ast.StructType:
		for _, f := range e.Fields.List {
			if len(f.Names) == 0 {
				if s := u.methodOn(&typ{e: f.Type, f: ul.f, tp: ul.tp}, name, depth+1); s != nil {
					return s
				}
			}
		}
	case *ast.InterfaceType:
		for _, f := range e.Methods.List {
			if ft, ok := f.Type.(*ast.FuncType); ok {
				for _, n := range f.Names {
					if n.Name == name {
						return &sig{name: name, recv: "(interface)", results: flattenResults(ft), f: ul.f, tp: ul.tp}
					}
				}
			} else if len(f.Names) == 0 {
				if s := u.methodOn(&typ{e: f.Type, f: ul.f, tp: ul.tp}, name, depth+1); s != nil {
					return s
				}
			}
		}
	}
	return nil
}

// ---------------------------------------------------------------------------------------------
// expressions

// res is what is known about an expression: its type (nil when unknown), how it was found, and
// for the unknown case whatever text there is about the type.
type res struct {
	t    *typ
	how  string
	desc string
}

type scope struct {
	parent *scope
	m      map[string]res
}

func (s *scope) lookup(n string) (res, bool) {
	for ; s != nil; s = s.parent {
		if r, ok := s.m[n]; ok {
			return r, true
		}
	}
	return res{}, false
}

func (s *scope) bind(n string, r res) {
	if n == "_" || n == "" {
		return
	}
	s.m[n] = r
}

func newScope(p *scope) *scope { return &scope{parent: p, m: map[string]res{}} }

type site struct {
	File          string   `json:"file"`
	Func          string   `json:"func"`
	Recv          string   `json:"recv"`
	Expr          string   `json:"expr"`
	Line          int      `json:"line"`
	Kind          string   `json:"kind"`
	How           string   `json:"how"`
	BodyCalls     []string `json:"body_calls"`
	ConsensusPath bool     `json:"consensus_path"`
	Roots         []string `json:"roots"`
	MsgPath       bool     `json:"msg_path"`
	node          string   // call-graph node of the enclosing function
}

type walker struct {
	u          *universe
	f          *fileInfo
	fn         string
	recv       string
	node       string
	tp         *ast.FieldList
	sites      []site
	rangeStmts int
	unresolved int
	depth      int
}

func (w *walker) T(e ast.Expr) *typ {
	if e == nil {
		return nil
	}
	return &typ{e: e, f: w.f, tp: w.tp}
}

func (w *walker) typeRes(e ast.Expr, how string) res {
	return res{t: w.T(e), how: how, desc: w.u.text(e)}
}

func (w *walker) ofTyp(t *typ, how string) res {
	if t == nil {
		return res{how: how}
	}
	return res{t: t, how: how, desc: w.u.text(t.e)}
}

func calleeName(c *ast.CallExpr) string {
	f := unparen(c.Fun)
	for {
		switch v := f.(type) {
		case *ast.IndexExpr:
			f = v.X
			continue
		case *ast.IndexListExpr:
			f = v.X
			continue
		case *ast.SelectorExpr:
			return v.Sel.Name
		case *ast.Ident:
			return v.Name
		}
		return ""
	}
}

func (w *walker) sigResult(s *sig, idx int, how string) res {
	if idx >= len(s.results) {
		return res{how: how, desc: "no such result"}
	}
	t := &typ{e: s.results[idx], f: s.f, tp: s.tp}
	return res{t: t, how: how, desc: w.u.text(t.e)}
}

// byName combines candidates found by name only: map as soon as one is a map when anyMap is set
// (struct fields), otherwise only when all agree.
func (w *walker) byName(cands []*typ, label string, anyMap bool) res {
	if len(cands) == 0 {
		return res{how: label + ": no candidate"}
	}
	var descs []string
	seen := map[string]bool{}
	kinds := map[string]*typ{}
	for _, c := range cands {
		k := w.u.classify(c)
		if _, ok := kinds[k]; !ok {
			kinds[k] = c
		}
		d := w.u.text(c.e)
		if !seen[d] {
			seen[d] = true
			descs = append(descs, d)
		}
	}
	sort.Strings(descs)
	desc := strings.Join(descs, " | ")
	if anyMap && kinds[kMap] != nil {
		return res{t: kinds[kMap], how: label, desc: desc}
	}
	if len(kinds) == 1 {
		for _, k := range []string{kMap, kNotMap} {
			if c := kinds[k]; c != nil {
				return res{t: c, how: label, desc: desc}
			}
		}
	}
	if len(kinds) > 1 {
		return res{how: label + ": candidates disagree", desc: desc}
	}
	return res{how: label + ": unresolved type", desc: desc}
}

func (w *walker) pkgVar(p *pkgInfo, name string) (res, bool) {
	v := p.vars[name]
	if v == nil {
		return res{}, false
	}
	if v.typ != nil {
		return res{t: &typ{e: v.typ, f: v.f}, how: "pkg-var", desc: w.u.text(v.typ)}, true
	}
	if v.val == nil || w.depth > 6 {
		return res{how: "pkg-var"}, true
	}
	w.depth++
	sub := &walker{u: w.u, f: v.f, depth: w.depth}
	var r res
	if v.multi {
		if c, ok := unparen(v.val).(*ast.CallExpr); ok {
			r = sub.inferCall(c, nil, v.idx)
		}
	} else {
		r = sub.infer(v.val, nil)
	}
	w.depth--
	r.how = "pkg-var " + r.how
	if r.desc == "" {
		r.desc = w.u.text(v.val)
	}
	return r, true
}

func (w *walker) infer(e ast.Expr, sc *scope) res {
	u := w.u
	switch e := e.(type) {
	case nil:
		return res{}
	case *ast.ParenExpr:
		return w.infer(e.X, sc)
	case *ast.CompositeLit:
		if e.Type == nil {
			return res{how: "literal with elided type"}
		}
		return w.typeRes(e.Type, "literal")
	case *ast.BasicLit:
		switch e.Kind {
		case token.STRING:
			return res{t: stringType, how: "string literal"}
		case token.CHAR:
			return res{t: runeType, how: "rune literal"}
		}
		return res{t: intType, how: "number literal"}
	case *ast.FuncLit:
		return w.typeRes(e.Type, "func literal")
	case *ast.Ident:
		if r, ok := sc.lookup(e.Name); ok {
			return r
		}
		switch e.Name {
		case "true", "false":
			return res{t: boolType, how: "bool"}
		case "nil":
			return res{how: "nil"}
		}
		if p := u.pkgs[w.f.dir]; p != nil {
			if r, ok := w.pkgVar(p, e.Name); ok {
				return r
			}
		}
		return res{how: "undeclared identifier"}
	case *ast.SelectorExpr:
		if x, ok := e.X.(*ast.Ident); ok {
			if _, local := sc.lookup(x.Name); !local {
				if p, path := u.pkgOfImport(w.f, x.Name); path != "" {
					if p != nil {
						if r, ok := w.pkgVar(p, e.Sel.Name); ok {
							return r
						}
					}
					return res{how: "identifier of package " + path}
				}
			}
		}
		if rx := w.infer(e.X, sc); rx.t != nil {
			if ft := u.fieldOn(rx.t, e.Sel.Name, 0); ft != nil {
				return w.ofTyp(ft, "field")
			}
		}
		if cands := u.fieldsByName[e.Sel.Name]; len(cands) > 0 {
			return w.byName(cands, "by-field-name", true)
		}
		if ee := u.ext(extFields, e.Sel.Name); ee != nil {
			return res{t: &typ{e: ee}, how: "external field by name", desc: u.text(ee)}
		}
		return res{how: "by-field-name: no candidate"}
	case *ast.CallExpr:
		return w.inferCall(e, sc, 0)
	case *ast.IndexExpr:
		rx := w.infer(e.X, sc)
		if rx.t == nil {
			return res{how: "index of unresolved", desc: rx.desc}
		}
		return w.ofTyp(u.elem(rx.t, 1), "element of "+rx.how)
	case *ast.SliceExpr:
		return w.infer(e.X, sc)
	case *ast.StarExpr:
		rx := w.infer(e.X, sc)
		if rx.t == nil {
			return rx
		}
		if ul := u.underlying(rx.t); ul != nil {
			if s, ok := ul.e.(*ast.StarExpr); ok {
				return w.ofTyp(&typ{e: s.X, f: ul.f, tp: ul.tp}, "deref "+rx.how)
			}
		}
		return res{how: "deref of non-pointer", desc: rx.desc}
	case *ast.UnaryExpr:
		rx := w.infer(e.X, sc)
		switch e.Op {
		case token.AND:
			if rx.t == nil {
				return res{t: &typ{e: &ast.StarExpr{X: ast.NewIdent("unresolved")}}, how: "address"}
			}
			return res{t: &typ{e: &ast.StarExpr{X: rx.t.e}, f: rx.t.f, tp: rx.t.tp}, how: "address of " + rx.how, desc: "*" + rx.desc}
		case token.ARROW:
			if rx.t == nil {
				return rx
			}
			return w.ofTyp(u.elem(rx.t, 1), "receive")
		case token.NOT:
			return res{t: boolType, how: "bool"}
		}
		return rx
	case *ast.BinaryExpr:
		switch e.Op {
		case token.EQL, token.NEQ, token.LSS, token.GTR, token.LEQ, token.GEQ, token.LAND, token.LOR:
			return res{t: boolType, how: "bool"}
		}
		if r := w.infer(e.X, sc); r.t != nil {
			return r
		}
		return w.infer(e.Y, sc)
	case *ast.TypeAssertExpr:
		if e.Type == nil {
			return res{how: "type switch"}
		}
		return w.typeRes(e.Type, "type assertion")
	}
	return res{how: "unsupported expression"}
}

func (w *walker) inferCall(c *ast.CallExpr, sc *scope, idx int) res {
	u := w.u
	fun := unparen(c.Fun)
	// explicit instantiation f[T](...)
	switch ix := fun.(type) {
	case *ast.IndexExpr:
		switch ix.X.(type) {
		case *ast.Ident, *ast.SelectorExpr:
			if r := w.inferCall(&ast.CallExpr{Fun: ix.X, Args: c.Args}, sc, idx); r.t != nil {
				return r
			}
		}
	case *ast.IndexListExpr:
		return w.inferCall(&ast.CallExpr{Fun: ix.X, Args: c.Args}, sc, idx)
	}
	switch fn := fun.(type) {
	case *ast.ArrayType, *ast.MapType, *ast.ChanType, *ast.FuncType, *ast.InterfaceType, *ast.StarExpr:
		return w.typeRes(fn, "conversion")
	case *ast.FuncLit:
		return w.sigResult(&sig{results: flattenResults(fn.Type), f: w.f, tp: w.tp}, idx, "call of func literal")
	case *ast.Ident:
		if r, ok := sc.lookup(fn.Name); ok {
			if r.t != nil {
				if ul := u.underlying(r.t); ul != nil {
					if ft, ok := ul.e.(*ast.FuncType); ok {
						return w.sigResult(&sig{results: flattenResults(ft), f: ul.f, tp: ul.tp}, idx, "call of local func value")
					}
				}
			}
			return res{how: "call of local value", desc: r.desc}
		}
		switch fn.Name {
		case "make":
			if len(c.Args) > 0 {
				return w.typeRes(c.Args[0], "make")
			}
		case "new":
			if len(c.Args) > 0 {
				return res{t: w.T(&ast.StarExpr{X: c.Args[0]}), how: "new"}
			}
		case "append":
			if len(c.Args) > 0 {
				if r := w.infer(c.Args[0], sc); r.t != nil {
					return r
				}
			}
			return res{t: &typ{e: &ast.ArrayType{Elt: ast.NewIdent("unresolved")}}, how: "append"}
		case "len", "cap", "copy", "min", "max":
			return res{t: intType, how: "builtin"}
		}
		if typeParam(w.tp, fn.Name) != nil {
			return w.typeRes(fn, "conversion")
		}
		if p := u.pkgs[w.f.dir]; p != nil {
			if _, ok := p.types[fn.Name]; ok {
				return w.typeRes(fn, "conversion")
			}
			if ss := p.funcs[fn.Name]; len(ss) > 0 {
				return w.sigResult(ss[0], idx, "result of "+fn.Name)
			}
			if r, ok := w.pkgVar(p, fn.Name); ok && r.t != nil {
				if ul := u.underlying(r.t); ul != nil {
					if ft, ok := ul.e.(*ast.FuncType); ok {
						return w.sigResult(&sig{results: flattenResults(ft), f: ul.f, tp: ul.tp}, idx, "result of func value "+fn.Name)
					}
				}
			}
		}
		if basicTypes[fn.Name] {
			return w.typeRes(fn, "conversion")
		}
		return res{how: "call of undeclared " + fn.Name}
	case *ast.SelectorExpr:
		if x, ok := fn.X.(*ast.Ident); ok {
			if _, local := sc.lookup(x.Name); !local {
				if p, path := u.pkgOfImport(w.f, x.Name); path != "" {
					if p != nil {
						if _, ok := p.types[fn.Sel.Name]; ok {
							return w.typeRes(fn, "conversion")
						}
						if ss := p.funcs[fn.Sel.Name]; len(ss) > 0 {
							return w.sigResult(ss[0], idx, "result of "+x.Name+"."+fn.Sel.Name)
						}
						if r, ok := w.pkgVar(p, fn.Sel.Name); ok && r.t != nil {
							if ul := u.underlying(r.t); ul != nil {
								if ft, ok := ul.e.(*ast.FuncType); ok {
									return w.sigResult(&sig{results: flattenResults(ft), f: ul.f, tp: ul.tp}, idx, "result of func value")
								}
							}
						}
						return res{how: "call of unknown " + path + "." + fn.Sel.Name}
					}
					if ee := u.ext(extFuncs, path+"."+fn.Sel.Name); ee != nil && idx == 0 {
						return res{t: &typ{e: ee}, how: "result of " + path + "." + fn.Sel.Name, desc: u.text(ee)}
					}
					if u.ext(extTypes, path+"."+fn.Sel.Name) != nil {
						return w.typeRes(fn, "conversion")
					}
					return res{how: "call of external " + path + "." + fn.Sel.Name}
				}
			}
		}
		// method call (or call of a func-typed field)
		rx := w.infer(fn.X, sc)
		if rx.t != nil {
			if s := u.methodOn(rx.t, fn.Sel.Name, 0); s != nil {
				return w.sigResult(s, idx, "result of method "+fn.Sel.Name)
			}
			if ft := u.fieldOn(rx.t, fn.Sel.Name, 0); ft != nil {
				if ul := u.underlying(ft); ul != nil {
					if f, ok := ul.e.(*ast.FuncType); ok {
						return w.sigResult(&sig{results: flattenResults(f), f: ul.f, tp: ul.tp}, idx, "result of func field "+fn.Sel.Name)
					}
				}
			}
		}
		var cands []*typ
		for _, s := range u.methodsByName[fn.Sel.Name] {
			if idx < len(s.results) {
				cands = append(cands, &typ{e: s.results[idx], f: s.f, tp: s.tp})
			}
		}
		if len(cands) > 0 {
			return w.byName(cands, "result of methods named "+fn.Sel.Name, false)
		}
		if ee := u.ext(extMethods, fn.Sel.Name); ee != nil && idx == 0 {
			return res{t: &typ{e: ee}, how: "result of external method " + fn.Sel.Name, desc: u.text(ee)}
		}
		return res{how: "call of unknown method " + fn.Sel.Name, desc: rx.desc}
	}
	return res{how: "unsupported call"}
}

// ---------------------------------------------------------------------------------------------
// statements

func (w *walker) bindFields(sc *scope, fl *ast.FieldList, how string) {
	if fl == nil {
		return
	}
	for _, f := range fl.List {
		for _, n := range f.Names {
			sc.bind(n.Name, w.typeRes(f.Type, how))
		}
	}
}

func (w *walker) funcBody(ft *ast.FuncType, recv *ast.FieldList, body *ast.BlockStmt, parent *scope) {
	if body == nil {
		return
	}
	sc := newScope(parent)
	w.bindFields(sc, recv, "receiver")
	w.bindFields(sc, ft.Params, "param")
	w.bindFields(sc, ft.Results, "named result")
	for _, s := range body.List {
		w.stmt(s, sc)
	}
}

// exprs looks for function literals (the only expressions that contain statements).
func (w *walker) expr(e ast.Node, sc *scope) {
	if e == nil {
		return
	}
	ast.Inspect(e, func(n ast.Node) bool {
		if fl, ok := n.(*ast.FuncLit); ok {
			w.funcBody(fl.Type, nil, fl.Body, sc)
			return false
		}
		return true
	})
}

func (w *walker) define(lhs []ast.Expr, rhs []ast.Expr, sc *scope) {
	if len(lhs) == len(rhs) {
		rs := make([]res, len(rhs))
		for i := range rhs {
			rs[i] = w.infer(rhs[i], sc)
			if rs[i].desc == "" {
				rs[i].desc = w.u.text(rhs[i])
			}
			rs[i].how = "local := " + rs[i].how
		}
		for i, l := range lhs {
			if id, ok := l.(*ast.Ident); ok {
				sc.bind(id.Name, rs[i])
			}
		}
		return
	}
	if len(rhs) != 1 {
		return
	}
	for i, l := range lhs {
		id, ok := l.(*ast.Ident)
		if !ok {
			continue
		}
		var r res
		switch v := unparen(rhs[0]).(type) {
		case *ast.CallExpr:
			r = w.inferCall(v, sc, i)
		case *ast.IndexExpr, *ast.TypeAssertExpr, *ast.UnaryExpr:
			if i == 0 {
				r = w.infer(v, sc)
			} else {
				r = res{t: boolType, how: "ok"}
			}
		}
		if r.desc == "" {
			r.desc = w.u.text(rhs[0])
		}
		r.how = "local := " + r.how
		sc.bind(id.Name, r)
	}
}

func (w *walker) stmt(s ast.Stmt, sc *scope) {
	switch s := s.(type) {
	case nil:
	case *ast.BlockStmt:
		in := newScope(sc)
		for _, x := range s.List {
			w.stmt(x, in)
		}
	case *ast.AssignStmt:
		for _, r := range s.Rhs {
			w.expr(r, sc)
		}
		for _, l := range s.Lhs {
			w.expr(l, sc)
		}
		if s.Tok == token.DEFINE {
			w.define(s.Lhs, s.Rhs, sc)
		}
	case *ast.DeclStmt:
		gd, ok := s.Decl.(*ast.GenDecl)
		if !ok {
			return
		}
		for _, sp := range gd.Specs {
			vs, ok := sp.(*ast.ValueSpec)
			if !ok {
				continue
			}
			for _, v := range vs.Values {
				w.expr(v, sc)
			}
			if vs.Type != nil {
				for _, n := range vs.Names {
					sc.bind(n.Name, w.typeRes(vs.Type, "local var"))
				}
				continue
			}
			lhs := make([]ast.Expr, len(vs.Names))
			for i, n := range vs.Names {
				lhs[i] = n
			}
			w.define(lhs, vs.Values, sc)
		}
	case *ast.ExprStmt:
		w.expr(s.X, sc)
	case *ast.SendStmt:
		w.expr(s.Chan, sc)
		w.expr(s.Value, sc)
	case *ast.IncDecStmt:
		w.expr(s.X, sc)
	case *ast.GoStmt:
		w.expr(s.Call, sc)
	case *ast.DeferStmt:
		w.expr(s.Call, sc)
	case *ast.ReturnStmt:
		for _, r := range s.Results {
			w.expr(r, sc)
		}
	case *ast.LabeledStmt:
		w.stmt(s.Stmt, sc)
	case *ast.IfStmt:
		in := newScope(sc)
		w.stmt(s.Init, in)
		w.expr(s.Cond, in)
		w.stmt(s.Body, in)
		w.stmt(s.Else, in)
	case *ast.ForStmt:
		in := newScope(sc)
		w.stmt(s.Init, in)
		w.expr(s.Cond, in)
		w.stmt(s.Post, in)
		w.stmt(s.Body, in)
	case *ast.RangeStmt:
		w.expr(s.X, sc)
		rx := w.rangeSite(s, sc)
		in := newScope(sc)
		if s.Tok == token.DEFINE {
			for i, kv := range []ast.Expr{s.Key, s.Value} {
				if id, ok := kv.(*ast.Ident); ok {
					var r res
					if rx.t != nil {
						r = w.ofTyp(w.u.elem(rx.t, i), "range variable")
					}
					if r.t == nil {
						r = res{how: "range variable of unresolved", desc: "element of " + rx.desc}
					}
					in.bind(id.Name, r)
				}
			}
		}
		w.stmt(s.Body, in)
	case *ast.SwitchStmt:
		in := newScope(sc)
		w.stmt(s.Init, in)
		w.expr(s.Tag, in)
		for _, c := range s.Body.List {
			cc := c.(*ast.CaseClause)
			cs := newScope(in)
			for _, e := range cc.List {
				w.expr(e, cs)
			}
			for _, x := range cc.Body {
				w.stmt(x, cs)
			}
		}
	case *ast.TypeSwitchStmt:
		in := newScope(sc)
		w.stmt(s.Init, in)
		var bound string
		var subject ast.Expr
		switch a := s.Assign.(type) {
		case *ast.AssignStmt:
			if len(a.Lhs) == 1 && len(a.Rhs) == 1 {
				if id, ok := a.Lhs[0].(*ast.Ident); ok {
					bound = id.Name
				}
				if ta, ok := a.Rhs[0].(*ast.TypeAssertExpr); ok {
					subject = ta.X
				}
			}
		case *ast.ExprStmt:
			if ta, ok := a.X.(*ast.TypeAssertExpr); ok {
				subject = ta.X
			}
		}
		w.expr(subject, in)
		for _, c := range s.Body.List {
			cc := c.(*ast.CaseClause)
			cs := newScope(in)
			if bound != "" {
				if len(cc.List) == 1 {
					if id, isNil := cc.List[0].(*ast.Ident); !(isNil && id.Name == "nil") {
						cs.bind(bound, w.typeRes(cc.List[0], "type switch case"))
					}
				} else if subject != nil {
					cs.bind(bound, w.infer(subject, in))
				}
			}
			for _, x := range cc.Body {
				w.stmt(x, cs)
			}
		}
	case *ast.SelectStmt:
		for _, c := range s.Body.List {
			cc := c.(*ast.CommClause)
			cs := newScope(sc)
			w.stmt(cc.Comm, cs)
			for _, x := range cc.Body {
				w.stmt(x, cs)
			}
		}
	}
}

func (w *walker) rangeSite(s *ast.RangeStmt, sc *scope) res {
	w.rangeStmts++
	r := w.infer(s.X, sc)
	kind := w.u.classify(r.t)
	if os.Getenv("MAPRANGE_DEBUG") == "all" {
		fmt.Fprintf(os.Stderr, "%s:%d\t%s\t%s\t%s\t%s\n", w.f.path, w.u.fset.Position(s.Pos()).Line, kind, w.u.text(s.X), r.how, r.desc)
	}
	if kind == kNotMap {
		return r
	}
	expr := w.u.text(s.X)
	if kind == kUnknown {
		w.unresolved++
		all := expr + " " + r.desc
		if !strings.Contains(all, "map") && !strings.Contains(all, "Map") {
			if os.Getenv("MAPRANGE_DEBUG") != "" {
				fmt.Fprintf(os.Stderr, "dropped unknown %s:%d %s [%s] {%s}\n", w.f.path, w.u.fset.Position(s.Pos()).Line, expr, r.how, r.desc)
			}
			return r
		}
	}
	how := r.how
	if r.desc != "" {
		how += ": " + r.desc
	}
	calls := map[string]bool{}
	ast.Inspect(s.Body, func(n ast.Node) bool {
		if c, ok := n.(*ast.CallExpr); ok {
			if nm := calleeName(c); nm != "" {
				calls[nm] = true
			}
		}
		return true
	})
	bc := make([]string, 0, len(calls))
	for k := range calls {
		bc = append(bc, k)
	}
	sort.Strings(bc)
	w.sites = append(w.sites, site{File: w.f.path, Func: w.fn, Recv: w.recv, Expr: expr, Line: w.u.fset.Position(s.Pos()).Line,
		Kind: kind, How: how, BodyCalls: bc, Roots: []string{}, node: w.node})
	return r
}

// ---------------------------------------------------------------------------------------------
// name-based call graph

type graph struct {
	names map[string]bool            // functions declared in scanned files
	out   map[string]map[string]bool // caller name -> mentioned names
}

// mentions records callee names, and names of functions handed over as values (call arguments,
// assigned values, composite literal elements, returned values).
func (g *graph) mentions(from string, body ast.Node) {
	if body == nil {
		return
	}
	m := g.out[from]
	if m == nil {
		m = map[string]bool{}
		g.out[from] = m
	}
	ref := func(e ast.Expr) {
		switch v := unparen(e).(type) {
		case *ast.Ident:
			m[v.Name] = true
		case *ast.SelectorExpr:
			m[v.Sel.Name] = true
		}
	}
	ast.Inspect(body, func(n ast.Node) bool {
		switch v := n.(type) {
		case *ast.CallExpr:
			if nm := calleeName(v); nm != "" {
				m[nm] = true
			}
			for _, a := range v.Args {
				ref(a)
			}
		case *ast.AssignStmt:
			for _, r := range v.Rhs {
				ref(r)
			}
		case *ast.KeyValueExpr:
			ref(v.Value)
		case *ast.CompositeLit:
			for _, el := range v.Elts {
				ref(el)
			}
		case *ast.ReturnStmt:
			for _, r := range v.Results {
				ref(r)
			}
		}
		return true
	})
}

func (g *graph) reach(roots []string) map[string]bool {
	seen := map[string]bool{}
	var queue []string
	for _, r := range roots {
		if g.names[r] && !seen[r] {
			seen[r] = true
			queue = append(queue, r)
		}
	}
	for len(queue) > 0 {
		n := queue[0]
		queue = queue[1:]
		for c := range g.out[n] { // membership only: the result is a set
			if g.names[c] && !seen[c] {
				seen[c] = true
				queue = append(queue, c)
			}
		}
	}
	return seen
}

func isMsgRoot(fi *fileInfo, name, recv string) bool {
	if strings.Contains(recv, "msgServer") || strings.Contains(recv, "MsgServer") {
		return true
	}
	if strings.HasPrefix(name, "Handle") || strings.HasSuffix(name, "Handler") || extraMsgRoots[name] {
		return true
	}
	if strings.HasPrefix(fi.dir, "internal/antewrapper") || strings.HasPrefix(fi.dir, "internal/handlers") {
		for _, part := range []string{"Handle", "Decorator", "Invoker", "Router", "Fee", "Gas"} {
			if strings.Contains(name, part) || strings.Contains(recv, part) {
				return true
			}
		}
	}
	return false
}

// ---------------------------------------------------------------------------------------------

func readModulePath(root string) string {
	b, err := os.ReadFile(filepath.Join(root, "go.mod"))
	if err != nil {
		return ""
	}
	for _, l := range strings.Split(string(b), "\n") {
		l = strings.TrimSpace(l)
		if strings.HasPrefix(l, "module ") {
			return strings.TrimSpace(strings.TrimPrefix(l, "module "))
		}
	}
	return ""
}

func main() {
	if len(os.Args) < 2 {
		fmt.Fprintln(os.Stderr, "usage: maprange <repo-root>")
		os.Exit(2)
	}
	u := &universe{root: os.Args[1], modpath: readModulePath(os.Args[1]), fset: token.NewFileSet(), pkgs: map[string]*pkgInfo{},
		methodsByName: map[string][]*sig{}, fieldsByName: map[string][]*typ{}, extCache: map[string]ast.Expr{}}

	var scanned []*fileInfo
	for _, d := range scanDirs() {
		if skippedDir(d) {
			continue
		}
		if p := u.loadDir(d, true); p != nil {
			for _, f := range p.files {
				if f.scan {
					scanned = append(scanned, f)
				}
			}
		}
	}
	if len(scanned) == 0 {
		fmt.Fprintf(os.Stderr, "maprange: no Go files found under %s in any of the scanned directories\n", os.Args[1])
		os.Exit(1)
	}
	// repository-internal packages imported by the scanned files: declarations only
	var extra []string
	seenExtra := map[string]bool{}
	for _, f := range scanned {
		for _, im := range f.ast.Imports {
			if dir, ok := u.internalDir(strings.Trim(im.Path.Value, "\"`")); ok && u.pkgs[dir] == nil && !seenExtra[dir] {
				seenExtra[dir] = true
				extra = append(extra, dir)
			}
		}
	}
	sort.Strings(extra)
	for _, d := range extra {
		u.loadDir(d, false)
	}

	g := &graph{names: map[string]bool{}, out: map[string]map[string]bool{}}
	msgRootSet := map[string]bool{}
	var sites []site
	rangeStmts, unresolved := 0, 0
	for _, f := range scanned {
		for _, d := range f.ast.Decls {
			switch d := d.(type) {
			case *ast.FuncDecl:
				name, recv := d.Name.Name, recvTypeName(d)
				g.names[name] = true
				g.mentions(name, d.Body)
				if isMsgRoot(f, name, recv) {
					msgRootSet[name] = true
				}
				w := &walker{u: u, f: f, fn: name, recv: recv, node: name, tp: d.Type.TypeParams}
				w.funcBody(d.Type, d.Recv, d.Body, nil)
				sites = append(sites, w.sites...)
				rangeStmts += w.rangeStmts
				unresolved += w.unresolved
			case *ast.GenDecl:
				// package-level function literals: the variable's name is the call-graph node
				for _, sp := range d.Specs {
					vs, ok := sp.(*ast.ValueSpec)
					if !ok {
						continue
					}
					for i, v := range vs.Values {
						node := ""
						if i < len(vs.Names) {
							node = vs.Names[i].Name
						}
						hasLit := false
						ast.Inspect(v, func(n ast.Node) bool {
							if _, ok := n.(*ast.FuncLit); ok {
								hasLit = true
							}
							return !hasLit
						})
						if !hasLit {
							continue
						}
						if node != "" {
							g.names[node] = true
							g.mentions(node, v)
						}
						w := &walker{u: u, f: f, node: node}
						w.expr(v, nil)
						sites = append(sites, w.sites...)
						rangeStmts += w.rangeStmts
						unresolved += w.unresolved
					}
				}
			}
		}
	}

	reachOf := make([]map[string]bool, len(consensusRoots))
	for i, r := range consensusRoots {
		reachOf[i] = g.reach([]string{r})
	}
	var msgRoots []string
	for r := range msgRootSet {
		msgRoots = append(msgRoots, r)
	}
	sort.Strings(msgRoots)
	msgReach := g.reach(msgRoots)

	for i := range sites {
		s := &sites[i]
		for j, r := range consensusRoots {
			if s.node != "" && reachOf[j][s.node] {
				s.Roots = append(s.Roots, r)
			}
		}
		sort.Strings(s.Roots)
		s.ConsensusPath = len(s.Roots) > 0
		s.MsgPath = s.node != "" && msgReach[s.node]
	}
	sort.SliceStable(sites, func(i, j int) bool {
		if sites[i].File != sites[j].File {
			return sites[i].File < sites[j].File
		}
		if sites[i].Line != sites[j].Line {
			return sites[i].Line < sites[j].Line
		}
		return sites[i].Expr < sites[j].Expr
	})
	if sites == nil {
		sites = []site{}
	}
	out, _ := json.MarshalIndent(struct {
		Sites        []site `json:"sites"`
		FilesScanned int    `json:"files_scanned"`
		RangeStmts   int    `json:"range_stmts"`
		Unresolved   int    `json:"unresolved"`
	}{sites, len(scanned), rangeStmts, unresolved}, "", " ")
	fmt.Println(string(out))
}
