// wiring: the source-to-table translator for the "bypass call sites" and "application wiring" tables.
//
// It parses EVERY non-test, non-*.pb.go Go file under the repository root with go/parser (no type
// checking, std-lib only) and prints one JSON document that translate/wiring/gen_coq.py renders into
// coq/Gen/GenBypassSites.v and coq/Gen/GenWiring.v.  It translates TABLES, never algorithms:
//
//	sites      every occurrence of a context-flag SETTER that lets code skip a protection
//	           (hold.WithBypass, markertypes.WithBypass, markertypes.WithTransferAgents,
//	           quarantine.WithBypass, sanction.WithBypass, banktypes.WithVestingLockedBypass,
//	           internalsdk.WithFeeGrantInUse): canonical flag, package directory, enclosing function
//	readers    every occurrence of the matching READER (HasBypass, GetTransferAgents,
//	           HasFeeGrantInUse, HasVestingLockedBypass): where a protection consults a flag
//	key_uses   every use of the context-key identifiers / key string literals behind the flags
//	           (the keys are plain strings, so any package could set them with ctx.WithValue)
//	regs       every call of a bank-keeper hook registration method (Append/Prepend/Clear
//	           SendRestriction / LockedCoinsGetter)
//	wiring     facts read from app/app.go: effective registration order of send restrictions and
//	           locked-coins getters (join of keeper construction order in New() with `regs`), the
//	           constructor arguments of those keepers, maccPerms, markerReqAttrBypassAddrs, how
//	           unsanctionableAddrs is built, hooks (gov hooks in particular), begin/end blockers
//
// Rows are keyed by (flag, package directory, enclosing function) — file and line are carried only
// for comments — so moving code or renaming locals does not change a table.  Every shape that is not
// recognised is emitted as a row / value starting with "Unrecognised", never dropped; the Coq
// obligations over the generated tables then fail to check.
//
// usage: wiring <repo-root>   (JSON on stdout)
package main

import (
	"bytes"
	"encoding/json"
	"fmt"
	"go/ast"
	"go/parser"
	"go/printer"
	"go/token"
	"io/fs"
	"os"
	"path/filepath"
	"regexp"
	"sort"
	"strconv"
	"strings"
)

var fset = token.NewFileSet()
var repoRoot string
var modulePath string

// ---------------------------------------------------------------- output types

type Row struct {
	Flag  string `json:"flag"`  // canonical flag function / registration method / key
	Pkg   string `json:"pkg"`   // directory of the file, relative to the repo root
	Func  string `json:"func"`  // enclosing function ("Recv.Name", "Name", "var x", "const x")
	Shape string `json:"shape"` // "call" or "Unrecognised: …"; for regs: the function registered
	Recv  string `json:"recv,omitempty"`
	File  string `json:"file"`
	Line  int    `json:"line"`
	Text  string `json:"text"`
}

type Fact struct {
	Name   string   `json:"name"`
	Values []string `json:"values"`
	Where  string   `json:"where"`
}

type Out struct {
	Module       string   `json:"module"`
	Files        int      `json:"files_parsed"`
	Sites        []Row    `json:"sites"`
	Readers      []Row    `json:"readers"`
	KeyUses      []Row    `json:"key_uses"`
	Regs         []Row    `json:"regs"`
	Wiring       []Fact   `json:"wiring"`
	Unrecognised []string `json:"unrecognised"`
}

// ---------------------------------------------------------------- what is looked for

type target struct {
	canon string // canonical qualifier used in the tables, independent of the local import alias
	path  string // import path
	dir   string // directory inside the repo ("" when the package lives outside the repo)
}

var targets []target

// setters / readers: import path -> function name -> true
var setterNames = map[string]map[string]bool{}
var readerNames = map[string]map[string]bool{}
var allSetter = map[string]bool{}
var allReader = map[string]bool{}

var regMethods = map[string]bool{
	"AppendSendRestriction": true, "PrependSendRestriction": true, "ClearSendRestriction": true,
	"AppendLockedCoinsGetter": true, "PrependLockedCoinsGetter": true, "ClearLockedCoinsGetter": true,
}

var keyIdents = map[string]bool{"bypassKey": true, "transferAgentKey": true, "feeGranteeKey": true}

func isKeyLiteral(s string) bool {
	return strings.HasPrefix(s, "bypass-") || strings.HasSuffix(s, "-locked-coins") ||
		s == "marker-transfer-agents" || s == "pio-feegrant-in-use"
}

func setupTargets() {
	add := func(canon, path, dir string, setters, readers []string) {
		targets = append(targets, target{canon, path, dir})
		setterNames[path] = map[string]bool{}
		readerNames[path] = map[string]bool{}
		for _, s := range setters {
			setterNames[path][s] = true
			allSetter[s] = true
		}
		for _, r := range readers {
			readerNames[path][r] = true
			allReader[r] = true
		}
	}
	m := modulePath
	add("hold", m+"/x/hold", "x/hold", []string{"WithBypass"}, []string{"HasBypass"})
	add("markertypes", m+"/x/marker/types", "x/marker/types", []string{"WithBypass", "WithTransferAgents"}, []string{"HasBypass", "GetTransferAgents"})
	add("quarantine", m+"/x/quarantine", "x/quarantine", []string{"WithBypass"}, []string{"HasBypass"})
	add("sanction", m+"/x/sanction", "x/sanction", []string{"WithBypass"}, []string{"HasBypass"})
	add("banktypes", "github.com/cosmos/cosmos-sdk/x/bank/types", "", []string{"WithVestingLockedBypass"}, []string{"HasVestingLockedBypass"})
	add("internalsdk", m+"/internal/sdk", "internal/sdk", []string{"WithFeeGrantInUse"}, []string{"HasFeeGrantInUse"})
}

func targetByPath(p string) *target {
	for i := range targets {
		if targets[i].path == p {
			return &targets[i]
		}
	}
	return nil
}

func targetByDir(d string) *target {
	for i := range targets {
		if targets[i].dir != "" && targets[i].dir == d {
			return &targets[i]
		}
	}
	return nil
}

// ---------------------------------------------------------------- helpers

var wsRE = regexp.MustCompile(`\s+`)

func src(n ast.Node) string {
	if n == nil {
		return ""
	}
	var b bytes.Buffer
	if err := printer.Fprint(&b, fset, n); err != nil {
		return "<unprintable>"
	}
	s := strings.TrimSpace(wsRE.ReplaceAllString(b.String(), " "))
	// the printer keeps the line structure of multi-line call arguments: normalise "( a, b, )"
	s = strings.ReplaceAll(s, "( ", "(")
	s = strings.ReplaceAll(s, ", )", ")")
	s = strings.ReplaceAll(s, " )", ")")
	s = strings.ReplaceAll(s, "{ ", "{")
	s = strings.ReplaceAll(s, ", }", "}")
	s = strings.ReplaceAll(s, " }", "}")
	return s
}

func short(s string, n int) string {
	if len(s) > n {
		return s[:n] + "…"
	}
	return s
}

func lineOf(n ast.Node) int { return fset.Position(n.Pos()).Line }

type fileInfo struct {
	rel     string // path relative to the repo root
	dir     string // directory relative to the repo root
	file    *ast.File
	imports map[string]string // local name -> import path
	dots    []string          // dot-imported paths
}

var versionRE = regexp.MustCompile(`^v[0-9]+$`)

func defaultImportName(path string) string {
	parts := strings.Split(path, "/")
	last := parts[len(parts)-1]
	if versionRE.MatchString(last) && len(parts) > 1 {
		last = parts[len(parts)-2]
	}
	return last
}

func newFileInfo(rel string, f *ast.File) *fileInfo {
	fi := &fileInfo{rel: rel, dir: filepath.ToSlash(filepath.Dir(rel)), file: f, imports: map[string]string{}}
	for _, im := range f.Imports {
		p, err := strconv.Unquote(im.Path.Value)
		if err != nil {
			continue
		}
		name := defaultImportName(p)
		if im.Name != nil {
			name = im.Name.Name
		}
		switch name {
		case "_":
		case ".":
			fi.dots = append(fi.dots, p)
		default:
			fi.imports[name] = p
		}
	}
	return fi
}

func recvName(fd *ast.FuncDecl) string {
	if fd.Recv == nil || len(fd.Recv.List) == 0 {
		return fd.Name.Name
	}
	t := fd.Recv.List[0].Type
	for {
		switch x := t.(type) {
		case *ast.StarExpr:
			t = x.X
			continue
		case *ast.IndexExpr:
			t = x.X
			continue
		case *ast.IndexListExpr:
			t = x.X
			continue
		case *ast.ParenExpr:
			t = x.X
			continue
		}
		break
	}
	if id, ok := t.(*ast.Ident); ok {
		return id.Name + "." + fd.Name.Name
	}
	return src(t) + "." + fd.Name.Name
}

// unwrapFun strips parentheses and explicit generic instantiation from the callee of a call.
func unwrapFun(e ast.Expr) ast.Expr {
	for {
		switch x := e.(type) {
		case *ast.ParenExpr:
			e = x.X
		case *ast.IndexExpr:
			e = x.X
		case *ast.IndexListExpr:
			e = x.X
		default:
			return e
		}
	}
}

// ---------------------------------------------------------------- the scan of one file

var out Out
var allFiles []*fileInfo

func addUnrec(r Row, table string) {
	if strings.HasPrefix(r.Shape, "Unrecognised") || strings.HasPrefix(r.Flag, "?") {
		out.Unrecognised = append(out.Unrecognised, fmt.Sprintf("%s %s:%d %s in %s: %s [%s]", table, r.File, r.Line, r.Flag, r.Func, r.Shape, short(r.Text, 120)))
	}
}

func scanFile(fi *fileInfo) {
	for _, d := range fi.file.Decls {
		switch x := d.(type) {
		case *ast.FuncDecl:
			scanNode(fi, x, recvName(x))
		case *ast.GenDecl:
			for _, sp := range x.Specs {
				switch s := sp.(type) {
				case *ast.ValueSpec:
					names := make([]string, 0, len(s.Names))
					for _, n := range s.Names {
						names = append(names, n.Name)
					}
					scanNode(fi, s, strings.ToLower(x.Tok.String())+" "+strings.Join(names, ","))
				case *ast.TypeSpec:
					scanNode(fi, s, "type "+s.Name.Name)
				}
			}
		}
	}
}

func scanNode(fi *fileInfo, root ast.Node, encl string) {
	consumed := map[ast.Node]bool{}
	here := targetByDir(fi.dir)
	mk := func(n ast.Node, flag, shape string, textOf ast.Node) Row {
		return Row{Flag: flag, Pkg: fi.dir, Func: encl, Shape: shape, File: fi.rel, Line: lineOf(n), Text: src(textOf)}
	}
	emit := func(isSetter bool, r Row) {
		if isSetter {
			out.Sites = append(out.Sites, r)
			addUnrec(r, "site")
		} else {
			out.Readers = append(out.Readers, r)
			addUnrec(r, "reader")
		}
	}
	classifySel := func(sel *ast.SelectorExpr, call *ast.CallExpr) {
		name := sel.Sel.Name
		var textOf ast.Node = sel
		if call != nil {
			textOf = call
		}
		if regMethods[name] {
			r := mk(sel, name, "", textOf)
			r.Recv = src(sel.X)
			if call == nil {
				r.Shape = "Unrecognised: method value (not called here)"
			} else if len(call.Args) == 0 {
				r.Shape = "<no argument>"
			} else if len(call.Args) == 1 {
				if s, ok := call.Args[0].(*ast.SelectorExpr); ok {
					if _, isID := s.X.(*ast.Ident); isID {
						r.Shape = s.Sel.Name // rv.SendRestrictionFn -> SendRestrictionFn (local name dropped)
					}
				}
				if r.Shape == "" {
					r.Shape = "Unrecognised: registered function " + src(call.Args[0])
				}
			} else {
				r.Shape = "Unrecognised: " + strconv.Itoa(len(call.Args)) + " arguments"
			}
			out.Regs = append(out.Regs, r)
			addUnrec(r, "reg")
			return
		}
		isSetter, isReader := allSetter[name], allReader[name]
		if !isSetter && !isReader {
			return
		}
		shapeOK := "call"
		if call == nil {
			shapeOK = "Unrecognised: function value (not called here)"
		}
		id, isIdent := sel.X.(*ast.Ident)
		if !isIdent {
			emit(isSetter, mk(sel, "?."+name, "Unrecognised: qualifier is not a package name: "+short(src(sel.X), 80), textOf))
			return
		}
		path, imported := fi.imports[id.Name]
		if !imported {
			emit(isSetter, mk(sel, "?."+name, "Unrecognised: qualifier "+id.Name+" is not an import of this file", textOf))
			return
		}
		t := targetByPath(path)
		if t == nil || !(setterNames[path][name] || readerNames[path][name]) {
			emit(isSetter, mk(sel, "?"+path+"."+name, "Unrecognised: same-named function of a package that is not a known flag package", textOf))
			return
		}
		emit(setterNames[path][name], mk(sel, t.canon+"."+name, shapeOK, textOf))
	}
	classifyIdent := func(id *ast.Ident, call *ast.CallExpr) {
		name := id.Name
		var textOf ast.Node = id
		if call != nil {
			textOf = call
		}
		if keyIdents[name] && here != nil {
			r := mk(id, name, "ident", textOf)
			out.KeyUses = append(out.KeyUses, r)
			return
		}
		isSetter, isReader := allSetter[name], allReader[name]
		if !isSetter && !isReader {
			return
		}
		shapeOK := "call"
		if call == nil {
			shapeOK = "Unrecognised: function value (not called here)"
		}
		if here != nil && (setterNames[here.path][name] || readerNames[here.path][name]) {
			emit(setterNames[here.path][name], mk(id, here.canon+"."+name, shapeOK, textOf))
			return
		}
		for _, p := range fi.dots {
			if t := targetByPath(p); t != nil && (setterNames[p][name] || readerNames[p][name]) {
				emit(setterNames[p][name], mk(id, t.canon+"."+name, shapeOK, textOf))
				return
			}
		}
		emit(isSetter, mk(id, "?."+name, "Unrecognised: bare identifier with the name of a flag function", textOf))
	}

	ast.Inspect(root, func(n ast.Node) bool {
		switch x := n.(type) {
		case *ast.FuncDecl:
			consumed[x.Name] = true
			name := x.Name.Name
			if allSetter[name] || allReader[name] {
				isDef := x.Recv == nil && here != nil && (setterNames[here.path][name] || readerNames[here.path][name])
				if !isDef {
					r := mk(x.Name, "?."+name, "Unrecognised: a function or method with the name of a flag function is DEFINED here", x.Name)
					emit(allSetter[name], r)
				}
			}
		case *ast.CallExpr:
			switch f := unwrapFun(x.Fun).(type) {
			case *ast.SelectorExpr:
				consumed[f] = true
				consumed[f.Sel] = true
				classifySel(f, x)
			case *ast.Ident:
				consumed[f] = true
				classifyIdent(f, x)
			}
		case *ast.SelectorExpr:
			consumed[x.Sel] = true
			if !consumed[x] {
				classifySel(x, nil)
			}
		case *ast.Field:
			// parameter / field / interface-method NAMES are declarations, not uses
			for _, nm := range x.Names {
				if !(allSetter[nm.Name] || allReader[nm.Name]) {
					consumed[nm] = true
				}
			}
		case *ast.ValueSpec:
			for _, nm := range x.Names {
				if keyIdents[nm.Name] && here != nil {
					consumed[nm] = true
					out.KeyUses = append(out.KeyUses, mk(nm, nm.Name, "declaration", x))
				}
			}
		case *ast.Ident:
			if !consumed[x] {
				classifyIdent(x, nil)
			}
		case *ast.BasicLit:
			if x.Kind == token.STRING {
				if s, err := strconv.Unquote(x.Value); err == nil && isKeyLiteral(s) {
					out.KeyUses = append(out.KeyUses, mk(x, s, "literal", x))
				}
			}
		}
		return true
	})
}

// ---------------------------------------------------------------- app/app.go

var facts []Fact

func fact(name string, where ast.Node, vals ...string) {
	if vals == nil {
		vals = []string{}
	}
	w := "app/app.go"
	if where != nil {
		w = fmt.Sprintf("app/app.go:%d", lineOf(where))
	}
	facts = append(facts, Fact{Name: name, Values: vals, Where: w})
	for _, v := range vals {
		if strings.HasPrefix(v, "Unrecognised") {
			out.Unrecognised = append(out.Unrecognised, fmt.Sprintf("wiring %s %s: %s", w, name, short(v, 160)))
		}
	}
}

func mentions(n ast.Node, name string) bool {
	found := false
	ast.Inspect(n, func(x ast.Node) bool {
		switch v := x.(type) {
		case *ast.SelectorExpr:
			if mentions(v.X, name) {
				found = true
			}
			return false
		case *ast.KeyValueExpr:
			// struct-literal field keys are not uses; map keys are — both are checked through Value/Key below
			if mentions(v.Value, name) {
				found = true
			}
			if _, isID := v.Key.(*ast.Ident); !isID && mentions(v.Key, name) {
				found = true
			}
			return false
		case *ast.Ident:
			if v.Name == name {
				found = true
			}
		}
		return !found
	})
	return found
}

// findFunc finds a top-level function (no receiver) of the given name in a repo directory.
func findFunc(dir, name string) *ast.FuncDecl {
	for _, fi := range allFiles {
		if fi.dir != dir {
			continue
		}
		for _, d := range fi.file.Decls {
			if fd, ok := d.(*ast.FuncDecl); ok && fd.Recv == nil && fd.Name.Name == name {
				return fd
			}
		}
	}
	return nil
}

func paramNames(fd *ast.FuncDecl) []string {
	var ps []string
	if fd == nil || fd.Type.Params == nil {
		return nil
	}
	for _, f := range fd.Type.Params.List {
		if len(f.Names) == 0 {
			ps = append(ps, "_")
		}
		for _, n := range f.Names {
			ps = append(ps, n.Name)
		}
	}
	return ps
}

func repoDirOfImport(path string) (string, bool) {
	if path == modulePath {
		return ".", true
	}
	if strings.HasPrefix(path, modulePath+"/") {
		return strings.TrimPrefix(path, modulePath+"/"), true
	}
	return "", false
}

func isSimpleStmt(s ast.Stmt) bool {
	switch s.(type) {
	case *ast.AssignStmt, *ast.ExprStmt, *ast.DeclStmt:
		return true
	}
	return false
}

func containsFuncLit(n ast.Node, target ast.Node) bool {
	// reports whether target lies inside a function literal within n
	inside := false
	ast.Inspect(n, func(x ast.Node) bool {
		if fl, ok := x.(*ast.FuncLit); ok {
			if fl.Pos() <= target.Pos() && target.End() <= fl.End() {
				inside = true
			}
		}
		return !inside
	})
	return inside
}

func lhsText(st ast.Stmt) string {
	if a, ok := st.(*ast.AssignStmt); ok {
		parts := make([]string, 0, len(a.Lhs))
		for _, l := range a.Lhs {
			parts = append(parts, src(l))
		}
		return strings.Join(parts, ",")
	}
	return ""
}

type regEntry struct{ method, pkg, ctor, fn, target, lhs string }

// ---------------------------------------------------------------- simple local bindings in app.New
//
// One level of constant propagation, so that introducing or removing a local does not change a fact:
// a local that is defined by `x := <expr>` as a top-level statement of New, assigned nowhere else in
// New, whose address is never taken, and whose <expr> is not a composite / function literal, is
// replaced by <expr> wherever it is used as a WHOLE argument of a call (constructor arguments, hook
// sets, values appended to the tracked slices, blocker orders).  The replacement is refused (the
// name is kept, so the fact changes and is reported) when something <expr> mentions — a local or an
// `app.X` field — is assigned between the definition and the use: then the two are not the same
// value (e.g. hooks built from app.SanctionKeeper BEFORE the sanction keeper is constructed).

type binding struct {
	rhs ast.Expr
	idx int
}

var bindings map[string]binding
var assignedAt []map[string]bool // per top-level statement of New: texts of everything assigned inside it

func computeBindings(fn *ast.FuncDecl, stmts []ast.Stmt, tracked map[string]bool) {
	bindings = map[string]binding{}
	assignedAt = make([]map[string]bool, len(stmts))
	count := map[string]int{}
	addrTaken := map[string]bool{}
	for i, st := range stmts {
		set := map[string]bool{}
		assignedAt[i] = set
		ast.Inspect(st, func(x ast.Node) bool {
			switch v := x.(type) {
			case *ast.AssignStmt:
				for _, l := range v.Lhs {
					set[src(l)] = true
					if id, ok := l.(*ast.Ident); ok {
						count[id.Name]++
					}
				}
			case *ast.IncDecStmt:
				set[src(v.X)] = true
				if id, ok := v.X.(*ast.Ident); ok {
					count[id.Name] += 2
				}
			case *ast.RangeStmt:
				for _, e := range []ast.Expr{v.Key, v.Value} {
					if id, ok := e.(*ast.Ident); ok {
						count[id.Name] += 2
						set[id.Name] = true
					}
				}
			case *ast.ValueSpec:
				for _, n := range v.Names {
					count[n.Name] += 2
					set[n.Name] = true
				}
			case *ast.UnaryExpr:
				if v.Op == token.AND {
					if id, ok := v.X.(*ast.Ident); ok {
						addrTaken[id.Name] = true
					}
				}
			}
			return true
		})
	}
	if fn.Type.Params != nil {
		for _, f := range fn.Type.Params.List {
			for _, n := range f.Names {
				count[n.Name] += 2
			}
		}
	}
	for i, st := range stmts {
		a, ok := st.(*ast.AssignStmt)
		if !ok || a.Tok != token.DEFINE || len(a.Lhs) != 1 || len(a.Rhs) != 1 {
			continue
		}
		id, ok := a.Lhs[0].(*ast.Ident)
		if !ok || id.Name == "_" || tracked[id.Name] || count[id.Name] != 1 || addrTaken[id.Name] {
			continue
		}
		switch r := a.Rhs[0].(type) {
		case *ast.CompositeLit, *ast.FuncLit:
			continue
		case *ast.UnaryExpr:
			if _, isLit := r.X.(*ast.CompositeLit); isLit {
				continue
			}
		}
		bindings[id.Name] = binding{a.Rhs[0], i}
	}
}

// mentionsPath: does e mention the assigned thing p (an identifier, or a selector path such as app.X)?
func mentionsPath(e ast.Expr, p string) bool {
	if !strings.Contains(p, ".") {
		return mentions(e, p)
	}
	found := false
	ast.Inspect(e, func(x ast.Node) bool {
		if s, ok := x.(*ast.SelectorExpr); ok {
			t := src(s)
			if t == p || strings.HasPrefix(t, p+".") {
				found = true
			}
		}
		return !found
	})
	return found
}

// resolve returns the defining expression of a simply-bound local used at top-level statement useIdx
// (following chains of such locals), and the statement index at which that expression is evaluated.
func resolve(e ast.Expr, useIdx int) (ast.Expr, int) {
	for depth := 0; depth < 4; depth++ {
		id, ok := e.(*ast.Ident)
		if !ok {
			break
		}
		b, ok := bindings[id.Name]
		if !ok || b.idx >= useIdx {
			break
		}
		stale := false
		for k := b.idx + 1; k < useIdx && !stale; k++ {
			for p := range assignedAt[k] {
				if mentionsPath(b.rhs, p) {
					stale = true
					break
				}
			}
		}
		if stale {
			break
		}
		e, useIdx = b.rhs, b.idx
	}
	return e, useIdx
}

// srcR renders e like src, with simply-bound locals that are whole call arguments (or e itself) resolved.
func srcR(e ast.Expr, useIdx int) string {
	return srcRd(e, useIdx, 0)
}

func srcRd(e ast.Expr, useIdx int, depth int) string {
	if depth > 4 {
		return src(e)
	}
	if _, isID := e.(*ast.Ident); isID {
		r, at := resolve(e, useIdx)
		if r != e {
			return srcRd(r, at, depth+1)
		}
		return src(e)
	}
	if c, ok := e.(*ast.CallExpr); ok {
		parts := make([]string, 0, len(c.Args))
		for i, a := range c.Args {
			t := srcRd(a, useIdx, depth+1)
			if i == len(c.Args)-1 && c.Ellipsis != token.NoPos {
				t += "..."
			}
			parts = append(parts, t)
		}
		fun := src(c.Fun)
		if s, ok := c.Fun.(*ast.SelectorExpr); ok {
			if inner, ok := s.X.(*ast.CallExpr); ok { // f(a).M(b): resolve inside the receiver call too
				fun = srcRd(inner, useIdx, depth+1) + "." + s.Sel.Name
			}
		}
		return fun + "(" + strings.Join(parts, ", ") + ")"
	}
	return src(e)
}

// constructedBefore: an `app.X` value handed to a hook set must have been assigned before it is read.
func constructedBefore(text string, evalIdx int) bool {
	if !strings.HasPrefix(text, "app.") {
		return true
	}
	for k := 0; k < evalIdx && k < len(assignedAt); k++ {
		if assignedAt[k][text] {
			return true
		}
	}
	return false
}

func analyseApp() {
	var app *fileInfo
	var appPkg []*fileInfo
	for _, fi := range allFiles {
		if fi.rel == "app/app.go" {
			app = fi
		}
		if fi.dir == "app" {
			appPkg = append(appPkg, fi)
		}
	}
	if app == nil {
		fact("app_go", nil, "Unrecognised: app/app.go not found")
		return
	}

	// ---- maccPerms
	var macc *ast.CompositeLit
	var maccSpec *ast.ValueSpec
	for _, d := range app.file.Decls {
		gd, ok := d.(*ast.GenDecl)
		if !ok || gd.Tok != token.VAR {
			continue
		}
		for _, sp := range gd.Specs {
			vs := sp.(*ast.ValueSpec)
			for i, n := range vs.Names {
				if n.Name == "maccPerms" && i < len(vs.Values) {
					maccSpec = vs
					if cl, ok := vs.Values[i].(*ast.CompositeLit); ok {
						if _, isMap := cl.Type.(*ast.MapType); isMap {
							macc = cl
						}
					}
				}
			}
		}
	}
	switch {
	case maccSpec == nil:
		fact("macc_perms.keys", nil, "Unrecognised: package-level var maccPerms not found in app/app.go")
		fact("macc_perms.perms", nil)
	case macc == nil:
		fact("macc_perms.keys", maccSpec, "Unrecognised: maccPerms is not a map composite literal: "+short(src(maccSpec), 200))
		fact("macc_perms.perms", maccSpec)
	default:
		type kv struct{ k, v string }
		var kvs []kv
		for _, e := range macc.Elts {
			p, ok := e.(*ast.KeyValueExpr)
			if !ok {
				kvs = append(kvs, kv{"Unrecognised: " + src(e), ""})
				continue
			}
			val := ""
			switch v := p.Value.(type) {
			case *ast.Ident:
				if v.Name != "nil" {
					val = "Unrecognised: " + src(v)
				}
			case *ast.CompositeLit:
				var ps []string
				for _, pe := range v.Elts {
					ps = append(ps, src(pe))
				}
				val = strings.Join(ps, ",")
			default:
				val = "Unrecognised: " + src(p.Value)
			}
			kvs = append(kvs, kv{src(p.Key), val})
		}
		// a map literal: the order of entries has no meaning
		sort.SliceStable(kvs, func(i, j int) bool { return kvs[i].k < kvs[j].k })
		var ks, vs []string
		for _, p := range kvs {
			ks = append(ks, p.k)
			vs = append(vs, p.v)
		}
		fact("macc_perms.keys", macc, ks...)
		fact("macc_perms.perms", macc, vs...)
	}
	// every function of package app that mentions maccPerms; writes to it are unrecognised
	usedIn := map[string]bool{}
	var writes []string
	for _, fi := range appPkg {
		for _, d := range fi.file.Decls {
			fd, ok := d.(*ast.FuncDecl)
			if !ok || fd.Body == nil {
				continue
			}
			if mentions(fd.Body, "maccPerms") {
				usedIn[recvName(fd)] = true
			}
			ast.Inspect(fd.Body, func(x ast.Node) bool {
				switch s := x.(type) {
				case *ast.AssignStmt:
					for _, l := range s.Lhs {
						if mentions(l, "maccPerms") {
							writes = append(writes, fmt.Sprintf("Unrecognised: write to maccPerms in %s (%s:%d): %s", recvName(fd), fi.rel, lineOf(s), short(src(s), 120)))
						}
					}
				case *ast.CallExpr:
					if id, ok := s.Fun.(*ast.Ident); ok && (id.Name == "delete" || id.Name == "clear") && len(s.Args) > 0 && mentions(s.Args[0], "maccPerms") {
						writes = append(writes, fmt.Sprintf("Unrecognised: %s on maccPerms in %s (%s:%d)", id.Name, recvName(fd), fi.rel, lineOf(s)))
					}
				case *ast.IncDecStmt:
					if mentions(s.X, "maccPerms") {
						writes = append(writes, fmt.Sprintf("Unrecognised: write to maccPerms in %s (%s:%d)", recvName(fd), fi.rel, lineOf(s)))
					}
				}
				return true
			})
		}
	}
	var used []string
	for k := range usedIn {
		used = append(used, k)
	}
	sort.Strings(used)
	fact("macc_perms.read_in", nil, used...)
	fact("macc_perms.writes", nil, writes...)

	// ---- New()
	var newFn *ast.FuncDecl
	for _, d := range app.file.Decls {
		if fd, ok := d.(*ast.FuncDecl); ok && fd.Recv == nil && fd.Name.Name == "New" && fd.Body != nil {
			newFn = fd
		}
	}
	if newFn == nil {
		fact("app_new", nil, "Unrecognised: func New not found in app/app.go")
		return
	}
	stmts := newFn.Body.List
	computeBindings(newFn, stmts, map[string]bool{"markerReqAttrBypassAddrs": true, "unsanctionableAddrs": true})

	// registration sites indexed by "dir.Func" (top-level functions only: a constructor)
	regsBy := map[string][]Row{}
	for _, r := range out.Regs {
		regsBy[r.Pkg+"."+r.Func] = append(regsBy[r.Pkg+"."+r.Func], r)
	}
	joined := map[string]bool{} // regs reached from New

	var entries []regEntry
	type ctorCall struct {
		dir, fn, lhs string
		call         *ast.CallExpr
		params       []string
		idx          int
	}
	var ctors []ctorCall
	var bankCtor *ast.CallExpr
	var bankCtorName string
	bankCtorIdx := 0

	for stIdx, st := range stmts {
		stIdx := stIdx
		simple := isSimpleStmt(st)
		ast.Inspect(st, func(x ast.Node) bool {
			call, ok := x.(*ast.CallExpr)
			if !ok {
				return true
			}
			sel, ok := unwrapFun(call.Fun).(*ast.SelectorExpr)
			if !ok {
				return true
			}
			cond := ""
			if !simple {
				cond = "Unrecognised: inside a " + strings.TrimPrefix(fmt.Sprintf("%T", st), "*ast.") + ": "
			} else if containsFuncLit(st, call) {
				cond = "Unrecognised: inside a function literal: "
			}
			// (1) direct registration in New itself
			if regMethods[sel.Sel.Name] {
				fn := "Unrecognised: " + src(call)
				if len(call.Args) == 1 {
					fn = src(call.Args[0])
				} else if len(call.Args) == 0 {
					fn = "<no argument>"
				}
				entries = append(entries, regEntry{cond + sel.Sel.Name, "app", "New", fn, srcR(sel.X, stIdx), ""})
				joined["app.New"] = true
				return true
			}
			// (2) constructor of a repo package that registers hooks
			id, ok := sel.X.(*ast.Ident)
			if !ok {
				return true
			}
			path, imported := app.imports[id.Name]
			if !imported {
				return true
			}
			if lt := lhsText(st); lt == "app.BankKeeper" && strings.HasSuffix(path, "/x/bank/keeper") && bankCtor == nil {
				bankCtor, bankCtorName, bankCtorIdx = call, id.Name+"."+sel.Sel.Name, stIdx
			}
			dir, inRepo := repoDirOfImport(path)
			if !inRepo {
				return true
			}
			key := dir + "." + sel.Sel.Name
			rs := regsBy[key]
			if len(rs) == 0 {
				return true
			}
			joined[key] = true
			fd := findFunc(dir, sel.Sel.Name)
			ps := paramNames(fd)
			variadic := fd != nil && fd.Type.Params != nil && len(fd.Type.Params.List) > 0 &&
				func() bool { _, v := fd.Type.Params.List[len(fd.Type.Params.List)-1].Type.(*ast.Ellipsis); return v }()
			lhs := lhsText(st)
			ctors = append(ctors, ctorCall{dir, sel.Sel.Name, lhs, call, ps, stIdx})
			for _, r := range rs {
				tgt := "Unrecognised: receiver " + r.Recv + " is not a parameter of " + key
				for i, p := range ps {
					if p == r.Recv {
						if i < len(call.Args) && !variadic && len(ps) == len(call.Args) {
							tgt = srcR(call.Args[i], stIdx)
						} else if i < len(call.Args) && variadic && i < len(ps)-1 {
							tgt = srcR(call.Args[i], stIdx)
						} else {
							tgt = "Unrecognised: cannot match argument for parameter " + p
						}
					}
				}
				entries = append(entries, regEntry{cond + r.Flag, dir, sel.Sel.Name, r.Shape, tgt, lhs})
			}
			return true
		})
	}
	emitOrder := func(prefix, kind string) {
		var m, p, c, f, t, l []string
		for _, e := range entries {
			if !strings.Contains(e.method, kind) {
				continue
			}
			m = append(m, e.method)
			p = append(p, e.pkg)
			c = append(c, e.ctor)
			f = append(f, e.fn)
			t = append(t, e.target)
			l = append(l, e.lhs)
		}
		fact(prefix+".method", newFn, m...)
		fact(prefix+".pkg", newFn, p...)
		fact(prefix+".ctor", newFn, c...)
		fact(prefix+".fn", newFn, f...)
		fact(prefix+".on", newFn, t...)
		fact(prefix+".assigned_to", newFn, l...)
	}
	emitOrder("send_restrictions", "SendRestriction")
	emitOrder("locked_coins_getters", "LockedCoinsGetter")
	// registration sites anywhere in the repo that are NOT reached from a constructor call in New
	var orphans []string
	for _, r := range out.Regs {
		if !joined[r.Pkg+"."+r.Func] {
			orphans = append(orphans, fmt.Sprintf("Unrecognised: %s in %s.%s is not reached from a constructor call in app.New", r.Flag, r.Pkg, r.Func))
		}
	}
	sort.Strings(orphans)
	fact("hook_registrations.not_reached_from_new", newFn, orphans...)

	// ---- constructor arguments of the keepers that register hooks, and of the bank keeper
	for _, c := range ctors {
		var args []string
		for _, a := range c.call.Args {
			args = append(args, srcR(a, c.idx))
		}
		ps := c.params
		if len(ps) != len(args) {
			ps = []string{"Unrecognised: parameter names of " + c.dir + "." + c.fn + " do not match the call (" + strconv.Itoa(len(c.params)) + " vs " + strconv.Itoa(len(args)) + ")"}
		}
		fact("ctor."+c.dir+".params", c.call, ps...)
		fact("ctor."+c.dir+".args", c.call, args...)
		fact("ctor."+c.dir+".assigned_to", c.call, c.lhs)
	}
	if bankCtor != nil {
		var args []string
		for _, a := range bankCtor.Args {
			args = append(args, srcR(a, bankCtorIdx))
		}
		fact("ctor.bank.func", bankCtor, bankCtorName)
		fact("ctor.bank.args", bankCtor, args...)
	} else {
		fact("ctor.bank.func", newFn, "Unrecognised: no `app.BankKeeper = <x/bank/keeper>.<ctor>(...)` statement in app.New")
		fact("ctor.bank.args", newFn)
	}

	// ---- how a local slice variable is built and where it goes
	passedTo := func(st ast.Stmt, name string) (string, bool) {
		// the variable appears only as a direct argument of exactly one call in this statement
		res, n := "", 0
		ast.Inspect(st, func(x ast.Node) bool {
			call, ok := x.(*ast.CallExpr)
			if !ok {
				return true
			}
			for i, a := range call.Args {
				if id, ok := a.(*ast.Ident); ok && id.Name == name && call.Ellipsis == token.NoPos {
					n++
					pn := "#" + strconv.Itoa(i)
					if sel, ok := unwrapFun(call.Fun).(*ast.SelectorExpr); ok {
						if q, ok := sel.X.(*ast.Ident); ok {
							if path, imp := app.imports[q.Name]; imp {
								if dir, in := repoDirOfImport(path); in {
									if ps := paramNames(findFunc(dir, sel.Sel.Name)); len(ps) == len(call.Args) {
										pn = ps[i]
									}
								}
							}
						}
					}
					res = src(call.Fun) + ":" + pn
				}
			}
			return true
		})
		// count all mentions: every one must be such an argument
		total := 0
		ast.Inspect(st, func(x ast.Node) bool {
			if id, ok := x.(*ast.Ident); ok && id.Name == name {
				total++
			}
			if s, ok := x.(*ast.SelectorExpr); ok {
				ast.Inspect(s.X, func(y ast.Node) bool {
					if id, ok := y.(*ast.Ident); ok && id.Name == name {
						total++
					}
					return true
				})
				return false
			}
			return true
		})
		return res, n == 1 && total == 1
	}

	sliceVar := func(prefix, name string) {
		var elems, passed, other []string
		var rangeOver, rangeElem []string
		init := []string{}
		var first ast.Node
		for stIdx, st := range stmts {
			if !mentions(st, name) {
				continue
			}
			if first == nil {
				first = st
			}
			switch s := st.(type) {
			case *ast.AssignStmt:
				// name := []T{...}   |  name := make([]T, 0, n)  |  name = append(name, e...)
				if len(s.Lhs) == 1 && len(s.Rhs) == 1 {
					if id, ok := s.Lhs[0].(*ast.Ident); ok && id.Name == name {
						switch r := s.Rhs[0].(type) {
						case *ast.CompositeLit:
							if _, isArr := r.Type.(*ast.ArrayType); isArr && s.Tok == token.DEFINE {
								init = append(init, "literal")
								for _, e := range r.Elts {
									elems = append(elems, srcR(e, stIdx))
								}
								continue
							}
						case *ast.CallExpr:
							if f, ok := r.Fun.(*ast.Ident); ok && f.Name == "make" && s.Tok == token.DEFINE && len(r.Args) >= 2 && src(r.Args[1]) == "0" {
								init = append(init, "empty")
								continue
							}
							if f, ok := r.Fun.(*ast.Ident); ok && f.Name == "append" && s.Tok == token.ASSIGN && len(r.Args) >= 1 && r.Ellipsis == token.NoPos {
								if a0, ok := r.Args[0].(*ast.Ident); ok && a0.Name == name {
									ok2 := true
									for _, e := range r.Args[1:] {
										if mentions(e, name) {
											ok2 = false
										}
									}
									if ok2 {
										for _, e := range r.Args[1:] {
											elems = append(elems, srcR(e, stIdx))
										}
										continue
									}
								}
							}
						}
					}
				}
				if p, ok := passedTo(st, name); ok {
					passed = append(passed, p+" -> "+lhsText(st))
					continue
				}
				other = append(other, "Unrecognised: "+short(src(st), 200))
			case *ast.RangeStmt:
				// for k := range M { name = append(name, f(k)) }
				okShape := false
				if k, ok := s.Key.(*ast.Ident); ok && s.Value == nil && len(s.Body.List) == 1 && !mentions(s.X, name) {
					if a, ok := s.Body.List[0].(*ast.AssignStmt); ok && a.Tok == token.ASSIGN && len(a.Lhs) == 1 && len(a.Rhs) == 1 {
						if l, ok := a.Lhs[0].(*ast.Ident); ok && l.Name == name {
							if c, ok := a.Rhs[0].(*ast.CallExpr); ok && len(c.Args) == 2 && c.Ellipsis == token.NoPos {
								if f, ok := c.Fun.(*ast.Ident); ok && f.Name == "append" {
									if a0, ok := c.Args[0].(*ast.Ident); ok && a0.Name == name && !mentions(c.Args[1], name) {
										// the element expression with the loop variable replaced by <key>
										el := src(c.Args[1])
										el = regexp.MustCompile(`\b`+regexp.QuoteMeta(k.Name)+`\b`).ReplaceAllString(el, "<key>")
										rangeOver = append(rangeOver, src(s.X))
										rangeElem = append(rangeElem, el)
										okShape = true
									}
								}
							}
						}
					}
				}
				if !okShape {
					other = append(other, "Unrecognised: "+short(src(st), 200))
				}
			default:
				if p, ok := passedTo(st, name); ok && isSimpleStmt(st) {
					passed = append(passed, p+" -> "+lhsText(st))
				} else {
					other = append(other, "Unrecognised: "+short(src(st), 200))
				}
			}
		}
		if first == nil {
			fact(prefix+".init", newFn, "Unrecognised: local variable "+name+" not found in app.New")
		} else {
			fact(prefix+".init", first, init...)
		}
		fact(prefix+".elems", first, elems...)
		fact(prefix+".each_key_of", first, rangeOver...)
		fact(prefix+".each_key_elem", first, rangeElem...)
		fact(prefix+".passed_to", first, passed...)
		fact(prefix+".other_statements", first, other...)
	}
	sliceVar("marker_req_attr_bypass_addrs", "markerReqAttrBypassAddrs")
	sliceVar("unsanctionable_addrs", "unsanctionableAddrs")

	// ---- hooks
	var hooks, govHooks, govOn []string
	var govNode ast.Node
	for stIdx, st := range stmts {
		stIdx := stIdx
		ast.Inspect(st, func(x ast.Node) bool {
			call, ok := x.(*ast.CallExpr)
			if !ok {
				return true
			}
			sel, ok := call.Fun.(*ast.SelectorExpr)
			if !ok || sel.Sel.Name != "SetHooks" {
				return true
			}
			pre := ""
			if !isSimpleStmt(st) || containsFuncLit(st, call) {
				pre = "Unrecognised: conditional: "
			}
			var args []string
			for _, a := range call.Args {
				args = append(args, srcR(a, stIdx))
			}
			hooks = append(hooks, pre+src(sel.X)+" <- "+strings.Join(args, ", "))
			if len(call.Args) == 1 {
				hookArg, evalIdx := resolve(call.Args[0], stIdx)
				if in, ok := hookArg.(*ast.CallExpr); ok {
					if isel, ok := in.Fun.(*ast.SelectorExpr); ok && isel.Sel.Name == "NewMultiGovHooks" {
						q, _ := isel.X.(*ast.Ident)
						if q == nil || !strings.HasSuffix(app.imports[q.Name], "/x/gov/types") {
							govHooks = append(govHooks, "Unrecognised: NewMultiGovHooks of "+src(isel.X))
						}
						if in.Ellipsis != token.NoPos {
							govHooks = append(govHooks, "Unrecognised: variadic spread "+src(in))
						}
						for _, a := range in.Args {
							t := srcR(a, evalIdx)
							if !constructedBefore(t, evalIdx) {
								t = "Unrecognised: read before it is constructed in app.New: " + t
							}
							govHooks = append(govHooks, pre+t)
						}
						govOn = append(govOn, src(sel.X)+" -> "+lhsText(st))
						govNode = call
					}
				}
			}
			return true
		})
	}
	fact("hooks.set", newFn, hooks...)
	if govNode == nil {
		fact("gov_hooks", newFn, "Unrecognised: no SetHooks(govtypes.NewMultiGovHooks(...)) call in app.New")
		fact("gov_hooks.on", newFn)
	} else {
		fact("gov_hooks", govNode, govHooks...)
		fact("gov_hooks.on", govNode, govOn...)
	}

	// ---- begin / end blockers
	sliceLits := map[string]*ast.CompositeLit{}
	for _, st := range stmts {
		if a, ok := st.(*ast.AssignStmt); ok && a.Tok == token.DEFINE && len(a.Lhs) == 1 && len(a.Rhs) == 1 {
			if id, ok := a.Lhs[0].(*ast.Ident); ok {
				if cl, ok := a.Rhs[0].(*ast.CompositeLit); ok {
					sliceLits[id.Name] = cl
				}
			}
		}
	}
	order := func(factName, method string) {
		var vals []string
		var node ast.Node
		n := 0
		for stIdx, st := range stmts {
			stIdx := stIdx
			ast.Inspect(st, func(x ast.Node) bool {
				call, ok := x.(*ast.CallExpr)
				if !ok {
					return true
				}
				sel, ok := call.Fun.(*ast.SelectorExpr)
				if !ok || sel.Sel.Name != method {
					return true
				}
				n++
				node = call
				if !isSimpleStmt(st) || containsFuncLit(st, call) {
					vals = append(vals, "Unrecognised: conditional call of "+method)
				}
				if call.Ellipsis != token.NoPos {
					if id, ok := call.Args[len(call.Args)-1].(*ast.Ident); ok && len(call.Args) == 1 && sliceLits[id.Name] != nil {
						for _, e := range sliceLits[id.Name].Elts {
							vals = append(vals, src(e))
						}
					} else {
						vals = append(vals, "Unrecognised: "+short(src(call), 200))
					}
					return true
				}
				for _, a := range call.Args {
					vals = append(vals, srcR(a, stIdx))
				}
				return true
			})
		}
		if n != 1 {
			vals = append(vals, fmt.Sprintf("Unrecognised: %d calls of %s in app.New (expected exactly 1)", n, method))
		}
		fact(factName, node, vals...)
	}
	order("begin_blockers", "SetOrderBeginBlockers")
	order("end_blockers", "SetOrderEndBlockers")
}

// ---------------------------------------------------------------- main

func readModulePath(root string) string {
	bz, err := os.ReadFile(filepath.Join(root, "go.mod"))
	if err != nil {
		return ""
	}
	for _, l := range strings.Split(string(bz), "\n") {
		l = strings.TrimSpace(l)
		if strings.HasPrefix(l, "module ") {
			return strings.TrimSpace(strings.TrimPrefix(l, "module "))
		}
	}
	return ""
}

func sortRows(rs []Row) {
	sort.SliceStable(rs, func(i, j int) bool {
		a, b := rs[i], rs[j]
		if a.Flag != b.Flag {
			return a.Flag < b.Flag
		}
		if a.Pkg != b.Pkg {
			return a.Pkg < b.Pkg
		}
		if a.Func != b.Func {
			return a.Func < b.Func
		}
		if a.Shape != b.Shape {
			return a.Shape < b.Shape
		}
		if a.File != b.File {
			return a.File < b.File
		}
		return a.Line < b.Line
	})
}

func main() {
	if len(os.Args) != 2 {
		fmt.Fprintln(os.Stderr, "usage: wiring <repo-root>")
		os.Exit(2)
	}
	var err error
	repoRoot, err = filepath.Abs(os.Args[1])
	if err != nil {
		fmt.Fprintln(os.Stderr, err)
		os.Exit(1)
	}
	modulePath = readModulePath(repoRoot)
	if modulePath == "" {
		fmt.Fprintln(os.Stderr, "cannot read the module path from go.mod under "+repoRoot)
		os.Exit(1)
	}
	setupTargets()
	out.Module = modulePath
	out.Sites, out.Readers, out.KeyUses, out.Regs, out.Unrecognised = []Row{}, []Row{}, []Row{}, []Row{}, []string{}

	var paths []string
	err = filepath.WalkDir(repoRoot, func(p string, d fs.DirEntry, err error) error {
		if err != nil {
			return err
		}
		name := d.Name()
		if d.IsDir() {
			if p != repoRoot && (strings.HasPrefix(name, ".") || name == "vendor" || name == "node_modules" || name == "testdata") {
				return filepath.SkipDir
			}
			return nil
		}
		if !strings.HasSuffix(name, ".go") || strings.HasSuffix(name, "_test.go") || strings.HasSuffix(name, ".pb.go") {
			return nil
		}
		paths = append(paths, p)
		return nil
	})
	if err != nil {
		fmt.Fprintln(os.Stderr, "walk failed:", err)
		os.Exit(1)
	}
	sort.Strings(paths)
	for _, p := range paths {
		rel, _ := filepath.Rel(repoRoot, p)
		rel = filepath.ToSlash(rel)
		f, perr := parser.ParseFile(fset, p, nil, parser.SkipObjectResolution)
		if perr != nil {
			// a file that does not parse cannot be shown free of bypass sites
			out.Sites = append(out.Sites, Row{Flag: "?", Pkg: filepath.ToSlash(filepath.Dir(rel)), Func: "?", Shape: "Unrecognised: file does not parse", File: rel, Line: 0, Text: short(perr.Error(), 200)})
			out.Unrecognised = append(out.Unrecognised, "site "+rel+": file does not parse: "+short(perr.Error(), 200))
			if f == nil {
				continue
			}
		}
		fi := newFileInfo(rel, f)
		allFiles = append(allFiles, fi)
	}
	out.Files = len(allFiles)
	for _, fi := range allFiles {
		scanFile(fi)
	}
	sortRows(out.Sites)
	sortRows(out.Readers)
	sortRows(out.KeyUses)
	// regs keep source order inside a function (the order of registration matters); sort by pkg/func only
	sort.SliceStable(out.Regs, func(i, j int) bool {
		a, b := out.Regs[i], out.Regs[j]
		if a.Pkg != b.Pkg {
			return a.Pkg < b.Pkg
		}
		if a.Func != b.Func {
			return a.Func < b.Func
		}
		if a.File != b.File {
			return a.File < b.File
		}
		return a.Line < b.Line
	})
	analyseApp()
	out.Wiring = facts
	enc := json.NewEncoder(os.Stdout)
	enc.SetIndent("", " ")
	if err := enc.Encode(out); err != nil {
		fmt.Fprintln(os.Stderr, err)
		os.Exit(1)
	}
}
