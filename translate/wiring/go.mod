module wiring

go 1.23
