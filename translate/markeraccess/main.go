// markeraccess: table extractor for property C12.
//
// Reads x/marker/keeper/marker.go and x/marker/keeper/msg_server.go of the repository given as
// the first argument (go/parser + go/ast only, nothing is type checked or executed) and prints,
// as JSON, one row per method that mentions an access guard:
//
//	tests        the Access_* constants passed to one of the access predicates
//	             (ValidateAddressHasAccess, AddressHasAccess, ValidateHasAccess, HasAccess,
//	             ValidateAtLeastOneAddrHasAccess, AtLeastOneAddrHasAccess), sorted, without duplicates
//	manager      the method compares somebody with <marker>.GetManager()
//	authority    the method reads <keeper>.GetAuthority() or calls ValidateAuthority
//	all_supply   the method calls accountControlsAllSupply
//	any_grant    the method calls GrantsForAddress (any access on the marker)
//	unrecognised every other place an Access_* constant (or an unknown Access_ name) shows up,
//	             rendered as source text: never dropped.
//
// The helper used and the order of the tests are deliberately not part of a row, so that a
// behaviour-preserving rewrite of a guard does not change the table; which constant guards
// which method does.
package main

import (
	"bytes"
	"encoding/json"
	"fmt"
	"go/ast"
	"go/parser"
	"go/printer"
	"go/token"
	"os"
	"path/filepath"
	"sort"
	"strings"
)

type row struct {
	Func         string   `json:"func"`
	File         string   `json:"file"`
	Tests        []string `json:"tests"`
	Manager      bool     `json:"manager"`
	Authority    bool     `json:"authority"`
	AllSupply    bool     `json:"all_supply"`
	AnyGrant     bool     `json:"any_grant"`
	Unrecognised []string `json:"unrecognised"`
}

var predicates = map[string]bool{
	"ValidateAddressHasAccess": true, "AddressHasAccess": true, "ValidateHasAccess": true, "HasAccess": true,
	"ValidateAtLeastOneAddrHasAccess": true, "AtLeastOneAddrHasAccess": true,
}

var known = map[string]bool{"Mint": true, "Burn": true, "Deposit": true, "Withdraw": true, "Delete": true, "Admin": true, "Transfer": true, "ForceTransfer": true}

func text(fset *token.FileSet, n ast.Node) string {
	var b bytes.Buffer
	_ = printer.Fprint(&b, fset, n)
	return strings.Join(strings.Fields(b.String()), " ")
}

// accessConst returns the name after Access_ when e is <pkg>.Access_<Name> or Access_<Name>.
func accessConst(e ast.Expr) (string, bool) {
	switch v := e.(type) {
	case *ast.SelectorExpr:
		if strings.HasPrefix(v.Sel.Name, "Access_") {
			return strings.TrimPrefix(v.Sel.Name, "Access_"), true
		}
	case *ast.Ident:
		if strings.HasPrefix(v.Name, "Access_") {
			return strings.TrimPrefix(v.Name, "Access_"), true
		}
	}
	return "", false
}

func calleeName(c *ast.CallExpr) string {
	switch f := c.Fun.(type) {
	case *ast.SelectorExpr:
		return f.Sel.Name
	case *ast.Ident:
		return f.Name
	}
	return ""
}

func recvName(fd *ast.FuncDecl) string {
	if fd.Recv == nil || len(fd.Recv.List) == 0 {
		return ""
	}
	t := fd.Recv.List[0].Type
	if s, ok := t.(*ast.StarExpr); ok {
		t = s.X
	}
	if id, ok := t.(*ast.Ident); ok {
		return id.Name
	}
	return "?"
}

func main() {
	if len(os.Args) < 2 {
		fmt.Fprintln(os.Stderr, "usage: markeraccess <repo>")
		os.Exit(2)
	}
	var rows []row
	for _, f := range []string{"marker.go", "msg_server.go"} {
		path := filepath.Join(os.Args[1], "x", "marker", "keeper", f)
		fset := token.NewFileSet()
		file, err := parser.ParseFile(fset, path, nil, 0)
		if err != nil {
			fmt.Fprintln(os.Stderr, err)
			os.Exit(1)
		}
		for _, d := range file.Decls {
			fd, ok := d.(*ast.FuncDecl)
			if !ok || fd.Body == nil {
				continue
			}
			name := fd.Name.Name
			if r := recvName(fd); r != "" {
				name = r + "." + name
			}
			rw := row{Func: name, File: f, Tests: []string{}, Unrecognised: []string{}}
			tests := map[string]bool{}
			consumed := map[ast.Expr]bool{} // Access_ constants that were arguments of a predicate
			ast.Inspect(fd.Body, func(n ast.Node) bool {
				c, ok := n.(*ast.CallExpr)
				if !ok {
					return true
				}
				cn := calleeName(c)
				switch {
				case predicates[cn]:
					found := false
					for _, a := range c.Args {
						if nm, ok := accessConst(a); ok {
							consumed[a] = true
							found = true
							if known[nm] {
								tests[nm] = true
							} else {
								rw.Unrecognised = append(rw.Unrecognised, "unknown right in "+text(fset, c))
							}
						}
					}
					if !found {
						rw.Unrecognised = append(rw.Unrecognised, "access predicate without a constant: "+text(fset, c))
					}
				case cn == "GetManager":
					rw.Manager = true
				case cn == "GetAuthority" || cn == "ValidateAuthority":
					rw.Authority = true
				case cn == "accountControlsAllSupply":
					rw.AllSupply = true
				case cn == "GrantsForAddress":
					rw.AnyGrant = true
				}
				return true
			})
			// every other mention of an Access_ constant
			var stack []ast.Node
			ast.Inspect(fd.Body, func(n ast.Node) bool {
				if n == nil {
					stack = stack[:len(stack)-1]
					return true
				}
				stack = append(stack, n)
				if e, ok := n.(ast.Expr); ok {
					if consumed[e] {
						stack = stack[:len(stack)-1]
						return false
					}
					if _, isAcc := accessConst(e); isAcc {
						// report the innermost enclosing call (or the expression itself)
						var ctx ast.Node = e
						for i := len(stack) - 2; i >= 0; i-- {
							if c, ok := stack[i].(*ast.CallExpr); ok {
								ctx = c
								break
							}
						}
						rw.Unrecognised = append(rw.Unrecognised, text(fset, ctx))
						stack = stack[:len(stack)-1]
						return false
					}
				}
				return true
			})
			for k := range tests {
				rw.Tests = append(rw.Tests, k)
			}
			sort.Strings(rw.Tests)
			sort.Strings(rw.Unrecognised)
			if len(rw.Tests) > 0 || rw.Manager || rw.Authority || rw.AllSupply || rw.AnyGrant || len(rw.Unrecognised) > 0 {
				rows = append(rows, rw)
			}
		}
	}
	sort.Slice(rows, func(i, j int) bool { return rows[i].Func < rows[j].Func })
	out, _ := json.MarshalIndent(rows, "", " ")
	fmt.Println(string(out))
}
