// markeraccess: table extractor for property C12.
//
// Reads x/marker/keeper/marker.go and x/marker/keeper/msg_server.go of the repository given as
// the first argument (go/parser + go/ast only, nothing is type checked or executed) and prints,
// as JSON, one row per method that mentions an access guard:
//
//	tests        the Access_* constants passed to one of the access predicates
//	             (ValidateAddressHasAccess, AddressHasAccess, ValidateHasAccess, HasAccess,
//	             ValidateAtLeastOneAddrHasAccess, AtLeastOneAddrHasAccess), sorted, without duplicates
//	manager      the method compares somebody with <marker>.GetManager()
//	authority    the method reads <keeper>.GetAuthority() or calls ValidateAuthority
//	all_supply   the method calls accountControlsAllSupply
//	any_grant    the method calls GrantsForAddress (any access on the marker)
//	unrecognised every other place an Access_* constant (or an unknown Access_ name) shows up,
//	             rendered as source text: never dropped, except where the constant is a direct
//	             argument of an error / log formatting call (Errorf, Wrapf, Sprintf ...).
//
// The helper used and the order of the tests are deliberately not part of a row, so that a
// behaviour-preserving rewrite of a guard does not change the table; which constant guards
// which method does.
//
// Unexported functions and methods of the package (any non-test file of x/marker/keeper) are
// helpers: what a helper tests is attributed to every function that calls it (transitively), and a
// helper that is reached this way gets no row of its own.  Extracting a condition into a helper, or
// inlining one, therefore leaves the table unchanged.  A helper of marker.go / msg_server.go with
// guards that nothing in those files calls keeps its own row (nothing is dropped).
package main

import (
	"bytes"
	"encoding/json"
	"fmt"
	"go/ast"
	"go/parser"
	"go/printer"
	"go/token"
	"os"
	"path/filepath"
	"sort"
	"strings"
	"unicode"
	"unicode/utf8"
)

type row struct {
	Func         string   `json:"func"`
	File         string   `json:"file"`
	Tests        []string `json:"tests"`
	Manager      bool     `json:"manager"`
	Authority    bool     `json:"authority"`
	AllSupply    bool     `json:"all_supply"`
	AnyGrant     bool     `json:"any_grant"`
	Unrecognised []string `json:"unrecognised"`
}

var predicates = map[string]bool{
	"ValidateAddressHasAccess": true, "AddressHasAccess": true, "ValidateHasAccess": true, "HasAccess": true,
	"ValidateAtLeastOneAddrHasAccess": true, "AtLeastOneAddrHasAccess": true,
}

// calls whose arguments only end up in a message
var messageOnly = map[string]bool{"Errorf": true, "Wrapf": true, "Wrap": true, "Sprintf": true, "Info": true, "Error": true, "Debug": true}

var known = map[string]bool{"Mint": true, "Burn": true, "Deposit": true, "Withdraw": true, "Delete": true, "Admin": true, "Transfer": true, "ForceTransfer": true}

func text(fset *token.FileSet, n ast.Node) string {
	var b bytes.Buffer
	_ = printer.Fprint(&b, fset, n)
	return strings.Join(strings.Fields(b.String()), " ")
}

// accessConst returns the name after Access_ when e is <pkg>.Access_<Name> or Access_<Name>.
func accessConst(e ast.Expr) (string, bool) {
	switch v := e.(type) {
	case *ast.SelectorExpr:
		if strings.HasPrefix(v.Sel.Name, "Access_") {
			return strings.TrimPrefix(v.Sel.Name, "Access_"), true
		}
	case *ast.Ident:
		if strings.HasPrefix(v.Name, "Access_") {
			return strings.TrimPrefix(v.Name, "Access_"), true
		}
	}
	return "", false
}

func calleeName(c *ast.CallExpr) string {
	switch f := c.Fun.(type) {
	case *ast.SelectorExpr:
		return f.Sel.Name
	case *ast.Ident:
		return f.Name
	}
	return ""
}

func recvName(fd *ast.FuncDecl) string {
	if fd.Recv == nil || len(fd.Recv.List) == 0 {
		return ""
	}
	t := fd.Recv.List[0].Type
	if s, ok := t.(*ast.StarExpr); ok {
		t = s.X
	}
	if id, ok := t.(*ast.Ident); ok {
		return id.Name
	}
	return "?"
}

type fn struct {
	row     row
	recv    string          // receiver type name ("" for plain functions)
	name    string          // bare name
	calls   map[string]bool // every function / method called, by bare name
	callees map[string]bool // unexported functions / methods called, by name
	helper  bool            // unexported
	emit    bool            // declared in marker.go / msg_server.go
}

func isUnexported(name string) bool {
	r, _ := utf8.DecodeRuneInString(name)
	return unicode.IsLower(r) || r == '_'
}

func analyse(fset *token.FileSet, fd *ast.FuncDecl, file string) *fn {
	name := fd.Name.Name
	if r := recvName(fd); r != "" {
		name = r + "." + name
	}
	rw := row{Func: name, File: file, Tests: []string{}, Unrecognised: []string{}}
	out := &fn{callees: map[string]bool{}, calls: map[string]bool{}, helper: isUnexported(fd.Name.Name), recv: recvName(fd), name: fd.Name.Name}
	tests := map[string]bool{}
	consumed := map[ast.Expr]bool{} // Access_ constants that were arguments of a predicate
	ast.Inspect(fd.Body, func(n ast.Node) bool {
		c, ok := n.(*ast.CallExpr)
		if !ok {
			return true
		}
		cn := calleeName(c)
		if cn != "" {
			out.calls[cn] = true
		}
		if cn != "" && isUnexported(cn) {
			out.callees[cn] = true
		}
		switch {
		case predicates[cn]:
			found := false
			for _, a := range c.Args {
				if nm, ok := accessConst(a); ok {
					consumed[a] = true
					found = true
					if known[nm] {
						tests[nm] = true
					} else {
						rw.Unrecognised = append(rw.Unrecognised, "unknown right in "+text(fset, c))
					}
				}
			}
			if !found {
				rw.Unrecognised = append(rw.Unrecognised, "access predicate without a constant: "+text(fset, c))
			}
		case cn == "GetManager":
			rw.Manager = true
		case cn == "GetAuthority" || cn == "ValidateAuthority":
			rw.Authority = true
		case cn == "accountControlsAllSupply":
			rw.AllSupply = true
		case cn == "GrantsForAddress":
			rw.AnyGrant = true
		}
		return true
	})
	// every other mention of an Access_ constant
	var stack []ast.Node
	ast.Inspect(fd.Body, func(n ast.Node) bool {
		if n == nil {
			stack = stack[:len(stack)-1]
			return true
		}
		stack = append(stack, n)
		if e, ok := n.(ast.Expr); ok {
			if consumed[e] {
				stack = stack[:len(stack)-1]
				return false
			}
			if _, isAcc := accessConst(e); isAcc {
				// report the innermost enclosing call (or the expression itself)
				var ctx ast.Node = e
				formatting := false
				for i := len(stack) - 2; i >= 0; i-- {
					if c, ok := stack[i].(*ast.CallExpr); ok {
						ctx = c
						formatting = messageOnly[calleeName(c)]
						break
					}
				}
				if formatting {
					// the constant is only printed (error / log text): not a guard, not a grant
					stack = stack[:len(stack)-1]
					return false
				}
				rw.Unrecognised = append(rw.Unrecognised, text(fset, ctx))
				stack = stack[:len(stack)-1]
				return false
			}
		}
		return true
	})
	for k := range tests {
		rw.Tests = append(rw.Tests, k)
	}
	out.row = rw
	return out
}

func main() {
	if len(os.Args) < 2 {
		fmt.Fprintln(os.Stderr, "usage: markeraccess <repo>")
		os.Exit(2)
	}
	dir := filepath.Join(os.Args[1], "x", "marker", "keeper")
	entries, err := os.ReadDir(dir)
	if err != nil {
		fmt.Fprintln(os.Stderr, err)
		os.Exit(1)
	}
	emitFiles := map[string]bool{"marker.go": true, "msg_server.go": true}
	for f := range emitFiles {
		if _, err := os.Stat(filepath.Join(dir, f)); err != nil {
			fmt.Fprintln(os.Stderr, err)
			os.Exit(1)
		}
	}
	var all []*fn
	helpers := map[string][]*fn{} // by bare name
	for _, e := range entries {
		f := e.Name()
		if e.IsDir() || !strings.HasSuffix(f, ".go") || strings.HasSuffix(f, "_test.go") {
			continue
		}
		fset := token.NewFileSet()
		file, err := parser.ParseFile(fset, filepath.Join(dir, f), nil, 0)
		if err != nil {
			fmt.Fprintln(os.Stderr, err)
			os.Exit(1)
		}
		for _, d := range file.Decls {
			fd, ok := d.(*ast.FuncDecl)
			if !ok || fd.Body == nil {
				continue
			}
			x := analyse(fset, fd, f)
			x.emit = emitFiles[f]
			all = append(all, x)
			if x.helper {
				helpers[fd.Name.Name] = append(helpers[fd.Name.Name], x)
			}
		}
	}
	// which helpers are reached from some other function of the emitted files
	reached := map[*fn]bool{}
	var closure func(x *fn, seen map[*fn]bool)
	closure = func(x *fn, seen map[*fn]bool) {
		for c := range x.callees {
			for _, h := range helpers[c] {
				if !seen[h] {
					seen[h] = true
					closure(h, seen)
				}
			}
		}
	}
	closures := map[*fn]map[*fn]bool{}
	for _, x := range all {
		if !x.emit {
			continue
		}
		seen := map[*fn]bool{x: true}
		closure(x, seen)
		delete(seen, x)
		closures[x] = seen
		for h := range seen {
			reached[h] = true
		}
	}
	var rows []row
	for _, x := range all {
		if !x.emit || (x.helper && reached[x]) {
			continue
		}
		rw := x.row
		tests := map[string]bool{}
		for _, t := range rw.Tests {
			tests[t] = true
		}
		unrec := map[string]bool{}
		for _, u := range rw.Unrecognised {
			unrec[u] = true
		}
		for h := range closures[x] {
			for _, t := range h.row.Tests {
				tests[t] = true
			}
			for _, u := range h.row.Unrecognised {
				unrec[u] = true
			}
			rw.Manager = rw.Manager || h.row.Manager
			rw.Authority = rw.Authority || h.row.Authority
			rw.AllSupply = rw.AllSupply || h.row.AllSupply
			rw.AnyGrant = rw.AnyGrant || h.row.AnyGrant
		}
		rw.Tests = []string{}
		for t := range tests {
			rw.Tests = append(rw.Tests, t)
		}
		rw.Unrecognised = []string{}
		for u := range unrec {
			rw.Unrecognised = append(rw.Unrecognised, u)
		}
		sort.Strings(rw.Tests)
		sort.Strings(rw.Unrecognised)
		if len(rw.Tests) > 0 || rw.Manager || rw.Authority || rw.AllSupply || rw.AnyGrant || len(rw.Unrecognised) > 0 {
			rows = append(rows, rw)
		}
	}
	sort.Slice(rows, func(i, j int) bool { return rows[i].Func < rows[j].Func })

	// ---- the endpoints of the module -------------------------------------------------------
	// rpcs: the rpc names of `service Msg` in proto/provenance/marker/v1/tx.proto;
	// methods: the exported methods of msgServer in the keeper package;
	// guards: per msgServer method, the rows of the table above that stand in front of it: its own
	// row and the rows of the exported Keeper methods it calls (directly or through helpers).
	rpcs, err := protoRPCs(filepath.Join(os.Args[1], "proto", "provenance", "marker", "v1", "tx.proto"))
	if err != nil {
		fmt.Fprintln(os.Stderr, err)
		os.Exit(1)
	}
	hasRow := map[string]bool{}
	for _, r := range rows {
		hasRow[r.Func] = true
	}
	type endpoint struct {
		Method string   `json:"method"`
		Guards []string `json:"guards"`
	}
	var eps []endpoint
	for _, x := range all {
		if x.recv != "msgServer" || x.helper {
			continue
		}
		called := map[string]bool{}
		for c := range x.calls {
			called[c] = true
		}
		seen := map[*fn]bool{x: true}
		closure(x, seen)
		for h := range seen {
			for c := range h.calls {
				called[c] = true
			}
		}
		g := []string{}
		if hasRow["msgServer."+x.name] {
			g = append(g, "msgServer."+x.name)
		}
		for c := range called {
			if !isUnexported(c) && hasRow["Keeper."+c] {
				g = append(g, "Keeper."+c)
			}
		}
		sort.Strings(g)
		eps = append(eps, endpoint{Method: x.name, Guards: g})
	}
	sort.Slice(eps, func(i, j int) bool { return eps[i].Method < eps[j].Method })
	sort.Strings(rpcs)
	out, _ := json.MarshalIndent(map[string]any{"rows": rows, "rpcs": rpcs, "endpoints": eps}, "", " ")
	fmt.Println(string(out))
}

// protoRPCs lists the rpc names of `service Msg { ... }` (comments removed, text scan).
func protoRPCs(path string) ([]string, error) {
	raw, err := os.ReadFile(path)
	if err != nil {
		return nil, err
	}
	var b strings.Builder
	for _, line := range strings.Split(string(raw), "\n") {
		if i := strings.Index(line, "//"); i >= 0 {
			line = line[:i]
		}
		b.WriteString(line)
		b.WriteString(" ")
	}
	txt := b.String()
	i := strings.Index(txt, "service Msg")
	if i < 0 {
		return nil, fmt.Errorf("%s: no `service Msg`", path)
	}
	txt = txt[i:]
	open := strings.Index(txt, "{")
	if open < 0 {
		return nil, fmt.Errorf("%s: malformed service", path)
	}
	depth, end := 0, -1
	for j := open; j < len(txt); j++ {
		if txt[j] == '{' {
			depth++
		} else if txt[j] == '}' {
			depth--
			if depth == 0 {
				end = j
				break
			}
		}
	}
	if end < 0 {
		return nil, fmt.Errorf("%s: unterminated service", path)
	}
	var out []string
	fields := strings.Fields(txt[open+1 : end])
	for k := 0; k+1 < len(fields); k++ {
		if fields[k] == "rpc" {
			name := fields[k+1]
			if p := strings.Index(name, "("); p >= 0 {
				name = name[:p]
			}
			out = append(out, name)
		}
	}
	return out, nil
}
