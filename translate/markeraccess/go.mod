module markeraccess

go 1.21
