(** Byte-level model of the sanction store keys and of IsSanctionedAddr on a raw key/value store
    (property C06: addresses of different lengths, addresses that are prefixes of each other,
    last bytes 0xFF / 0x00 must not be confused).

    Go sources transcribed:
      x/sanction/keeper/keys.go    CreateSanctionedAddrKey   0x01 <len(addr)> <addr>
                                   CreateTemporaryAddrPrefix 0x02 <len(addr)> <addr>
                                   CreateTemporaryKey        0x02 <len(addr)> <addr> <proposal id, 8 bytes big endian>
                                   CreateProposalTempIndexPrefix / Key
                                                             0x03 <proposal id, 8 bytes big endian> <len(addr)> <addr>
                                   IsSanctionBz / IsUnsanctionBz (value is exactly the byte 1 / 0)
      x/sanction/keeper/keeper.go  IsSanctionedAddr, getLatestTempEntry (reverse iterator over the
                                   prefix store of the address = the greatest key having the
                                   address prefix), DeleteGovPropTempEntries (iteration over the
                                   proposal's index prefix)
    Assumed: a store is a finite set of (key, one-byte value) pairs, iterated in the
    lexicographic order of the keys (shorter key first when one is a prefix of the other);
    address.MustLengthPrefix panics above 255 bytes (not modelled: lengths are not reduced).
    Bytes are [N] below 256.  No proofs in this file. *)
From Coq Require Import ZArith NArith List Bool.
Import ListNotations.
Open Scope N_scope.

Definition bytes := list N.

(** [be n p]: the [n] low-order bytes of [p], most significant first (sdk.Uint64ToBigEndian for n = 8). *)
Fixpoint be (n : nat) (p : N) : bytes :=
  match n with
  | O => []
  | S k => be k (p / 256) ++ [p mod 256]
  end.
Definition be8 (p : N) : bytes := be 8 p.

Definition len_prefixed (a : bytes) : bytes := N.of_nat (length a) :: a.

Definition perm_key (a : bytes) : bytes := 1 :: len_prefixed a.
Definition temp_prefix (a : bytes) : bytes := 2 :: len_prefixed a.
Definition temp_key (a : bytes) (p : N) : bytes := temp_prefix a ++ be8 p.
Definition index_prefix (p : N) : bytes := 3 :: be8 p.
Definition index_key (p : N) (a : bytes) : bytes := index_prefix p ++ len_prefixed a.

Fixpoint has_prefix (pre k : bytes) : bool :=
  match pre, k with
  | [], _ => true
  | _ :: _, [] => false
  | x :: pre', y :: k' => N.eqb x y && has_prefix pre' k'
  end.

Fixpoint bytes_cmp (x y : bytes) : comparison :=
  match x, y with
  | [], [] => Eq
  | [], _ :: _ => Lt
  | _ :: _, [] => Gt
  | a :: x', b :: y' => match N.compare a b with Eq => bytes_cmp x' y' | c => c end
  end.

Fixpoint bytes_eqb (x y : bytes) : bool :=
  match x, y with
  | [], [] => true
  | a :: x', b :: y' => N.eqb a b && bytes_eqb x' y'
  | _, _ => false
  end.

Definition kv := (bytes * N)%type.

Fixpoint get (k : bytes) (st : list kv) : option N :=
  match st with
  | [] => None
  | (k', v) :: r => if bytes_eqb k k' then Some v else get k r
  end.

(** The last entry of the reverse iteration over the prefix store = the pair with the greatest
    key among those having the prefix. *)
Fixpoint last_with_prefix (pre : bytes) (st : list kv) : option kv :=
  match st with
  | [] => None
  | (k, v) :: r =>
      let rest := last_with_prefix pre r in
      if has_prefix pre k then
        match rest with
        | Some (k', v') => match bytes_cmp k k' with Lt => Some (k', v') | _ => Some (k, v) end
        | None => Some (k, v)
        end
      else rest
  end.

(** IsSanctionedAddr on the raw store. *)
Definition is_sanctioned_bytes (unsanctionable : list bytes) (st : list kv) (a : bytes) : bool :=
  match a with
  | [] => false
  | _ =>
    if existsb (bytes_eqb a) unsanctionable then false
    else match last_with_prefix (temp_prefix a) st with
         | Some (_, 1) => true
         | Some (_, 0) => false
         | _ => match get (perm_key a) st with Some _ => true | None => false end
         end
  end.

(** All (proposal id, address) pairs found under the proposal's index prefix (what
    DeleteGovPropTempEntries deletes). *)
Definition under_index (p : N) (st : list kv) : list bytes :=
  map fst (filter (fun e => has_prefix (index_prefix p) (fst e)) st).
