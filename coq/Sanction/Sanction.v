(** Model of the sanction module together with the part of governance it hangs on, and of the
    bank primitives through which an account's balance can go down (property C06).

    Go sources transcribed here (function by function):
      x/sanction/keeper/keeper.go           IsSanctionedAddr, getLatestTempEntry, SanctionAddresses,
                                            UnsanctionAddresses, AddTemporarySanction/Unsanction
                                            (addTempEntries), DeleteGovPropTempEntries,
                                            DeleteAddrTempEntries, IsAddrThatCannotBeSanctioned,
                                            Get/SetParams (the two immediate minimum deposits)
      x/sanction/keeper/gov_hooks.go        proposalGovHook (deposit/voting period: temporary
                                            entries when the deposit covers the non-zero immediate
                                            minimum; rejected/failed/not found: delete the proposal's
                                            temporary entries; passed: nothing)
      x/sanction/keeper/send_restriction.go SendRestrictionFn (sender sanctioned => deny; the
                                            receiver is not looked at)
      x/sanction/keeper/msg_server.go       Sanction, Unsanction, UpdateParams (authority only)
      app/app.go                            unsanctionable = module accounts + quarantine holder
                                            ([c_unsanct]); hooks registered on the gov keeper;
                                            restriction appended to the bank
      cosmos-sdk (fork) x/gov               msg server SubmitProposal (keeper SubmitProposal, hook,
                                            then AddDeposit of the initial deposit), AddDeposit
                                            (transfer, activate voting, hook), AddVote, CancelProposal
                                            (refund minus the cancel ratio, delete; NO hook), Tally,
                                            EndBlocker (inactive queue: delete + refund or burn +
                                            FailedMinDeposit hook; active queue: tally, refund or burn,
                                            execute messages in a cache context, passed / failed /
                                            rejected, or conversion of an expedited proposal that did
                                            not pass; VotingPeriodEnded hook in a cache context whose
                                            error is ignored)
      cosmos-sdk (fork) x/bank              SendCoins, InputOutputCoinsProv (one-to-many,
                                            many-to-one), DelegateCoins, SendCoinsFromAccountToModule:
                                            each subtracts from the source and applies the send
                                            restriction with the source as sender.

    Assumed / abstracted (trusted, exercised by the correspondence harness):
      - two deposit denoms A (the bond denom, in which all other transfers are made) and B; a
        coin set is a pair (amount of A, amount of B); the immediate minimum deposits and the gov
        minimum deposit are such pairs ((0,0) = the empty coins = feature switched off; a
        component 0 = that denom is not part of the coin set); "deposit covers the minimum"
        (Coins.SafeSub has no negative / IsAllGTE) is componentwise <=;
      - the tally (keeper.Tally): a single validator whose only delegator casts the only vote,
        possibly a weighted one ([p_vote] = the weights of Yes / Abstain / No / NoWithVeto in
        permille, summing to 1000).  The voter holds the whole bonded stake, so the ratios of
        keeper.Tally are ratios of the weights: no vote = quorum not reached (rejected, deposits
        burned iff BurnVoteQuorum); all Abstain = rejected; NoWithVeto share > VetoThreshold =
        rejected with veto (deposits burned iff BurnVoteVeto); Yes share of the non-abstaining
        weight > Threshold (ExpeditedThreshold for an expedited proposal) = passes; the
        thresholds are config fields in permille (the harness reads them from the gov params);
        Tally deletes the votes it counted;
      - expedited proposals (ExpeditedMinDeposit, ExpeditedVotingPeriod = half the VotingPeriod of
        the moment, by harness convention): one that does not pass at the end of its expedited voting
        period is converted to a regular proposal (deposits kept, votes gone, new end =
        voting start + VotingPeriod of that moment, possibly already in the past: it is then
        tallied by the NEXT EndBlocker) and AfterProposalVotingPeriodEnded is called while the
        status is still "voting period": the sanction hook runs its deposit/voting branch again
        (creates temporary entries with the params of that moment); on an unsanctionable address
        the hook returns an error (since the fix "sanction gov hook returns an error instead of
        panicking": before it, the EndBlocker panicked and the chain halted), the EndBlocker drops
        the hook's cache context (no entry of that hook run is kept), logs and goes on;
      - a cancellation keeps floor(ratio 1/2) of each depositor's total; BurnProposalDepositPrevote
        / BurnVoteQuorum / BurnVoteVeto are config fields;
      - every proposal message is a sanction-module message signed by the governance account;
      - deposits must be in denoms of the gov MinDeposit (validateDepositDenom);
      - accounts of the universe are plain accounts (no vesting, holds, markers, quarantine), so
        the only reasons a debit fails are funds and the sanction restriction; where the money of
        a delegation / fee / deposit goes (module pools) is not tracked;
      - a failing or panicking message leaves the state as it was (tx rollback).
    No proofs in this file. *)
From Coq Require Import ZArith NArith List Bool.
Import ListNotations.
Open Scope Z_scope.

(** Coin sets over the two deposit denoms. *)
Definition amt2 := (Z * Z)%type.
Definition le2 (x y : amt2) : bool := (fst x <=? fst y) && (snd x <=? snd y).
Definition zero2 (x : amt2) : bool := (fst x =? 0) && (snd x =? 0).
Definition nonneg2 (x : amt2) : bool := (0 <=? fst x) && (0 <=? snd x).
Definition add2 (x y : amt2) : amt2 := (fst x + fst y, snd x + snd y).

Record config := { c_unsanct : list N;      (* addresses that cannot be sanctioned *)
                   c_gov_min : amt2;        (* gov MinDeposit (enters the voting period) *)
                   c_exp_min : amt2;        (* gov ExpeditedMinDeposit *)
                   c_thr : Z;               (* Threshold, permille *)
                   c_exp_thr : Z;           (* ExpeditedThreshold, permille *)
                   c_veto : Z;              (* VetoThreshold, permille *)
                   c_burn_veto : bool;      (* BurnVoteVeto *)
                   c_burn_quorum : bool;    (* BurnVoteQuorum *)
                   c_burn_prevote : bool }. (* BurnProposalDepositPrevote *)

Definition memN (a : N) (l : list N) : bool := existsb (N.eqb a) l.

Definition unsanct (c : config) (a : N) : bool := memN a (c_unsanct c).

(** Proposal messages (all with authority = the governance account). *)
Inductive msg :=
| MSanction (addrs : list N)
| MUnsanction (addrs : list N)
| MParams (smin umin : amt2).

Inductive pstatus := PDeposit | PVoting.

(** A (weighted) vote: weights of Yes, Abstain, No, NoWithVeto in permille. *)
Definition ballot := (Z * Z * Z * Z)%type.

Record proposal := {
  p_id : N; p_proposer : N; p_msgs : list msg;
  p_deps : list (N * amt2);     (* depositor |-> total deposited (one Deposit record each) *)
  p_status : pstatus;
  p_dep_end : Z;                (* DepositEndTime *)
  p_vote_start : Z;             (* VotingStartTime, meaningful when PVoting *)
  p_vote_end : Z;               (* VotingEndTime, meaningful when PVoting *)
  p_vote : option ballot;       (* the only voter's current vote *)
  p_expedited : bool }.

(** A temporary entry: (address, proposal id, true = sanction / false = unsanction).
    The list is read front to back: a later write for the same key shadows earlier ones. *)
Definition entry := (N * N * bool)%type.

Record state := {
  perm : list N;                (* permanently sanctioned addresses *)
  temps : list entry;
  smin : amt2; umin : amt2;     (* immediate sanction / unsanction minimum deposits, (0,0) = off *)
  props : list proposal;        (* proposals in deposit or voting period, ascending id *)
  next_id : N;
  now : Z;                      (* block time of the current block *)
  bal : N -> Z;                 (* balances in denom A *)
  balb : N -> Z }.              (* balances in denom B *)

Definition set_perm (s : state) (x : list N) : state :=
  {| perm := x; temps := temps s; smin := smin s; umin := umin s; props := props s;
     next_id := next_id s; now := now s; bal := bal s; balb := balb s |}.
Definition set_temps (s : state) (x : list entry) : state :=
  {| perm := perm s; temps := x; smin := smin s; umin := umin s; props := props s;
     next_id := next_id s; now := now s; bal := bal s; balb := balb s |}.
Definition set_params (s : state) (a b : amt2) : state :=
  {| perm := perm s; temps := temps s; smin := a; umin := b; props := props s;
     next_id := next_id s; now := now s; bal := bal s; balb := balb s |}.
Definition set_props (s : state) (x : list proposal) : state :=
  {| perm := perm s; temps := temps s; smin := smin s; umin := umin s; props := x;
     next_id := next_id s; now := now s; bal := bal s; balb := balb s |}.
Definition set_next (s : state) (x : N) : state :=
  {| perm := perm s; temps := temps s; smin := smin s; umin := umin s; props := props s;
     next_id := x; now := now s; bal := bal s; balb := balb s |}.
Definition set_now (s : state) (x : Z) : state :=
  {| perm := perm s; temps := temps s; smin := smin s; umin := umin s; props := props s;
     next_id := next_id s; now := x; bal := bal s; balb := balb s |}.
Definition set_bal (s : state) (x y : N -> Z) : state :=
  {| perm := perm s; temps := temps s; smin := smin s; umin := umin s; props := props s;
     next_id := next_id s; now := now s; bal := x; balb := y |}.

(** ** Sanction keeper *)

(** The store entry under (addr, proposal id). *)
Fixpoint temp_lookup (a p : N) (l : list entry) : option bool :=
  match l with
  | [] => None
  | (a', p', b) :: r => if N.eqb a a' && N.eqb p p' then Some b else temp_lookup a p r
  end.

Definition temp_entry (s : state) (a p : N) : option bool := temp_lookup a p (temps s).

(** getLatestTempEntry: reverse iteration over the address' prefix, i.e. the entry with the
    highest proposal id. *)
Fixpoint latest_temp (a : N) (l : list entry) : option (N * bool) :=
  match l with
  | [] => None
  | (a', p, b) :: r =>
      let rest := latest_temp a r in
      if N.eqb a a' then
        match rest with
        | Some (q, c) => if N.ltb p q then Some (q, c) else Some (p, b)
        | None => Some (p, b)
        end
      else rest
  end.

(** IsSanctionedAddr *)
Definition is_sanctioned (c : config) (s : state) (a : N) : bool :=
  if unsanct c a then false
  else match latest_temp a (temps s) with
       | Some (_, true) => true
       | Some (_, false) => false
       | None => memN a (perm s)
       end.

Definition del_addr_temps (addrs : list N) (l : list entry) : list entry :=
  filter (fun e => let '(a, _, _) := e in negb (memN a addrs)) l.

Definition del_prop_temps (pid : N) (l : list entry) : list entry :=
  filter (fun e => let '(_, p, _) := e in negb (N.eqb p pid)) l.

(** SanctionAddresses: an unsanctionable address is an error (the caller's cache is dropped). *)
Definition sanction_addrs (c : config) (s : state) (addrs : list N) : option state :=
  if existsb (unsanct c) addrs then None
  else Some (set_temps (set_perm s (addrs ++ perm s)) (del_addr_temps addrs (temps s))).

(** UnsanctionAddresses never fails. *)
Definition unsanction_addrs (s : state) (addrs : list N) : state :=
  set_temps (set_perm s (filter (fun a => negb (memN a addrs)) (perm s)))
            (del_addr_temps addrs (temps s)).

(** addTempEntries: the unsanctionable check applies to sanctions only. *)
Definition add_temps (c : config) (b : bool) (pid : N) (addrs : list N) (l : list entry)
  : option (list entry) :=
  if b && existsb (unsanct c) addrs then None
  else Some (fold_left (fun acc a => (a, pid, b) :: acc) addrs l).

(** Msg server (authority already checked by the caller of [exec_msg]). *)
Definition exec_msg (c : config) (s : state) (m : msg) : option state :=
  match m with
  | MSanction addrs => sanction_addrs c s addrs
  | MUnsanction addrs => Some (unsanction_addrs s addrs)
  | MParams a b => if nonneg2 a && nonneg2 b then Some (set_params s a b) else None
  end.

Fixpoint exec_msgs (c : config) (s : state) (ms : list msg) : option state :=
  match ms with
  | [] => Some s
  | m :: r => match exec_msg c s m with
              | Some s' => exec_msgs c s' r
              | None => None
              end
  end.

(** ** Governance *)

Definition ballot_ok (v : ballot) : bool :=
  let '(y, a, n, w) := v in
  (0 <=? y) && (0 <=? a) && (0 <=? n) && (0 <=? w) && (y + a + n + w =? 1000).

(** keeper.Tally for the single voter: (passes, burn the deposits). *)
Definition tally (c : config) (expedited : bool) (v : option ballot) : bool * bool :=
  match v with
  | None => (false, c_burn_quorum c)                       (* quorum not reached *)
  | Some (y, a, n, w) =>
      let total := y + a + n + w in
      if total - a =? 0 then (false, false)                (* everybody abstains *)
      else if c_veto c * total <? w * 1000 then (false, c_burn_veto c)
      else if (if expedited then c_exp_thr c else c_thr c) * (total - a) <? y * 1000 then (true, false)
      else (false, false)
  end.

Definition total_deposit (pr : proposal) : amt2 := fold_left (fun acc d => add2 acc (snd d)) (p_deps pr) (0, 0).

Fixpoint get_prop (pid : N) (l : list proposal) : option proposal :=
  match l with
  | [] => None
  | pr :: r => if N.eqb (p_id pr) pid then Some pr else get_prop pid r
  end.

Definition put_prop (pr : proposal) (l : list proposal) : list proposal :=
  map (fun x => if N.eqb (p_id x) (p_id pr) then pr else x) l.

Definition remove_prop (pid : N) (l : list proposal) : list proposal :=
  filter (fun x => negb (N.eqb (p_id x) pid)) l.

Definition is_live (s : state) (pid : N) : bool :=
  match get_prop pid (props s) with Some _ => true | None => false end.

(** proposalGovHook for a proposal in deposit or voting period: [None] = the hook panicked. *)
Definition hook_msg (c : config) (s : state) (pr : proposal) (acc : option (list entry)) (m : msg)
  : option (list entry) :=
  match acc with
  | None => None
  | Some l =>
      match m with
      | MSanction addrs =>
          if negb (zero2 (smin s)) && le2 (smin s) (total_deposit pr)
          then add_temps c true (p_id pr) addrs l else Some l
      | MUnsanction addrs =>
          if negb (zero2 (umin s)) && le2 (umin s) (total_deposit pr)
          then add_temps c false (p_id pr) addrs l else Some l
      | MParams _ _ => Some l
      end
  end.

Definition run_hook (c : config) (s : state) (pr : proposal) : option state :=
  match fold_left (hook_msg c s pr) (p_msgs pr) (Some (temps s)) with
  | Some l => Some (set_temps s l)
  | None => None
  end.

(** Bank: take [amt] out of [a] as the sender of a transfer (subUnlockedCoins + the send
    restriction, in either order: both failures abort the message). *)
Definition upd (f : N -> Z) (a : N) (v : Z) : N -> Z := fun x => if N.eqb x a then v else f x.

Definition debit (c : config) (s : state) (a : N) (amt : amt2) : option state :=
  if negb (nonneg2 amt) then None
  else if negb (le2 amt (bal s a, balb s a)) then None
  else if is_sanctioned c s a then None
  else Some (set_bal s (upd (bal s) a (bal s a - fst amt)) (upd (balb s) a (balb s a - snd amt))).

Definition credit (s : state) (a : N) (amt : amt2) : state :=
  set_bal s (upd (bal s) a (bal s a + fst amt)) (upd (balb s) a (balb s a + snd amt)).

Fixpoint add_dep (who : N) (amt : amt2) (l : list (N * amt2)) : list (N * amt2) :=
  match l with
  | [] => [(who, amt)]
  | (w, v) :: r => if N.eqb w who then (w, add2 v amt) :: r else (w, v) :: add_dep who amt r
  end.

Definition with_deposit (pr : proposal) (deps : list (N * amt2)) (st : pstatus) (vstart vend : Z) : proposal :=
  {| p_id := p_id pr; p_proposer := p_proposer pr; p_msgs := p_msgs pr; p_deps := deps;
     p_status := st; p_dep_end := p_dep_end pr; p_vote_start := vstart; p_vote_end := vend;
     p_vote := p_vote pr; p_expedited := p_expedited pr |}.

Definition with_vote (pr : proposal) (v : option ballot) : proposal :=
  {| p_id := p_id pr; p_proposer := p_proposer pr; p_msgs := p_msgs pr; p_deps := p_deps pr;
     p_status := p_status pr; p_dep_end := p_dep_end pr; p_vote_start := p_vote_start pr;
     p_vote_end := p_vote_end pr; p_vote := v; p_expedited := p_expedited pr |}.

(** An expedited proposal that did not pass becomes a regular one: votes gone, new end time. *)
Definition converted (pr : proposal) (vp : Z) : proposal :=
  {| p_id := p_id pr; p_proposer := p_proposer pr; p_msgs := p_msgs pr; p_deps := p_deps pr;
     p_status := p_status pr; p_dep_end := p_dep_end pr; p_vote_start := p_vote_start pr;
     p_vote_end := p_vote_start pr + vp; p_vote := None; p_expedited := false |}.

(** validateDepositDenom: only denoms of the gov MinDeposit. *)
Definition denoms_ok (c : config) (amt : amt2) : bool :=
  ((fst amt =? 0) || (0 <? fst (c_gov_min c))) && ((snd amt =? 0) || (0 <? snd (c_gov_min c))).

Definition min_deposit (c : config) (pr : proposal) : amt2 :=
  if p_expedited pr then c_exp_min c else c_gov_min c.

Definition voting_period (pr : proposal) (vp : Z) : Z := if p_expedited pr then vp / 2 else vp.

(** keeper.AddDeposit: [vp] is the voting period in the gov params at this moment. *)
Definition add_deposit (c : config) (s : state) (pid who : N) (amt : amt2) (vp : Z) : option state :=
  match get_prop pid (props s) with
  | None => None
  | Some pr =>
      if negb (denoms_ok c amt) then None else
      match debit c s who amt with
      | None => None
      | Some s1 =>
          let deps := add_dep who amt (p_deps pr) in
          let pr1 := with_deposit pr deps (p_status pr) (p_vote_start pr) (p_vote_end pr) in
          let pr2 :=
            match p_status pr with
            | PDeposit => if le2 (min_deposit c pr) (total_deposit pr1)
                          then with_deposit pr deps PVoting (now s) (now s + voting_period pr vp) else pr1
            | PVoting => pr1
            end in
          let s2 := set_props s1 (put_prop pr2 (props s1)) in
          run_hook c s2 pr2
      end
  end.

(** MsgSubmitProposal: [dp]/[vp] are the deposit and voting periods in the gov params. *)
Definition submit (c : config) (s : state) (proposer : N) (ms : list msg) (dep : amt2) (dp vp : Z)
           (expedited : bool) : option state :=
  let pid := next_id s in
  let pr := {| p_id := pid; p_proposer := proposer; p_msgs := ms; p_deps := [];
               p_status := PDeposit; p_dep_end := now s + dp; p_vote_start := 0; p_vote_end := 0;
               p_vote := None; p_expedited := expedited |} in
  let s1 := set_next (set_props s (props s ++ [pr])) (N.succ pid) in
  match run_hook c s1 pr with            (* AfterProposalSubmission: total deposit still empty *)
  | None => None
  | Some s2 => add_deposit c s2 pid proposer dep vp
  end.

Definition vote (s : state) (pid : N) (v : ballot) : option state :=
  if negb (ballot_ok v) then None else
  match get_prop pid (props s) with
  | Some pr => match p_status pr with
               | PVoting => Some (set_props s (put_prop (with_vote pr (Some v)) (props s)))
               | PDeposit => None
               end
  | None => None
  end.

Definition refund_all (s : state) (deps : list (N * amt2)) : state :=
  fold_left (fun acc d => credit acc (fst d) (snd d)) deps s.

(** keeper.CancelProposal: proposer only, not after the voting end time; each depositor gets
    back, per coin, its total minus floor(total/2); the proposal is deleted.  No hook is called, so the
    sanction module is never told. *)
Definition cancel (s : state) (who pid : N) : option state :=
  match get_prop pid (props s) with
  | None => None
  | Some pr =>
      if negb (N.eqb (p_proposer pr) who) then None
      else if match p_status pr with PVoting => p_vote_end pr <? now s | PDeposit => false end then None
      else
        let s1 := refund_all s (map (fun d => (fst d, (fst (snd d) - fst (snd d) / 2, snd (snd d) - snd (snd d) / 2))) (p_deps pr)) in
        Some (set_props s1 (remove_prop pid (props s1)))
  end.

(** EndBlocker, inactive queue entry: delete, refund (or burn), AfterProposalFailedMinDeposit
    (proposal not found => the proposal's temporary entries are deleted). *)
Definition expire_one (c : config) (s : state) (pid : N) : state :=
  match get_prop pid (props s) with
  | None => s
  | Some pr =>
      let s1 := set_props s (remove_prop pid (props s)) in
      let s2 := if c_burn_prevote c then s1 else refund_all s1 (p_deps pr) in
      set_temps s2 (del_prop_temps pid (temps s2))
  end.

(** EndBlocker, active queue entry; [vp] is the gov VotingPeriod of this moment. *)
Definition tally_one (c : config) (vp : Z) (s : state) (pid : N) : state :=
  match get_prop pid (props s) with
  | None => s
  | Some pr =>
      let '(passes, burn) := tally c (p_expedited pr) (p_vote pr) in
      if p_expedited pr && negb passes then
        (* converted to a regular proposal: deposits stay, the hook sees a proposal in its voting
           period; a hook error is ignored (its cache context is dropped) *)
        let pr' := converted pr vp in
        let s1 := set_props s (put_prop pr' (props s)) in
        match run_hook c s1 pr' with
        | Some s2 => s2
        | None => s1
        end
      else
        let s1 := if burn then s else refund_all s (p_deps pr) in
        let s2 := set_props s1 (remove_prop pid (props s1)) in     (* status becomes final *)
        if passes then
          match exec_msgs c s2 (p_msgs pr) with
          | Some s3 => s3                                            (* passed: hook does nothing *)
          | None => set_temps s2 (del_prop_temps pid (temps s2))     (* failed: messages rolled back *)
          end
        else set_temps s2 (del_prop_temps pid (temps s2))            (* rejected *)
  end.

(** Queue order: (end time, id).  [props] is in ascending id order, so a stable insertion sort
    on the time gives the queue order. *)
Fixpoint insert_by (key : proposal -> Z) (x : proposal) (l : list proposal) : list proposal :=
  match l with
  | [] => [x]
  | y :: r => if key y <=? key x then y :: insert_by key x r else x :: l
  end.
Definition sort_by (key : proposal -> Z) (l : list proposal) : list proposal :=
  fold_left (fun acc x => insert_by key x acc) l [].

Definition is_deposit (pr : proposal) : bool := match p_status pr with PDeposit => true | _ => false end.
Definition is_voting (pr : proposal) : bool := match p_status pr with PVoting => true | _ => false end.

(** The queue walk sees the queue as it was when the walk started (the store iterator is
    isolated from writes made during the walk): a proposal converted in this block is not tallied
    again in the same block, even when its new end time is already over. *)
Definition end_block (c : config) (vp : Z) (s : state) : state :=
  let expired := sort_by p_dep_end (filter (fun pr => is_deposit pr && (p_dep_end pr <=? now s)) (props s)) in
  let s1 := fold_left (expire_one c) (map p_id expired) s in
  let due := sort_by p_vote_end (filter (fun pr => is_voting pr && (p_vote_end pr <=? now s)) (props s1)) in
  fold_left (tally_one c vp) (map p_id due) s1.

(** ** Bank messages *)

Definition all_pos (l : list (N * Z)) : bool := forallb (fun x => 0 <? snd x) l.
Definition sum_amts (l : list (N * Z)) : Z := fold_left (fun acc x => acc + snd x) l 0.

Definition send (c : config) (s : state) (from to : N) (amt : Z) : option state :=
  if amt <=? 0 then None
  else match debit c s from (amt, 0) with
       | Some s1 => Some (credit s1 to (amt, 0))
       | None => None
       end.

Definition multi_send (c : config) (s : state) (from : N) (outs : list (N * Z)) : option state :=
  match outs with
  | [] => None
  | _ => if negb (all_pos outs) then None
         else match debit c s from (sum_amts outs, 0) with
              | Some s1 => Some (refund_all s1 (map (fun o => (fst o, (snd o, 0))) outs))
              | None => None
              end
  end.

Fixpoint debit_all (c : config) (s : state) (ins : list (N * Z)) : option state :=
  match ins with
  | [] => Some s
  | (a, v) :: r => match debit c s a (v, 0) with
                   | Some s1 => debit_all c s1 r
                   | None => None
                   end
  end.

Definition many_to_one (c : config) (s : state) (ins : list (N * Z)) (to : N) : option state :=
  match ins with
  | [] => None
  | _ => if negb (all_pos ins) then None
         else match debit_all c s ins with
              | Some s1 => Some (credit s1 to (sum_amts ins, 0))
              | None => None
              end
  end.

(** Delegation, fee payment and any other account-to-module transfer: a debit whose
    counterpart (a module pool) is not tracked. *)
Definition to_module (c : config) (s : state) (from : N) (amt : Z) : option state :=
  if amt <=? 0 then None else debit c s from (amt, 0).

(** ** Operations *)
Inductive op :=
| OSubmit (proposer : N) (ms : list msg) (dep : amt2) (dp vp : Z) (expedited : bool)
| ODeposit (who pid : N) (amt : amt2) (vp : Z)
| OVote (pid : N) (v : ballot)
| OCancel (who pid : N)
| ONewBlock (t : Z) (vp : Z)              (* EndBlocker at [now] (gov VotingPeriod = vp), then the
                                             next block at time t *)
| ODirect (authority_ok : bool) (m : msg) (* a sanction message delivered straight to the msg server *)
| OSend (from to : N) (amt : Z)
| OMultiSend (from : N) (outs : list (N * Z))
| OManyToOne (ins : list (N * Z)) (to : N)
| ODelegate (from : N) (amt : Z)
| OPayFee (from : N) (amt : Z)
| OFund (to : N) (amt : Z).               (* mint to an account (test funding) *)

Definition step_opt (c : config) (s : state) (o : op) : option state :=
  match o with
  | OSubmit who ms dep dp vp ex => if negb (nonneg2 dep) then None else submit c s who ms dep dp vp ex
  | ODeposit who pid amt vp => if negb (nonneg2 amt) || zero2 amt then None else add_deposit c s pid who amt vp
  | OVote pid v => vote s pid v
  | OCancel who pid => cancel s who pid
  | ONewBlock t vp => Some (set_now (end_block c vp s) t)
  | ODirect ok m => if ok then exec_msg c s m else None
  | OSend from to amt => send c s from to amt
  | OMultiSend from outs => multi_send c s from outs
  | OManyToOne ins to => many_to_one c s ins to
  | ODelegate from amt => to_module c s from amt
  | OPayFee from amt => to_module c s from amt
  | OFund to amt => if amt <? 0 then None else Some (credit s to (amt, 0))
  end.

(** A rejected operation leaves the state as it was. *)
Definition step (c : config) (s : state) (o : op) : state * bool :=
  match step_opt c s o with
  | Some s' => (s', true)
  | None => (s, false)
  end.

Definition init (sm um : amt2) (first_id : N) (t0 : Z) (b bb : N -> Z) : state :=
  {| perm := []; temps := []; smin := sm; umin := um; props := []; next_id := first_id;
     now := t0; bal := b; balb := bb |}.

Definition run (c : config) (s0 : state) (ops : list op) : state :=
  fold_left (fun s o => fst (step c s o)) ops s0.
