(** Model of the locked-coins chain that keeps funds on hold inside their account (property C03).

    Go sources transcribed:
      x/hold/keeper/locked_coins.go   Keeper.GetLockedCoins (nil under hold.WithBypass)
      x/hold/keeper/keeper.go         ValidateNewHold, AddHold, ReleaseHold
      forked cosmos-sdk x/bank/keeper  (read, modelled and trusted)
        view.go   LockedCoins = UnvestedCoins (+) hold getter (appended in hold.NewKeeper),
                  UnvestedCoins is empty under WithVestingLockedBypass, SpendableCoins/SpendableCoin
        send.go   subUnlockedCoins (used by SendCoins, InputOutputCoins, SendCoinsFromAccountToModule,
                  UndelegateCoins on the module side, BurnCoins), addCoins
        keeper.go DelegateCoins: locked computed with the vesting bypass (hold still counts)

    Accounts and denoms are interned to [N].  A balance sheet is a total function to [Z].
    [unvested] is what the account's vesting schedule locks at the current block time (0 for
    non-vesting accounts); it is an arbitrary nonnegative quantity that time-advance and
    delegation-tracking steps may change.  The bank never changes holds; the hold keeper never
    changes balances.  A failing operation leaves the state unchanged (tx rollback).  No proofs here. *)
From Coq Require Import ZArith NArith List Bool.
Import ListNotations.
Open Scope Z_scope.

Definition addr := N.
Definition denom := N.
Definition sheet := addr -> denom -> Z.

Definition upd (s : sheet) (a : addr) (d : denom) (v : Z) : sheet :=
  fun a' d' => if andb (N.eqb a a') (N.eqb d d') then v else s a' d'.

Record state := { bal : sheet; hold : sheet; unvested : sheet }.

(** LockedCoins with the two context flags. The hold getter returns nothing under the hold bypass;
    getters are wrapped so that non-positive amounts are dropped. *)
Definition pos_part (z : Z) : Z := Z.max 0 z.
Definition locked (s : state) (vest_bypass hold_bypass : bool) (a : addr) (d : denom) : Z :=
  (if vest_bypass then 0 else pos_part (unvested s a d)) +
  (if hold_bypass then 0 else pos_part (hold s a d)).

(** SpendableCoin(s): balance minus locked, floored at zero. *)
Definition spendable (s : state) (a : addr) (d : denom) : Z :=
  pos_part (bal s a d - locked s false false a d).

(** subUnlockedCoins for one coin (amt > 0 in a valid sdk.Coins). *)
Definition sub_unlocked (s : state) (a : addr) (d : denom) (amt : Z) : option state :=
  let l := locked s false false a d in
  if bal s a d <? l then None                       (* "locked amount exceeds account balance" *)
  else if bal s a d - l <? amt then None            (* "spendable balance … is smaller than …" *)
  else Some {| bal := upd (bal s) a d (bal s a d - amt); hold := hold s; unvested := unvested s |}.

Definition add_coins (s : state) (a : addr) (d : denom) (amt : Z) : state :=
  {| bal := upd (bal s) a d (bal s a d + amt); hold := hold s; unvested := unvested s |}.

(** DelegateCoins for one coin: vesting does not lock delegation, the hold still does. *)
Definition delegate_sub (s : state) (a : addr) (d : denom) (amt : Z) : option state :=
  let l := locked s true false a d in
  if bal s a d - l <? amt then None
  else Some {| bal := upd (bal s) a d (bal s a d - amt); hold := hold s; unvested := unvested s |}.

(** Operations: every primitive through which a balance can decrease, plus the hold keeper. *)
Inductive op :=
| OSend (from to : addr) (d : denom) (amt : Z)            (* SendCoins / account->module / module->account *)
| OMulti (from : addr) (outs : list (addr * Z)) (d : denom) (* InputOutputCoins, one input *)
| OMultiIn (ins : list (addr * Z)) (to : addr) (d : denom)  (* InputOutputCoins, many inputs one output *)
| ODelegate (from pool : addr) (d : denom) (amt : Z)       (* DelegateCoins *)
| OUndelegate (pool to : addr) (d : denom) (amt : Z)       (* UndelegateCoins: pool side is subUnlocked *)
| OBurn (from : addr) (d : denom) (amt : Z)                (* BurnCoins from a module account *)
| OMint (to : addr) (d : denom) (amt : Z)
| OAddHold (a : addr) (d : denom) (amt : Z)
| OReleaseHold (a : addr) (d : denom) (amt : Z)
| OVesting (a : addr) (d : denom) (v : Z).                  (* block time / delegation tracking changes the vesting lock *)

Definition sum_amts (l : list (addr * Z)) : Z := fold_right (fun p acc => snd p + acc) 0 l.

Fixpoint sub_all (s : state) (d : denom) (l : list (addr * Z)) : option state :=
  match l with
  | [] => Some s
  | (a, amt) :: r => match sub_unlocked s a d amt with
                     | Some s' => sub_all s' d r
                     | None => None
                     end
  end.

Definition add_all (s : state) (d : denom) (l : list (addr * Z)) : state :=
  fold_left (fun st p => add_coins st (fst p) d (snd p)) l s.

Definition all_pos (l : list (addr * Z)) : bool := forallb (fun p => 0 <? snd p) l.

(** [step] returns [None] when the operation fails; [run_op] keeps the old state then. *)
Definition step (s : state) (o : op) : option state :=
  match o with
  | OSend from to d amt =>
      if amt <=? 0 then None else
      match sub_unlocked s from d amt with
      | Some s' => Some (add_coins s' to d amt)
      | None => None
      end
  | OMulti from outs d =>
      if negb (all_pos outs) then None else
      match sub_unlocked s from d (sum_amts outs) with
      | Some s' => Some (add_all s' d outs)
      | None => None
      end
  | OMultiIn ins to d =>
      if negb (all_pos ins) then None else
      match sub_all s d ins with
      | Some s' => Some (add_coins s' to d (sum_amts ins))
      | None => None
      end
  | ODelegate from pool d amt =>
      if amt <=? 0 then None else
      match delegate_sub s from d amt with
      | Some s' => Some (add_coins s' pool d amt)
      | None => None
      end
  | OUndelegate pool to d amt =>
      if amt <=? 0 then None else
      match sub_unlocked s pool d amt with
      | Some s' => Some (add_coins s' to d amt)
      | None => None
      end
  | OBurn from d amt =>
      if amt <=? 0 then None else sub_unlocked s from d amt
  | OMint to d amt =>
      if amt <=? 0 then None else Some (add_coins s to d amt)
  | OAddHold a d amt =>
      (* ValidateNewHold: zero is a no-op, negative is an error, else spendable must cover it *)
      if amt =? 0 then Some s
      else if amt <? 0 then None
      else if spendable s a d <? amt then None
      else Some {| bal := bal s; hold := upd (hold s) a d (hold s a d + amt); unvested := unvested s |}
  | OReleaseHold a d amt =>
      if amt =? 0 then Some s
      else if amt <? 0 then None
      else if hold s a d - amt <? 0 then None
      else Some {| bal := bal s; hold := upd (hold s) a d (hold s a d - amt); unvested := unvested s |}
  | OVesting a d v =>
      if v <? 0 then None
      else Some {| bal := bal s; hold := hold s; unvested := upd (unvested s) a d v |}
  end.

Definition run_op (s : state) (o : op) : state :=
  match step s o with Some s' => s' | None => s end.

Definition run (s : state) (ops : list op) : state := fold_left run_op ops s.

(** The invariant of the property. *)
Definition Inv (s : state) : Prop :=
  forall a d, 0 <= hold s a d /\ hold s a d <= bal s a d /\ 0 <= unvested s a d.
