(** C08 — A transaction pays its declared fee on success, only the base fee on failure.
    Only theorem statements here; each is closed by [exact] of a lemma proved in
    Proofs/TxFeesProofs.v about the model Fees/TxFees.v (ante chain, message router with the fee gas
    meter, FeeInvoke sweep and distribution, runTx's keep-the-ante-effects rule).

    Reading guide.  [check_tx cfg s t = true]: the node admits [t] to its mempool in state [s] under
    configuration [cfg] (fee schedule, floor gas price).  [deliver cfg s t = (s', r)]: executing it in a
    block gives state [s'] and result [r] (RAnteFail: the ante handler refused it, nothing happened;
    RFailed: messages or the final sweep failed; ROk).  [fee_source t] is the fee granter when the
    transaction names one, else the fee payer.  [base_fee cfg gas] = floor gas price x gas limit.
    [routed_all t] are all messages the router sees, including those dispatched by authz MsgExec.
    [share cfg rs a d] = sum over the fee charges of messages [rs] whose recipient is [a], in denom [d],
    of amount*bips/10000 (integer floor); [shares_total] the same over all recipients; [additional] the
    sum of the charges themselves - the message-type fees, the custom assessed fees AND the fees that
    handlers record on the fee gas meter themselves after they succeeded (x/exchange payment flat fees,
    [r_post]); [additional_pre] leaves the last kind out: it is all the mempool check and the router can
    know; [msg_net] what the messages' own coin movements moved.
    Hypotheses [wf_cfg]/[wf_tx]: basis points are unsigned, the declared fee has no negative amount. *)
From Coq Require Import ZArith NArith List.
Import ListNotations.
From PV Require Import Fees.TxFees Proofs.TxFeesProofs.
Open Scope Z_scope.

(** Once in the mempool and executed: the account the fees come from loses exactly the base fee when the
    transaction fails and exactly the declared fee when it succeeds (apart from what it receives back
    as a fee recipient and what its own messages move); the base fee never exceeds the declared fee. *)
Theorem C08_debit : forall cfg s t s' r,
  wf_cfg cfg -> wf_tx t -> check_tx cfg s t = true -> deliver cfg s t = (s', r) ->
  fee_source t <> collector ->
  (r = RFailed -> forall d, bal s (fee_source t) d - bal s' (fee_source t) d = amount_of (base_fee cfg (t_gas t)) d) /\
  (r = ROk -> forall d, bal s (fee_source t) d - bal s' (fee_source t) d
                        = amount_of (t_fee t) d - share cfg (routed_all t) (fee_source t) d
                          - msg_net (routed_all t) (fee_source t) d) /\
  (forall d, amount_of (base_fee cfg (t_gas t)) d <= amount_of (t_fee t) d).
Proof. exact c08_debit. Qed.
Print Assumptions C08_debit.

(** A transaction succeeds only if the declared fee covers the base fee plus every additional message
    fee incurred - nested authz-dispatched messages, custom assessed fees and fees recorded by the
    handlers themselves included (so: not covered implies the transaction fails). *)
Theorem C08_additional_covered : forall cfg s t s',
  wf_cfg cfg -> wf_tx t -> check_tx cfg s t = true -> deliver cfg s t = (s', ROk) ->
  forall d, amount_of (base_fee cfg (t_gas t)) d + additional cfg (routed_all t) d <= amount_of (t_fee t) d.
Proof. exact c08_additional_covered. Qed.
Print Assumptions C08_additional_covered.

(** On success every other account receives exactly the floor of its basis-point shares, the fee
    collector receives the declared fee minus all recipients' shares, and recipients' shares plus the
    collector's part add up to the declared fee: nothing is lost. *)
Theorem C08_distribution_conserves : forall cfg s t s',
  wf_cfg cfg -> wf_tx t -> check_tx cfg s t = true -> deliver cfg s t = (s', ROk) ->
  (forall a d, a <> fee_source t -> a <> collector ->
     bal s' a d - bal s a d - msg_net (routed_all t) a d = share cfg (routed_all t) a d) /\
  (fee_source t <> collector -> forall d,
     bal s' collector d - bal s collector d - msg_net (routed_all t) collector d - share cfg (routed_all t) collector d
     = amount_of (t_fee t) d - shares_total cfg (routed_all t) d) /\
  (forall accts d, NoDup accts ->
     (forall ch a, In ch (flat_map (charges cfg) (routed_all t)) -> ch_recipient ch = Some a -> In a accts) ->
     zsum (fun a => share cfg (routed_all t) a d) accts
     + (amount_of (t_fee t) d - shares_total cfg (routed_all t) d) = amount_of (t_fee t) d).
Proof. exact c08_distribution. Qed.
Print Assumptions C08_distribution_conserves.

(** The recipient's part of one charge is the integer floor of amount*bips/10000 (by definition of
    [ch_share]; SplitCoinByBips computes it through 18-decimal arithmetic, C19 shows that is the floor). *)
Theorem C08_share_is_floor : forall a d dn amt bips r,
  ch_share a d ((dn, amt), bips, Some r) = if (N.eqb a r && N.eqb d dn)%bool then amt * bips / 10000 else 0.
Proof. reflexivity. Qed.
Print Assumptions C08_share_is_floor.

(** A transaction the mempool check does not admit is not executed and changes nothing; and a declared
    fee that does not cover the base fee plus the additional fees of the transaction's messages is
    never admitted. *)
Theorem C08_rejected_never_charged : forall cfg s t,
  (check_tx cfg s t = false -> step s (OTx cfg t) = (s, RRejected)) /\
  (wf_cfg cfg -> wf_tx t ->
   ~ (forall d, amount_of (base_fee cfg (t_gas t)) d + additional_pre cfg (routed_top t) d <= amount_of (t_fee t) d) ->
   check_tx cfg s t = false).
Proof. exact c08_rejected. Qed.
Print Assumptions C08_rejected_never_charged.

(** A failed transaction moves the base fee from the paying account to the fee collector and changes
    no other balance; the signers' sequence numbers go up by one; no fee allowance other than the one
    used changes. *)
Theorem C08_failure_changes_only_sequence : forall cfg s t s',
  deliver cfg s t = (s', RFailed) ->
  (forall a d, bal s' a d = bal s a d
                 - (if N.eqb a (fee_source t) then amount_of (base_fee cfg (t_gas t)) d else 0)
                 + (if N.eqb a collector then amount_of (base_fee cfg (t_gas t)) d else 0)) /\
  (forall a, seqn s' a = seqn s a + (if existsb (N.eqb a) (t_signers t) then 1 else 0)) /\
  (forall g p, (g, p) <> (fee_source t, t_payer t) -> allow s' g p = allow s g p).
Proof. exact c08_failure. Qed.
Print Assumptions C08_failure_changes_only_sequence.

(** All histories: after any sequence of transactions, funding and allowance changes, the next
    transaction obeys every clause above (rejected or refused by the ante handler: state unchanged;
    failed: only the base fee moves; succeeded: the closed form [spec_ok_delta] for every balance and
    the additional fees are covered). *)
Theorem C08_all_histories : forall s0 ops cfg t, wf_cfg cfg -> wf_tx t ->
  let s := run s0 ops in
  tx_clauses cfg s t (fst (step s (OTx cfg t))) (snd (step s (OTx cfg t))).
Proof. exact history_clauses. Qed.
Print Assumptions C08_all_histories.

(** Non-vacuity: a concrete transaction (authz MsgExec of account 1 wrapping a MsgSend, fee granted by
    account 2 with a spend limit; MsgSend costs 800 of denom 1 with 33.33 % to account 3, MsgExec costs
    10 of denom 2) is admitted and succeeds with exactly the stated movements; the same transaction
    with a send it cannot afford is admitted, fails, and costs the granter the base fee only. *)
Definition ex_cfg : config :=
  {| schedule := [ {| fe_type := 1%N; fe_coin := (1%N, 800); fe_recipient := Some 3%N; fe_bips := 3333 |};
                   {| fe_type := 2%N; fe_coin := (2%N, 10); fe_recipient := None; fe_bips := 0 |} ];
     floor_price := (1%N, 2); conv_denom := 1%N; usd_denom := 4%N; nhash_per_mil := 25 |}.
Definition ex_state : state :=
  {| bal := fun a _ => if N.eqb a 0 then 0 else 1000000;
     seqn := fun _ => 0;
     allow := fun g p => if (N.eqb g 2 && N.eqb p 1)%bool then Some (Some [(1%N, 10000000); (2%N, 100)]) else None |}.
Definition ex_tx (amt : Z) : tx :=
  {| t_fee := [(1%N, 400800); (2%N, 10)]; t_gas := 200000; t_payer := 1%N; t_granter := Some 2%N;
     t_signers := [1%N];
     t_msgs := [ {| m_top := {| r_type := 2%N; r_custom := None; r_action := ANop true; r_post := [] |};
                    m_nested := [ {| r_type := 1%N; r_custom := None; r_action := ASend 1%N 4%N [(3%N, amt)]; r_post := [] |} ] |} ];
     t_sig_ok := true; t_gas_out := GasOk |}.

Example C08_witness :
  wf_cfg ex_cfg /\ wf_tx (ex_tx 50) /\
  check_tx ex_cfg ex_state (ex_tx 50) = true /\
  (let '(s', r) := deliver ex_cfg ex_state (ex_tx 50) in
   r = ROk /\ bal s' 2%N 1%N = 1000000 - 400800 /\ bal s' 2%N 2%N = 1000000 - 10 /\
   bal s' 3%N 1%N = 1000000 + 266 /\ bal s' 0%N 1%N = 400800 - 266 /\ bal s' 0%N 2%N = 10 /\
   bal s' 1%N 3%N = 1000000 - 50 /\ bal s' 4%N 3%N = 1000000 + 50 /\ seqn s' 1%N = 1 /\
   share ex_cfg (routed_all (ex_tx 50)) 3%N 1%N = 266) /\
  check_tx ex_cfg ex_state (ex_tx 2000000) = true /\
  (let '(s', r) := deliver ex_cfg ex_state (ex_tx 2000000) in
   r = RFailed /\ bal s' 2%N 1%N = 1000000 - 400000 /\ bal s' 2%N 2%N = 1000000 /\
   bal s' 3%N 1%N = 1000000 /\ bal s' 0%N 1%N = 400000 /\ bal s' 1%N 3%N = 1000000 /\ seqn s' 1%N = 1).
Proof.
  split; [|split].
  - intros e [<-|[<-|[]]]; cbn; discriminate.
  - split; [intros d; cbn; destruct (N.eqb d 1), (N.eqb d 2); discriminate|].
    repeat constructor.
  - vm_compute. repeat split.
Qed.
