(** C08 — A transaction pays its declared fee on success, only the base fee on failure.
    Only theorem statements here; each is closed by [exact] of a lemma proved in
    Proofs/TxFeesProofs.v about the model Fees/TxFees.v (ante chain, message router with the fee gas
    meter, FeeInvoke sweep and distribution, runTx's keep-the-ante-effects rule).

    Reading guide.  [check_tx cfg s t = true]: the node admits [t] to its mempool in state [s] under
    configuration [cfg] (fee schedule, floor gas price).  [deliver cfg s t = (s', r)]: executing it in a
    block gives state [s'] and result [r] (RAnteFail: the ante handler refused it, nothing happened;
    RFailed: messages or the final sweep failed; ROk).  [fee_source t] is the fee granter when the
    transaction names one, else the fee payer.  [base_fee cfg gas] = floor gas price x gas limit.
    [routed_all t] are all messages the router sees, including those dispatched by authz MsgExec.
    [share cfg rs a d] = sum over the fee charges of messages [rs] whose recipient is [a], in denom [d],
    of amount*bips/10000 (integer floor); [shares_total] the same over all recipients; [additional] the
    sum of the charges themselves - the message-type fees, the custom assessed fees AND the fees that
    handlers record on the fee gas meter themselves after they succeeded (x/exchange payment flat fees,
    [r_post]); [additional_pre] leaves the last kind out: it is all the mempool check and the router can
    know; [msg_net] what the messages' own coin movements moved.
    Hypotheses [wf_cfg]/[wf_tx]: basis points are unsigned, the declared fee has no negative amount.

    Second layer (Fees/TxBlocks.v).  A [chain] is the committed fee configuration [ch_cfg] (schedule,
    floor gas price, conversion denom, nhash per usd mil - all read from the store at every use)
    together with the accounts [ch_st].  [brun c0 ops] is the chain after a history of blocks of several
    transactions ([OBlock]), governance proposals ([OGov]) and direct writes.  [block_trace c max_gas bs]
    lists, for the transactions of a block that are executed (admitted by the mempool on its running
    check state, or forced), the state before, the transaction as the ante handler sees it there
    (signature sequences compared with THAT state, gas phase decided by [gas_phase]), the state after
    and the result.  [tx_delta] / [tx_charge] / [tx_seq_delta]: what a step does to a balance / charges
    its payer / does to a sequence number, by its result (ROk: declared fee with its split, RFailed:
    base fee, RAnteFail: nothing). *)
From Coq Require Import ZArith NArith List.
Import ListNotations.
From PV Require Import Fees.TxFees Fees.TxBlocks Proofs.TxFeesProofs Proofs.TxBlocksProofs.
From PV Require Import Corr.C08 Proofs.C08CheckerProofs Proofs.TxAllowProofs.
Open Scope Z_scope.

(** Once in the mempool and executed: the account the fees come from loses exactly the base fee when the
    transaction fails and exactly the declared fee when it succeeds (apart from what it receives back
    as a fee recipient and what its own messages move); the base fee never exceeds the declared fee. *)
Theorem C08_debit : forall cfg s t s' r,
  wf_cfg cfg -> wf_tx t -> check_tx cfg s t = true -> deliver cfg s t = (s', r) ->
  fee_source t <> collector ->
  (r = RFailed -> forall d, bal s (fee_source t) d - bal s' (fee_source t) d = amount_of (base_fee cfg (t_gas t)) d) /\
  (r = ROk -> forall d, bal s (fee_source t) d - bal s' (fee_source t) d
                        = amount_of (t_fee t) d - share cfg (routed_all t) (fee_source t) d
                          - msg_net (routed_all t) (fee_source t) d) /\
  (forall d, amount_of (base_fee cfg (t_gas t)) d <= amount_of (t_fee t) d).
Proof. exact c08_debit. Qed.
Print Assumptions C08_debit.

(** A transaction succeeds only if the declared fee covers the base fee plus every additional message
    fee incurred - nested authz-dispatched messages, custom assessed fees and fees recorded by the
    handlers themselves included (so: not covered implies the transaction fails). *)
Theorem C08_additional_covered : forall cfg s t s',
  wf_cfg cfg -> wf_tx t -> check_tx cfg s t = true -> deliver cfg s t = (s', ROk) ->
  forall d, amount_of (base_fee cfg (t_gas t)) d + additional cfg (routed_all t) d <= amount_of (t_fee t) d.
Proof. exact c08_additional_covered. Qed.
Print Assumptions C08_additional_covered.

(** On success every other account receives exactly the floor of its basis-point shares, the fee
    collector receives the declared fee minus all recipients' shares, and recipients' shares plus the
    collector's part add up to the declared fee: nothing is lost. *)
Theorem C08_distribution_conserves : forall cfg s t s',
  wf_cfg cfg -> wf_tx t -> check_tx cfg s t = true -> deliver cfg s t = (s', ROk) ->
  (forall a d, a <> fee_source t -> a <> collector ->
     bal s' a d - bal s a d - msg_net (routed_all t) a d = share cfg (routed_all t) a d) /\
  (fee_source t <> collector -> forall d,
     bal s' collector d - bal s collector d - msg_net (routed_all t) collector d - share cfg (routed_all t) collector d
     = amount_of (t_fee t) d - shares_total cfg (routed_all t) d) /\
  (forall accts d, NoDup accts ->
     (forall ch a, In ch (flat_map (charges cfg) (routed_all t)) -> ch_recipient ch = Some a -> In a accts) ->
     zsum (fun a => share cfg (routed_all t) a d) accts
     + (amount_of (t_fee t) d - shares_total cfg (routed_all t) d) = amount_of (t_fee t) d).
Proof. exact c08_distribution. Qed.
Print Assumptions C08_distribution_conserves.

(** The recipient's part of one charge is the integer floor of amount*bips/10000 (by definition of
    [ch_share]; SplitCoinByBips computes it through 18-decimal arithmetic, C19 shows that is the floor). *)
Theorem C08_share_is_floor : forall a d dn amt bips r,
  ch_share a d ((dn, amt), bips, Some r) = if (N.eqb a r && N.eqb d dn)%bool then amt * bips / 10000 else 0.
Proof. reflexivity. Qed.
Print Assumptions C08_share_is_floor.

(** A transaction the mempool check does not admit is not executed and changes nothing; and a declared
    fee that does not cover the base fee plus the additional fees of the transaction's messages is
    never admitted. *)
Theorem C08_rejected_never_charged : forall cfg s t,
  (check_tx cfg s t = false -> step s (OTx cfg t) = (s, RRejected)) /\
  (wf_cfg cfg -> wf_tx t ->
   ~ (forall d, amount_of (base_fee cfg (t_gas t)) d + additional_pre cfg (routed_top t) d <= amount_of (t_fee t) d) ->
   check_tx cfg s t = false).
Proof. exact c08_rejected. Qed.
Print Assumptions C08_rejected_never_charged.

(** A failed transaction moves the base fee from the paying account to the fee collector and changes
    no other balance; the signers' sequence numbers go up by one; no fee allowance other than the one
    used changes. *)
Theorem C08_failure_changes_only_sequence : forall cfg s t s',
  deliver cfg s t = (s', RFailed) ->
  (forall a d, bal s' a d = bal s a d
                 - (if N.eqb a (fee_source t) then amount_of (base_fee cfg (t_gas t)) d else 0)
                 + (if N.eqb a collector then amount_of (base_fee cfg (t_gas t)) d else 0)) /\
  (forall a, seqn s' a = seqn s a + (if existsb (N.eqb a) (t_signers t) then 1 else 0)) /\
  (forall g p, (g, p) <> (fee_source t, t_payer t) -> allow s' g p = allow s g p).
Proof. exact c08_failure. Qed.
Print Assumptions C08_failure_changes_only_sequence.

(** All histories: after any sequence of transactions, funding and allowance changes, the next
    transaction obeys every clause above (rejected or refused by the ante handler: state unchanged;
    failed: only the base fee moves; succeeded: the closed form [spec_ok_delta] for every balance and
    the additional fees are covered). *)
Theorem C08_all_histories : forall s0 ops cfg t, wf_cfg cfg -> wf_tx t ->
  let s := run s0 ops in
  tx_clauses cfg s t (fst (step s (OTx cfg t))) (snd (step s (OTx cfg t))).
Proof. exact history_clauses. Qed.
Print Assumptions C08_all_histories.

(** Gas.  [gas_phase limit left used g] decides where a transaction runs out of gas from its gas limit,
    what is left on the block gas meter, the reported consumption and (for calibrated transactions)
    the measured consumption up to the end of the ante handler [ga] and of the messages [gt]: block gas
    exhausted before it starts; in the ante handler iff limit < ga; in the messages iff ga <= limit < gt;
    on the block gas meter between the messages and FeeInvoke iff it would otherwise succeed and its
    consumption exceeds what is left. *)
Theorem C08_gas_phase_decided : forall limit left used ga gt,
  (left <= 0 -> forall g, gas_phase limit left used g = GasBlockFull) /\
  (0 < left ->
     (limit < ga -> gas_phase limit left used (GMeasured ga gt) = GasAnte) /\
     (ga <= limit -> limit < gt -> gas_phase limit left used (GMeasured ga gt) = GasMsgs) /\
     (ga <= limit -> gt <= limit -> left < Z.min used limit -> gas_phase limit left used (GMeasured ga gt) = GasPost) /\
     (ga <= limit -> gt <= limit -> Z.min used limit <= left -> gas_phase limit left used (GMeasured ga gt) = GasOk)).
Proof.
  intros limit left used ga gt. split; [intros H g; apply gas_phase_block_full; exact H|apply gas_phase_measured].
Qed.
Print Assumptions C08_gas_phase_decided.

(** A transaction that runs out of gas pays exactly the base fee - or nothing, and then nothing at all
    changes, when it fails before the deduction is written: out of gas in the ante handler or block
    gas exhausted: state unchanged (not even a sequence number); out of gas in the messages or on the
    block gas meter before FeeInvoke: either the ante handler refused it for another reason (state
    unchanged) or exactly the base fee moves from the paying account to the fee collector, the signers'
    sequences advance and nothing else changes.  A transaction succeeds only in phase GasOk. *)
Theorem C08_out_of_gas_pays_base_fee_or_nothing : forall cfg s t s' r,
  deliver cfg s t = (s', r) ->
  (t_gas_out t = GasAnte \/ t_gas_out t = GasBlockFull -> r = RAnteFail /\ s' = s) /\
  (t_gas_out t = GasMsgs \/ t_gas_out t = GasPost ->
     (r = RAnteFail /\ s' = s) \/
     (r = RFailed /\
      (forall a d, bal s' a d = bal s a d
                     - ind (N.eqb a (fee_source t)) (amount_of (base_fee cfg (t_gas t)) d)
                     + ind (N.eqb a collector) (amount_of (base_fee cfg (t_gas t)) d)) /\
      (forall a, seqn s' a = seqn s a + ind (existsb (N.eqb a) (t_signers t)) 1) /\
      (forall g p, (g, p) <> (fee_source t, t_payer t) -> allow s' g p = allow s g p))) /\
  (r = ROk -> t_gas_out t = GasOk).
Proof. exact deliver_phases_explicit. Qed.
Print Assumptions C08_out_of_gas_pays_base_fee_or_nothing.

(** Blocks of several transactions, all histories: after any history, in any block of any
    transactions, every executed transaction obeys the per-transaction clauses against the RUNNING state
    (the state left by the transactions before it in the same block - so a payer drained or a fee
    allowance used up by an earlier transaction of the block is what the later one meets), under the
    configuration stored in the chain state; consecutive steps are chained; every balance after the
    block is the balance before plus the SUM of the per-transaction closed forms; sequence numbers
    advance exactly for the signers of transactions that passed the ante handler; the block does not
    change the configuration. *)
Theorem C08_block_histories : forall c0 ops max_gas bs,
  let c := brun c0 ops in
  let cfg := ch_cfg c in
  let tr := block_trace c max_gas bs in
  wf_cfg cfg -> Forall (fun b => wf_tx (b_tx b)) bs ->
  chained (ch_st c) tr /\
  Forall (fun e => deliver cfg (ts_pre e) (ts_tx e) = (ts_post e, ts_res e) /\
                   tx_clauses cfg (ts_pre e) (ts_tx e) (ts_post e) (ts_res e)) tr /\
  (forall a d, bal (ch_st (fst (run_block c max_gas bs))) a d
               = bal (ch_st c) a d + zsum (fun e => tx_delta cfg e a d) tr) /\
  (forall a, seqn (ch_st (fst (run_block c max_gas bs))) a
             = seqn (ch_st c) a + zsum (fun e => tx_seq_delta e a) tr) /\
  ch_cfg (fst (run_block c max_gas bs)) = cfg.
Proof. exact block_history. Qed.
Print Assumptions C08_block_histories.

(** ... and what the payers of a block are charged in total (declared fee of each success, base fee of
    each failure) is what the fee collector keeps plus what the recipients get, nothing lost: *)
Theorem C08_block_charges_conserved : forall cfg accts d tr, NoDup accts ->
  (forall e ch a, In e tr -> In ch (flat_map (charges cfg) (routed_all (ts_tx e))) -> ch_recipient ch = Some a -> In a accts) ->
  zsum (fun e => tx_charge cfg e d) tr
  = zsum (fun e => tx_collector cfg e d) tr + zsum (fun e => tx_recipients cfg accts e d) tr.
Proof. exact block_charges. Qed.
Print Assumptions C08_block_charges_conserved.

(** Additional fees are covered, with the params as part of the state: a transaction that succeeds in a
    block of a history has a declared fee covering the base fee (floor gas price of the chain state) plus
    every additional fee, custom assessed fees converted with the conversion denom and rate OF THE CHAIN
    STATE reached by the history; and each of its custom fees is in usd or in that state's conversion
    denom (any other denom - e.g. a former conversion denom - makes the transaction fail). *)
Theorem C08_additional_covered_params_in_state : forall c0 ops max_gas bs,
  let c := brun c0 ops in
  wf_cfg (ch_cfg c) -> Forall (fun b => wf_tx (b_tx b)) bs ->
  forall e, In e (block_trace c max_gas bs) -> ts_res e = ROk ->
  (forall d, amount_of (base_fee (ch_cfg c) (t_gas (ts_tx e))) d + additional (ch_cfg c) (routed_all (ts_tx e)) d
             <= amount_of (t_fee (ts_tx e)) d) /\
  (forall r cu, In r (routed_all (ts_tx e)) -> r_custom r = Some cu ->
     fst (cu_coin cu) = usd_denom (ch_cfg c) \/ fst (cu_coin cu) = conv_denom (ch_cfg c)).
Proof. exact block_history_covered. Qed.
Print Assumptions C08_additional_covered_params_in_state.

(** The mempool admits on its running check state, and whatever it admits declares a fee covering the
    base fee plus the additional fees of its top-level messages under the committed configuration. *)
Theorem C08_mempool_admits_only_covered : forall cfg bs, wf_cfg cfg -> Forall (fun b => wf_tx (b_tx b)) bs ->
  forall cs k b, nth_error bs k = Some b -> nth_error (mempool cfg cs bs) k = Some true ->
  forall d, amount_of (base_fee cfg (t_gas (b_tx b))) d + additional_pre cfg (routed_top (b_tx b)) d
            <= amount_of (t_fee (b_tx b)) d.
Proof. exact mempool_admitted_covered. Qed.
Print Assumptions C08_mempool_admits_only_covered.

(** Recheck.  After a commit the node offers every still-pending transaction again (CheckTx of type
    Recheck) to the same ante handler on the fresh check state; in the model a pending transaction is
    offered again ([b_recheck]) to the same [mempool] function, under the configuration of the chain
    state REACHED BY THE HISTORY SO FAR.  So whatever the current mempool check would reject is
    rejected on recheck too: if, after any history (governance may have added or raised a message fee,
    the floor price or the conversion may have changed since it was first admitted), the declared fee
    of an offered transaction - new or pending - does not cover the base fee plus the additional fees
    of its top-level messages under the CURRENT configuration, it is not admitted, is not part of the
    block, and the block runs as if it had not been offered. *)
Theorem C08_recheck_rejects_what_the_current_check_rejects : forall c0 ops bs k b,
  let c := brun c0 ops in
  wf_cfg (ch_cfg c) -> Forall (fun b => wf_tx (b_tx b)) bs ->
  nth_error bs k = Some b ->
  ~ (forall d, amount_of (base_fee (ch_cfg c) (t_gas (b_tx b))) d + additional_pre (ch_cfg c) (routed_top (b_tx b)) d
               <= amount_of (t_fee (b_tx b)) d) ->
  nth_error (mempool (ch_cfg c) (ch_st c) bs) k <> Some true.
Proof. exact recheck_rejects. Qed.
Print Assumptions C08_recheck_rejects_what_the_current_check_rejects.

(** What does not roll back, does not exist: a proposal that is rejected, or whose messages do not ALL
    succeed, leaves the chain exactly as it was - fee schedule, params, every balance - and any later
    block runs exactly as it would have without the proposal (the schedule consulted is the committed
    one); a failed (or refused) transaction leaves the balance of everybody but the fee source and the
    fee collector as it was; and over histories the configuration changes only by a direct write or by a
    proposal that passes as a whole. *)
Theorem C08_failure_rolls_back_schedule_and_recipients :
  (forall c v ms, snd (gov_exec c v ms) = false ->
     fst (bstep c (OGov v ms)) = c /\
     forall max_gas bs, run_block (fst (bstep c (OGov v ms))) max_gas bs = run_block c max_gas bs) /\
  (forall cfg e, tx_clauses cfg (ts_pre e) (ts_tx e) (ts_post e) (ts_res e) -> ts_res e <> ROk ->
     forall a d, a <> fee_source (ts_tx e) -> a <> collector -> bal (ts_post e) a d = bal (ts_pre e) a d) /\
  (forall c o, ch_cfg (fst (bstep c o)) = ch_cfg c \/ (exists cfg, o = OSetCfg cfg) \/
               (exists v ms, o = OGov v ms /\ snd (gov_exec c v ms) = true)).
Proof.
  split; [|split].
  - intros c v ms H. split; [apply gov_failed_step; exact H|intros; apply gov_failed_block; exact H].
  - exact failed_tx_third_parties.
  - exact bstep_cfg.
Qed.
Print Assumptions C08_failure_rolls_back_schedule_and_recipients.

(** Messages executed by governance are not part of any transaction and pay no message fee, whatever the
    schedule says about their type: a passed proposal moves exactly the coins of its own bank sends
    (nothing to the fee collector, nothing to fee recipients), no sequence number and no fee allowance. *)
Theorem C08_gov_executed_messages_pay_no_fee : forall c v ms, snd (gov_exec c v ms) = true ->
  let c' := fst (bstep c (OGov v ms)) in
  gov_msgs c ms = Some c' /\
  (forall a d, bal (ch_st c') a d = bal (ch_st c) a d + credit_of (gov_moves ms) a d - debit_of (gov_moves ms) a d) /\
  seqn (ch_st c') = seqn (ch_st c) /\ allow (ch_st c') = allow (ch_st c).
Proof. exact gov_passed_state. Qed.
Print Assumptions C08_gov_executed_messages_pay_no_fee.

(** Fee allowances are spent exactly.  [names_granter t]: the transaction names a fee granter other than
    its payer.  [allow_after before fee after]: [before] had no spend limit and [after] is the same, or
    its limit covered [fee] in every denom and [after] is the limit minus [fee] in every denom - deleted
    exactly when nothing is left; there is no [after] for an absent allowance.
    [grant_effect t s s' fee]: if [t] names a granter, the allowance (granter, payer) went from its value
    in [s] to its value in [s'] by [allow_after ... fee ...]; otherwise no allowance changed at all.
    A failed transaction spends exactly the base fee from the allowance it names, a successful one
    exactly the declared fee (the ante handler's and FeeInvoke's two uses add up), a refused one
    nothing; and this holds for every executed transaction of every block against the running state -
    so the second transaction of a block that names an allowance used up by the first is refused. *)
Theorem C08_allowance_spent_exactly :
  (forall cfg s t s' r, deliver cfg s t = (s', r) ->
     (r = RFailed -> grant_effect t s s' (base_fee cfg (t_gas t))) /\
     (r = ROk -> grant_effect t s s' (t_fee t))) /\
  (forall cfg bs s left,
     Forall (fun e => (ts_res e = RFailed -> grant_effect (ts_tx e) (ts_pre e) (ts_post e) (base_fee cfg (t_gas (ts_tx e)))) /\
                      (ts_res e = ROk -> grant_effect (ts_tx e) (ts_pre e) (ts_post e) (t_fee (ts_tx e))) /\
                      (ts_res e = RAnteFail -> ts_post e = ts_pre e))
            (trace cfg s left bs)).
Proof. split; [exact deliver_allowance|exact trace_allowance]. Qed.
Print Assumptions C08_allowance_spent_exactly.

(** The executable block checker of Corr/C08.v is sound on the model for balances and sequence numbers:
    run on the model's own block, under the classification read off the model's results, the state the
    checker expects has exactly the model's balances and sequences after the block - so a failure of
    "prop:state after the block is not the sum of the per-transaction charges" caused by a balance or a
    sequence is a behaviour the model cannot show.
    PARTIAL.  Full statement (not proved): for the same data,
      state_agree u (expect u cfg s (offered bs xs) ks) (end_state s tr) = true
      /\ In ks (assignments (offered bs xs) true).
    Missing: the fee-allowance component (a closed form of two successive [use_grant]s equal to the
    checker's [spent_allow] on the universe's denoms) and that the model never refuses the block's first
    transaction in the ante handler after admitting it on the same state (needs 0 < max_gas). *)
Theorem C08_block_checker_sound_partial : forall u cfg bs, wf_cfg cfg -> wf_btxs bs ->
  forall s left xs, length xs = length bs ->
  let tr := trace cfg s left bs in
  let ks := map cls_of (results bs tr) in
  (forall a d, bal (expect u cfg s (offered bs xs) ks) a d = bal (end_state s tr) a d) /\
  (forall a, seqn (expect u cfg s (offered bs xs) ks) a = seqn (end_state s tr) a).
Proof. exact block_checker_sound_partial. Qed.
Print Assumptions C08_block_checker_sound_partial.

(** Non-vacuity: a concrete transaction (authz MsgExec of account 1 wrapping a MsgSend, fee granted by
    account 2 with a spend limit; MsgSend costs 800 of denom 1 with 33.33 % to account 3, MsgExec costs
    10 of denom 2) is admitted and succeeds with exactly the stated movements; the same transaction
    with a send it cannot afford is admitted, fails, and costs the granter the base fee only. *)
Definition ex_cfg : config :=
  {| schedule := [ {| fe_type := 1%N; fe_coin := (1%N, 800); fe_recipient := Some 3%N; fe_bips := 3333 |};
                   {| fe_type := 2%N; fe_coin := (2%N, 10); fe_recipient := None; fe_bips := 0 |} ];
     floor_price := (1%N, 2); conv_denom := 1%N; usd_denom := 4%N; nhash_per_mil := 25 |}.
Definition ex_state : state :=
  {| bal := fun a _ => if N.eqb a 0 then 0 else 1000000;
     seqn := fun _ => 0;
     allow := fun g p => if (N.eqb g 2 && N.eqb p 1)%bool then Some (Some [(1%N, 10000000); (2%N, 100)]) else None |}.
Definition ex_tx (amt : Z) : tx :=
  {| t_fee := [(1%N, 400800); (2%N, 10)]; t_gas := 200000; t_payer := 1%N; t_granter := Some 2%N;
     t_signers := [1%N];
     t_msgs := [ {| m_top := {| r_type := 2%N; r_custom := None; r_action := ANop true; r_post := [] |};
                    m_nested := [ {| r_type := 1%N; r_custom := None; r_action := ASend 1%N 4%N [(3%N, amt)]; r_post := [] |} ] |} ];
     t_sig_ok := true; t_gas_out := GasOk |}.

Example C08_witness :
  wf_cfg ex_cfg /\ wf_tx (ex_tx 50) /\
  check_tx ex_cfg ex_state (ex_tx 50) = true /\
  (let '(s', r) := deliver ex_cfg ex_state (ex_tx 50) in
   r = ROk /\ bal s' 2%N 1%N = 1000000 - 400800 /\ bal s' 2%N 2%N = 1000000 - 10 /\
   bal s' 3%N 1%N = 1000000 + 266 /\ bal s' 0%N 1%N = 400800 - 266 /\ bal s' 0%N 2%N = 10 /\
   bal s' 1%N 3%N = 1000000 - 50 /\ bal s' 4%N 3%N = 1000000 + 50 /\ seqn s' 1%N = 1 /\
   share ex_cfg (routed_all (ex_tx 50)) 3%N 1%N = 266) /\
  check_tx ex_cfg ex_state (ex_tx 2000000) = true /\
  (let '(s', r) := deliver ex_cfg ex_state (ex_tx 2000000) in
   r = RFailed /\ bal s' 2%N 1%N = 1000000 - 400000 /\ bal s' 2%N 2%N = 1000000 /\
   bal s' 3%N 1%N = 1000000 /\ bal s' 0%N 1%N = 400000 /\ bal s' 1%N 3%N = 1000000 /\ seqn s' 1%N = 1).
Proof.
  split; [|split].
  - intros e [<-|[<-|[]]]; cbn; discriminate.
  - split; [intros d; cbn; destruct (N.eqb d 1), (N.eqb d 2); discriminate|].
    repeat constructor.
  - vm_compute. repeat split.
Qed.

(** Non-vacuity of the block layer: three transactions in one block under [ex_cfg].  The first
    (account 1) sends 590,000 of denom 1 away and pays 400,800; the second, also of account 1 and
    admitted to the mempool while account 1 still had 600,000 in the check state, meets 9,200 in the
    block, is refused by the ante handler and changes nothing (account 1's sequence advances once, not
    twice); the third (account 5) succeeds.  A proposal whose second message fails leaves the schedule
    alone; one that moves the conversion denom to denom 2 makes a custom fee of 3 usd cost 75 of denom 2. *)
Definition ex_chain : chain :=
  {| ch_cfg := ex_cfg;
     ch_st := {| bal := fun a _ => if N.eqb a 0 then 0 else 1000000; seqn := fun _ => 0; allow := fun _ _ => None |} |}.
Definition ex_plain (ty : mtype) : tmsg :=
  {| m_top := {| r_type := ty; r_custom := None; r_action := ANop true; r_post := [] |}; m_nested := [] |}.
Definition ex_btx (payer : acct) (sq : Z) (fee : coins) (msgs : list tmsg) : btx :=
  {| b_tx := {| t_fee := fee; t_gas := 200000; t_payer := payer; t_granter := None; t_signers := [payer];
                t_msgs := msgs; t_sig_ok := true; t_gas_out := GasOk |};
     b_sigseq := [(payer, sq)]; b_gas := GObserved GasOk; b_used := 90000; b_forced := false; b_hold := false; b_recheck := false |}.
Definition ex_block : list btx :=
  [ ex_btx 1%N 0 [(1%N, 400800)]
      [ {| m_top := {| r_type := 1%N; r_custom := None; r_action := ASend 1%N 4%N [(1%N, 590000)]; r_post := [] |}; m_nested := [] |} ];
    ex_btx 1%N 1 [(1%N, 400000)] [ex_plain 9%N];
    ex_btx 5%N 0 [(1%N, 400000)] [ex_plain 9%N] ].
Definition ex_usd_tx : btx :=
  ex_btx 5%N 0 [(1%N, 400075); (2%N, 75)]
    [ {| m_top := {| r_type := 3%N; r_custom := Some {| cu_coin := (4%N, 3); cu_recipient := Some 6%N; cu_bips := None |};
                     r_action := ANop true; r_post := [] |}; m_nested := [] |} ].

Example C08_block_witness :
  mempool (ch_cfg ex_chain) (ch_st ex_chain) ex_block = [true; true; true] /\
  (let '(c', rs) := run_block ex_chain 60000000 ex_block in
   rs = [ROk; RAnteFail; ROk] /\
   bal (ch_st c') 1%N 1%N = 9200 /\ seqn (ch_st c') 1%N = 1 /\ seqn (ch_st c') 5%N = 1 /\
   bal (ch_st c') 3%N 1%N = 1000000 + 266 /\ bal (ch_st c') 0%N 1%N = 400800 - 266 + 400000 /\
   zsum (fun e => tx_charge ex_cfg e 1%N) (block_trace ex_chain 60000000 ex_block) = 800800) /\
  (* four such transactions (each reports 90,000 gas used) when the block gas limit is 250,000: the
     third finds 70,000 left and fails on the block gas meter before FeeInvoke, the fourth is not run *)
  snd (run_block ex_chain 250000 [ex_btx 2%N 0 [(1%N, 400000)] [ex_plain 9%N]; ex_btx 3%N 0 [(1%N, 400000)] [ex_plain 9%N];
                                  ex_btx 5%N 0 [(1%N, 400000)] [ex_plain 9%N]; ex_btx 6%N 0 [(1%N, 400000)] [ex_plain 9%N]])
    = [ROk; ROk; RFailed; RAnteFail] /\
  gov_exec ex_chain true [GAddFee 9%N (1%N, 5) None None; GRemoveFee 77%N] = (ex_chain, false) /\
  (let '(c', ok) := gov_exec ex_chain true [GConvDenom 2%N] in
   ok = true /\ conv_denom (ch_cfg c') = 2%N /\
   (let '(c'', rs) := run_block c' 60000000 [ex_usd_tx] in
    rs = [ROk] /\ bal (ch_st c'') 6%N 2%N = 1000000 + 75 /\ bal (ch_st c'') 5%N 2%N = 1000000 - 75) /\
   snd (run_block ex_chain 60000000 [ex_usd_tx]) = [ROk] /\
   bal (ch_st (fst (run_block ex_chain 60000000 [ex_usd_tx]))) 6%N 1%N = 1000000 + 75).
Proof. vm_compute. repeat split. Qed.

(** Non-vacuity of the allowance clause inside a block: account 2 grants account 1 a spend limit;
    account 1 offers two transactions declaring 400,100 (base fee 400,000) that name the grant. *)
Definition ex_granted (fee sq : Z) : btx :=
  {| b_tx := {| t_fee := [(1%N, fee)]; t_gas := 200000; t_payer := 1%N; t_granter := Some 2%N; t_signers := [1%N];
                t_msgs := [ex_plain 9%N]; t_sig_ok := true; t_gas_out := GasOk |};
     b_sigseq := [(1%N, sq)]; b_gas := GObserved GasOk; b_used := 90000; b_forced := false; b_hold := false; b_recheck := false |}.
Definition ex_chain_grant (lim : Z) : chain :=
  {| ch_cfg := ex_cfg;
     ch_st := {| bal := fun a _ => if N.eqb a 0 then 0 else 1000000; seqn := fun _ => 0;
                 allow := fun g p => if (N.eqb g 2 && N.eqb p 1)%bool then Some (Some [(1%N, lim)]) else None |} |}.
Definition ex_forced (b : btx) : btx :=
  {| b_tx := b_tx b; b_sigseq := b_sigseq b; b_gas := b_gas b; b_used := b_used b; b_forced := true; b_hold := false; b_recheck := false |}.

Example C08_grant_witness :
  (* allowance = the first transaction's declared fee: the second is not admitted; forced into the block it
     is refused by the ante handler (grant used up and deleted by the first) and changes nothing *)
  mempool ex_cfg (ch_st (ex_chain_grant 400100)) [ex_granted 400100 0; ex_granted 400100 1] = [true; false] /\
  (let '(c', rs) := run_block (ex_chain_grant 400100) 60000000 [ex_granted 400100 0; ex_forced (ex_granted 400100 1)] in
   rs = [ROk; RAnteFail] /\ allow (ch_st c') 2%N 1%N = None /\ bal (ch_st c') 2%N 1%N = 1000000 - 400100 /\ seqn (ch_st c') 1%N = 1) /\
  (* allowance = both declared fees: both admitted on the running check state, both succeed, nothing left *)
  mempool ex_cfg (ch_st (ex_chain_grant 800200)) [ex_granted 400100 0; ex_granted 400100 1] = [true; true] /\
  (let '(c', rs) := run_block (ex_chain_grant 800200) 60000000 [ex_granted 400100 0; ex_granted 400100 1] in
   rs = [ROk; ROk] /\ allow (ch_st c') 2%N 1%N = None /\ bal (ch_st c') 2%N 1%N = 1000000 - 800200 /\ bal (ch_st c') 1%N 1%N = 1000000) /\
  (* a declared fee equal to the base fee that uses the allowance up in the ante handler: FeeInvoke finds
     no grant any more, the transaction fails and the granter has paid the base fee *)
  (let '(c', rs) := run_block (ex_chain_grant 400000) 60000000 [ex_granted 400000 0] in
   rs = [RFailed] /\ allow (ch_st c') 2%N 1%N = None /\ bal (ch_st c') 2%N 1%N = 600000 /\ seqn (ch_st c') 1%N = 1).
Proof. vm_compute. repeat split. Qed.


(** Non-vacuity of the recheck clause: a MsgSend declaring exactly the base fee is admitted under
    [ex_cfg], whose schedule has no fee on its message type 9; a
    passing proposal then adds one (5 of denom 1); offered again (recheck) on the chain after the
    proposal, the same transaction is rejected, the block does not contain it and nothing is charged. *)
Definition ex_recheck_tx (re : bool) : btx :=
  {| b_tx := {| t_fee := [(1%N, 400000)]; t_gas := 200000; t_payer := 5%N; t_granter := None; t_signers := [5%N];
                t_msgs := [ex_plain 9%N]; t_sig_ok := true; t_gas_out := GasOk |};
     b_sigseq := [(5%N, 0)]; b_gas := GObserved GasOk; b_used := 90000; b_forced := false; b_hold := negb re; b_recheck := re |}.

Example C08_recheck_witness :
  (* admitted and held back: the block is empty, nothing changes *)
  mempool ex_cfg (ch_st ex_chain) [ex_recheck_tx false] = [true] /\
  snd (run_block ex_chain 60000000 [ex_recheck_tx false]) = [RRejected] /\
  block_trace ex_chain 60000000 [ex_recheck_tx false] = [] /\
  (let '(c1, ok) := gov_exec (fst (run_block ex_chain 60000000 [ex_recheck_tx false])) true [GAddFee 9%N (1%N, 5) None None] in
   ok = true /\
   mempool (ch_cfg c1) (ch_st c1) [ex_recheck_tx true] = [false] /\
   block_trace c1 60000000 [ex_recheck_tx true] = [] /\
   bal (ch_st (fst (run_block c1 60000000 [ex_recheck_tx true]))) 5%N 1%N = 1000000) /\
  (* without the proposal the recheck admits it and it succeeds *)
  snd (run_block (fst (run_block ex_chain 60000000 [ex_recheck_tx false])) 60000000 [ex_recheck_tx true]) = [ROk].
Proof. vm_compute. repeat split. Qed.
