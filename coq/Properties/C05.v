(** C05 — Marker supply and lifecycle stay sound under every administration history.
    Theorem statements only; the proofs are in Proofs/LifecycleProofs.v and LifecycleProofs2.v
    about the model Marker/Lifecycle.v.

    Scope.  A history is any list of the model's operations on one denom: add (user or governance,
    in any status governance may choose), add-finalize-activate, finalize, activate, mint, burn,
    withdraw, cancel, delete, transfer, access grant/revoke, the governance supply-increase,
    supply-decrease, change-status, withdraw-escrow, set/remove-administrator handlers, plain bank
    sends of the denom and block boundaries (the marker begin-blocker) — by any callers, with any
    amounts, accepted or rejected.  Supply changes made by modules outside the model (IBC voucher
    mint/burn, wasm burns, other modules minting the denom) are NOT steps of a history; neither is
    a change of the module parameters in mid-history.  [Inv s] asks of the starting state only what
    the bank guarantees (no negative balance, supply = sum of balances) and that an already active
    fixed-supply marker starts out exact; every state without a marker satisfies the last part. *)
From Coq Require Import ZArith NArith List.
From PV Require Import Marker.Lifecycle Proofs.LifecycleProofs Proofs.LifecycleProofs2.
Import ListNotations.
Open Scope Z_scope.

(** After EVERY operation of every history (not only after the next block's correction): an
    active marker with a fixed supply records exactly the bank's total supply of its denom. *)
Theorem C05_fixed_supply_exact : forall ops s m,
  Inv s ->
  mk (run s ops) = Some m -> st m = Active -> fixed m = true ->
  supply (run s ops) = msupply m.
Proof. exact run_fixed_exact. Qed.
Print Assumptions C05_fixed_supply_exact.

(** The same from any state in which the denom has no marker yet (pre-existing coins allowed). *)
Theorem C05_fixed_supply_exact_from_start : forall ops s m,
  mk s = None -> BankInv s ->
  mk (run s ops) = Some m -> st m = Active -> fixed m = true ->
  supply (run s ops) = msupply m.
Proof. exact run_fixed_exact_from_start. Qed.
Print Assumptions C05_fixed_supply_exact_from_start.

(** Hence the begin-blocker's supply repair never has anything to do on a reachable state: it
    succeeds and leaves supply and balances as they are. *)
Theorem C05_begin_block_repair_is_noop : forall ops s,
  Inv s -> let s1 := run s ops in
  snd (step s1 OBeginBlock) = true /\
  supply (fst (step s1 OBeginBlock)) = supply s1 /\ bal (fst (step s1 OBeginBlock)) = bal s1.
Proof. exact begin_block_noop. Qed.
Print Assumptions C05_begin_block_repair_is_noop.

(** The bank's total supply of the denom is the sum of all balances, none of them negative. *)
Theorem C05_supply_is_sum_of_balances : forall ops s,
  Inv s -> supply (run s ops) = total (bal (run s ops)) /\ NonNeg (bal (run s ops)).
Proof. exact run_sum. Qed.
Print Assumptions C05_supply_is_sum_of_balances.

(** A successful mint (MsgMintRequest or the governance supply increase) into an ACTIVE marker, at
    any point of any history, adds exactly the amount and never takes the total past the maximum. *)
Theorem C05_mint_le_max : forall ops s o amt m s',
  let s1 := run s ops in
  mint_amount o = Some amt -> mk s1 = Some m -> st m = Active -> step s1 o = (s', true) ->
  supply s' = supply s1 + amt /\ supply s' <= maxsupply s1.
Proof. exact run_mint_le_max. Qed.
Print Assumptions C05_mint_le_max.

(** Whatever operation makes the supply go down (burn, governance decrease, delete, the
    governance status changes, the begin-blocker), exactly that amount leaves the marker's own
    account and no other balance changes. *)
Theorem C05_burn_only_escrow : forall ops s o,
  let s1 := run s ops in let s' := fst (step s1 o) in
  supply s' < supply s1 ->
  get (bal s') ESCROW = get (bal s1) ESCROW - (supply s1 - supply s') /\
  (forall a, a <> ESCROW -> get (bal s') a = get (bal s1) a).
Proof. exact run_burn_only_escrow. Qed.
Print Assumptions C05_burn_only_escrow.

(** Within one lifetime of a marker ([gen] counts the markers of the denom removed so far) the
    status never moves backwards through proposed < finalized < active < cancelled < destroyed,
    between any two points of any history ... *)
Theorem C05_status_monotone : forall s pre post m1 m2,
  let s1 := run s pre in let s2 := run s1 post in
  gen s1 = gen s2 -> mk s1 = Some m1 -> mk s2 = Some m2 ->
  rank (st m1) <= rank (st m2).
Proof. exact run_status_monotone. Qed.
Print Assumptions C05_status_monotone.

(** ... and a lifetime ends only at a block boundary, and only for a destroyed marker. *)
Theorem C05_removed_only_when_destroyed : forall ops s o m,
  let s1 := run s ops in
  mk s1 = Some m -> mk (fst (step s1 o)) = None -> st m = Destroyed /\ o = OBeginBlock.
Proof. exact removed_only_destroyed. Qed.
Print Assumptions C05_removed_only_when_destroyed.

(** A marker becomes destroyed (by MsgDeleteRequest or by the governance status change), or is
    cancelled by an administrator's MsgCancelRequest once finalized or active, only in a state
    where no coin of its denom is held outside its own account; a destroyed marker has no supply.
    (A governance ChangeStatus to Cancelled is NOT covered: the handler has no such check — see
    [C05_governance_cancel_skips_recall] below; the property text exempts it by saying "by its
    administrators".) *)
Theorem C05_destroy_cancel_requires_recall : forall ops s o m m',
  Inv s -> let s1 := run s ops in let s' := fst (step s1 o) in
  mk s1 = Some m -> mk s' = Some m' ->
  (st m <> Destroyed /\ st m' = Destroyed) \/
  ((exists c, o = OCancel c) /\ (st m = Finalized \/ st m = Active) /\ st m' = Cancelled) ->
  (forall a, a <> ESCROW -> get (bal s1) a = 0) /\ (st m' = Destroyed -> supply s' = 0).
Proof. exact run_recall. Qed.
Print Assumptions C05_destroy_cancel_requires_recall.

(** ** Non-vacuity and the edges of the statement *)
Definition c05_start : state :=
  {| mk := None; bal := [(3%N, 7)]; supply := 7; maxsupply := 1000; govparam := true; gen := 0%N |}.

(** A fixed-supply restricted marker is created active over 7 pre-existing coins, coins are
    withdrawn, minted, burned; cancelling is refused while coins are out and accepted after they
    came back (forced transfers by the administrator); delete, then the block boundary removes the
    record. *)
Definition c05_life : list op :=
  [OAddFinAct 100 true false Restricted true (Some 1%N) [(1%N, 255%N)];
   OWithdraw 1%N 2%N 40; OMint 1%N 10; OBurn 1%N 5].
Definition c05_recall : list op := [OTransfer 1%N 3%N 0%N 7; OTransfer 1%N 2%N 0%N 40].

Example C05_witness :
  let s1 := run c05_start c05_life in
  Inv c05_start /\
  (exists m, mk s1 = Some m /\ st m = Active /\ fixed m = true /\ msupply m = 105) /\
  supply s1 = 105 /\ get (bal s1) ESCROW = 58 /\ get (bal s1) 2%N = 40 /\ get (bal s1) 3%N = 7 /\
  snd (step s1 (OCancel 1%N)) = false /\
  snd (step s1 (OMint 1%N 896)) = false /\ snd (step s1 (OMint 1%N 895)) = true /\
  snd (step s1 (OGovChangeStatus GOV Finalized)) = false /\
  let s2 := run s1 c05_recall in
  snd (step s2 (OCancel 1%N)) = true /\
  let s3 := run s2 [OCancel 1%N; ODelete 1%N] in
  (exists m, mk s3 = Some m /\ st m = Destroyed /\ msupply m = 0) /\ supply s3 = 0 /\
  let s4 := run s3 [OBeginBlock] in mk s4 = None /\ gen s4 = 1%N.
Proof.
  cbv zeta. split.
  - split; [split|].
    + repeat constructor; cbn; discriminate.
    + reflexivity.
    + intros m Hm. discriminate Hm.
  - vm_compute. repeat split; try reflexivity; eexists; repeat split; reflexivity.
Qed.

(** Edge 1: governance can cancel an active marker while coins are in circulation (not an
    administrator's cancel, so outside the property's last clause). *)
Example C05_governance_cancel_skips_recall :
  let s0 := {| mk := None; bal := []; supply := 0; maxsupply := 1000; govparam := true; gen := 0%N |} in
  let s1 := run s0 [OAddFinAct 100 true true Coin false (Some 1%N) [(1%N, 63%N)]; OWithdraw 1%N 2%N 40] in
  snd (step s1 (OCancel 1%N)) = false /\
  let s2 := fst (step s1 (OGovChangeStatus GOV Cancelled)) in
  (exists m, mk s2 = Some m /\ st m = Cancelled) /\ get (bal s2) 2%N = 40.
Proof. vm_compute. repeat split; try reflexivity. eexists; split; reflexivity. Qed.

(** Edge 2: the maximum supply is enforced only on mints into an ACTIVE marker; a proposed marker
    may be configured (or minted) past it and then activated. *)
Example C05_max_not_enforced_at_activation :
  let s0 := {| mk := None; bal := []; supply := 0; maxsupply := 1000; govparam := true; gen := 0%N |} in
  let s1 := run s0 [OAdd 1%N Proposed 900 true false Coin false (Some 1%N) [(1%N, 63%N)];
                    OMint 1%N 600; OFinalize 1%N; OActivate 1%N] in
  supply s1 = 1500 /\ maxsupply s1 = 1000.
Proof. vm_compute. split; reflexivity. Qed.
