(** C05 — Marker supply and lifecycle stay sound under every administration history.
    Theorem statements only; the proofs are in Proofs/LifecycleProofs{,2,3}.v (one denom, model
    Marker/Lifecycle.v) and Proofs/MultiLifecycleProofs{,2}.v (the world of several markers over one
    bank, model Marker/MultiLifecycle.v, which projects denom by denom onto the former).

    Scope.  A world [W] has finitely many denoms, each with a marker record or none, its balances
    and its bank supply ([cells W d]), one set of module parameters and one authz grant store.  A
    history is any list of [mop]: every operation of Lifecycle.v aimed at any of the denoms (add by
    a user or by governance in any status, add-finalize-activate, finalize, activate, mint, burn,
    withdraw, cancel, delete, access grant/revoke, the governance supply-increase, supply-decrease,
    change-status, withdraw-escrow, set/remove-administrator handlers, plain bank sends), marker
    transfers (by the holder of TRANSFER, forced, or under an authz grant), withdrawals of OTHER
    denoms' coins lying in a marker's account (by its administrators or by governance), authz
    grant/revoke, changes of the module parameters (MaxSupply, EnableGovernance) and block
    boundaries (the marker begin-blocker over every marker) — by any callers, with any amounts,
    accepted or rejected.  Marker accounts may hold coins of other markers.  Supply changes made by
    modules outside the model (IBC voucher mint/burn, wasm, other modules minting a denom) are NOT
    steps of a history.  [WInv W] asks of the starting world only what the bank guarantees for
    every denom (no negative balance, supply = sum of balances) and that an already active
    fixed-supply marker starts out exact; a world without markers satisfies the last part. *)
From Coq Require Import ZArith NArith List Bool.
From PV Require Import Marker.Lifecycle Marker.MultiLifecycle
     Proofs.LifecycleProofs Proofs.LifecycleProofs2 Proofs.LifecycleProofs3
     Proofs.MultiLifecycleProofs Proofs.MultiLifecycleProofs2 Corr.C05 Proofs.C05CheckerProofs.
Import ListNotations.
Open Scope Z_scope.

(** After EVERY operation of every history (not only after the next block's correction): every
    active marker with a fixed supply records exactly the bank's total supply of its denom. *)
Theorem C05_fixed_supply_exact : forall ops W d m,
  WInv W -> let W1 := mrun W ops in
  c_mk (cells W1 d) = Some m -> st m = Active -> fixed m = true ->
  c_supply (cells W1 d) = msupply m.
Proof. exact m_fixed_exact. Qed.
Print Assumptions C05_fixed_supply_exact.

(** Hence the begin-blocker's supply repair never has anything to do on a reachable world: it
    succeeds and leaves the supply and the balances of every denom as they are ... *)
Theorem C05_begin_block_repair_is_noop : forall ops W,
  WInv W -> let W1 := mrun W ops in
  snd (mstep W1 MBeginBlock) = true /\
  forall d, c_supply (cells (fst (mstep W1 MBeginBlock)) d) = c_supply (cells W1 d) /\
            c_bal (cells (fst (mstep W1 MBeginBlock)) d) = c_bal (cells W1 d).
Proof. exact m_begin_block_noop. Qed.
Print Assumptions C05_begin_block_repair_is_noop.

(** ... and the only thing it does to marker records is to remove the destroyed ones. *)
Theorem C05_begin_block_only_removes_destroyed : forall W d,
  let W' := fst (mstep W MBeginBlock) in
  c_mk (cells W' d) = c_mk (cells W d) \/
  (exists m, c_mk (cells W d) = Some m /\ st m = Destroyed /\ c_mk (cells W' d) = None).
Proof. exact m_begin_block_marker. Qed.
Print Assumptions C05_begin_block_only_removes_destroyed.

(** For every denom the bank's total supply is the sum of all balances, none of them negative. *)
Theorem C05_supply_is_sum_of_balances : forall ops W d,
  WInv W -> let W1 := mrun W ops in
  c_supply (cells W1 d) = total (c_bal (cells W1 d)) /\ NonNeg (c_bal (cells W1 d)).
Proof. exact m_sum. Qed.
Print Assumptions C05_supply_is_sum_of_balances.

(** A successful mint (MsgMintRequest or the governance supply increase) into an ACTIVE marker, at
    any point of any history, adds exactly the amount and never takes the total past the maximum
    in force at that moment. *)
Theorem C05_mint_le_max : forall ops W o d amt m W',
  let W1 := mrun W ops in
  mmint_amount o = Some (d, amt) -> c_mk (cells W1 d) = Some m -> st m = Active -> mstep W1 o = (W', true) ->
  c_supply (cells W' d) = c_supply (cells W1 d) + amt /\ c_supply (cells W' d) <= w_max W1.
Proof. exact m_mint_le_max. Qed.
Print Assumptions C05_mint_le_max.

(** MaxSupply is read by IncreaseSupply only.  What IS guaranteed at activation (by the manager,
    by add-finalize-activate, or by governance add / change-status): the bank supply equals the
    recorded supply - whatever MaxSupply says (see [C05_max_not_enforced_at_activation]) ... *)
Theorem C05_activation_sets_recorded_supply : forall ops W o d m' W',
  let W1 := mrun W ops in
  mstep W1 o = (W', true) -> not_active (view W1 d) ->
  c_mk (cells W' d) = Some m' -> st m' = Active -> c_supply (cells W' d) = msupply m'.
Proof. exact m_activation. Qed.
Print Assumptions C05_activation_sets_recorded_supply.

(** ... and between any two points of one lifetime at which the marker is active, the supply stays
    within the larger of: the supply and the recorded supply at the first point, and the largest
    MaxSupply in force in between (parameter changes are steps of the history) ... *)
Theorem C05_active_supply_bound : forall W pre post d m1 m2,
  let W1 := mrun W pre in let W2 := mrun W1 post in
  c_mk (cells W1 d) = Some m1 -> st m1 = Active -> c_mk (cells W2 d) = Some m2 -> st m2 = Active ->
  c_gen (cells W1 d) = c_gen (cells W2 d) ->
  c_supply (cells W2 d) <= Z.max (Z.max (c_supply (cells W1 d)) (msupply m1)) (wmax_param W1 post).
Proof. exact m_active_supply_bound. Qed.
Print Assumptions C05_active_supply_bound.

(** ... so that, counted from the activating step: supply <= max(supply at activation, largest
    MaxSupply in force since) for every active marker after any history. *)
Theorem C05_supply_le_max_since_activation : forall W pre o post d m2,
  let W0 := mrun W pre in let W1 := fst (mstep W0 o) in let W2 := mrun W1 post in
  not_active (view W0 d) -> (exists m1, c_mk (cells W1 d) = Some m1 /\ st m1 = Active) ->
  c_mk (cells W2 d) = Some m2 -> st m2 = Active -> c_gen (cells W1 d) = c_gen (cells W2 d) ->
  c_supply (cells W2 d) <= Z.max (c_supply (cells W1 d)) (wmax_param W1 post).
Proof. exact m_bound_since_activation. Qed.
Print Assumptions C05_supply_le_max_since_activation.

(** Without parameter changes in between, that last term is the one MaxSupply. *)
Theorem C05_max_param_without_changes : forall ops W,
  forallb (fun o => negb (is_mset_params o)) ops = true -> wmax_param W ops = w_max W.
Proof. exact wmax_param_const. Qed.
Print Assumptions C05_max_param_without_changes.

(** Whatever operation makes the supply of a denom go down (burn, governance decrease, delete, the
    governance status changes, the begin-blocker), exactly that amount leaves that denom's marker
    account and no other balance of the denom changes. *)
Theorem C05_burn_only_escrow : forall ops W o d,
  let W1 := mrun W ops in let W' := fst (mstep W1 o) in
  c_supply (cells W' d) < c_supply (cells W1 d) ->
  get (c_bal (cells W' d)) (escrow d) =
    get (c_bal (cells W1 d)) (escrow d) - (c_supply (cells W1 d) - c_supply (cells W' d)) /\
  (forall a, a <> escrow d -> get (c_bal (cells W' d)) a = get (c_bal (cells W1 d)) a).
Proof. exact m_burn_only_escrow. Qed.
Print Assumptions C05_burn_only_escrow.

(** Within one lifetime of a marker ([c_gen] counts the markers of the denom removed so far) the
    status never moves backwards through proposed < finalized < active < cancelled < destroyed,
    between any two points of any history ... *)
Theorem C05_status_monotone : forall W pre post d m1 m2,
  let W1 := mrun W pre in let W2 := mrun W1 post in
  c_gen (cells W1 d) = c_gen (cells W2 d) -> c_mk (cells W1 d) = Some m1 -> c_mk (cells W2 d) = Some m2 ->
  rank (st m1) <= rank (st m2).
Proof. exact m_status_monotone. Qed.
Print Assumptions C05_status_monotone.

(** ... and a lifetime ends only at a block boundary, and only for a destroyed marker. *)
Theorem C05_removed_only_when_destroyed : forall ops W o d m,
  let W1 := mrun W ops in
  c_mk (cells W1 d) = Some m -> c_mk (cells (fst (mstep W1 o)) d) = None -> st m = Destroyed /\ o = MBeginBlock.
Proof. exact m_removed_only_destroyed. Qed.
Print Assumptions C05_removed_only_when_destroyed.

(** A marker becomes destroyed (by MsgDeleteRequest or by the governance status change), or is
    cancelled by an administrator's MsgCancelRequest once finalized or active, only in a world
    where no coin of its denom is held outside its own account - other markers' accounts
    included; a destroyed marker has no supply.  (A governance ChangeStatus to Cancelled is NOT
    covered: the handler has no such check — see [C05_governance_cancel_skips_recall]; the
    property text exempts it by saying "by its administrators".) *)
Theorem C05_destroy_cancel_requires_recall : forall ops W o d m m',
  WInv W -> let W1 := mrun W ops in let W' := fst (mstep W1 o) in
  c_mk (cells W1 d) = Some m -> c_mk (cells W' d) = Some m' ->
  (st m <> Destroyed /\ st m' = Destroyed) \/
  ((exists c, o = MOn d (OCancel c)) /\ (st m = Finalized \/ st m = Active) /\ st m' = Cancelled) ->
  (forall a, a <> escrow d -> get (c_bal (cells W1 d)) a = 0) /\
  (st m' = Destroyed -> c_supply (cells W' d) = 0).
Proof. exact m_recall. Qed.
Print Assumptions C05_destroy_cancel_requires_recall.

(** MsgDeleteRequest moreover succeeds only when the marker's account is left empty of EVERY
    denom of the world (coins of other markers must have been withdrawn first). *)
Theorem C05_delete_leaves_account_empty : forall W d c W',
  mstep W (MOn d (ODelete c)) = (W', true) ->
  forall e, In e (dom W) -> get (c_bal (cells W' e)) (escrow d) = 0.
Proof. exact m_delete_empty. Qed.
Print Assumptions C05_delete_leaves_account_empty.

(** Frame: an operation on one marker / on coins of one denom leaves every OTHER denom's marker
    record (status, recorded supply, access ...), bank supply, balances and lifetime counter
    exactly as they were; grant-store operations and parameter changes leave every denom's cell
    untouched ([touched] is [None] for them).  Block boundaries: see
    [C05_begin_block_repair_is_noop] and [C05_begin_block_only_removes_destroyed]. *)
Theorem C05_frame : forall W o d,
  o <> MBeginBlock -> touched o <> Some d -> cells (fst (mstep W o)) d = cells W d.
Proof. exact m_frame. Qed.
Print Assumptions C05_frame.

(** Every history of the world is, seen from one denom, a history of Lifecycle.v (so the
    single-denom theorems of Proofs/LifecycleProofs*.v apply to each denom of the world). *)
Theorem C05_projection : forall ops W d, view (mrun W ops) d = run (view W d) (proj_hist W ops d).
Proof. exact mrun_view. Qed.
Print Assumptions C05_projection.

(** The executable property checker that Corr/C05.v evaluates on the REAL code's observations
    (every [prop:] clause: fixed supply exact, supply = sum over all holders, status order, mint
    within the maximum, burns out of the marker account only, recall before destroy/cancel,
    rejected operations change nothing, other denoms untouched) raises no tag when it is evaluated
    on the model's own observations of any step after any history: a [prop:] failure on the
    implementation is a behaviour the model - about which the theorems above speak - cannot show. *)
Theorem C05_checker_holds_on_model : forall denoms ops W o,
  WInv W -> let W1 := mrun W ops in
  prop_step denoms (obs_of denoms W1 true) o (obs_of denoms (fst (mstep W1 o)) (snd (mstep W1 o))) = [].
Proof. exact checker_holds_on_model. Qed.
Print Assumptions C05_checker_holds_on_model.

(** ** Non-vacuity and the edges of the statement *)
Definition empty_cell : cell := {| c_mk := None; c_bal := []; c_supply := 0; c_gen := 0%N |}.
Definition c05_start : world :=
  {| dom := [0%N; 1%N];
     cells := fun d => if N.eqb d 0 then {| c_mk := None; c_bal := [(3%N, 7)]; c_supply := 7; c_gen := 0%N |}
                       else empty_cell;
     w_max := 1000; w_gov := true; grants := [] |}.

(** Two markers.  Denom 0: a fixed-supply restricted marker created active over 7 pre-existing
    coins; coins are withdrawn, minted, burned.  Denom 1: a floating coin marker whose coins are
    withdrawn INTO marker 0's account (user 1 has deposit there).  MaxSupply is lowered to 50 in
    mid-history (with the deprecated max_total_supply far above it: it is not consulted): further
    mints fail, nothing else changes.  User 2 lets user 1 move 30 of its
    coins by an authz grant (useless until user 4 holds TRANSFER and DEPOSIT); the grant
    is used up and deleted.  Cancelling marker 0 is refused while coins are out and accepted after
    they came back; deleting is refused while marker 1's coins lie in the account (its
    administrator can no longer withdraw them: not active), accepted after governance withdrew
    them; the block boundary then removes the record - and marker 1 never notices any of it. *)
Definition c05_life : list mop :=
  [MOn 0%N (OAddFinAct 100 true false Restricted true (Some 1%N) [(1%N, 255%N)]);
   MOn 1%N (OAddFinAct 500 false true Coin false (Some 1%N) [(1%N, 63%N)]);
   MOn 0%N (OWithdraw 1%N 2%N 40); MOn 0%N (OMint 1%N 10); MOn 0%N (OBurn 1%N 5);
   MOn 1%N (OWithdraw 1%N (escrow 0%N) 25);
   MSetParams GOV 50 100000 true].
Definition c05_recall : list mop :=
  [MAuthzGrant 2%N 4%N [(0%N, 30)] [];
   MTransfer 0%N 4%N 2%N (escrow 0%N) 30;
   MOn 0%N (OGovSetAdmin GOV 4%N 68%N)].
Definition c05_recall2 : list mop :=
  [MTransfer 0%N 4%N 2%N (escrow 0%N) 30;
   MTransfer 0%N 1%N 2%N (escrow 0%N) 10; MTransfer 0%N 1%N 3%N (escrow 0%N) 7].

Example C05_witness :
  let W1 := mrun c05_start c05_life in
  WInv c05_start /\
  (exists m, c_mk (cells W1 0%N) = Some m /\ st m = Active /\ fixed m = true /\ msupply m = 105) /\
  c_supply (cells W1 0%N) = 105 /\ get (c_bal (cells W1 0%N)) (escrow 0%N) = 58 /\
  get (c_bal (cells W1 0%N)) 2%N = 40 /\ get (c_bal (cells W1 0%N)) 3%N = 7 /\
  c_supply (cells W1 1%N) = 500 /\ get (c_bal (cells W1 1%N)) (escrow 0%N) = 25 /\
  w_max W1 = 50 /\
  snd (mstep W1 (MOn 0%N (OMint 1%N 1))) = false /\ snd (mstep W1 (MOn 0%N (OBurn 1%N 1))) = true /\
  snd (mstep W1 (MOn 0%N (OCancel 1%N))) = false /\
  snd (mstep W1 (MOn 0%N (OGovChangeStatus GOV Finalized))) = false /\
  snd (mstep W1 (MTransfer 0%N 4%N 2%N (escrow 0%N) 30)) = false /\
  let W2 := mrun W1 c05_recall in
  (* the grant does not help a grantee without TRANSFER on the marker ... *)
  get (c_bal (cells W2 0%N)) 2%N = 40 /\ length (grants W2) = 1%nat /\
  let W3 := mrun W2 c05_recall2 in
  (* ... with it the grant is consumed and deleted *)
  grants W3 = [] /\ get (c_bal (cells W3 0%N)) (escrow 0%N) = 105 /\
  snd (mstep W3 (MOn 0%N (OCancel 1%N))) = true /\
  let W4 := mrun W3 [MOn 0%N (OCancel 1%N)] in
  snd (mstep W4 (MOn 0%N (ODelete 1%N))) = false /\
  snd (mstep W4 (MWithdrawOther 0%N 1%N 4%N 1%N 25)) = false /\   (* no longer active *)
  let W5 := mrun W4 [MGovWithdrawOther GOV 0%N 4%N 1%N 25; MOn 0%N (ODelete 1%N)] in
  (exists m, c_mk (cells W5 0%N) = Some m /\ st m = Destroyed /\ msupply m = 0) /\ c_supply (cells W5 0%N) = 0 /\
  let W6 := mrun W5 [MBeginBlock] in
  c_mk (cells W6 0%N) = None /\ c_gen (cells W6 0%N) = 1%N /\
  (exists m, c_mk (cells W6 1%N) = Some m /\ st m = Active) /\ c_supply (cells W6 1%N) = 500 /\
  get (c_bal (cells W6 1%N)) 4%N = 25.
Proof.
  cbv zeta. split.
  - intros d. unfold c05_start, view. cbn [cells w_max w_gov].
    destruct (N.eqb d 0); (split; [split|]);
      [ repeat constructor; cbn; discriminate | reflexivity | intros m Hm; discriminate Hm
      | constructor | reflexivity | intros m Hm; discriminate Hm ].
  - vm_compute. repeat split; try reflexivity; eexists; repeat split; reflexivity.
Qed.

(** Edge 1: governance can cancel an active marker while coins are in circulation (not an
    administrator's cancel, so outside the property's last clause). *)
Definition c05_empty : world :=
  {| dom := [0%N; 1%N]; cells := fun _ => empty_cell; w_max := 1000; w_gov := true; grants := [] |}.

Example C05_governance_cancel_skips_recall :
  let W1 := mrun c05_empty [MOn 0%N (OAddFinAct 100 true true Coin false (Some 1%N) [(1%N, 63%N)]);
                            MOn 0%N (OWithdraw 1%N 2%N 40)] in
  snd (mstep W1 (MOn 0%N (OCancel 1%N))) = false /\
  let W2 := fst (mstep W1 (MOn 0%N (OGovChangeStatus GOV Cancelled))) in
  (exists m, c_mk (cells W2 0%N) = Some m /\ st m = Cancelled) /\ get (c_bal (cells W2 0%N)) 2%N = 40.
Proof. vm_compute. repeat split; try reflexivity. eexists; split; reflexivity. Qed.

(** Edge 2: the maximum supply is enforced only on mints into an ACTIVE marker; a proposed marker
    may be configured (or minted) past it and then activated ([C05_activation_sets_recorded_supply]
    and [C05_supply_le_max_since_activation] say what holds instead). *)
Example C05_max_not_enforced_at_activation :
  let W1 := mrun c05_empty [MOn 0%N (OAdd 1%N Proposed 900 true false Coin false (Some 1%N) [(1%N, 63%N)]);
                            MOn 0%N (OMint 1%N 600); MOn 0%N (OFinalize 1%N); MOn 0%N (OActivate 1%N)] in
  c_supply (cells W1 0%N) = 1500 /\ w_max W1 = 1000.
Proof. vm_compute. split; reflexivity. Qed.

(** Edge 3: lowering MaxSupply below the supply of an active marker changes nothing but the
    outcome of later mints; a floating-supply active marker whose supply was burned down can be
    brought back up to its RECORDED supply by a governance change-status to Active, past the new
    maximum (the [msupply m1] term of [C05_active_supply_bound] is needed). *)
Example C05_reactivation_ignores_max :
  let W1 := mrun c05_empty [MOn 0%N (OAddFinAct 800 false true Coin false (Some 1%N) [(1%N, 63%N)]);
                            MOn 0%N (OBurn 1%N 700); MSetParams GOV 200 5000 true] in
  c_supply (cells W1 0%N) = 100 /\ w_max W1 = 200 /\
  snd (mstep W1 (MOn 0%N (OMint 1%N 101))) = false /\
  let W2 := fst (mstep W1 (MOn 0%N (OGovChangeStatus GOV Active))) in
  c_supply (cells W2 0%N) = 800.
Proof. vm_compute. repeat split; reflexivity. Qed.
