(** C20 — Markets admit only eligible, sufficiently paid orders and commitments.
    Only theorem statements here; each is closed by [exact] of a lemma proved in
    Proofs/C20Proofs.v about the models Exchange/FeeCheck.v and Exchange/ReqAttr.v (transcriptions
    of the Go code) and the declarative checkers of Exchange/AdmitSpec.v.

    Ranges: a market's ratios have positive price amounts and nonnegative fee amounts
    ([ratios_wf], FeeRatio.Validate), one flat option per denom ([flats_wf], ValidateFeeOptions),
    price amounts are nonnegative, and an offered fee holds no coin twice ([NoDup], sdk.Coins). *)
From Coq Require Import ZArith List String Ascii Permutation Lia.
Import ListNotations.
From PV Require Import Exchange.Arith Exchange.ReqAttr Exchange.FeeCheck Exchange.AdmitSpec Proofs.C20Proofs.
Open Scope Z_scope.

(** A flat fee requirement (order / commitment creation, seller settlement flat fee) is passed
    exactly when the market has no option of that kind, or a coin is offered in the denom of one
    of the options with at least that option's amount. *)
Theorem C20_flat_fee_iff : forall opts fee,
  validate_flat_fee opts fee = true <->
  opts = [] \/ exists d a f, fee = Some (d, a) /\ get_flat opts d = Some f /\ f <= a.
Proof. exact flat_fee_iff. Qed.
Print Assumptions C20_flat_fee_iff.

(** [ceil_div a b] is the ceiling of a/b; the Go ratio computation returns it. *)
Theorem C20_ceil_div_is_ceiling : forall a b,
  0 < b -> b * (ceil_div a b - 1) < a <= b * ceil_div a b.
Proof. exact ceil_div_bounds. Qed.
Print Assumptions C20_ceil_div_is_ceiling.

Theorem C20_ratio_charge_is_ceiling : forall r p,
  0 < r_pa r /\ 0 <= r_fa r -> 0 <= p ->
  apply_to_loosely (r_pa r) (r_fa r) p = Some (ceil_div (p * r_fa r) (r_pa r)).
Proof. exact apply_to_loosely_ceil. Qed.
Print Assumptions C20_ratio_charge_is_ceiling.

(** The buyer settlement fee check.  Which side may be absent: the flat side only when the market
    has no buyer flat option at all, the ratio side only when it has no buyer ratio at all (a
    market with ratios but none for the price denom accepts no fee).  Otherwise the offer must
    hold a coin c1 covering a flat option f (in c1's denom) and a coin c2 covering the ratio
    charge x = ceil(price * fee / ratio-price) of a ratio from the price denom to c2's denom;
    when one coin plays both roles it must cover the sum. *)
Theorem C20_buyer_fee_iff : forall flats rs price fee,
  ratios_wf rs -> 0 <= amt_of price -> NoDup fee ->
  (validate_buyer_settlement_fee flats rs price fee = true <->
   (flats = [] /\ rs = []) \/
   (flats <> [] /\ rs = [] /\
      exists c f, In c fee /\ (get_flat flats (denom_of c) = Some f /\ f <= amt_of c)) \/
   (flats = [] /\ rs <> [] /\
      exists c x, In c fee /\
        (exists r, get_ratio rs (denom_of price) (denom_of c) = Some r /\
                   x = ceil_div (amt_of price * r_fa r) (r_pa r) /\ x <= amt_of c)) \/
   (flats <> [] /\ rs <> [] /\
      exists c1 c2 f x, In c1 fee /\ In c2 fee /\
        (get_flat flats (denom_of c1) = Some f /\ f <= amt_of c1) /\
        (exists r, get_ratio rs (denom_of price) (denom_of c2) = Some r /\
                   x = ceil_div (amt_of price * r_fa r) (r_pa r) /\ x <= amt_of c2) /\
        (c1 = c2 -> f + x <= amt_of c1))).
Proof. exact buyer_fee_iff. Qed.
Print Assumptions C20_buyer_fee_iff.

(** Corollary: the verdict does not depend on the order in which the fee coins are offered. *)
Theorem C20_buyer_fee_order_independent : forall flats rs price fee fee',
  ratios_wf rs -> 0 <= amt_of price -> NoDup fee -> Permutation fee fee' ->
  validate_buyer_settlement_fee flats rs price fee = validate_buyer_settlement_fee flats rs price fee'.
Proof. exact buyer_fee_order_independent. Qed.
Print Assumptions C20_buyer_fee_order_independent.

(** An ask is accepted exactly when its price exceeds the fees taken out of it: the seller flat
    fee when it is paid in the price denom, plus the seller ratio charge (which must exist for the
    price denom when the market has seller ratios). *)
Theorem C20_ask_price_covers_fees : forall rs price flat,
  ratios_wf rs -> 0 < amt_of price -> 0 <= flat_from_price price flat ->
  (validate_ask_price rs price flat = true <->
   exists x, seller_charge rs price = Some x /\ flat_from_price price flat + x < amt_of price).
Proof. exact ask_price_iff. Qed.
Print Assumptions C20_ask_price_covers_fees.

(** The ask price is a minimum: coverage at the ask price implies coverage at any higher fill
    price, for ratios that take at most the whole price (enforced for seller ratios). *)
Theorem C20_ask_price_monotone : forall rp rf flat p p',
  0 < rp -> 0 <= rf <= rp -> 0 <= p <= p' ->
  flat + ceil_div (p * rf) rp < p -> flat + ceil_div (p' * rf) rp < p'.
Proof. exact ask_price_monotone. Qed.
Print Assumptions C20_ask_price_monotone.

(** The wildcard: a required attribute "*.<base>" is matched by exactly the names whose levels
    (dot-separated) are one or more extra levels followed by the levels of the base; never by
    the base itself; any other requirement is matched by the identical name only. *)
Theorem C20_wildcard : forall base acc,
  is_req_attr_match (star :: dot :: base) acc = true <->
  exists extra, extra <> [] /\ split_dot acc = extra ++ split_dot base.
Proof. exact wildcard_match. Qed.
Print Assumptions C20_wildcard.

Theorem C20_wildcard_needs_extra_level : forall base,
  is_req_attr_match (star :: dot :: base) base = false.
Proof. exact wildcard_needs_extra_level. Qed.
Print Assumptions C20_wildcard_needs_extra_level.

Theorem C20_plain_match : forall req acc,
  has_prefix wild_prefix req = false -> req <> [] -> acc <> [] ->
  (is_req_attr_match req acc = true <-> req = acc).
Proof. exact plain_match. Qed.
Print Assumptions C20_plain_match.

(** The level-wise matcher used by the declarative admission rule is the Go byte-level matcher. *)
Theorem C20_levels_match : forall req acc, levels_match req acc = is_req_attr_match req acc.
Proof. exact levels_match_eq. Qed.
Print Assumptions C20_levels_match.

(** A created market requires the normalised form of every attribute it was given, in all three
    lists (the create-commitment list included: the defect repaired by 7843b4934). *)
Theorem C20_created_market_requires_normalised : forall m s,
  create_market m = Some s ->
  s_mkt s = m /\
  s_req_ask s = map normalize_name (map bytes_of (m_req_ask m)) /\
  s_req_bid s = map normalize_name (map bytes_of (m_req_bid m)) /\
  s_req_com s = map normalize_name (map bytes_of (m_req_com m)).
Proof. exact create_market_stored. Qed.
Print Assumptions C20_created_market_requires_normalised.

(** Admission: a request passes every check the Go code makes before coins move exactly when the
    market exists, is accepting that kind of item (and allows user settlement for fills), the
    account carries every attribute the market was created with (level-wise wildcard match on
    normalised names), and each fee offered meets the declarative fee rule ([admit_spec] in
    Exchange/AdmitSpec.v spells out the conjunction per request kind). *)
Theorem C20_admission_iff : forall m accs a,
  market_wf m -> action_wf a ->
  admits (create_market m) accs a = admit_spec (is_some (create_market m)) m accs a.
Proof. exact admission_eq. Qed.
Print Assumptions C20_admission_iff.

(** "Currently accepting": after any sequence of updates of the accepting-orders, user-settlement
    and accepting-commitments flags the same rule holds for the updated configuration. *)
Theorem C20_admission_after_flag_updates : forall m s accs a (ups : list (bool * bool * bool)),
  market_wf m -> action_wf a -> create_market m = Some s ->
  let upd_m := fold_left (fun m' u => let '(ao, us, ac) := u in set_flags m' ao us ac) ups m in
  let upd_s := fold_left (fun s' u => let '(ao, us, ac) := u in set_flags_stored s' ao us ac) ups s in
  admits (Some upd_s) accs a = admit_spec true upd_m accs a.
Proof. exact admission_after_flag_updates. Qed.
Print Assumptions C20_admission_after_flag_updates.

(** Non-vacuity: a well-formed market with flat and ratio buyer fees, a wildcard and an
    un-normalised commitment attribute; an account that is admitted for a bid paying
    flat + ratio in one coin, refused one unit below, admitted for a commitment. *)
Definition ex_market : market :=
  {| m_create_ask := []; m_create_bid := [("acoin"%string, 3)]; m_create_com := [];
     m_seller_flat := []; m_seller_ratios := [ {| r_pd := "pcoin"; r_pa := 100; r_fd := "pcoin"; r_fa := 1 |} ];
     m_buyer_flat := [("acoin"%string, 10)];
     m_buyer_ratios := [ {| r_pd := "pcoin"; r_pa := 3; r_fd := "acoin"; r_fa := 2 |} ];
     m_accepting_orders := true; m_user_settle := true; m_accepting_commitments := true;
     m_req_ask := []; m_req_bid := ["*.KYC.prov "%string]; m_req_com := [" KYC.Prov "%string] |}.
Definition ex_accs : list bytes := [bytes_of "buyer.kyc.prov"; bytes_of "kyc.prov"].

Example C20_witness :
  market_wf ex_market /\
  is_some (create_market ex_market) = true /\
  admits (create_market ex_market) ex_accs
        (ACreateBid ("pcoin"%string, 100) [("acoin"%string, 77)] (Some ("acoin"%string, 3))) = true /\
  admits (create_market ex_market) ex_accs
        (ACreateBid ("pcoin"%string, 100) [("acoin"%string, 76)] (Some ("acoin"%string, 3))) = false /\
  admits (create_market ex_market) ex_accs (ACommit None) = true /\
  admits (create_market ex_market) [bytes_of "kyc.prov"]
        (ACreateBid ("pcoin"%string, 100) [("acoin"%string, 77)] (Some ("acoin"%string, 3))) = false.
Proof.
  split.
  - unfold market_wf, flats_wf, ratios_wf, ratio_wf; cbn.
    repeat split; repeat constructor; cbn; try lia; intros H; exact H.
  - vm_compute. repeat split.
Qed.
