(** C20 — Markets admit only eligible, sufficiently paid orders and commitments.
    Only theorem statements here; each is closed by [exact] of a lemma proved in
    Proofs/C20Proofs.v about the models Exchange/FeeCheck.v and Exchange/ReqAttr.v (transcriptions
    of the Go code) and the declarative checkers of Exchange/AdmitSpec.v.

    Ranges: a market's ratios have positive price amounts and nonnegative fee amounts
    ([ratios_wf], FeeRatio.Validate), one flat option per denom ([flats_wf], ValidateFeeOptions),
    price amounts are nonnegative, and an offered fee holds no coin twice ([NoDup], sdk.Coins). *)
From Coq Require Import ZArith List String Ascii Permutation Lia.
Import ListNotations.
From Coq Require Import Sorted Bool.
From PV Require Import Exchange.Arith Exchange.ReqAttr Exchange.FeeCheck Exchange.AdmitSpec Proofs.C20Proofs
     Proofs.C20Defs Proofs.C20Coins Proofs.C20Norm Proofs.C20Updates Proofs.C20Fills Proofs.C20Quotes Proofs.C20QuoteSpec Proofs.C20Create.
Open Scope Z_scope.

(** A flat fee requirement (order / commitment creation, seller settlement flat fee) is passed
    exactly when the market has no option of that kind, or a coin is offered in the denom of one
    of the options with at least that option's amount. *)
Theorem C20_flat_fee_iff : forall opts fee,
  validate_flat_fee opts fee = true <->
  opts = [] \/ exists d a f, fee = Some (d, a) /\ get_flat opts d = Some f /\ f <= a.
Proof. exact flat_fee_iff. Qed.
Print Assumptions C20_flat_fee_iff.

(** [ceil_div a b] is the ceiling of a/b; the Go ratio computation returns it. *)
Theorem C20_ceil_div_is_ceiling : forall a b,
  0 < b -> b * (ceil_div a b - 1) < a <= b * ceil_div a b.
Proof. exact ceil_div_bounds. Qed.
Print Assumptions C20_ceil_div_is_ceiling.

Theorem C20_ratio_charge_is_ceiling : forall r p,
  0 < r_pa r /\ 0 <= r_fa r -> 0 <= p ->
  apply_to_loosely (r_pa r) (r_fa r) p = Some (ceil_div (p * r_fa r) (r_pa r)).
Proof. exact apply_to_loosely_ceil. Qed.
Print Assumptions C20_ratio_charge_is_ceiling.

(** The buyer settlement fee check.  Which side may be absent: the flat side only when the market
    has no buyer flat option at all, the ratio side only when it has no buyer ratio at all (a
    market with ratios but none for the price denom accepts no fee).  Otherwise the offer must
    hold a coin c1 covering a flat option f (in c1's denom) and a coin c2 covering the ratio
    charge x = ceil(price * fee / ratio-price) of a ratio from the price denom to c2's denom;
    when one coin plays both roles it must cover the sum. *)
Theorem C20_buyer_fee_iff : forall flats rs price fee,
  ratios_wf rs -> 0 <= amt_of price -> NoDup fee ->
  (validate_buyer_settlement_fee flats rs price fee = true <->
   (flats = [] /\ rs = []) \/
   (flats <> [] /\ rs = [] /\
      exists c f, In c fee /\ (get_flat flats (denom_of c) = Some f /\ f <= amt_of c)) \/
   (flats = [] /\ rs <> [] /\
      exists c x, In c fee /\
        (exists r, get_ratio rs (denom_of price) (denom_of c) = Some r /\
                   x = ceil_div (amt_of price * r_fa r) (r_pa r) /\ x <= amt_of c)) \/
   (flats <> [] /\ rs <> [] /\
      exists c1 c2 f x, In c1 fee /\ In c2 fee /\
        (get_flat flats (denom_of c1) = Some f /\ f <= amt_of c1) /\
        (exists r, get_ratio rs (denom_of price) (denom_of c2) = Some r /\
                   x = ceil_div (amt_of price * r_fa r) (r_pa r) /\ x <= amt_of c2) /\
        (c1 = c2 -> f + x <= amt_of c1))).
Proof. exact buyer_fee_iff. Qed.
Print Assumptions C20_buyer_fee_iff.

(** Corollary: the verdict does not depend on the order in which the fee coins are offered. *)
Theorem C20_buyer_fee_order_independent : forall flats rs price fee fee',
  ratios_wf rs -> 0 <= amt_of price -> NoDup fee -> Permutation fee fee' ->
  validate_buyer_settlement_fee flats rs price fee = validate_buyer_settlement_fee flats rs price fee'.
Proof. exact buyer_fee_order_independent. Qed.
Print Assumptions C20_buyer_fee_order_independent.

(** An ask is accepted exactly when its price exceeds the fees taken out of it: the seller flat
    fee when it is paid in the price denom, plus the seller ratio charge (which must exist for the
    price denom when the market has seller ratios). *)
Theorem C20_ask_price_covers_fees : forall rs price flat,
  ratios_wf rs -> 0 < amt_of price -> 0 <= flat_from_price price flat ->
  (validate_ask_price rs price flat = true <->
   exists x, seller_charge rs price = Some x /\ flat_from_price price flat + x < amt_of price).
Proof. exact ask_price_iff. Qed.
Print Assumptions C20_ask_price_covers_fees.

(** The ask price is a minimum: coverage at the ask price implies coverage at any higher fill
    price, for ratios that take at most the whole price (enforced for seller ratios). *)
Theorem C20_ask_price_monotone : forall rp rf flat p p',
  0 < rp -> 0 <= rf <= rp -> 0 <= p <= p' ->
  flat + ceil_div (p * rf) rp < p -> flat + ceil_div (p' * rf) rp < p'.
Proof. exact ask_price_monotone. Qed.
Print Assumptions C20_ask_price_monotone.

(** The wildcard: a required attribute "*.<base>" is matched by exactly the names whose levels
    (dot-separated) are one or more extra levels followed by the levels of the base; never by
    the base itself; any other requirement is matched by the identical name only. *)
Theorem C20_wildcard : forall base acc,
  is_req_attr_match (star :: dot :: base) acc = true <->
  exists extra, extra <> [] /\ split_dot acc = extra ++ split_dot base.
Proof. exact wildcard_match. Qed.
Print Assumptions C20_wildcard.

Theorem C20_wildcard_needs_extra_level : forall base,
  is_req_attr_match (star :: dot :: base) base = false.
Proof. exact wildcard_needs_extra_level. Qed.
Print Assumptions C20_wildcard_needs_extra_level.

Theorem C20_plain_match : forall req acc,
  has_prefix wild_prefix req = false -> req <> [] -> acc <> [] ->
  (is_req_attr_match req acc = true <-> req = acc).
Proof. exact plain_match. Qed.
Print Assumptions C20_plain_match.

(** The level-wise matcher used by the declarative admission rule is the Go byte-level matcher. *)
Theorem C20_levels_match : forall req acc, levels_match req acc = is_req_attr_match req acc.
Proof. exact levels_match_eq. Qed.
Print Assumptions C20_levels_match.

(** A created market requires the normalised form of every attribute it was given, in all three
    lists (the create-commitment list included: the defect repaired by 7843b4934). *)
Theorem C20_created_market_requires_normalised : forall m s,
  create_market m = Some s ->
  s_mkt s = clear_reqs m /\
  s_req_ask s = map normalize_name (map bytes_of (m_req_ask m)) /\
  s_req_bid s = map normalize_name (map bytes_of (m_req_bid m)) /\
  s_req_com s = map normalize_name (map bytes_of (m_req_com m)).
Proof. exact create_market_stored. Qed.
Print Assumptions C20_created_market_requires_normalised.

(** Admission: a request passes every check the Go code makes before coins move exactly when the
    market exists, is accepting that kind of item (and allows user settlement for fills), the
    account carries every attribute the market was created with (level-wise wildcard match on
    normalised names), and each fee offered meets the declarative fee rule ([admit_spec] in
    Exchange/AdmitSpec.v spells out the conjunction per request kind). *)
Theorem C20_admission_iff : forall m accs a,
  market_wf m -> action_wf a ->
  admits (create_market m) accs a = admit_spec (is_some (create_market m)) m accs a.
Proof. exact admission_eq. Qed.
Print Assumptions C20_admission_iff.

(** "Currently accepting": after any sequence of updates of the accepting-orders, user-settlement
    and accepting-commitments flags the same rule holds for the updated configuration. *)
Theorem C20_admission_after_flag_updates : forall m s accs a (ups : list (bool * bool * bool)),
  market_wf m -> action_wf a -> create_market m = Some s ->
  let upd_m := fold_left (fun m' u => let '(ao, us, ac) := u in set_flags m' ao us ac) ups m in
  let upd_s := fold_left (fun s' u => let '(ao, us, ac) := u in set_flags_stored s' ao us ac) ups s in
  admits (Some upd_s) accs a = admit_spec true upd_m accs a.
Proof. exact admission_after_flag_updates. Qed.
Print Assumptions C20_admission_after_flag_updates.

(** ** Offered coins: order and duplicate denoms (sdk.Coins validity) *)

(** Coins.Validate (run by ValidateBasic of MsgCreateBid / MsgFillAsks on the buyer settlement
    fees) accepts exactly the lists with positive amounts in strictly ascending denoms; such a
    list holds no denom and no coin twice - the [NoDup] hypothesis of [C20_buyer_fee_iff]. *)
Theorem C20_valid_coins_sorted_distinct : forall l,
  (coins_valid l = true <->
   Forall (fun c => 0 < amt_of c) l /\
   StronglySorted (fun a b => String.ltb (denom_of a) (denom_of b) = true) l) /\
  (coins_valid l = true -> NoDup (map denom_of l) /\ NoDup l).
Proof. intros l. split; [exact (coins_valid_sorted l)|exact (coins_valid_nodup l)]. Qed.
Print Assumptions C20_valid_coins_sorted_distinct.

(** [C20_buyer_fee_iff] for every fee that a message can carry. *)
Theorem C20_buyer_fee_iff_valid_coins : forall flats rs price fee,
  ratios_wf rs -> 0 <= amt_of price -> coins_valid fee = true ->
  (validate_buyer_settlement_fee flats rs price fee = true <->
   (flats = [] /\ rs = []) \/
   (flats <> [] /\ rs = [] /\
      exists c f, In c fee /\ (get_flat flats (denom_of c) = Some f /\ f <= amt_of c)) \/
   (flats = [] /\ rs <> [] /\
      exists c x, In c fee /\
        (exists r, get_ratio rs (denom_of price) (denom_of c) = Some r /\
                   x = ceil_div (amt_of price * r_fa r) (r_pa r) /\ x <= amt_of c)) \/
   (flats <> [] /\ rs <> [] /\
      exists c1 c2 f x, In c1 fee /\ In c2 fee /\
        (get_flat flats (denom_of c1) = Some f /\ f <= amt_of c1) /\
        (exists r, get_ratio rs (denom_of price) (denom_of c2) = Some r /\
                   x = ceil_div (amt_of price * r_fa r) (r_pa r) /\ x <= amt_of c2) /\
        (c1 = c2 -> f + x <= amt_of c1))).
Proof. exact buyer_fee_iff_valid_coins. Qed.
Print Assumptions C20_buyer_fee_iff_valid_coins.

(** What the five message handlers decide (ValidateBasic, then the keeper checks) equals the
    declarative rule [admit_spec_msg] = the request is well-formed (positive price; fee coins
    positive, ascending, no denom twice; single fee coins not negative / not zero where the
    message says so) and [admit_spec] holds - for EVERY request, no side condition. *)
Theorem C20_message_admission_iff : forall m accs a,
  market_wf m ->
  admits_msg (create_market m) accs a = admit_spec_msg (is_some (create_market m)) m accs a.
Proof. exact admission_msg_eq. Qed.
Print Assumptions C20_message_admission_iff.

(** ** Configuration changes after creation *)

(** After ANY sequence of MsgGovManageFees (add / remove flat options and ratios of every fee
    kind, commitment bips; a message failing ValidateBasic changes nothing), MsgMarketManageReqAttrs
    (add / remove required attributes for asks, bids, commitments; an unauthorised, malformed or
    inapplicable message changes nothing) and flag updates, what the handlers decide on the
    changed store ([step_stored], the transcription) is the declarative rule evaluated on the
    changed configuration ([step_cfg]). *)
Theorem C20_admission_after_config_updates : forall m s accs a (ops : list cfg_op),
  market_wf m -> create_market m = Some s ->
  admits_msg (Some (fold_left step_stored ops s)) accs a =
  admit_spec_msg true (fold_left step_cfg ops m) accs a.
Proof. exact admission_after_config_updates. Qed.
Print Assumptions C20_admission_after_config_updates.

(** The same for the checks after ValidateBasic (the exported keeper methods). *)
Theorem C20_admission_after_config_updates_keeper : forall m s accs a (ops : list cfg_op),
  market_wf m -> action_wf a -> create_market m = Some s ->
  admits (Some (fold_left step_stored ops s)) accs a =
  admit_spec true (fold_left step_cfg ops m) accs a.
Proof. exact admission_after_config_updates_keeper. Qed.
Print Assumptions C20_admission_after_config_updates_keeper.

(** nametypes.NormalizeName is idempotent (ASCII names). *)
Theorem C20_normalize_name_idempotent : forall s, normalize_name (normalize_name s) = normalize_name s.
Proof. exact normalize_name_idem. Qed.
Print Assumptions C20_normalize_name_idempotent.

(** After any sequence of changes each of the three stored lists holds only fixed points of
    NormalizeName that pass IsValidReqAttr, and no entry twice. *)
Theorem C20_manage_req_attrs_normalised : forall m s (ops : list cfg_op),
  create_market m = Some s ->
  let s' := fold_left step_stored ops s in
  (Forall (fun e => normalize_name e = e /\ is_valid_req_attr e = true) (s_req_ask s') /\ NoDup (s_req_ask s')) /\
  (Forall (fun e => normalize_name e = e /\ is_valid_req_attr e = true) (s_req_bid s') /\ NoDup (s_req_bid s')) /\
  (Forall (fun e => normalize_name e = e /\ is_valid_req_attr e = true) (s_req_com s') /\ NoDup (s_req_com s')).
Proof. exact manage_req_attrs_normalised. Qed.
Print Assumptions C20_manage_req_attrs_normalised.

(** ... and they are the normalised forms of the configuration as written and changed. *)
Theorem C20_stored_is_normalised_configuration : forall m s (ops : list cfg_op),
  market_wf m -> create_market m = Some s ->
  let m' := fold_left step_cfg ops m in
  let s' := fold_left step_stored ops s in
  s_req_ask s' = map normalize_name (map bytes_of (m_req_ask m')) /\
  s_req_bid s' = map normalize_name (map bytes_of (m_req_bid m')) /\
  s_req_com s' = map normalize_name (map bytes_of (m_req_com m')).
Proof. exact stored_is_normalised_configuration. Qed.
Print Assumptions C20_stored_is_normalised_configuration.

(** What an accepted list change (keeper.updateReqAttrs) does: afterwards exactly the old entries
    that were not removed, and the additions, are required. *)
Theorem C20_required_attribute_change : forall cur rem add l' e,
  update_req_attrs cur rem add = Some l' ->
  (In e l' <-> (In e cur /\ ~ In e rem) \/ In e add).
Proof. exact update_req_attrs_members. Qed.
Print Assumptions C20_required_attribute_change.

(** Fee changes keep what the store guarantees ([market_ok]: one flat option per denom, all
    positive; one ratio per denom pair, positive price amounts, nonnegative fee amounts), so the
    quote theorems below apply to every market reachable by configuration changes. *)
Theorem C20_config_updates_keep_market_ok : forall (ops : list cfg_op) m,
  market_ok m -> market_ok (fold_left step_cfg ops m).
Proof. exact steps_ok. Qed.
Print Assumptions C20_config_updates_keep_market_ok.

(** ** A market created over left-over entries *)

(** None of the configuration endpoints checks that the market exists, and the governance authority
    passes every permission check: MsgGovCloseMarket, MsgMarketUpdateAcceptingOrders / UserSettle /
    AcceptingCommitments / IntermediaryDenom, MsgGovManageFees and MsgMarketManageReqAttrs sent for an
    id that is not a market leave entries under it ([pre_step], [run_pre]; [C20_earlier_entries_exist]).
    storeMarket (transcribed setter by setter: deleteAll + writes for the tables, write-or-delete
    for the indicator entries, bips, intermediary denom and the lists) does not depend on them ... *)
Theorem C20_store_market_ignores_old : forall old1 old2 m, store_market old1 m = store_market old2 m.
Proof. exact store_market_ignores_old. Qed.
Print Assumptions C20_store_market_ignores_old.

(** ... so for a request that passes Market.Validate the created market is the one of
    [create_market], and what the handlers then decide is the declarative rule evaluated on the
    creation request alone, whatever was sent for the id before. *)
Theorem C20_created_market_ignores_earlier_entries : forall (pre : list pre_op) m accs a,
  market_ok m ->
  store_market (run_pre pre) m = create_market m /\
  admits_msg (store_market (run_pre pre) m) accs a =
  admit_spec_msg (is_some (create_market m)) m accs a.
Proof.
  intros pre m accs a W. split;
    [exact (store_market_is_create (run_pre pre) m W)|exact (created_market_ignores_earlier_entries pre m accs a W)].
Qed.
Print Assumptions C20_created_market_ignores_earlier_entries.

Theorem C20_earlier_entries_exist :
  let s := run_pre [PreClose; PreUserSettle true] in
  m_accepting_orders (s_mkt s) = false /\ m_user_settle (s_mkt s) = true.
Proof. exact earlier_entries_exist. Qed.
Print Assumptions C20_earlier_entries_exist.

(** ** User fills, in full *)

(** [carries raw accs]: every attribute of the list as written is matched (level-wise, after
    normalisation) by an attribute of the account.  [flat_met opts fee]: there is no option, or
    the coin offered is in the denom of an option with at least its amount.
    [seller_ratio_known rs d]: no seller ratio at all, or one for the denom. *)
Theorem C20_fill_admission_iff : forall m s accs ok prices tprice sflat sfees cfee,
  market_wf m -> stored_of m s ->
  (* MsgFillBids: the filler acts as a seller *)
  (admits_msg (Some s) accs (AFillBids ok prices sflat cfee) = true <->
   (forall c, sflat = Some c -> 0 < amt_of c) /\ (forall c, cfee = Some c -> 0 < amt_of c) /\
   m_accepting_orders m = true /\ m_user_settle m = true /\
   carries (m_req_ask m) accs /\
   flat_met (m_create_ask m) cfee /\ flat_met (m_seller_flat m) sflat /\
   ok = true /\
   (forall p, In p prices -> seller_ratio_known (m_seller_ratios m) (denom_of p))) /\
  (* MsgFillAsks: the filler acts as a buyer; the buyer settlement fees are judged on the TOTAL price *)
  (admits_msg (Some s) accs (AFillAsks ok tprice sfees cfee) = true <->
   0 < amt_of tprice /\ coins_valid sfees = true /\ (forall c, cfee = Some c -> 0 < amt_of c) /\
   m_accepting_orders m = true /\ m_user_settle m = true /\
   carries (m_req_bid m) accs /\
   flat_met (m_create_bid m) cfee /\
   buyer_fee_spec (m_buyer_flat m) (m_buyer_ratios m) tprice sfees = true /\
   ok = true /\
   seller_ratio_known (m_seller_ratios m) (denom_of tprice)).
Proof.
  intros m s accs ok prices tprice sflat sfees cfee W S. split;
    [exact (fill_bids_admission_iff m s accs ok prices sflat cfee W S)
    |exact (fill_asks_admission_iff m s accs ok tprice sfees cfee W S)].
Qed.
Print Assumptions C20_fill_admission_iff.

(** A partially open market: accepting orders off, or user settlement off, refuses every fill -
    whoever sends it ([accs] is arbitrary, and nothing else about the sender enters [admits_msg]:
    holding market permissions, even PERMISSION_SETTLE, or being the authority is no exception). *)
Theorem C20_fills_refused_when_closed : forall m s accs a,
  stored_of m s -> (m_accepting_orders m = false \/ m_user_settle m = false) ->
  match a with AFillBids _ _ _ _ | AFillAsks _ _ _ _ => admits_msg (Some s) accs a = false | _ => True end.
Proof. exact fills_refused_when_closed. Qed.
Print Assumptions C20_fills_refused_when_closed.

(** ** OrderFeeCalc quotes exactly what admission demands *)

(** What the query answers (as transcribed) is the declarative quote: the market's tables and the
    ceiling charges of the ratios for the price denom, failing exactly when the market has ratios
    of that side but none for the price denom. *)
Theorem C20_order_fee_calc_is_required_fees : forall m s price,
  market_wf m -> stored_of m s -> 0 <= amt_of price ->
  quote_ask (Some s) price = quote_ask_spec true m price /\
  quote_bid (Some s) price = quote_bid_spec true m price.
Proof.
  intros m s price W S Hp. split; [exact (quote_ask_is_spec m s price W S Hp)|exact (quote_bid_is_spec m s price W S Hp)].
Qed.
Print Assumptions C20_order_fee_calc_is_required_fees.

(** Ask side: the creation and seller flat options quoted are the market's tables, each quoted
    option passes its check, one unit less does not ([C20_flat_quote_minus_one]), and the ask is
    refused for its price exactly when the price does not exceed the flat fee (when paid in the
    price denom) plus the QUOTED ratio fee. *)
Theorem C20_ask_quote_exact : forall m s price C F R,
  market_wf m -> stored_of m s -> 0 < amt_of price ->
  quote_ask (Some s) price = Some (C, F, R) ->
  C = m_create_ask m /\ F = m_seller_flat m /\
  (forall c, pick C c -> validate_flat_fee (m_create_ask m) c = true) /\
  (forall f, pick F f -> validate_flat_fee (m_seller_flat m) f = true) /\
  (forall f, validate_ask_price (m_seller_ratios m) price f =
             (flat_from_price price f + match R with [] => 0 | x :: _ => amt_of x end <? amt_of price)).
Proof. exact ask_quote_exact. Qed.
Print Assumptions C20_ask_quote_exact.

Theorem C20_flat_quote_minus_one : forall opts d f,
  flats_wf opts -> In (d, f) opts -> validate_flat_fee opts (Some (d, f - 1)) = false.
Proof. exact flat_quote_minus_one. Qed.
Print Assumptions C20_flat_quote_minus_one.

Theorem C20_ask_quote_none : forall m s price accs sf cf,
  market_wf m -> stored_of m s -> 0 < amt_of price ->
  quote_ask (Some s) price = None -> admits (Some s) accs (ACreateAsk price sf cf) = false.
Proof. exact ask_quote_none. Qed.
Print Assumptions C20_ask_quote_none.

(** Bid side, sufficiency: any quoted flat option together with any quoted ratio option of
    positive amount, put together as sdk.NewCoins does ([offer]: one coin when the denoms
    coincide), is a valid coin set and passes the buyer settlement fee check. *)
Theorem C20_bid_quote_sufficient : forall m s price C F R f x,
  market_ok m -> stored_of m s -> 0 < amt_of price ->
  quote_bid (Some s) price = Some (C, F, R) -> pick F f -> pick R x ->
  (forall c, x = Some c -> 0 < amt_of c) ->
  C = m_create_bid m /\
  coins_valid (offer f x) = true /\
  validate_buyer_settlement_fee (m_buyer_flat m) (m_buyer_ratios m) price (offer f x) = true.
Proof. exact bid_quote_sufficient. Qed.
Print Assumptions C20_bid_quote_sufficient.

(** Bid side, necessity: a valid coin set that passes the check offers, denom by denom, at least
    one combination of the quoted options. *)
Theorem C20_bid_quote_necessary : forall m s price fee,
  market_ok m -> stored_of m s -> 0 < amt_of price -> coins_valid fee = true ->
  validate_buyer_settlement_fee (m_buyer_flat m) (m_buyer_ratios m) price fee = true ->
  exists C F R f x, quote_bid (Some s) price = Some (C, F, R) /\ pick F f /\ pick R x /\
                    covers_coins fee (offer f x) = true.
Proof. exact bid_quote_necessary. Qed.
Print Assumptions C20_bid_quote_necessary.

(** A fee of one coin passes exactly when it is at least the flat option of its denom (if the
    market has flat options) plus the ceiling ratio charge for its denom (if it has ratios). *)
Theorem C20_buyer_fee_single_coin : forall flats rs price d a,
  ratios_wf rs -> flats_pos flats -> 0 <= amt_of price -> 0 < a ->
  validate_buyer_settlement_fee flats rs price [(d, a)] =
  match (match flats with [] => Some 0 | _ => get_flat flats d end),
        (match rs with
         | [] => Some 0
         | _ => option_map (fun r => ceil_div (amt_of price * r_fa r) (r_pa r)) (get_ratio rs (denom_of price) d)
         end) with
  | Some fl, Some x => fl + x <=? a
  | _, _ => false
  end.
Proof. exact buyer_fee_single_coin. Qed.
Print Assumptions C20_buyer_fee_single_coin.

(** One unit below the quoted flat + ratio of one denom, paid as one coin, is refused. *)
Theorem C20_bid_quote_minus_one_single : forall m s price C F R d fl x,
  market_ok m -> stored_of m s -> 0 < amt_of price ->
  quote_bid (Some s) price = Some (C, F, R) ->
  (F = [] /\ fl = 0 \/ In (d, fl) F) -> (R = [] /\ x = 0 \/ In (d, x) R) -> (F <> [] \/ R <> []) ->
  validate_buyer_settlement_fee (m_buyer_flat m) (m_buyer_ratios m) price
    (if 0 <? fl + x - 1 then [(d, fl + x - 1)] else []) = false.
Proof. exact bid_quote_minus_one_single. Qed.
Print Assumptions C20_bid_quote_minus_one_single.

Theorem C20_bid_quote_none : forall m s price accs fees cf,
  market_wf m -> stored_of m s -> 0 <= amt_of price ->
  quote_bid (Some s) price = None -> admits (Some s) accs (ACreateBid price fees cf) = false.
Proof. exact bid_quote_none. Qed.
Print Assumptions C20_bid_quote_none.

(** REFUTED without the positivity hypothesis of [C20_bid_quote_sufficient] (findings/C20.md):
    for a buyer ratio whose fee amount is 0 the query quotes "0 <denom>"; a request paying exactly
    the quoted options carries no coin for it (a zero coin is not a valid coin) and is refused. *)
Theorem C20_bid_quote_zero_ratio_refuted :
  exists s price C F R f x,
    market_ok zq_market /\ create_market zq_market = Some s /\ 0 < amt_of price /\
    quote_bid (Some s) price = Some (C, F, R) /\ pick F f /\ pick R x /\
    x = Some ("bcoin"%string, 0) /\
    validate_buyer_settlement_fee (m_buyer_flat zq_market) (m_buyer_ratios zq_market) price (offer f x) = false /\
    admits_msg (Some s) [] (ACreateBid price (offer f x) None) = false.
Proof. exact bid_quote_zero_ratio_refuted. Qed.
Print Assumptions C20_bid_quote_zero_ratio_refuted.

(** ** Commitment settlement fee quote *)

(** CommitmentSettlementFeeCalc and the fee step of MsgMarketCommitmentSettle run the same
    function ([commitment_quote]); it is defined exactly when the market has no bips, or has an
    intermediary denom, a NAV from it to the fee denom (unless they coincide) and a NAV to the
    intermediary denom for every input denom other than these two.  Without bips nothing is charged. *)
Theorem C20_commitment_quote_defined_iff : forall mk fd navs total,
  let m := s_mkt (tables mk) in
  commitment_quote mk fd navs total <> None <->
  m_bips m = 0 \/
  (m_interm m <> ""%string /\
   (m_interm m = fd \/ lookup_nav navs (m_interm m) fd <> None) /\
   (forall c, In c total -> denom_of c = fd \/ denom_of c = m_interm m \/ lookup_nav navs (denom_of c) (m_interm m) <> None)).
Proof. exact commitment_quote_defined_iff. Qed.
Print Assumptions C20_commitment_quote_defined_iff.

Theorem C20_commitment_quote_no_bips : forall mk fd navs total,
  m_bips (s_mkt (tables mk)) = 0 -> commitment_quote mk fd navs total = Some None.
Proof. exact commitment_quote_no_bips. Qed.
Print Assumptions C20_commitment_quote_no_bips.

(** Non-vacuity: a well-formed market with flat and ratio buyer fees, a wildcard and an
    un-normalised commitment attribute; an account that is admitted for a bid paying
    flat + ratio in one coin, refused one unit below, admitted for a commitment. *)
Definition ex_market : market :=
  {| m_create_ask := []; m_create_bid := [("acoin"%string, 3)]; m_create_com := [];
     m_seller_flat := []; m_seller_ratios := [ {| r_pd := "pcoin"; r_pa := 100; r_fd := "pcoin"; r_fa := 1 |} ];
     m_buyer_flat := [("acoin"%string, 10)];
     m_buyer_ratios := [ {| r_pd := "pcoin"; r_pa := 3; r_fd := "acoin"; r_fa := 2 |} ];
     m_accepting_orders := true; m_user_settle := true; m_accepting_commitments := true;
     m_req_ask := []; m_req_bid := ["*.KYC.prov "%string]; m_req_com := [" KYC.Prov "%string];
     m_bips := 50; m_interm := "interm" |}.
Definition ex_accs : list bytes := [bytes_of "buyer.kyc.prov"; bytes_of "kyc.prov"].

Example C20_witness :
  market_wf ex_market /\
  is_some (create_market ex_market) = true /\
  admits (create_market ex_market) ex_accs
        (ACreateBid ("pcoin"%string, 100) [("acoin"%string, 77)] (Some ("acoin"%string, 3))) = true /\
  admits (create_market ex_market) ex_accs
        (ACreateBid ("pcoin"%string, 100) [("acoin"%string, 76)] (Some ("acoin"%string, 3))) = false /\
  admits (create_market ex_market) ex_accs (ACommit None) = true /\
  admits (create_market ex_market) [bytes_of "kyc.prov"]
        (ACreateBid ("pcoin"%string, 100) [("acoin"%string, 77)] (Some ("acoin"%string, 3))) = false.
Proof.
  split.
  - unfold market_wf, flats_wf, ratios_wf, ratio_wf; cbn.
    repeat split; repeat constructor; cbn; try lia; intros H; exact H.
  - vm_compute. repeat split.
Qed.

(** Non-vacuity of the update theorems: a fee message that replaces the buyer flat option and a
    required-attribute message that swaps the bid requirement are both applied, and change who is
    admitted and for how much. *)
Definition ex_fee_msg : fee_msg :=
  {| fm_add_create_ask := []; fm_rem_create_ask := []; fm_add_create_bid := []; fm_rem_create_bid := [];
     fm_add_create_com := []; fm_rem_create_com := []; fm_add_seller_flat := []; fm_rem_seller_flat := [];
     fm_add_seller_ratios := []; fm_rem_seller_ratios := [];
     fm_add_buyer_flat := [("acoin"%string, 20)]; fm_rem_buyer_flat := [];
     fm_add_buyer_ratios := []; fm_rem_buyer_ratios := []; fm_set_bips := 0; fm_unset_bips := true |}.
Definition ex_attr_msg : attr_msg :=
  {| am_auth := true; am_ask_add := []; am_ask_rem := [];
     am_bid_add := [" Gold.Club"%string]; am_bid_rem := ["*.kyc.PROV"%string];
     am_com_add := []; am_com_rem := [] |}.

Example C20_update_witness :
  let ops := [UFees ex_fee_msg; UAttrs ex_attr_msg] in
  match create_market ex_market with
  | Some s =>
      let s' := fold_left step_stored ops s in
      m_buyer_flat (s_mkt s') = [("acoin"%string, 20)] /\ m_bips (s_mkt s') = 0 /\
      s_req_bid s' = [bytes_of "gold.club"] /\
      admits_msg (Some s') ex_accs
        (ACreateBid ("pcoin"%string, 100) [("acoin"%string, 87)] (Some ("acoin"%string, 3))) = false /\
      admits_msg (Some s') [bytes_of "gold.club"]
        (ACreateBid ("pcoin"%string, 100) [("acoin"%string, 87)] (Some ("acoin"%string, 3))) = true /\
      admits_msg (Some s') [bytes_of "gold.club"]
        (ACreateBid ("pcoin"%string, 100) [("acoin"%string, 86)] (Some ("acoin"%string, 3))) = false
  | None => False
  end.
Proof. vm_compute. repeat split. Qed.
