(** C14 — Metadata entries keep referential integrity and faithful lookups.
    Only theorem statements here; each is closed by [exact] of a lemma proved in Proofs/
    (AddressProofs, Bech32Proofs, AddressTextProofs, RefsProofs, RefsExtraProofs, SpecRefsProofs,
    RefsBytesProofs, Utf8NameProofs) about the models Metadata/Address.v, Metadata/Bech32.v,
    Metadata/Refs.v, Metadata/RefsBytes.v (store keys at byte level), Metadata/Utf8Name.v. *)
From Coq Require Import String Ascii.
From Coq Require Import NArith ZArith List Bool.
Import ListNotations.
From PV Require Import Metadata.Address Metadata.Bech32Case Metadata.Refs Metadata.RefsBytes Metadata.Utf8Name.
From PV Require Import Proofs.AddressProofs Proofs.Bech32Proofs Proofs.AddressTextProofs Proofs.RefsProofs.
From PV Require Import Proofs.RefsExtraProofs Proofs.SpecRefsProofs Proofs.RefsBytesProofs Proofs.Utf8NameProofs.
From PV Require Import Corr.C14 Proofs.C14CheckerProofs Proofs.Bech32CaseProofs.

(** ** Addresses *)

(** Every address of every type built from 16 byte parts parses back from its bytes to exactly
    its parts, has the right type, and the address derived for its parent (the scope of a session
    or record, the contract specification of a record specification) is the parent's address,
    itself well formed and parsing to itself. *)
Theorem C14_address_roundtrip : forall a, maddr_wf a ->
  parse (maddr_bytes a) = Some a /\
  verify_format (maddr_bytes a) = Some (maddr_type a) /\
  (forall p, maddr_parent a = Some p ->
     maddr_wf p /\ parse (maddr_bytes p) = Some p /\
     match p with
     | AScope _ => as_scope_address (maddr_bytes a) = Some (maddr_bytes p)
     | AContractSpec _ => as_contract_spec_address (maddr_bytes a) = Some (maddr_bytes p)
     | _ => False
     end).
Proof. exact address_roundtrip. Qed.
Print Assumptions C14_address_roundtrip.

(** Arbitrary byte strings: whatever the format check accepts is the bytes of exactly one well
    formed structured address (nothing is lost or invented by parsing). *)
Theorem C14_address_parse_sound : forall bz a,
  parse bz = Some a -> maddr_bytes a = bz /\ maddr_wf a.
Proof. exact parse_sound. Qed.
Print Assumptions C14_address_parse_sound.

Section Hash.
  (** SHA-256 (first 16 bytes of the digest of the normalised name): only assumed to return 16
      bytes. *)
  Variable name_hash : list N -> list N.
  Hypothesis name_hash_len : forall n, length (name_hash n) = 16%nat.

  (** The Go constructors, on 16 byte UUIDs and a name that is not blank: each builds the bytes of
      the expected structured address, these are well formed, and building a child from its
      parent's address (scope -> session, session -> record, contract spec -> record spec) agrees
      with building it directly. *)
  Theorem C14_address_constructors : forall u1 u2 name,
    length u1 = 16%nat -> length u2 = 16%nat -> normalize_name name <> [] ->
    let nh := name_hash (normalize_name name) in
    scope_addr u1 = maddr_bytes (AScope u1) /\
    session_addr u1 u2 = maddr_bytes (ASession u1 u2) /\
    record_addr name_hash u1 name = Some (maddr_bytes (ARecord u1 nh)) /\
    scope_spec_addr u1 = maddr_bytes (AScopeSpec u1) /\
    contract_spec_addr u1 = maddr_bytes (AContractSpec u1) /\
    record_spec_addr name_hash u1 name = Some (maddr_bytes (ARecordSpec u1 nh)) /\
    maddr_wf (ASession u1 u2) /\ maddr_wf (ARecord u1 nh) /\ maddr_wf (ARecordSpec u1 nh) /\
    as_session_address (scope_addr u1) u2 = Some (session_addr u1 u2) /\
    as_record_address name_hash (session_addr u1 u2) name = record_addr name_hash u1 name /\
    as_record_spec_address name_hash (contract_spec_addr u1) name = record_spec_addr name_hash u1 name.
  Proof. exact (constructors_wf name_hash name_hash_len). Qed.
End Hash.
Print Assumptions C14_address_constructors.

(** *** Names outside ASCII.  The name hashed into a record / record-specification address is
    strings.ToLower(strings.TrimSpace(name)) on UTF-8 (Metadata/Utf8Name.v: UTF-8 decoding and
    TrimSpace complete, unicode.ToLower on the transcribed ranges, [None] elsewhere). *)

(** On ASCII names the UTF-8 model is the ASCII model the theorems above use. *)
Theorem C14_utf8_names_extend_ascii : forall s, forallb (fun b => b <? 128)%N s = true ->
  trim_u s = trim s /\ normalize_u s = Some (normalize_name s).
Proof. exact (fun s H => conj (trim_u_ascii s H) (normalize_u_ascii s H)). Qed.
Print Assumptions C14_utf8_names_extend_ascii.

(** UTF-8 decoding loses no byte, trimming removes only a prefix and a suffix, and what is left
    neither starts nor ends with a white-space rune. *)
Theorem C14_utf8_trim : forall s,
  flat_map u_bytes (decode s) = s /\ (exists a b, s = a ++ trim_u s ++ b) /\
  (match trim_runes (decode s) with u :: _ => space_u u = false | [] => True end) /\
  (match rev (trim_runes (decode s)) with u :: _ => space_u u = false | [] => True end).
Proof.
  exact (fun s => conj (decode_bytes s) (conj (trim_u_infix s)
           (conj (proj1 (trim_runes_ends (decode s))) (proj2 (trim_runes_ends (decode s)))))).
Qed.
Print Assumptions C14_utf8_trim.

(** Every Unicode scalar value encodes to bytes that decode to exactly that rune (so the U+FFFD
    that ToLower writes for an invalid byte reads back as U+FFFD). *)
Theorem C14_utf8_decode_encode : forall r, (r <= 1114111)%N -> ~ (55296 <= r <= 57343)%N ->
  decode (encode r) = [UR r true (encode r)].
Proof. exact decode_encode. Qed.
Print Assumptions C14_utf8_decode_encode.

Section HashU.
  Variable name_hash : list N -> list N.
  Hypothesis name_hash_len : forall n, length (name_hash n) = 16%nat.

  (** WHATEVER the normal form of a name is (any non-empty byte string - e.g. the one Go computed
      for a name outside the modelled ranges), the record and the record-specification address
      built from it parse back to their parts, carry the SAME name hash, and their derived parents
      are the scope / the contract specification. *)
  Theorem C14_named_addresses_consistent : forall su cu norm,
    length su = 16%nat -> length cu = 16%nat -> norm <> [] ->
    exists r s, named_addr name_hash TRecord su norm = Some r /\
      named_addr name_hash TRecordSpec cu norm = Some s /\
      parse r = Some (ARecord su (name_hash norm)) /\ parse s = Some (ARecordSpec cu (name_hash norm)) /\
      name_hash_of r = Some (name_hash norm) /\ name_hash_of s = Some (name_hash norm) /\
      as_scope_address r = Some (scope_addr su) /\ as_contract_spec_address s = Some (contract_spec_addr cu).
  Proof. exact (named_addr_parts name_hash name_hash_len). Qed.

  (** Names with the same normal form (case variants, surrounding white space of any kind) have
      the same record and record-specification address. *)
  Theorem C14_same_normal_form_same_address : forall su n1 n2 x,
    normalize_u n1 = Some x -> normalize_u n2 = Some x ->
    record_addr_u name_hash su n1 = record_addr_u name_hash su n2 /\
    record_spec_addr_u name_hash su n1 = record_spec_addr_u name_hash su n2.
  Proof. exact (same_norm_same_addr name_hash). Qed.
End HashU.
Print Assumptions C14_named_addresses_consistent.
Print Assumptions C14_same_normal_form_same_address.

(** ** Bech32 *)

(** 8 -> 5 bit regrouping with padding followed by 5 -> 8 without padding is the identity on every
    byte string, and the 5 bit symbols produced are < 32. *)
Theorem C14_convert_bits_roundtrip : forall data,
  Forall (fun b => (b < 256)%N) data ->
  exists d5, convert_bits 8 5 true data = Some d5 /\
             Forall (fun v => (v < 32)%N) d5 /\
             convert_bits 5 8 false d5 = Some data.
Proof. exact convert_bits_roundtrip. Qed.
Print Assumptions C14_convert_bits_roundtrip.

(** ... and conversely: symbols that regroup to bytes without a rejected remainder are exactly
    the padded regrouping of those bytes (the text form of a byte string is unique). *)
Theorem C14_convert_bits_canonical : forall d5 data,
  Forall (fun v => (v < 32)%N) d5 ->
  convert_bits 5 8 false d5 = Some data ->
  convert_bits 8 5 true data = Some d5 /\ Forall (fun b => (b < 256)%N) data.
Proof. exact convert_bits_roundtrip_rev. Qed.
Print Assumptions C14_convert_bits_canonical.

(** A freshly created checksum always verifies (polymod is xor-linear). *)
Theorem C14_bech32_checksum_verifies : forall hrp data,
  verify_checksum hrp data (create_checksum hrp data) = true.
Proof. exact checksum_verifies_gen. Qed.
Print Assumptions C14_bech32_checksum_verifies.

(** DecodeAndConvert (ConvertAndEncode hrp data) = (hrp, data) for every byte string and every
    non-empty printable lower-case prefix, within the 1023 character limit the SDK decodes with. *)
Theorem C14_bech32_roundtrip : forall hrp data,
  hrp <> [] ->
  Forall (fun c => (33 <= c <= 126)%N /\ ~ (65 <= c <= 90)%N) hrp ->
  Forall (fun b => (b < 256)%N) data ->
  (length hrp + 7 + (8 * length data + 4) / 5 <= 1023)%nat ->
  exists s, convert_and_encode hrp data = Some s /\
            decode_and_convert s = Some (hrp, data).
Proof. exact bech32_roundtrip. Qed.
Print Assumptions C14_bech32_roundtrip.

(** String() of every well formed address parses back (MetadataAddressFromBech32: bech32
    decoding, format check, prefix check) to the same bytes. *)
Theorem C14_address_text_roundtrip : forall a, maddr_wf a ->
  Forall (fun b => (b < 256)%N) (maddr_bytes a) ->
  exists s, to_string (maddr_bytes a) = Some s /\ from_bech32 s = Some (maddr_bytes a).
Proof. exact address_text_roundtrip. Qed.
Print Assumptions C14_address_text_roundtrip.

(** Letter case (BIP-173: a bech32 string is spelled all in lower case or all in upper case, mixed
    case is invalid).  ParseMetadataAddressFromBech32 reads the all-upper-case and the all-lower-case
    spelling of ANY text that is not mixed case exactly as the text itself, and rejects every
    mixed-case text; so String() of every well formed address parses back to the same bytes in
    lower case and in UPPER case, and every spelling of it with some but not all letters in upper
    case is rejected (the clause [check_acase] evaluates on the implementation's answers). *)
Theorem C14_bech32_case_insensitive_parse :
  (forall s, mixed_case s = false ->
     from_bech32 (upper s) = from_bech32 s /\ from_bech32 (lower s) = from_bech32 s) /\
  (forall s, mixed_case s = true -> from_bech32 s = None) /\
  (forall a, maddr_wf a -> Forall (fun b => (b < 256)%N) (maddr_bytes a) ->
     exists s, to_string (maddr_bytes a) = Some s /\
       from_bech32 s = Some (maddr_bytes a) /\ from_bech32 (upper s) = Some (maddr_bytes a) /\
       from_bech32 (lower s) = Some (maddr_bytes a) /\
       forall m, lower m = lower s -> mixed_case m = true -> from_bech32 m = None).
Proof. exact (conj from_bech32_case (conj from_bech32_mixed address_text_case)). Qed.
Print Assumptions C14_bech32_case_insensitive_parse.

(** ** Referential integrity (over ALL histories) *)
Open Scope Z_scope.

(** After every history of messages and keeper calls other than the two raw writers
    SetSession/SetRecord (which store any id they are handed; the message handlers guard them):
    every session belongs to a stored scope, every record to a stored scope and a stored
    session. *)
Theorem C14_refs_inv : forall ops, forallb guarded ops = true ->
  let st := run ops in
  (forall s, In s (sessions st) -> exists sc, In sc (scopes st) /\ sc_id sc = se_scope s) /\
  (forall r, In r (records st) ->
     (exists sc, In sc (scopes st) /\ sc_id sc = r_scope r) /\
     (exists s, In s (sessions st) /\ se_scope s = r_scope r /\ se_uuid s = r_sess r)).
Proof. exact refs_inv. Qed.
Print Assumptions C14_refs_inv.


(** *** Specification references (over ALL guarded histories).
    What the code keeps intact, exactly: in every history of messages and keeper calls other than
    the raw writers SetScope / SetScopeSpecification / SetRecordSpecification and the keeper's
    bare RemoveContractSpecification ([spec_guarded]), every stored scope's specification is a
    stored scope specification (ValidateWriteScope / ValidateUpdateScopeOwners check it,
    isScopeSpecUsed blocks its removal), every contract specification a scope specification lists
    is stored (ValidateWriteScopeSpecification checks the NEW ids, isContractSpecUsed blocks the
    removal), and every record specification's contract specification is stored
    (MsgDeleteContractSpecification removes the record specifications first). *)
Theorem C14_spec_refs_inv : forall ops, forallb spec_guarded ops = true ->
  let st := run ops in
  (forall sc, In sc (scopes st) -> isSome (find_sspec st (sc_spec sc)) = true) /\
  (forall sp c, In sp (sspecs st) -> In c (ss_cspecs sp) -> isSome (find_cspec st c) = true) /\
  (forall r, In r (rspecs st) -> isSome (find_cspec st (rs_cspec r)) = true).
Proof. exact spec_refs_inv. Qed.
Print Assumptions C14_spec_refs_inv.

(** What sessions and records refer to (a session's contract specification; a record's record
    specification = its session's contract specification + its name) is checked when they are
    written and survives every guarded history WITHOUT removals of contract / record
    specifications ... *)
Theorem C14_spec_refs_of_sessions_and_records : forall ops,
  forallb (fun o => guarded o && negb (removes_cr_spec o)) ops = true ->
  let st := run ops in
  (forall se, In se (sessions st) -> isSome (find_cspec st (se_spec se)) = true) /\
  (forall r, In r (records st) ->
     exists se, find_session st (r_scope r) (r_sess r) = Some se /\
                isSome (find_rspec st (se_spec se) (r_name r)) = true).
Proof. exact use_refs_inv. Qed.
Print Assumptions C14_spec_refs_of_sessions_and_records.

(** ... and NOT those removals: isContractSpecUsed looks only at scope specifications ("TODO: Look
    for sessions"), isRecordSpecUsed is the constant false ("TODO: Check for records").  By
    MESSAGES alone (all accepted) a session is left with a deleted contract specification ... *)
Theorem C14_session_contract_spec_refuted :
  forallb guarded w_session = true /\ forallb spec_guarded w_session = true /\
  oks w_session = [true; true; true; true; true; true] /\
  sessions (run w_session) = [Se 1 1 1] /\ find_cspec (run w_session) 1 = None.
Proof. exact session_cspec_refuted. Qed.
Print Assumptions C14_session_contract_spec_refuted.

(** ... and a record with a deleted record specification. *)
Theorem C14_record_spec_refuted :
  forallb guarded w_record = true /\ forallb spec_guarded w_record = true /\
  oks w_record = [true; true; true; true; true; true; true] /\
  records (run w_record) = [Re 1 7 1] /\ find_session (run w_record) 1 1 = Some (Se 1 1 1) /\
  find_rspec (run w_record) 1 7 = None.
Proof. exact record_rspec_refuted. Qed.
Print Assumptions C14_record_spec_refuted.

(** The exclusions of [spec_guarded] are needed: the keeper's RemoveContractSpecification leaves
    the record specifications; the raw writers store dangling ids, a message then keeps an id the
    scope specification already lists (never re-checked), data access can be edited on a scope
    without specification but owners cannot. *)
Theorem C14_spec_refs_exclusions_needed :
  (let ops := [MWriteCSpec (Cs 1 [1]); MWriteRSpec (Rs 1 7); KRemoveCSpec 1] in
   oks ops = [true; true; true] /\ rspecs (run ops) = [Rs 1 7] /\ find_cspec (run ops) 1 = None) /\
  (let ops := [KSetScope (Sc 1 9 [1] []); MAddDataAccess 1 [2]; MAddOwners 1 [2]] in
   oks ops = [true; true; false] /\ scopes (run ops) = [Sc 1 9 [1] [2]] /\ find_sspec (run ops) 9 = None) /\
  (let ops := [KSetSSpec (Ss 1 [1] [9]); MWriteSSpec (Ss 1 [2] [9]); MWriteSSpec (Ss 2 [2] [9])] in
   oks ops = [true; true; false] /\ sspecs (run ops) = [Ss 1 [2] [9]] /\ find_cspec (run ops) 9 = None).
Proof. exact (conj rspec_orphan_refuted raw_writers_dangle). Qed.
Print Assumptions C14_spec_refs_exclusions_needed.

(** *** Referential integrity at BYTE level (Metadata/RefsBytes.v: the interned store of Refs.v
    rendered into the real key layout by an environment giving the bytes of every id).  For every
    environment with 16 byte UUIDs and name hashes, after every guarded history: the scope address
    computed FROM THE BYTES of a session key (AsScopeAddress) is the key of a stored scope - the
    scope the store model files the session under; the same for a record key, whose SessionId
    field is moreover the key of a stored session of the same scope. *)
Theorem C14_refs_inv_bytes : forall e ops, env_len e -> forallb guarded ops = true ->
  let st := run ops in let K := primary_keys e st in
  (forall s, In s (sessions st) ->
     as_scope_address (session_key e s) = Some (scope_key e (se_scope s)) /\
     exists p, as_scope_address (session_key e s) = Some p /\ In p K /\ is_type TScope p = true) /\
  (forall r, In r (records st) ->
     as_scope_address (record_key e r) = Some (scope_key e (r_scope r)) /\
     record_key e r = type_byte TRecord :: bytes_1_17 (record_session_id e r) ++ e_name e (r_name r) /\
     exists p, as_scope_address (record_key e r) = Some p /\ In p K /\ is_type TScope p = true /\
               In (record_session_id e r) K /\ as_scope_address (record_session_id e r) = Some p).
Proof.
  exact (fun e ops He Hg =>
    conj (fun s Hs => conj (as_scope_session_key e s He) (proj1 (refs_inv_bytes e ops He Hg) s Hs))
         (fun r Hr => conj (as_scope_record_key e r He)
                        (conj (record_key_from_session_id e r He) (proj2 (refs_inv_bytes e ops He Hg) r Hr)))).
Qed.
Print Assumptions C14_refs_inv_bytes.

(** The primary key set of the store is closed under AsScopeAddress. *)
Theorem C14_primary_keys_closed : forall e ops, env_len e -> forallb guarded ops = true ->
  let K := primary_keys e (run ops) in
  forall k p, In k K -> as_scope_address k = Some p -> In p K.
Proof. exact primary_keys_closed. Qed.
Print Assumptions C14_primary_keys_closed.

(** IterateSessions(scope) / IterateRecords(scope) are prefix scans with the scope's iterator
    prefixes: on the byte keys they return exactly the entries the interned model files under
    that scope (any state; the interning injective on the scope ids in use). *)
Theorem C14_scope_scans_exact : forall e st id, env_len e ->
  (inj_on (id :: map se_scope (sessions st)) (e_scope e) ->
   sessions_under (scope_key e id) (primary_keys e st) =
   map (session_key e) (filter (fun s => se_scope s =? id)%Z (sessions st))) /\
  (inj_on (id :: map r_scope (records st)) (e_scope e) ->
   records_under (scope_key e id) (primary_keys e st) =
   map (record_key e) (filter (fun r => r_scope r =? id)%Z (records st))).
Proof.
  exact (fun e st id He => conj (sessions_under_exact e st id He) (records_under_exact e st id He)).
Qed.
Print Assumptions C14_scope_scans_exact.

(** Distinct entries have distinct byte keys after ANY history. *)
Theorem C14_byte_keys_unique : forall e ops, env_len e -> let st := run ops in
  inj_on (map sc_id (scopes st) ++ map se_scope (sessions st) ++ map r_scope (records st)) (e_scope e) ->
  inj_on (map se_uuid (sessions st)) (e_sess e) -> inj_on (map r_name (records st)) (e_name e) ->
  NoDup (primary_keys e st).
Proof. exact primary_keys_nodup. Qed.
Print Assumptions C14_byte_keys_unique.

(** From [C14_refs_inv]: a scope id that is not stored has nothing under it. *)
Theorem C14_no_scope_nothing_under_it : forall ops id, forallb guarded ops = true ->
  find_scope (run ops) id = None ->
  (forall s, In s (sessions (run ops)) -> se_scope s <> id) /\
  (forall r, In r (records (run ops)) -> r_scope r <> id).
Proof. exact no_scope_nothing. Qed.
Print Assumptions C14_no_scope_nothing_under_it.

(** Deleting a scope, after ANY history (raw writers included): the keeper's RemoveScope leaves
    no entry, session, record or lookup entry of that scope (this is the statement the code
    violated before fix 293c28892: a session without records survived) ... *)
Theorem C14_remove_scope_leaves_nothing : forall ops id,
  isSome (find_scope (run ops) id) = true ->
  let st' := remove_scope (run ops) id in
  (forall sc, In sc (scopes st') -> sc_id sc <> id) /\
  (forall s, In s (sessions st') -> se_scope s <> id) /\
  (forall r, In r (records st') -> r_scope r <> id) /\
  (forall a, ~ In (a, id) (ix_as st')) /\ (forall x, ~ In (x, id) (ix_ss st')).
Proof. exact remove_scope_clean. Qed.
Print Assumptions C14_remove_scope_leaves_nothing.

(** ... and an accepted MsgDeleteScope additionally leaves no net asset value of it. *)
Theorem C14_delete_scope_leaves_nothing : forall ops id st',
  step (run ops) (MDeleteScope id) = (st', true) ->
  ((forall sc, In sc (scopes st') -> sc_id sc <> id) /\
   (forall s, In s (sessions st') -> se_scope s <> id) /\
   (forall r, In r (records st') -> r_scope r <> id) /\
   (forall a, ~ In (a, id) (ix_as st')) /\ (forall x, ~ In (x, id) (ix_ss st'))) /\
  (forall d p, ~ In (id, d, p) (navs st')).
Proof. exact delete_scope_clean. Qed.
Print Assumptions C14_delete_scope_leaves_nothing.


(** The keeper's RemoveScope by itself does NOT remove the scope's net asset values (the message
    handler calls RemoveNetAssetValues after it; RemoveScope has no other caller in /repo). *)
Theorem C14_remove_scope_keeps_navs_refuted :
  let ops := [MWriteCSpec (Cs 1 [1]); MWriteSSpec (Ss 1 [1] [1]); MWriteScope (Sc 1 1 [1] []) 25;
              KSetNav 1 1 7] in
  navs (run ops) = [(1, 1, 7); (1, 0, 25)] /\
  (let st' := fst (step (run ops) (KRemoveScope 1)) in
   scopes st' = [] /\ navs st' = [(1, 1, 7); (1, 0, 25)]) /\
  (let st' := fst (step (run ops) (MDeleteScope 1)) in scopes st' = [] /\ navs st' = []).
Proof. exact remove_scope_keeps_navs_refuted. Qed.
Print Assumptions C14_remove_scope_keeps_navs_refuted.

(** Object store locators are keyed by ACCOUNT: only the three locator messages change them, so
    deleting a scope (by message or keeper call) leaves them all; GetOSLocatorByScope lists the
    locators of the scope's owner entries. *)
Theorem C14_scope_operations_leave_locators : forall st o,
  (match o with MBindLoc _ _ _ | MDelLoc _ | MModLoc _ _ => false | _ => true end) = true ->
  locs (fst (step st o)) = locs st.
Proof. exact locs_frame_match. Qed.
Print Assumptions C14_scope_operations_leave_locators.

(** Removing a session's last record removes the session: in EVERY state, RemoveRecord deletes
    the record, and if no record of its session is left the session is gone too; the same through
    MsgDeleteRecord and when MsgWriteRecord moves a record to another session. *)
Theorem C14_last_record_removes_session : forall st su n r,
  find_record st su n = Some r ->
  (let st' := remove_record st su n in
   find_record st' su n = None /\
   (session_has_records st' su (r_sess r) = false -> find_session st' su (r_sess r) = None)) /\
  (forall st', step st (MDeleteRecord su n) = (st', true) ->
   find_record st' su n = None /\
   (session_has_records st' su (r_sess r) = false -> find_session st' su (r_sess r) = None)).
Proof.
  exact (fun st su n r H =>
    conj (last_record_removes_session st su n r H)
         (fun st' Hs => delete_record_msg st su n r st' H Hs)).
Qed.
Print Assumptions C14_last_record_removes_session.

Theorem C14_moved_record_cleans_old_session : forall st r e st',
  find_record st (r_scope r) (r_name r) = Some e -> r_sess e <> r_sess r ->
  step st (MWriteRecord r) = (st', true) ->
  find_record st' (r_scope r) (r_name r) = Some r /\
  (session_has_records st' (r_scope r) (r_sess e) = false ->
   find_session st' (r_scope r) (r_sess e) = None).
Proof. exact move_record_msg. Qed.
Print Assumptions C14_moved_record_cleans_old_session.

(** Lookups.  An owner / data-access / specification-owner entry is a bech32 string; the same
    account has two legal spellings (entry a and 100+a, [acct] decodes).  After ANY history each of
    the five lookups (account -> scope by owners and data access, scope spec -> scope, account ->
    scope spec, contract spec -> scope spec, account -> contract spec) holds exactly the keys named
    by stored content, whatever the spelling of the entries. *)
Theorem C14_indexes_exact : forall ops, let st := run ops in
  (forall k, In k (ix_as st) <-> exists s, In s (scopes st) /\ In k (scope_keys_as s)) /\
  (forall k, In k (ix_ss st) <-> exists s, In s (scopes st) /\ In k (scope_keys_ss s)) /\
  (forall k, In k (ix_asp st) <-> exists s, In s (sspecs st) /\ In k (sspec_keys_asp s)) /\
  (forall k, In k (ix_cs st) <-> exists s, In s (sspecs st) /\ In k (sspec_keys_cs s)) /\
  (forall k, In k (ix_ac st) <-> exists s, In s (cspecs st) /\ In k (cspec_keys_ac s)).
Proof. exact indexes_exact. Qed.
Print Assumptions C14_indexes_exact.


(** The by-address lookup as a query, after ANY history - in particular after MsgAddScopeOwner /
    MsgDeleteScopeOwner / MsgAddScopeDataAccess / MsgDeleteScopeDataAccess, which go through
    GetScope -> edit the list -> SetScope and are operations of [step]: account [a] lists scope
    [id] iff the stored scope names [a] (in either spelling) as an owner or for data access. *)
Theorem C14_scopes_by_address_lookup : forall ops a id, let st := run ops in
  In (a, id) (ix_as st) <->
  exists sc, find_scope st id = Some sc /\ In a (map acct (sc_da sc ++ sc_owners sc)).
Proof. exact scopes_by_address_lookup. Qed.
Print Assumptions C14_scopes_by_address_lookup.

(** What the two owner messages do when accepted: AddScopeOwner appends parties none of which
    IsSameAs (address string and role) an existing one, on a scope whose specification exists, and
    optional parties only on a scope with party rollup; DeleteScopeOwner removes every party with a
    listed address, all of which were owners' addresses, and never the last owner. *)
Theorem C14_owner_messages : forall st id l st' sc, find_scope st id = Some sc ->
  (step st (MAddOwners id l) = (st', true) ->
   find_scope st' id = Some (ScR id (sc_spec sc) (sc_owners sc ++ l) (sc_da sc) (sc_rollup sc)) /\
   l <> [] /\ (forall a, In a l -> ~ In (p_same a) (map p_same (sc_owners sc))) /\
   optional_ok (sc_rollup sc) (sc_owners sc ++ l) = true /\
   isSome (find_sspec st (sc_spec sc)) = true) /\
  (step st (MDelOwners id l) = (st', true) ->
   find_scope st' id = Some (ScR id (sc_spec sc) (drop_addrs l (sc_owners sc)) (sc_da sc) (sc_rollup sc)) /\
   drop_addrs l (sc_owners sc) <> [] /\ (forall a, In a l -> In a (map p_entry (sc_owners sc)))).
Proof.
  exact (fun st id l st' sc Hf =>
    conj (add_owners_effect st id l st' sc Hf) (del_owners_effect st id l st' sc Hf)).
Qed.
Print Assumptions C14_owner_messages.

(** Party rollup.  EVERY owner party of a stored scope - required or OPTIONAL, whatever its role,
    the same address under several roles - is listed under its address after ANY history ([acct]
    of a party ignores role and flag; getScopeIndexValues takes every owner party). *)
Theorem C14_every_owner_party_listed : forall ops sc p,
  In sc (scopes (run ops)) -> In p (sc_owners sc) -> In (acct p, sc_id sc) (ix_as (run ops)).
Proof. exact every_owner_party_listed. Qed.
Print Assumptions C14_every_owner_party_listed.

(** An accepted MsgDeleteContractSpecification leaves nothing of it, after ANY history: not the
    contract specification, NONE of its record specifications (however many there are), no entry
    in the owner lookup, and no scope specification lists it. *)
Theorem C14_delete_contract_spec_leaves_nothing : forall ops id st',
  step (run ops) (MDeleteCSpec id) = (st', true) ->
  find_cspec st' id = None /\ (forall r, In r (rspecs st') -> rs_cspec r <> id) /\
  (forall a, ~ In (a, id) (ix_ac st')) /\ (forall x, ~ In (id, x) (ix_cs st')).
Proof. exact delete_cspec_clean_run. Qed.
Print Assumptions C14_delete_contract_spec_leaves_nothing.

(** The statement above was FALSE of the code before fix 722f4df35 (finding
    C14-spec-owner-respelling, findings/C14.md): the two specification writers diffed the owner
    STRINGS ([set_sspec_strdiff], [set_cspec_strdiff]), so an owner whose spelling changed across an
    update had its key written and then deleted.  That variant stores the specification naming the
    account but does not list it; the current writers do.  (Theorem name as requested by the
    coordinator; nothing here concerns key prefixes.) *)
Theorem C14_spec_owner_lookup_prefix_refuted :
  (let s := Ss 1 [103] [] in
   let bad := set_sspec_strdiff (set_sspec init (Ss 1 [3] [])) s in
   let good := set_sspec (set_sspec init (Ss 1 [3] [])) s in
   In s (sspecs bad) /\ In (3, 1) (sspec_keys_asp s) /\ ~ In (3, 1) (ix_asp bad) /\
   In (3, 1) (ix_asp good)) /\
  (let c := Cs 1 [103] in
   let bad := set_cspec_strdiff (set_cspec init (Cs 1 [3])) c in
   let good := set_cspec (set_cspec init (Cs 1 [3])) c in
   In c (cspecs bad) /\ In (3, 1) (cspec_keys_ac c) /\ ~ In (3, 1) (ix_ac bad) /\
   In (3, 1) (ix_ac good)).
Proof. exact spec_owner_strdiff_refuted. Qed.
Print Assumptions C14_spec_owner_lookup_prefix_refuted.

(** Primary entries are keyed uniquely after ANY history. *)
Theorem C14_keys_unique : forall ops, let st := run ops in
  NoDup (map sc_id (scopes st)) /\ NoDup (map (fun s => (se_scope s, se_uuid s)) (sessions st)) /\
  NoDup (map (fun r => (r_scope r, r_name r)) (records st)) /\ NoDup (map ss_id (sspecs st)) /\
  NoDup (map cs_id (cspecs st)) /\ NoDup (map (fun r => (rs_cspec r, rs_name r)) (rspecs st)).
Proof. exact keys_unique. Qed.
Print Assumptions C14_keys_unique.

(** ** The property's executable checkers are sound on the model.
    Corr/C14.v evaluates [p_refs], [p_spec_refs], [p_unique], [p_indexes], [p_listings],
    [p_locs_by_scope] on what the real code returned (the [prop:] tags).  Evaluated on the model's
    own projection [model_obs] after ANY history (guarded where the clause needs it) they never
    fail: a failing [prop:] tag is a behaviour the model cannot show. *)
Theorem C14_checkers_hold_on_model : forall accts sids ssids csids ops b,
  let o := model_obs accts sids ssids csids (run ops) b in
  (forallb guarded ops = true -> p_refs o = true) /\
  (forallb spec_guarded ops = true -> p_spec_refs o = []) /\
  p_unique o = true /\ p_indexes accts ssids csids o = [] /\ p_listings sids csids o = [] /\
  p_locs_by_scope sids o = true.
Proof.
  exact (fun accts sids ssids csids ops b =>
    conj (p_refs_model accts sids ssids csids ops b)
   (conj (p_spec_refs_model accts sids ssids csids ops b)
   (conj (p_unique_model accts sids ssids csids ops b)
   (conj (p_indexes_model accts sids ssids csids ops b)
   (conj (p_listings_model accts sids ssids csids ops b)
         (p_locs_by_scope_model accts sids ssids csids ops b)))))).
Qed.
Print Assumptions C14_checkers_hold_on_model.

(** (used by the last clause) an account has at most one object store locator, after ANY history *)
Theorem C14_one_locator_per_account : forall ops, NoDup (map fst (locs (run ops))).
Proof. exact locs_unique. Qed.
Print Assumptions C14_one_locator_per_account.

(** Non-vacuity.  A concrete guarded history: specs, a scope with two owners, a session without
    records and one with a record that is then moved (its old session disappears), then the scope
    is deleted by message (the record-less session goes too).  The hypothesis [guarded] matters:
    one raw SetSession leaves a session without scope.  A concrete address of each two-part kind. *)
Definition demo : list op :=
  [MWriteCSpec (Cs 1 [1]); MWriteRSpec (Rs 1 7); MWriteSSpec (Ss 1 [2] [1]);
   MWriteScope (Sc 5 1 [1; 2] [3]) 10;
   MWriteSession (Se 5 1 1); MWriteSession (Se 5 2 1); MWriteSession (Se 5 3 1);
   MWriteRecord (Re 5 7 1); MWriteRecord (Re 5 7 2)].
Example C14_witness :
  forallb guarded demo = true /\
  sessions (run demo) = [Se 5 3 1; Se 5 2 1] /\ records (run demo) = [Re 5 7 2] /\
  ix_as (run demo) = [(2, 5); (1, 5); (3, 5)] /\ navs (run demo) = [(5, 0, 10)] /\
  step (run demo) (MDeleteScope 5) =
    (St [] [] [] [Ss 1 [2] [1]] [Cs 1 [1]] [Rs 1 7] [] [] [] [(2, 1)] [(1, 1)] [(1, 1)] [], true) /\
  sessions (run [KSetSession (Se 9 9 9)]) = [Se 9 9 9] /\ scopes (run [KSetSession (Se 9 9 9)]) = [] /\
  ix_as (run [KSetScope (Sc 1 1 [3] []); KSetScope (Sc 1 1 [103] [])]) = [(3, 1)] /\
  ix_asp (run [KSetSSpec (Ss 1 [3] []); KSetSSpec (Ss 1 [103] [])]) = [(3, 1)] /\
  ix_ac (run [KSetCSpec (Cs 1 [3; 103]); KSetCSpec (Cs 1 [103])]) = [(3, 1)] /\
  (* owner messages maintain the lookup; the scope's locator survives its deletion *)
  (let h := demo ++ [MAddOwners 5 [104]; MDelOwners 5 [1; 2]; MBindLoc true 104 3] in
   forallb spec_guarded h = true /\ oks h = repeat true 12 /\
   ix_as (run h) = [(4, 5); (3, 5)] /\ locs_by_scope (run h) 5 = Some [(4, 3)] /\
   locs (fst (step (run h) (MDeleteScope 5))) = [(4, 3)]) /\
  (* party rollup: a required -> optional flip (WriteScope) keeps the entry; optional parties only
     with rollup; the same address under several roles *)
  (let ops := [MWriteCSpec (Cs 1 [1]); MWriteSSpec (Ss 1 [1] [1]);
               MWriteScope (ScR 1 1 [1; 1002] [] true) 0; MWriteScope (ScR 1 1 [1; 101002] [] true) 0;
               MWriteScope (ScR 1 1 [1; 101002] [] false) 0; MAddOwners 1 [102003]; MAddOwners 1 [103]] in
   oks ops = [true; true; true; true; false; true; true] /\
   ix_as (run ops) = [(3, 1); (2, 1); (1, 1)] /\
   scopes (run ops) = [ScR 1 1 [1; 101002; 102003; 103] [] true]) /\
  (* byte level: a concrete environment meets the hypotheses, the store's keys are as laid out *)
  (let e := env_of [repeat 1%N 16; repeat 2%N 16] [repeat 3%N 16] [] [] [repeat 9%N 16] [] [] in
   store_keys e (run [KSetSession (Se 2 1 0); KSetRecord (Re 2 1 1)]) =
     [1%N :: repeat 2%N 16 ++ repeat 3%N 16; 2%N :: repeat 2%N 16 ++ repeat 9%N 16] /\
   sessions_under (scope_key e 2) (primary_keys e (run [KSetSession (Se 2 1 0); KSetSession (Se 1 1 0)])) =
     [1%N :: repeat 2%N 16 ++ repeat 3%N 16]) /\
  (let u := repeat 7%N 16 in let v := repeat 255%N 16 in
   maddr_wf (ARecord u v) /\ parse (maddr_bytes (ARecord u v)) = Some (ARecord u v) /\
   as_scope_address (maddr_bytes (ASession u v)) = Some (maddr_bytes (AScope u)) /\
   from_bech32 (match to_string (maddr_bytes (ARecordSpec u v)) with Some s => s | None => [] end)
     = Some (maddr_bytes (ARecordSpec u v))).
Proof. vm_compute. repeat split. Qed.
