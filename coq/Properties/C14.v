(** C14 — Metadata entries keep referential integrity and faithful lookups.
    Only theorem statements here; each is closed by [exact] of a lemma proved in Proofs/
    (AddressProofs, Bech32Proofs, AddressTextProofs, RefsProofs) about the models
    Metadata/Address.v, Metadata/Bech32.v, Metadata/Refs.v. *)
From Coq Require Import String Ascii.
From Coq Require Import NArith ZArith List.
Import ListNotations.
From PV Require Import Metadata.Address Metadata.Refs.
From PV Require Import Proofs.AddressProofs Proofs.Bech32Proofs Proofs.AddressTextProofs Proofs.RefsProofs.

(** ** Addresses *)

(** Every address of every type built from 16 byte parts parses back from its bytes to exactly
    its parts, has the right type, and the address derived for its parent (the scope of a session
    or record, the contract specification of a record specification) is the parent's address,
    itself well formed and parsing to itself. *)
Theorem C14_address_roundtrip : forall a, maddr_wf a ->
  parse (maddr_bytes a) = Some a /\
  verify_format (maddr_bytes a) = Some (maddr_type a) /\
  (forall p, maddr_parent a = Some p ->
     maddr_wf p /\ parse (maddr_bytes p) = Some p /\
     match p with
     | AScope _ => as_scope_address (maddr_bytes a) = Some (maddr_bytes p)
     | AContractSpec _ => as_contract_spec_address (maddr_bytes a) = Some (maddr_bytes p)
     | _ => False
     end).
Proof. exact address_roundtrip. Qed.
Print Assumptions C14_address_roundtrip.

(** Arbitrary byte strings: whatever the format check accepts is the bytes of exactly one well
    formed structured address (nothing is lost or invented by parsing). *)
Theorem C14_address_parse_sound : forall bz a,
  parse bz = Some a -> maddr_bytes a = bz /\ maddr_wf a.
Proof. exact parse_sound. Qed.
Print Assumptions C14_address_parse_sound.

Section Hash.
  (** SHA-256 (first 16 bytes of the digest of the normalised name): only assumed to return 16
      bytes. *)
  Variable name_hash : list N -> list N.
  Hypothesis name_hash_len : forall n, length (name_hash n) = 16%nat.

  (** The Go constructors, on 16 byte UUIDs and a name that is not blank: each builds the bytes of
      the expected structured address, these are well formed, and building a child from its
      parent's address (scope -> session, session -> record, contract spec -> record spec) agrees
      with building it directly. *)
  Theorem C14_address_constructors : forall u1 u2 name,
    length u1 = 16%nat -> length u2 = 16%nat -> normalize_name name <> [] ->
    let nh := name_hash (normalize_name name) in
    scope_addr u1 = maddr_bytes (AScope u1) /\
    session_addr u1 u2 = maddr_bytes (ASession u1 u2) /\
    record_addr name_hash u1 name = Some (maddr_bytes (ARecord u1 nh)) /\
    scope_spec_addr u1 = maddr_bytes (AScopeSpec u1) /\
    contract_spec_addr u1 = maddr_bytes (AContractSpec u1) /\
    record_spec_addr name_hash u1 name = Some (maddr_bytes (ARecordSpec u1 nh)) /\
    maddr_wf (ASession u1 u2) /\ maddr_wf (ARecord u1 nh) /\ maddr_wf (ARecordSpec u1 nh) /\
    as_session_address (scope_addr u1) u2 = Some (session_addr u1 u2) /\
    as_record_address name_hash (session_addr u1 u2) name = record_addr name_hash u1 name /\
    as_record_spec_address name_hash (contract_spec_addr u1) name = record_spec_addr name_hash u1 name.
  Proof. exact (constructors_wf name_hash name_hash_len). Qed.
End Hash.
Print Assumptions C14_address_constructors.

(** ** Bech32 *)

(** 8 -> 5 bit regrouping with padding followed by 5 -> 8 without padding is the identity on every
    byte string, and the 5 bit symbols produced are < 32. *)
Theorem C14_convert_bits_roundtrip : forall data,
  Forall (fun b => (b < 256)%N) data ->
  exists d5, convert_bits 8 5 true data = Some d5 /\
             Forall (fun v => (v < 32)%N) d5 /\
             convert_bits 5 8 false d5 = Some data.
Proof. exact convert_bits_roundtrip. Qed.
Print Assumptions C14_convert_bits_roundtrip.

(** ... and conversely: symbols that regroup to bytes without a rejected remainder are exactly
    the padded regrouping of those bytes (the text form of a byte string is unique). *)
Theorem C14_convert_bits_canonical : forall d5 data,
  Forall (fun v => (v < 32)%N) d5 ->
  convert_bits 5 8 false d5 = Some data ->
  convert_bits 8 5 true data = Some d5 /\ Forall (fun b => (b < 256)%N) data.
Proof. exact convert_bits_roundtrip_rev. Qed.
Print Assumptions C14_convert_bits_canonical.

(** A freshly created checksum always verifies (polymod is xor-linear). *)
Theorem C14_bech32_checksum_verifies : forall hrp data,
  verify_checksum hrp data (create_checksum hrp data) = true.
Proof. exact checksum_verifies_gen. Qed.
Print Assumptions C14_bech32_checksum_verifies.

(** DecodeAndConvert (ConvertAndEncode hrp data) = (hrp, data) for every byte string and every
    non-empty printable lower-case prefix, within the 1023 character limit the SDK decodes with. *)
Theorem C14_bech32_roundtrip : forall hrp data,
  hrp <> [] ->
  Forall (fun c => (33 <= c <= 126)%N /\ ~ (65 <= c <= 90)%N) hrp ->
  Forall (fun b => (b < 256)%N) data ->
  (length hrp + 7 + (8 * length data + 4) / 5 <= 1023)%nat ->
  exists s, convert_and_encode hrp data = Some s /\
            decode_and_convert s = Some (hrp, data).
Proof. exact bech32_roundtrip. Qed.
Print Assumptions C14_bech32_roundtrip.

(** String() of every well formed address parses back (MetadataAddressFromBech32: bech32
    decoding, format check, prefix check) to the same bytes. *)
Theorem C14_address_text_roundtrip : forall a, maddr_wf a ->
  Forall (fun b => (b < 256)%N) (maddr_bytes a) ->
  exists s, to_string (maddr_bytes a) = Some s /\ from_bech32 s = Some (maddr_bytes a).
Proof. exact address_text_roundtrip. Qed.
Print Assumptions C14_address_text_roundtrip.

(** ** Referential integrity (over ALL histories) *)
Open Scope Z_scope.

(** After every history of messages and keeper calls other than the two raw writers
    SetSession/SetRecord (which store any id they are handed; the message handlers guard them):
    every session belongs to a stored scope, every record to a stored scope and a stored
    session. *)
Theorem C14_refs_inv : forall ops, forallb guarded ops = true ->
  let st := run ops in
  (forall s, In s (sessions st) -> exists sc, In sc (scopes st) /\ sc_id sc = se_scope s) /\
  (forall r, In r (records st) ->
     (exists sc, In sc (scopes st) /\ sc_id sc = r_scope r) /\
     (exists s, In s (sessions st) /\ se_scope s = r_scope r /\ se_uuid s = r_sess r)).
Proof. exact refs_inv. Qed.
Print Assumptions C14_refs_inv.

(** ... so a scope id that is not stored has nothing under it. *)
Theorem C14_no_scope_nothing_under_it : forall ops id, forallb guarded ops = true ->
  find_scope (run ops) id = None ->
  (forall s, In s (sessions (run ops)) -> se_scope s <> id) /\
  (forall r, In r (records (run ops)) -> r_scope r <> id).
Proof. exact no_scope_nothing. Qed.
Print Assumptions C14_no_scope_nothing_under_it.

(** Deleting a scope, after ANY history (raw writers included): the keeper's RemoveScope leaves
    no entry, session, record or lookup entry of that scope (this is the statement the code
    violated before fix 293c28892: a session without records survived) ... *)
Theorem C14_remove_scope_leaves_nothing : forall ops id,
  isSome (find_scope (run ops) id) = true ->
  let st' := remove_scope (run ops) id in
  (forall sc, In sc (scopes st') -> sc_id sc <> id) /\
  (forall s, In s (sessions st') -> se_scope s <> id) /\
  (forall r, In r (records st') -> r_scope r <> id) /\
  (forall a, ~ In (a, id) (ix_as st')) /\ (forall x, ~ In (x, id) (ix_ss st')).
Proof. exact remove_scope_clean. Qed.
Print Assumptions C14_remove_scope_leaves_nothing.

(** ... and an accepted MsgDeleteScope additionally leaves no net asset value of it. *)
Theorem C14_delete_scope_leaves_nothing : forall ops id st',
  step (run ops) (MDeleteScope id) = (st', true) ->
  ((forall sc, In sc (scopes st') -> sc_id sc <> id) /\
   (forall s, In s (sessions st') -> se_scope s <> id) /\
   (forall r, In r (records st') -> r_scope r <> id) /\
   (forall a, ~ In (a, id) (ix_as st')) /\ (forall x, ~ In (x, id) (ix_ss st'))) /\
  (forall d p, ~ In (id, d, p) (navs st')).
Proof. exact delete_scope_clean. Qed.
Print Assumptions C14_delete_scope_leaves_nothing.

(** Removing a session's last record removes the session: in EVERY state, RemoveRecord deletes
    the record, and if no record of its session is left the session is gone too; the same through
    MsgDeleteRecord and when MsgWriteRecord moves a record to another session. *)
Theorem C14_last_record_removes_session : forall st su n r,
  find_record st su n = Some r ->
  (let st' := remove_record st su n in
   find_record st' su n = None /\
   (session_has_records st' su (r_sess r) = false -> find_session st' su (r_sess r) = None)) /\
  (forall st', step st (MDeleteRecord su n) = (st', true) ->
   find_record st' su n = None /\
   (session_has_records st' su (r_sess r) = false -> find_session st' su (r_sess r) = None)).
Proof.
  exact (fun st su n r H =>
    conj (last_record_removes_session st su n r H)
         (fun st' Hs => delete_record_msg st su n r st' H Hs)).
Qed.
Print Assumptions C14_last_record_removes_session.

Theorem C14_moved_record_cleans_old_session : forall st r e st',
  find_record st (r_scope r) (r_name r) = Some e -> r_sess e <> r_sess r ->
  step st (MWriteRecord r) = (st', true) ->
  find_record st' (r_scope r) (r_name r) = Some r /\
  (session_has_records st' (r_scope r) (r_sess e) = false ->
   find_session st' (r_scope r) (r_sess e) = None).
Proof. exact move_record_msg. Qed.
Print Assumptions C14_moved_record_cleans_old_session.

(** Lookups.  An owner / data-access / specification-owner entry is a bech32 string; the same
    account has two legal spellings (entry a and 100+a, [acct] decodes).  After ANY history each of
    the five lookups (account -> scope by owners and data access, scope spec -> scope, account ->
    scope spec, contract spec -> scope spec, account -> contract spec) holds exactly the keys named
    by stored content, whatever the spelling of the entries. *)
Theorem C14_indexes_exact : forall ops, let st := run ops in
  (forall k, In k (ix_as st) <-> exists s, In s (scopes st) /\ In k (scope_keys_as s)) /\
  (forall k, In k (ix_ss st) <-> exists s, In s (scopes st) /\ In k (scope_keys_ss s)) /\
  (forall k, In k (ix_asp st) <-> exists s, In s (sspecs st) /\ In k (sspec_keys_asp s)) /\
  (forall k, In k (ix_cs st) <-> exists s, In s (sspecs st) /\ In k (sspec_keys_cs s)) /\
  (forall k, In k (ix_ac st) <-> exists s, In s (cspecs st) /\ In k (cspec_keys_ac s)).
Proof. exact indexes_exact. Qed.
Print Assumptions C14_indexes_exact.

(** The statement above was FALSE of the code before fix 722f4df35 (finding
    C14-spec-owner-respelling, findings/C14.md): the two specification writers diffed the owner
    STRINGS ([set_sspec_strdiff], [set_cspec_strdiff]), so an owner whose spelling changed across an
    update had its key written and then deleted.  That variant stores the specification naming the
    account but does not list it; the current writers do.  (Theorem name as requested by the
    coordinator; nothing here concerns key prefixes.) *)
Theorem C14_spec_owner_lookup_prefix_refuted :
  (let s := Ss 1 [103] [] in
   let bad := set_sspec_strdiff (set_sspec init (Ss 1 [3] [])) s in
   let good := set_sspec (set_sspec init (Ss 1 [3] [])) s in
   In s (sspecs bad) /\ In (3, 1) (sspec_keys_asp s) /\ ~ In (3, 1) (ix_asp bad) /\
   In (3, 1) (ix_asp good)) /\
  (let c := Cs 1 [103] in
   let bad := set_cspec_strdiff (set_cspec init (Cs 1 [3])) c in
   let good := set_cspec (set_cspec init (Cs 1 [3])) c in
   In c (cspecs bad) /\ In (3, 1) (cspec_keys_ac c) /\ ~ In (3, 1) (ix_ac bad) /\
   In (3, 1) (ix_ac good)).
Proof. exact spec_owner_strdiff_refuted. Qed.
Print Assumptions C14_spec_owner_lookup_prefix_refuted.

(** Primary entries are keyed uniquely after ANY history. *)
Theorem C14_keys_unique : forall ops, let st := run ops in
  NoDup (map sc_id (scopes st)) /\ NoDup (map (fun s => (se_scope s, se_uuid s)) (sessions st)) /\
  NoDup (map (fun r => (r_scope r, r_name r)) (records st)) /\ NoDup (map ss_id (sspecs st)) /\
  NoDup (map cs_id (cspecs st)) /\ NoDup (map (fun r => (rs_cspec r, rs_name r)) (rspecs st)).
Proof. exact keys_unique. Qed.
Print Assumptions C14_keys_unique.

(** Non-vacuity.  A concrete guarded history: specs, a scope with two owners, a session without
    records and one with a record that is then moved (its old session disappears), then the scope
    is deleted by message (the record-less session goes too).  The hypothesis [guarded] matters:
    one raw SetSession leaves a session without scope.  A concrete address of each two-part kind. *)
Definition demo : list op :=
  [MWriteCSpec (Cs 1 [1]); MWriteRSpec (Rs 1 7); MWriteSSpec (Ss 1 [2] [1]);
   MWriteScope (Sc 5 1 [1; 2] [3]) 10;
   MWriteSession (Se 5 1 1); MWriteSession (Se 5 2 1); MWriteSession (Se 5 3 1);
   MWriteRecord (Re 5 7 1); MWriteRecord (Re 5 7 2)].
Example C14_witness :
  forallb guarded demo = true /\
  sessions (run demo) = [Se 5 3 1; Se 5 2 1] /\ records (run demo) = [Re 5 7 2] /\
  ix_as (run demo) = [(2, 5); (1, 5); (3, 5)] /\ navs (run demo) = [(5, 0, 10)] /\
  step (run demo) (MDeleteScope 5) =
    (St [] [] [] [Ss 1 [2] [1]] [Cs 1 [1]] [Rs 1 7] [] [] [] [(2, 1)] [(1, 1)] [(1, 1)], true) /\
  sessions (run [KSetSession (Se 9 9 9)]) = [Se 9 9 9] /\ scopes (run [KSetSession (Se 9 9 9)]) = [] /\
  ix_as (run [KSetScope (Sc 1 1 [3] []); KSetScope (Sc 1 1 [103] [])]) = [(3, 1)] /\
  ix_asp (run [KSetSSpec (Ss 1 [3] []); KSetSSpec (Ss 1 [103] [])]) = [(3, 1)] /\
  ix_ac (run [KSetCSpec (Cs 1 [3; 103]); KSetCSpec (Cs 1 [103])]) = [(3, 1)] /\
  (let u := repeat 7%N 16 in let v := repeat 255%N 16 in
   maddr_wf (ARecord u v) /\ parse (maddr_bytes (ARecord u v)) = Some (ARecord u v) /\
   as_scope_address (maddr_bytes (ASession u v)) = Some (maddr_bytes (AScope u)) /\
   from_bech32 (match to_string (maddr_bytes (ARecordSpec u v)) with Some s => s | None => [] end)
     = Some (maddr_bytes (ARecordSpec u v))).
Proof. vm_compute. repeat split. Qed.
