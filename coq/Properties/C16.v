(** C16 — Attributes: only the name's owner writes them; lookups and expiry are faithful.
    Only theorem statements here; each is closed by [exact] of a lemma proved in
    Proofs/AttributeProofs.v (+ Proofs/AttrNameKeyProofs.v, Proofs/C16CheckerProofs.v) about the
    model Attribute/Attribute.v, which is COMPOSED with the name-module model Name/Name.v.

    [run cfg t0 ops] is the state after the history [ops] from the empty attribute store and the
    name store [c_genesis cfg] at block time [t0].  Operations: the three name messages (bind
    under restricted / unrestricted parents, transfer, deletion — Name/Name.v's own rules, the
    deletion followed by PurgeAttribute), add (incl. identical re-adds), updates of
    value/type/expiration, deletes by name and by value, direct purges, account-data writes,
    MaxValueLength updates, and blocks [OBlock dt limit] (time += dt, DeleteExpiredAttributes
    with that limit; the BeginBlocker's limit is 100000).  Every name in an operation is the
    byte string AS SENT (any spelling); holders are account or scope addresses.
    [step cfg s o] = (state after, accepted?).

    Ownership.  [owner_of s n] is the address in the name record whose STORED name is [n].
    The name module finds records by a key that is NOT injective on names (C15's known finding:
    aa.bbcc / ccaa.bb), so the ownership theorems carry the hypothesis that the names occurring
    in the history — the universe [U] — do not collide:
      [op_in cfg U o]     every name mentioned by [o], once normalised, is in [U]
                          (for a bind: child.parent);
      [genesis_in cfg U]  the stored names of the initial name records are in [U].
    Without that hypothesis the statement is false of the code and of the model:
    [C16_only_owner_writes_refuted_under_key_collision]. *)
From Coq Require Import ZArith NArith List Bool String.
Import ListNotations.
From PV Require Import Name.Name Attribute.Attribute Proofs.AttrNameKeyProofs Proofs.AttributeProofs.
From PV Require Import Corr.C16 Proofs.C16CheckerProofs.
Open Scope Z_scope.

(** An add / update / update-expiration / delete / delete-distinct under a name, and the
    deletion of the name itself, is accepted only when the caller is the current owner of the
    name the request's spelling normalises to.  PurgeAttribute as a keeper entry point (on chain
    it is reached only from MsgDeleteName, with the normalised name, after the owner check), when
    given a normalised name, additionally accepts any caller holding an account if no record is
    found for the name — and then it changes nothing at all.  SetAccountData either changes
    nothing or writes as the owner of "accountdata" (the attribute module account). *)
Theorem C16_only_owner_writes : forall cfg U,
  (forall n1 n2, In n1 U -> In n2 U -> name_key_preimage n1 = name_key_preimage n2 -> n1 = n2) ->
  genesis_in cfg U ->
  forall t0 ops o, Forall (op_in cfg U) ops -> op_in cfg U o ->
  let s := run cfg t0 ops in
  snd (step cfg s o) = true ->
  match o with
  | OAdd c _ name _ _ _ | OUpdate c _ name _ _ _ _ | OUpdateExp c _ name _ _
  | ODelete c _ name | ODeleteDistinct c _ name _ | ODeleteName name c =>
      exists n, normalize (c_params cfg) name = Some n /\ owner_of s n = Some c
  | OPurge c name =>
      normalize (c_params cfg) name = Some name ->
      owner_of s name = Some c \/ (get_record idh (s_names s) name = None /\ fst (step cfg s o) = s)
  | OSetAccountData _ _ _ =>
      owner_of s account_data_name = Some mod_addr \/ fst (step cfg s o) = s
  | _ => True
  end.
Proof. exact only_owner_writes_all. Qed.
Print Assumptions C16_only_owner_writes.

(** If an attribute [r] present before a step has no record under its key after it, then the
    step was: a delete (by name, or by name and value) of exactly that attribute, spelled exactly
    as stored, by the name's current owner; a value update addressing exactly that attribute by
    the owner of the name the request normalises to — which IS the attribute's name; the
    deletion of its name by the name's owner; a direct purge whose name has the attribute's store
    key (and, when that name is normalised, is the attribute's name, purged by its owner); an
    account-data write on its account, the attribute being the account's "accountdata", the
    module account owning that name; or a block beginning at a time strictly later than the
    expiration CURRENTLY stored on [r].  Nothing else (adds, re-adds, expiration updates, other
    people's operations, other spellings, rejected operations, name transfers, parameter
    updates, stale queue entries) removes it. *)
Theorem C16_disappears_only_when : forall cfg U,
  (forall n1 n2, In n1 U -> In n2 U -> name_key_preimage n1 = name_key_preimage n2 -> n1 = n2) ->
  genesis_in cfg U ->
  forall t0 ops o r, Forall (op_in cfg U) ops -> op_in cfg U o ->
  let s := run cfg t0 ops in
  let s' := fst (step cfg s o) in
  In r (s_recs s) ->
  (forall r', In r' (s_recs s') -> akey r' <> akey r) ->
  match o with
  | ODelete c a name => a_acct r = a /\ a_name r = name /\ owner_of s name = Some c
  | ODeleteDistinct c a name v => a_acct r = a /\ a_name r = name /\ a_val r = v /\ owner_of s name = Some c
  | OUpdate c a name ov _ _ _ =>
      akey r = (a, ank name, ov) /\ normalize (c_params cfg) name = Some (a_name r) /\
      owner_of s (a_name r) = Some c
  | ODeleteName name c => normalize (c_params cfg) name = Some (a_name r) /\ owner_of s (a_name r) = Some c
  | OPurge c name =>
      ank (a_name r) = ank name /\
      (normalize (c_params cfg) name = Some name -> a_name r = name /\ owner_of s name = Some c)
  | OSetAccountData _ a _ =>
      a_acct r = a /\ a_name r = account_data_name /\ owner_of s account_data_name = Some mod_addr
  | OBlock dt _ => exists e, a_exp r = Some e /\ e < s_now s + dt
  | _ => False
  end.
Proof. exact disappears_only_when_all. Qed.
Print Assumptions C16_disappears_only_when.

(** The per-(name key, account) counter is never below the number of records of that name on
    that account; hence AccountsByAttribute / the AttributeAccounts query (the accounts with a
    positive counter) list every holder, account or scope.  No hypothesis about names.
    (The counter can over-count — [C16_counter_overcounts] — which may list a former holder,
    never omit one.) *)
Theorem C16_lookup_never_omits : forall cfg t0 ops,
  let s := run cfg t0 ops in
  (forall n a, count_recs n a (s_recs s) <= s_cnt s n a) /\
  (forall r universe, In r (s_recs s) -> In (a_acct r) universe ->
                      In (a_acct r) (accounts_by_attribute s (a_name r) universe)).
Proof. exact lookup_never_omits_all. Qed.
Print Assumptions C16_lookup_never_omits.

(** Lookup faithfulness of the gRPC queries on every reachable state: Attributes(account),
    Attribute(account, name — in ANY spelling that has the record's store key) and
    Scan(account, suffix) return every stored attribute whose expiration has not passed, only
    stored attributes of that account (name key / suffix), and never one whose stored
    expiration is before the block time — swept or not. *)
Theorem C16_queries_faithful : forall cfg t0 ops r a name suf,
  let s := run cfg t0 ops in
  (In r (s_recs s) -> live (s_now s) r = true ->
     In r (q_attributes s (a_acct r)) /\
     (forall name, ank name = ank (a_name r) -> In r (q_attribute s (a_acct r) name)) /\
     (forall suf, has_suffix (a_name r) suf = true -> In r (q_scan s (a_acct r) suf))) /\
  (In r (q_attributes s a) -> In r (s_recs s) /\ a_acct r = a /\ expired (s_now s) r = false) /\
  (In r (q_attribute s a name) ->
     In r (s_recs s) /\ a_acct r = a /\ ank (a_name r) = ank name /\ expired (s_now s) r = false) /\
  (In r (q_scan s a suf) ->
     In r (s_recs s) /\ a_acct r = a /\ has_suffix (a_name r) suf = true /\ expired (s_now s) r = false).
Proof.
  exact (fun cfg t0 ops r a name suf =>
           conj (queries_faithful (run cfg t0 ops) r) (queries_sound (run cfg t0 ops) a name suf r)).
Qed.
Print Assumptions C16_queries_faithful.

(** A request spelling whose store key (lower-cased, trimmed as a whole) is the key of a stored,
    normalised name normalises to exactly that name: the key-based lookups and the
    normalisation-based ownership check speak about the same name. *)
Theorem C16_store_key_identifies_the_name : forall p raw n raw' m,
  normalize p raw = Some n -> normalize p raw' = Some m -> ank raw = ank m -> n = m.
Proof. exact ank_hits_normalised. Qed.
Print Assumptions C16_store_key_identifies_the_name.

(** An attribute whose stored expiration [e] is before the time [t = now + dt] at which the next
    block begins is gone after that block's sweep with limit [limit], PROVIDED no more attributes
    have expired by [t] than the limit allows ([limit = 0] means no limit; the BeginBlocker
    passes 100000). *)
Theorem C16_expired_gone_after_sweep : forall cfg t0 ops r e dt limit,
  let s := run cfg t0 ops in
  In r (s_recs s) -> a_exp r = Some e -> 0 <= dt -> e < s_now s + dt ->
  (limit = 0 \/ ecount (s_now s + dt) s <= limit) ->
  forall r', In r' (s_recs (fst (step cfg s (OBlock dt limit)))) -> akey r' <> akey r.
Proof. exact expired_gone_after_sweep_all. Qed.
Print Assumptions C16_expired_gone_after_sweep.

(** Without that proviso: after [k] consecutive blocks (time steps [dts], all with limit
    [limit] > 0), an attribute that had expired when the first of them began is gone, as soon as
    [k * limit] covers the number of attributes expired by the last block's time. *)
Theorem C16_expired_gone_within_blocks : forall cfg t0 ops limit dts r e,
  let s := run cfg t0 ops in
  0 < limit -> Forall (fun dt => 0 <= dt) dts ->
  In r (s_recs s) -> a_exp r = Some e ->
  match dts with dt :: _ => e < s_now s + dt | [] => False end ->
  ecount (s_now s + fold_right Z.add 0 dts) s <= limit * Z.of_nat (List.length dts) ->
  forall r', In r' (s_recs (run cfg t0 (ops ++ blocks limit dts))) -> akey r' <> akey r.
Proof. exact expired_gone_eventually_all. Qed.
Print Assumptions C16_expired_gone_within_blocks.

(** The same with an individual sweep limit per block ([0] = no limit), which is the clause the
    run-time checker evaluates on the implementation's observations after every block of a run
    of consecutive blocks (tag prop:expired_gone_within_blocks): enough is that some block of the
    run has no limit, or that the limits add up to the number of attributes expired by the last
    block's time. *)
Theorem C16_expired_gone_within_blocks_any_limits : forall cfg t0 ops l r e,
  let s := run cfg t0 ops in
  Forall (fun p => 0 <= fst p /\ 0 <= snd p) l ->
  In r (s_recs s) -> a_exp r = Some e ->
  match l with p :: _ => e < s_now s + fst p | [] => False end ->
  (Exists (fun p => snd p = 0) l \/
   ecount (s_now s + fold_right (fun p acc => fst p + acc) 0 l) s <= fold_right (fun p acc => snd p + acc) 0 l) ->
  forall r', In r' (s_recs (run cfg t0 (ops ++ blocks2 l))) -> akey r' <> akey r.
Proof. exact expired_gone_eventually2_all. Qed.
Print Assumptions C16_expired_gone_within_blocks_any_limits.

(** The structural invariants the above rest on (no hypothesis about names): one record per
    (account, name key, value); every stored expiration has a matching queue entry; the queue
    has no duplicates; every stored attribute name is in normal form. *)
Theorem C16_store_well_formed : forall cfg t0 ops,
  let s := run cfg t0 ops in
  NoDup (map akey (s_recs s)) /\
  (forall r e, In r (s_recs s) -> a_exp r = Some e -> In (e, akey r) (s_queue s)) /\
  NoDup (s_queue s) /\
  (forall r, In r (s_recs s) -> normalize (c_params cfg) (a_name r) = Some (a_name r)).
Proof. exact well_formed_all. Qed.
Print Assumptions C16_store_well_formed.

(** ... and, for non-colliding names, no attribute lives under an unbound name. *)
Theorem C16_every_attribute_name_is_owned : forall cfg U,
  (forall n1 n2, In n1 U -> In n2 U -> name_key_preimage n1 = name_key_preimage n2 -> n1 = n2) ->
  genesis_in cfg U ->
  forall t0 ops, Forall (op_in cfg U) ops ->
  let s := run cfg t0 ops in
  forall r, In r (s_recs s) -> exists c, owner_of s (a_name r) = Some c.
Proof. exact named_all. Qed.
Print Assumptions C16_every_attribute_name_is_owned.

(** The bridge to the run-time check: the executable checker [prop_core] of Corr/C16.v, which each
    run evaluates on the IMPLEMENTATION's consecutive observations (tags prop:only_owner_writes,
    prop:disappears_only_when, prop:lookup_never_omits, prop:expired_gone_after_sweep,
    prop:rejected_changes_nothing), reports nothing on the model's own observations, for every
    history and next operation that stay inside the declared, collision-free universes.  So such
    a "prop:" failure on the real code is a behaviour the model cannot show. *)
Theorem C16_checker_holds_on_model : forall cfg accts names t0 ops o b q q',
  coll_freeb names = true -> genesis_inb cfg names = true ->
  Forall (op_ok cfg accts names) ops -> op_ok cfg accts names o ->
  let s := run cfg t0 ops in
  prop_core (c_params cfg) names (model_obs cfg accts names s b q) (s_now s) o
            (model_obs cfg accts names (fst (step cfg s o)) (snd (step cfg s o)) q') = [].
Proof. exact checker_holds_on_model_histories. Qed.
Print Assumptions C16_checker_holds_on_model.

(** ... and so does the raw-queue clause (tag prop:stored_expiration_has_queue_entry), on every
    history without any hypothesis. *)
Theorem C16_queue_checker_holds_on_model : forall cfg accts names t0 ops ok q,
  p_queue (model_obs cfg accts names (run cfg t0 ops) ok q) = true.
Proof. exact queue_checker_holds_on_model_histories. Qed.
Print Assumptions C16_queue_checker_holds_on_model.

(** ** The known finding of C15 seen through attributes.
    Root names "bbcc" and "bb" belong to address 9; 9 binds aa.bbcc for address 1.  Address 1 is
    then accepted as writer under the never-bound name "ccaa.bb" (whose name-module key is that
    of "aa.bbcc"): nobody owns "ccaa.bb", so "only the current owner of a name can add
    attributes under that name" fails.  After 1 deletes aa.bbcc the attribute under ccaa.bb
    survives the purge, lives under an unbound name, and address 3 — a stranger — may delete it. *)
Definition col_cfg : config :=
  mk_config (Cfg 2 32 16 [("bbcc", 9%N, true); ("bb", 9%N, true)]%string [1%N; 2%N; 3%N; 9%N] [] [(1, 2)] [] [] [] 10000).

Theorem C16_only_owner_writes_refuted_under_key_collision :
  exists cfg t0 ops c a name v ty e,
    let s := run cfg t0 ops in
    snd (step cfg s (OAdd c a name v ty e)) = true /\
    normalize (c_params cfg) name = Some name /\
    owner_of s name = None /\
    (* ... and later a stranger deletes that attribute *)
    exists ops' c', let s' := run cfg t0 (ops ++ OAdd c a name v ty e :: ops') in
      c' <> c /\ s_recs s' <> [] /\ snd (step cfg s' (ODelete c' a name)) = true /\
      s_recs (fst (step cfg s' (ODelete c' a name))) = [].
Proof.
  exists col_cfg, 100, [OBind "bbcc" 9%N "aa" 1%N true], 1%N, 2%N, "ccaa.bb"%string, 1, 3, None.
  cbn zeta. split; [vm_compute; reflexivity|]. split; [vm_compute; reflexivity|]. split; [vm_compute; reflexivity|].
  exists [ODeleteName "aa.bbcc" 1%N], 3%N. cbn zeta.
  split; [discriminate|]. split; [vm_compute; discriminate|]. split; vm_compute; reflexivity.
Qed.
Print Assumptions C16_only_owner_writes_refuted_under_key_collision.

(** ** Non-vacuity. *)
Definition ex_cfg : config :=
  mk_config (Cfg 2 32 16 [("accountdata", 8%N, true); ("c16", 9%N, true); ("open", 9%N, false)]%string
                 [1%N; 2%N; 3%N; 8%N; 9%N] [(5%N, 1); (6%N, 2)] [(1, 2); (2, 2); (3, 2); (4, 10)] [] [] [] 10000).
Definition ex_U : list string := ["aa.c16"; "aa.open"; "c16"; "open"; "accountdata"]%string.
(** Owner 9 of the restricted root binds aa.c16 for address 1, who adds (account 2, value 1)
    expiring at 105, then re-adds the identical attribute — name spelled " AA.c16" — with type 5
    expiring at 120 (the old queue entry stays).  A block at 110 crosses the stale entry. *)
Definition ex_hist : list op :=
  [OBind "c16" 9%N "aa" 1%N true; OAdd 1%N 2%N "aa.c16" 1 3 (Some 105); OAdd 1%N 2%N " AA.c16" 1 5 (Some 120);
   OBlock 10 100000]%string.
Definition ex_rec : attr := {| a_acct := 2%N; a_name := "aa.c16"; a_val := 1; a_type := 5; a_exp := Some 120 |}.

Example C16_witness :
  (forall n1 n2, In n1 ex_U -> In n2 ex_U -> name_key_preimage n1 = name_key_preimage n2 -> n1 = n2) /\
  genesis_in ex_cfg ex_U /\ Forall (op_in ex_cfg ex_U) ex_hist /\
  let s := run ex_cfg 100 ex_hist in
  s_recs s = [ex_rec] /\ s_now s = 110 /\ s_queue s = [(120, (2%N, "aa.c16"%string, 1))] /\
  owner_of s "aa.c16" = Some 1%N /\
  accounts_by_attribute s "aa.c16" [1%N; 2%N; 3%N] = [2%N] /\
  s_recs (fst (step ex_cfg s (OBlock 10 100000))) = [ex_rec] /\     (* 120 is not before 120 *)
  s_recs (fst (step ex_cfg s (OBlock 11 100000))) = [] /\           (* 120 < 121 *)
  snd (step ex_cfg s (OAdd 2%N 3%N "aa.c16" 2 3 None)) = false /\    (* stranger *)
  snd (step ex_cfg s (ODelete 2%N 2%N "aa.c16")) = false /\
  snd (step ex_cfg s (ODelete 2%N 2%N "AA.c16")) = false /\          (* stranger, other letter case *)
  snd (step ex_cfg s (ODelete 1%N 2%N "AA.c16")) = false /\          (* even the owner: DeleteAttribute matches the raw name *)
  snd (step ex_cfg s (OUpdateExp 1%N 2%N "aa . C16" 1 None)) = true /\  (* normalised: any spelling, owner *)
  snd (step ex_cfg s (OUpdateExp 2%N 2%N "aa . C16" 1 None)) = false /\
  snd (step ex_cfg s (OAdd 1%N 5%N "aa.c16" 4 3 None)) = true /\      (* a scope as holder, a 10-byte value *)
  snd (step ex_cfg s (OAdd 1%N 6%N "aa.c16" 1 3 None)) = false /\     (* a session address is not a holder *)
  snd (step ex_cfg (fst (step ex_cfg s (OSetMaxLen 0%N 9))) (OAdd 1%N 5%N "aa.c16" 4 3 None)) = false /\
  snd (step ex_cfg s (ODelete 1%N 2%N "aa.c16")) = true /\
  (* the name changes hands: the former owner is refused, the new one accepted *)
  (let s2 := fst (step ex_cfg s (OModifyName 1%N "aa.c16" 3%N true)) in
   snd (step ex_cfg s2 (ODelete 1%N 2%N "aa.c16")) = false /\ snd (step ex_cfg s2 (ODelete 3%N 2%N "aa.c16")) = true) /\
  (* unrestricted parent: anybody binds under "open" and then owns the new name *)
  (let s3 := fst (step ex_cfg s (OBind "open" 3%N "aa" 3%N false)) in
   snd (step ex_cfg s3 (OAdd 3%N 2%N "aa.open" 2 3 None)) = true /\ snd (step ex_cfg s (OBind "c16" 3%N "bb" 3%N false)) = false) /\
  snd (step ex_cfg s (OPurge 3%N "zz.c16")) = true /\ s_recs (fst (step ex_cfg s (OPurge 3%N "zz.c16"))) = [ex_rec].
Proof.
  split; [apply coll_freeb_sound; vm_compute; reflexivity|].
  split; [apply genesis_inb_sound; vm_compute; reflexivity|].
  split; [apply ops_inb_sound; vm_compute; reflexivity|].
  vm_compute. repeat split.
Qed.

(** The sweep limit: three attributes expire by 110; with limit 2 one block deletes two of them,
    the second block the third ([C16_expired_gone_within_blocks] with k = 2). *)
Example C16_limit_witness :
  let s := run ex_cfg 100 [OBind "c16" 9%N "aa" 1%N true; OAdd 1%N 2%N "aa.c16" 1 3 (Some 101);
                            OAdd 1%N 2%N "aa.c16" 2 3 (Some 102); OAdd 1%N 3%N "aa.c16" 3 3 (Some 103)]%string in
  ecount 110 s = 3 /\
  List.length (s_recs (fst (step ex_cfg s (OBlock 10 2)))) = 1%nat /\
  s_recs (run_from ex_cfg s (blocks 2 [10; 0])) = [] /\
  s_recs (fst (step ex_cfg s (OBlock 10 3))) = [] /\
  (* what the queries show after the cut-off sweep: nothing expired *)
  q_attributes (fst (step ex_cfg s (OBlock 10 2))) 3%N = [] /\ q_attributes (fst (step ex_cfg s (OBlock 10 2))) 2%N = [].
Proof. vm_compute. repeat split. Qed.

(** The over-count: after the identical re-add the counter of (aa.c16, account 2) is 2 with one
    record, so after the owner deletes the attribute the account is still listed. *)
Example C16_counter_overcounts :
  let s := run ex_cfg 100 ex_hist in
  s_cnt s "aa.c16" 2%N = 2 /\ count_recs "aa.c16" 2%N (s_recs s) = 1 /\
  let s' := fst (step ex_cfg s (ODelete 1%N 2%N "aa.c16")) in
  s_recs s' = [] /\ accounts_by_attribute s' "aa.c16" [1%N; 2%N; 3%N] = [2%N].
Proof. vm_compute. repeat split. Qed.

(** PurgeAttribute trusts its caller to pass a normalised name (DeleteName does): called
    directly with another letter case, the name module finds no record ("AA.c16" is not bound),
    the ownership check is skipped, and the attribute store's case-insensitive key matches —
    a stranger wipes the name's attributes.  Not reachable through any message. *)
Example C16_purge_wants_a_normalised_name :
  let s := run ex_cfg 100 ex_hist in
  snd (step ex_cfg s (OPurge 3%N "AA.c16")) = true /\ s_recs (fst (step ex_cfg s (OPurge 3%N "AA.c16"))) = [] /\
  snd (step ex_cfg s (OPurge 3%N "aa.c16")) = false.
Proof. vm_compute. repeat split. Qed.
