(** C16 — Attributes: only the name's owner writes them; lookups and expiry are faithful.
    Only theorem statements here; each is closed by [exact] of a lemma proved in
    Proofs/AttributeProofs.v about the model Attribute/Attribute.v.

    [run t0 accts ops] is the state after the history [ops] (binds, name transfers and
    deletions, adds incl. identical re-adds, updates of value/type/expiration, deletes by name
    and by value, direct purges, blocks with the begin-block sweep) from the empty store at
    block time [t0], where [accts] says which addresses have an account.  Names are identified
    by their normalised form; the attribute messages carry, as last argument, the spelling class
    of the name string actually sent (other letter case, spaces around or inside), and the
    theorems hold for every spelling.  [step s o] is
    (state after, accepted?).  All theorems quantify over every such history. *)
From Coq Require Import ZArith List Bool String.
Import ListNotations.
From PV Require Import Attribute.Attribute Proofs.AttributeProofs Corr.C16 Proofs.C16CheckerProofs.
Open Scope Z_scope.

(** An add / update / update-expiration / delete / delete-distinct under name [n], and the
    deletion of [n] itself, is accepted only when the caller is the current owner of [n].
    PurgeAttribute as a keeper entry point (on chain it is reached only from MsgDeleteName, after
    the owner check) additionally accepts any caller holding an account when the name does not
    exist — and then it changes nothing at all, because no attribute lives under an unbound name. *)
Theorem C16_only_owner_writes : forall t0 accts ops o,
  let s := run t0 accts ops in
  snd (step s o) = true ->
  match o with
  | OAdd c _ n _ _ _ _ | OUpdate c _ n _ _ _ _ _ | OUpdateExp c _ n _ _ _
  | ODelete c _ n _ | ODeleteDistinct c _ n _ _ | ODeleteName c n => s_owner s n = Some c
  | OPurge c n => s_owner s n = Some c \/ (s_owner s n = None /\ fst (step s o) = s)
  | _ => True
  end.
Proof. exact only_owner_writes_all. Qed.
Print Assumptions C16_only_owner_writes.

(** If an attribute [r] present before a step has no record under its key after it, then the
    step was: a delete (by name, or by name and value) or a value update of exactly that
    attribute by the name's current owner; the deletion of its name, or a purge of its name, by
    the name's current owner; or a block beginning at a time strictly later than the expiration
    CURRENTLY stored on [r].  Nothing else (adds, re-adds, expiration updates, other people's
    operations, rejected operations, name transfers, stale queue entries) removes it. *)
Theorem C16_disappears_only_when : forall t0 accts ops o r,
  let s := run t0 accts ops in
  let s' := fst (step s o) in
  In r (s_recs s) ->
  (forall r', In r' (s_recs s') -> akey r' <> akey r) ->
  match o with
  | ODelete c a n _ => a_acct r = a /\ a_name r = n /\ s_owner s n = Some c
  | ODeleteDistinct c a n v _ => a_acct r = a /\ a_name r = n /\ a_val r = v /\ s_owner s n = Some c
  | OUpdate c a n ov _ _ _ _ => akey r = (a, n, ov) /\ s_owner s n = Some c
  | ODeleteName c n | OPurge c n => a_name r = n /\ s_owner s n = Some c
  | OBlock dt => exists e, a_exp r = Some e /\ e < s_now s + dt
  | _ => False
  end.
Proof. exact disappears_only_when_all. Qed.
Print Assumptions C16_disappears_only_when.

(** The per-(name, account) counter is never below the number of records of that name on that
    account; hence AccountsByAttribute (the accounts with a positive counter) lists every holder.
    (The counter can over-count: SetAttribute increments it again when an identical attribute is
    re-added — see [C16_counter_overcounts] — which may list a former holder, never omit one.) *)
Theorem C16_lookup_never_omits : forall t0 accts ops,
  let s := run t0 accts ops in
  (forall n a, count_recs n a (s_recs s) <= s_cnt s n a) /\
  (forall r universe, In r (s_recs s) -> In (a_acct r) universe ->
                      In (a_acct r) (accounts_by_attribute s (a_name r) universe)).
Proof. exact lookup_never_omits_all. Qed.
Print Assumptions C16_lookup_never_omits.

(** An attribute whose stored expiration [e] is before the time [t = now + dt] at which the next
    block begins is gone after that block's sweep. *)
Theorem C16_expired_gone_after_sweep : forall t0 accts ops r e dt,
  let s := run t0 accts ops in
  In r (s_recs s) -> a_exp r = Some e -> 0 <= dt -> e < s_now s + dt ->
  forall r', In r' (s_recs (fst (step s (OBlock dt)))) -> akey r' <> akey r.
Proof. exact expired_gone_after_sweep_all. Qed.
Print Assumptions C16_expired_gone_after_sweep.

(** The structural invariants the above rest on: one record per (account, name, value); every
    stored expiration has a matching queue entry; no attribute lives under an unbound name. *)
Theorem C16_store_well_formed : forall t0 accts ops,
  let s := run t0 accts ops in
  NoDup (map akey (s_recs s)) /\
  (forall r e, In r (s_recs s) -> a_exp r = Some e -> In (e, akey r) (s_queue s)) /\
  (forall r, In r (s_recs s) -> s_owner s (a_name r) <> None).
Proof. exact well_formed_all. Qed.
Print Assumptions C16_store_well_formed.

(** The bridge to the run-time check: the executable checker [prop_step] of Corr/C16.v, which each
    run evaluates on the IMPLEMENTATION's consecutive observations (tags prop:only_owner_writes,
    prop:disappears_only_when, prop:lookup_never_omits, prop:expired_gone_after_sweep,
    prop:rejected_changes_nothing), reports nothing on the model's own observations, for every
    history and next operation that stay inside the declared account / name universes.  So a
    "prop:" failure on the real code is a behaviour the model cannot show. *)
Theorem C16_checker_holds_on_model : forall t0 have accts names ops o b,
  Forall (op_ok accts names) ops -> op_ok accts names o ->
  let s := run t0 have ops in
  prop_step names (model_obs accts names s b) (s_now s) o
            (model_obs accts names (fst (step s o)) (snd (step s o))) = [].
Proof. exact checker_holds_on_model_histories. Qed.
Print Assumptions C16_checker_holds_on_model.

(** Non-vacuity.  Owner 1 binds name 1, adds (account 2, name 1, value 1) expiring at 105, then
    re-adds the identical attribute with type 5 expiring at 120 (the old queue entry stays).
    A block at 110 crosses the stale entry: the attribute is still there with expiration 120.
    A block at 121 removes it.  A stranger's add and delete are rejected; a purge of an unbound
    name by a stranger is accepted and changes nothing. *)
Definition ex_accts (a : Z) : bool := (a =? 1) || (a =? 2) || (a =? 3).
Definition ex_hist : list op :=
  [OBind 1 1; OAdd 1 2 1 1 3 (Some 105) 0; OAdd 1 2 1 1 5 (Some 120) 2; OBlock 10].
Definition ex_rec : attr := {| a_acct := 2; a_name := 1; a_val := 1; a_type := 5; a_exp := Some 120 |}.

Example C16_witness :
  let s := run 100 ex_accts ex_hist in
  s_recs s = [ex_rec] /\ s_now s = 110 /\ s_queue s = [(120, (2, 1, 1))] /\
  s_owner s 1 = Some 1 /\
  accounts_by_attribute s 1 [1; 2; 3] = [2] /\
  s_recs (fst (step s (OBlock 10))) = [ex_rec] /\          (* 120 is not before 120 *)
  s_recs (fst (step s (OBlock 11))) = [] /\                (* 120 < 121 *)
  snd (step s (OAdd 2 3 1 2 3 None 0)) = false /\          (* stranger *)
  snd (step s (ODelete 2 2 1 0)) = false /\
  snd (step s (ODelete 2 2 1 2)) = false /\                (* stranger, name in another letter case *)
  snd (step s (ODeleteDistinct 2 2 1 1 2)) = false /\
  snd (step s (ODelete 1 2 1 2)) = false /\                (* even the owner: DeleteAttribute matches the raw name *)
  snd (step s (OUpdateExp 1 2 1 1 None 4)) = true /\       (* normalised: any spelling, owner *)
  snd (step s (OUpdateExp 2 2 1 1 None 4)) = false /\      (* normalised: any spelling, stranger *)
  snd (step s (ODelete 1 2 1 0)) = true /\
  snd (step s (OPurge 3 2)) = true /\ s_recs (fst (step s (OPurge 3 2))) = [ex_rec].
Proof. vm_compute. repeat split. Qed.

(** The over-count: after the identical re-add the counter of (name 1, account 2) is 2 with one
    record, so after the owner deletes the attribute the account is still listed. *)
Example C16_counter_overcounts :
  let s := run 100 ex_accts ex_hist in
  s_cnt s 1 2 = 2 /\ count_recs 1 2 (s_recs s) = 1 /\
  let s' := fst (step s (ODelete 1 2 1 0)) in
  s_recs s' = [] /\ accounts_by_attribute s' 1 [1; 2; 3] = [2].
Proof. vm_compute. repeat split. Qed.

(** The universes hypothesis of [C16_checker_holds_on_model] is met by the example history. *)
Example C16_checker_witness :
  Forall (op_ok [1; 2; 3] [1; 2; 3]) ex_hist /\
  check (History 100 [1; 2; 3] [1; 2; 3] [1; 2; 3]
           [(OBind 1 1, Obs true [] [[]; []; []] [Some 1; None; None]);
            (OAdd 1 2 1 1 3 (Some 105) 0, Obs true [(2, 1, 1, 3, Some 105)] [[2]; []; []] [Some 1; None; None]);
            (OAdd 1 2 1 1 5 (Some 120) 2, Obs true [(2, 1, 1, 5, Some 120)] [[2]; []; []] [Some 1; None; None]);
            (OBlock 10, Obs true [(2, 1, 1, 5, Some 120)] [[2]; []; []] [Some 1; None; None]);
            (OBlock 11, Obs true [] [[2]; []; []] [Some 1; None; None])]) = [] /\
  (* what the code did before the repair (attribute gone at the OLD expiration) is flagged *)
  check (History 100 [1; 2; 3] [1; 2; 3] [1; 2; 3]
           [(OBind 1 1, Obs true [] [[]; []; []] [Some 1; None; None]);
            (OAdd 1 2 1 1 3 (Some 105) 0, Obs true [(2, 1, 1, 3, Some 105)] [[2]; []; []] [Some 1; None; None]);
            (OAdd 1 2 1 1 5 (Some 120) 2, Obs true [(2, 1, 1, 5, Some 120)] [[2]; []; []] [Some 1; None; None]);
            (OBlock 10, Obs true [] [[2]; []; []] [Some 1; None; None])])
    = ["corr:attributes @step 3"; "prop:disappears_only_when @step 3"]%string.
Proof.
  split; [|split].
  - unfold ex_hist. repeat constructor; cbn; tauto.
  - vm_compute. reflexivity.
  - vm_compute. reflexivity.
Qed.
