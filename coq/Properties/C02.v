(** C02 — Funds on hold are exactly the open exchange obligations: every order, commitment and
    payment operation moves the hold by exactly the change of what the exchange records require
    to be reserved, splits keep the held total, and no hold ever exceeds the balance.
    Only theorem statements here; each is closed by [exact] of a lemma proved in
    Proofs/HoldsProofs.v about the model Exchange/Holds.v.

    Where a theorem speaks about every state [s] it assumes the one well-formedness fact the chain
    itself maintains: no stored order id exceeds the last id handed out (GenesisState.Validate
    enforces it; CreateAsk/BidOrder store under last id + 1 and would overwrite otherwise).  It is
    stated inline, is established by an accepted genesis ([C02_genesis_coverage]) and is kept by
    every operation ([C02_ids_ok_preserved]). *)
From Coq Require Import ZArith List Bool.
Import ListNotations.
From PV Require Import Exchange.Holds Proofs.HoldsProofs.
Open Scope Z_scope.

(** Order.Split: both parts keep the owner, the unfilled part keeps the market, and per denom the
    two parts' hold amounts add up to the original order's hold amount (for asks the flat fee is
    held only when its denom differs from the price denom). *)
Theorem C02_split_preserves_hold : forall o n f l,
  split_order o n = Some (f, l) ->
  o_owner f = o_owner o /\ o_owner l = o_owner o /\ o_market l = o_market o /\
  forall d, amt_of (order_hold f) d + amt_of (order_hold l) d = amt_of (order_hold o) d.
Proof. exact split_preserves_hold. Qed.
Print Assumptions C02_split_preserves_hold.

(** Every operation (accepted, rejected or failing) moves every account's hold in every denom by
    exactly the change of what the exchange records require. *)
Theorem C02_step_delta : forall s o a d,
  (forall id, In id (map fst (orders s)) -> id <= last_id s) ->
  hold_of (fst (step s o)) a d - hold_of s a d = required (fst (step s o)) a d - required s a d.
Proof. exact step_delta. Qed.
Print Assumptions C02_step_delta.

Theorem C02_ids_ok_preserved : forall s o,
  (forall id, In id (map fst (orders s)) -> id <= last_id s) ->
  (forall id, In id (map fst (orders (fst (step s o)))) -> id <= last_id (fst (step s o))).
Proof. exact step_ids_ok. Qed.
Print Assumptions C02_ids_ok_preserved.

(** Over ALL histories: from a state whose holds equal the obligations and do not exceed the
    balances, every reachable state has hold = obligations and hold <= balance, for every
    account and denom. *)
Theorem C02_inv_reachable : forall s0 ops,
  (forall id, In id (map fst (orders s0)) -> id <= last_id s0) ->
  (forall a d, hold_of s0 a d = required s0 a d) ->
  (forall a d, hold_of s0 a d <= bal_of s0 a d) ->
  forall a d, hold_of (run s0 ops) a d = required (run s0 ops) a d /\
              hold_of (run s0 ops) a d <= bal_of (run s0 ops) a d.
Proof. exact inv_reachable. Qed.
Print Assumptions C02_inv_reachable.

(*ITEM_DELTA*)
(** A rejected or failing operation changes nothing. *)
Theorem C02_rejected_unchanged : forall s o s' r, step s o = (s', r) -> r <> ROk -> s' = s.
Proof. exact rejected_unchanged. Qed.
Print Assumptions C02_rejected_unchanged.

(** An accepted genesis stores the records unchanged, has at least the required amount on hold
    for EVERY account and denom (not only the listed keys), and has well-formed order ids. *)
Theorem C02_genesis_coverage : forall g s,
  genesis_init g = Some s ->
  s = g /\ (forall a d, required s a d <= hold_of s a d) /\
  (forall id, In id (map fst (orders s)) -> id <= last_id s).
Proof. exact genesis_coverage. Qed.
Print Assumptions C02_genesis_coverage.

(** Non-vacuity: accounts 1 (seller), 2 (buyer), 3 (payer); denoms 10 (asset), 20 (price),
    30 (fee); market 7.  The start state has balances only, so the hypotheses of
    [C02_inv_reachable] hold.  History: a partial-fill ask whose flat fee (denom 30) differs
    from the price denom, a bid with buyer settlement fees, a settlement filling the bid and
    20 of the ask's 60 assets, a commitment, a partial release, a payment created and rejected,
    the rest of the ask cancelled, the market closed.  Holds are listed per key in the order
    (1,10) (1,20) (1,30) (2,10) (2,20) (2,30) (3,10) (3,20) (3,30). *)
Example C02_witness :
  let keys := [(1, 10); (1, 20); (1, 30); (2, 10); (2, 20); (2, 30); (3, 10); (3, 20); (3, 30)] in
  let s0 := mk_state [] 0 [] [] []
              [((1, 10), 100); ((1, 20), 50); ((1, 30), 40);
               ((2, 10), 10); ((2, 20), 500); ((2, 30), 60);
               ((3, 10), 5); ((3, 20), 70); ((3, 30), 80)] [] in
  let ask := mk_order true 1 7 (10, 60) (20, 120) [(30, 6)] true in
  let bid := mk_order false 2 7 (10, 20) (20, 40) [(20, 3); (30, 5)] false in
  let ops :=
    [ OCreate true ask [(30, 2)];                        (* order 1 *)
      OCreate true bid [(30, 1)];                        (* order 2 *)
      OSettle true [1; 2] [2] (Some (1, 20))
        [((1, 10), -20); ((1, 20), 40); ((1, 30), -2); ((2, 10), 20); ((2, 20), -43); ((2, 30), -5)];
      OCommit true 7 2 [(20, 100)] [(30, 1)];
      ORelease true 7 [(2, [(20, 30)])];
      OPayCreate true 3 1 [(20, 25)] [(10, 5)] 1;
      OPayReject true 1 3 1;
      OCancel true 1 false 1;
      OCloseMarket true 7 ] in
  let at_ n := run s0 (firstn n ops) in
  let holds_at n := map (fun k => hold_of (at_ n) (fst k) (snd k)) keys in
  let results :=
    fst (fold_left (fun x o => (fst x ++ [snd (step (snd x) o)], fst (step (snd x) o))) ops ([], s0)) in
  (* the hypotheses of C02_inv_reachable on the start state *)
  forallb (fun k => (hold_of s0 (fst k) (snd k) =? required s0 (fst k) (snd k)) &&
                    (hold_of s0 (fst k) (snd k) <=? bal_of s0 (fst k) (snd k))) keys = true /\
  orders s0 = [] /\
  (* every operation is accepted *)
  results = [ROk; ROk; ROk; ROk; ROk; ROk; ROk; ROk; ROk] /\
  (* both orders open: assets 60 + fee 6 held for the seller, price 40 + fees 3, 5 for the buyer *)
  holds_at 2%nat = [60; 0; 6; 0; 43; 5; 0; 0; 0] /\
  (* after the partial settlement only the unfilled part of the ask is held: 40 assets, fee 4 *)
  holds_at 3%nat = [40; 0; 4; 0; 0; 0; 0; 0; 0] /\
  (* commitment of 100 minus the release of 30, and the payment's source amount 25 *)
  holds_at 6%nat = [40; 0; 4; 0; 70; 0; 0; 25; 0] /\
  (* at the end nothing is on hold and nothing is required *)
  holds_at 9%nat = [0; 0; 0; 0; 0; 0; 0; 0; 0] /\
  map (fun k => required (at_ 9%nat) (fst k) (snd k)) keys = [0; 0; 0; 0; 0; 0; 0; 0; 0] /\
  (* and at every point of the history hold = required <= balance on these keys *)
  forallb (fun n => forallb (fun k =>
      (hold_of (at_ n) (fst k) (snd k) =? required (at_ n) (fst k) (snd k)) &&
      (hold_of (at_ n) (fst k) (snd k) <=? bal_of (at_ n) (fst k) (snd k))) keys)
    [0; 1; 2; 3; 4; 5; 6; 7; 8; 9]%nat = true.
Proof. vm_compute. repeat split. Qed.
