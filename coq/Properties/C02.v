(** C02 — Funds on hold are exactly the open exchange obligations: every order, commitment and
    payment operation moves the hold by exactly the change of what the exchange records require
    to be reserved, splits keep the held total, and no hold ever exceeds the balance.
    Only theorem statements here; each is closed by [exact] of a lemma proved in
    Proofs/HoldsProofs.v, HoldsMulti.v, HoldsWf.v, HoldsMultiWf.v, HoldsExact.v (hold movement)
    and HoldsAdmit.v (admission) about the model Exchange/Holds.v.

    Where a theorem speaks about every state [s] it assumes the one well-formedness fact the chain
    itself maintains: no stored order id exceeds the last id handed out (GenesisState.Validate
    enforces it; CreateAsk/BidOrder store under last id + 1 and would overwrite otherwise).  It is
    stated inline, is established by an accepted genesis ([C02_genesis_coverage]) and is kept by
    every operation ([C02_ids_ok_preserved]). *)
From Coq Require Import ZArith List Bool.
Import ListNotations.
From PV Require Import Exchange.Holds Proofs.HoldsProofs Proofs.HoldsMulti Proofs.HoldsWf
  Proofs.HoldsMultiWf Proofs.HoldsExact Proofs.HoldsAdmit.
Open Scope Z_scope.

(** Order.Split: both parts keep the owner, the unfilled part keeps the market, and per denom the
    two parts' hold amounts add up to the original order's hold amount (for asks the flat fee is
    held only when its denom differs from the price denom). *)
Theorem C02_split_preserves_hold : forall o n f l,
  split_order o n = Some (f, l) ->
  o_owner f = o_owner o /\ o_owner l = o_owner o /\ o_market l = o_market o /\
  forall d, amt_of (order_hold f) d + amt_of (order_hold l) d = amt_of (order_hold o) d.
Proof. exact split_preserves_hold. Qed.
Print Assumptions C02_split_preserves_hold.

(** Every operation (accepted, rejected or failing) moves every account's hold in every denom by
    exactly the change of what the exchange records require. *)
Theorem C02_step_delta : forall s o a d,
  (forall id, In id (map fst (orders s)) -> id <= last_id s) ->
  hold_of (fst (step s o)) a d - hold_of s a d = required (fst (step s o)) a d - required s a d.
Proof. exact step_delta. Qed.
Print Assumptions C02_step_delta.

Theorem C02_ids_ok_preserved : forall s o,
  (forall id, In id (map fst (orders s)) -> id <= last_id s) ->
  (forall id, In id (map fst (orders (fst (step s o)))) -> id <= last_id (fst (step s o))).
Proof. exact step_ids_ok. Qed.
Print Assumptions C02_ids_ok_preserved.

(** Over ALL histories: from a state whose holds equal the obligations and do not exceed the
    balances, every reachable state has hold = obligations and hold <= balance, for every
    account and denom. *)
Theorem C02_inv_reachable : forall s0 ops,
  (forall id, In id (map fst (orders s0)) -> id <= last_id s0) ->
  (forall a d, hold_of s0 a d = required s0 a d) ->
  (forall a d, hold_of s0 a d <= bal_of s0 a d) ->
  forall a d, hold_of (run s0 ops) a d = required (run s0 ops) a d /\
              hold_of (run s0 ops) a d <= bal_of (run s0 ops) a d.
Proof. exact inv_reachable. Qed.
Print Assumptions C02_inv_reachable.

(** ** "changes the hold by exactly that item's reserved amount"

    [reserved_delta s o a d] is read off the exchange records of the state BEFORE the operation and
    the operation's own arguments only (never off the hold store): + the hold amount of the order
    / commitment / payment created; - the hold amounts of the orders cancelled, of the orders
    filled in full and of the FILLED part of the split of the partially filled one; - the amounts
    released entry by entry from commitments (a zero amount = what is left of that account's
    commitment at that point); for a commitment settlement + outputs - inputs - fees per account;
    - the source amounts of the payments accepted / rejected / cancelled (reject-all: every
    payment of every distinct listed source that names the target); close market: - every order
    of the market - every commitment to it.

    Every operation except reject-all and close-market: in EVERY state (no hypothesis). *)
Theorem C02_reserved_delta_exact_any_state : forall s o s' a d,
  needs_wf o = false -> step s o = (s', ROk) ->
  hold_of s' a d - hold_of s a d = reserved_delta s o a d.
Proof. exact delta_exact_nowf. Qed.
Print Assumptions C02_reserved_delta_exact_any_state.

(** Every operation, including reject-all and close-market, in every state whose stores are KV
    stores (distinct keys), whose records carry valid amounts (no negative entry; a commitment
    has distinct denoms), and whose records are covered by the holds (otherwise close-market
    SKIPS the items whose release fails and reject-all could hit a shadowed duplicate key). *)
Theorem C02_reserved_delta_exact : forall s o s' a d,
  NoDup (map fst (orders s)) /\ NoDup (map fst (commits s)) /\ NoDup (map fst (pays s)) ->
  (forall e, In e (orders s) -> coins_nonneg (order_hold (snd e)) = true) /\
  (forall e, In e (commits s) -> NoDup (map fst (snd e)) /\ coins_nonneg (snd e) = true) /\
  (forall e, In e (pays s) -> coins_nonneg (p_samt (snd e)) = true) ->
  (forall a d, required s a d <= hold_of s a d) ->
  step s o = (s', ROk) ->
  hold_of s' a d - hold_of s a d = reserved_delta s o a d.
Proof. exact (fun s o s' a d Hkv Hrec => delta_exact s o s' a d (conj Hkv Hrec)). Qed.
Print Assumptions C02_reserved_delta_exact.

(** Those hypotheses are kept by every operation ... *)
Theorem C02_wf_preserved : forall s o,
  (NoDup (map fst (orders s)) /\ NoDup (map fst (commits s)) /\ NoDup (map fst (pays s))) /\
  ((forall e, In e (orders s) -> coins_nonneg (order_hold (snd e)) = true) /\
   (forall e, In e (commits s) -> NoDup (map fst (snd e)) /\ coins_nonneg (snd e) = true) /\
   (forall e, In e (pays s) -> coins_nonneg (p_samt (snd e)) = true)) ->
  let s' := fst (step s o) in
  (NoDup (map fst (orders s')) /\ NoDup (map fst (commits s')) /\ NoDup (map fst (pays s'))) /\
  ((forall e, In e (orders s') -> coins_nonneg (order_hold (snd e)) = true) /\
   (forall e, In e (commits s') -> NoDup (map fst (snd e)) /\ coins_nonneg (snd e) = true) /\
   (forall e, In e (pays s') -> coins_nonneg (p_samt (snd e)) = true)).
Proof. exact wf_step. Qed.
Print Assumptions C02_wf_preserved.

(** ... so over ALL histories from a well-formed start whose holds cover its records (in particular
    an exact start, or an accepted genesis): every accepted operation, at any point of the history,
    moves the hold of every account and denom by exactly the reserved amount of its item(s). *)
Theorem C02_reserved_delta_exact_history : forall s0 ops o s' a d,
  (NoDup (map fst (orders s0)) /\ NoDup (map fst (commits s0)) /\ NoDup (map fst (pays s0))) /\
  ((forall e, In e (orders s0) -> coins_nonneg (order_hold (snd e)) = true) /\
   (forall e, In e (commits s0) -> NoDup (map fst (snd e)) /\ coins_nonneg (snd e) = true) /\
   (forall e, In e (pays s0) -> coins_nonneg (p_samt (snd e)) = true)) ->
  (forall id, In id (map fst (orders s0)) -> id <= last_id s0) ->
  (forall a d, required s0 a d <= hold_of s0 a d) ->
  step (run s0 ops) o = (s', ROk) ->
  hold_of s' a d - hold_of (run s0 ops) a d = reserved_delta (run s0 ops) o a d.
Proof. exact delta_exact_history. Qed.
Print Assumptions C02_reserved_delta_exact_history.

(** When no account is listed twice, a release list's reserved amount is the simple sum read off
    the state before: the amount named, or the account's whole commitment for a zero amount. *)
Theorem C02_release_delta_simple : forall m a d es cs,
  NoDup (map fst es) ->
  (forall e, In e es -> release_split (cget (m, fst e) cs) (snd e) <> None) ->
  release_delta m cs es a d =
  sum_by (fun e => if fst e =? a
                   then (if coins_is_zero (snd e) then amt_of (cget (m, fst e) cs) d else amt_of (snd e) d)
                   else 0) es.
Proof. exact release_delta_distinct. Qed.
Print Assumptions C02_release_delta_simple.

(** A rejected or failing operation changes nothing. *)
Theorem C02_rejected_unchanged : forall s o s' r, step s o = (s', r) -> r <> ROk -> s' = s.
Proof. exact rejected_unchanged. Qed.
Print Assumptions C02_rejected_unchanged.

(** An accepted genesis stores the records unchanged, has at least the required amount on hold
    for EVERY account and denom (not only the listed keys), and has well-formed order ids. *)
Theorem C02_genesis_coverage : forall g s,
  genesis_init g = Some s ->
  s = g /\ (forall a d, required s a d <= hold_of s a d) /\
  (forall id, In id (map fst (orders s)) -> id <= last_id s).
Proof. exact genesis_coverage. Qed.
Print Assumptions C02_genesis_coverage.

(** ** Genesis: what the Go check enforces, and what follows.

    x/exchange InitGenesis (keeper/genesis.go) stores the orders, commitments and payments, sums
    per account the hold amounts they need (Order.GetHoldAmount, Commitment.Amount,
    Payment.SourceAmount, merged with Coins.Add) and panics iff for some account and some denom
    OF THAT SUM the hold module reports LESS than the sum (holdAmt < reqAmt), or the last order id
    is below an order id.  It never looks at denoms or accounts outside that sum and never objects
    to MORE being on hold: it is a coverage check, not an equality check ([genesis_init]).  (The
    hold module's own InitGenesis places each genesis hold with AddHold, i.e. requires it to be
    spendable.)  So an imported state satisfies hold >= required, and by the next two theorems the
    surplus hold - required of every account and denom then stays what it was FOR EVER, whatever
    operations follow: a surplus is never released and never grows; with an exact genesis it is 0
    and the invariant is [C02_inv_reachable]. *)
Theorem C02_surplus_constant : forall s0 ops a d,
  (forall id, In id (map fst (orders s0)) -> id <= last_id s0) ->
  hold_of (run s0 ops) a d - required (run s0 ops) a d = hold_of s0 a d - required s0 a d.
Proof. exact surplus_constant. Qed.
Print Assumptions C02_surplus_constant.

Theorem C02_genesis_surplus_forever : forall g s ops a d,
  genesis_init g = Some s ->
  hold_of (run s ops) a d - required (run s ops) a d = hold_of g a d - required g a d /\
  0 <= hold_of (run s ops) a d - required (run s ops) a d.
Proof. exact genesis_surplus_forever. Qed.
Print Assumptions C02_genesis_surplus_forever.

(** ** Admission: what the model's own refusals ([RRefused]) mean.  With [adm = true] (every check
    outside the model passed) the model's answer is a prediction that the correspondence run
    compares with the implementation in both directions.
    [spendable s a d = bal_of s a d - hold_of s a d - vlock_of s a d]. *)

(** AddHold on a coin list (even one that repeats a denom, as the hold amount of an ask whose flat
    fee is in the assets denom does): admitted iff per denom the MERGED amount is spendable. *)
Theorem C02_add_hold_iff : forall cs s a, coins_nonneg cs = true ->
  ((exists s', add_hold s a cs = Some s') <-> forall d, 0 < amt_of cs d -> amt_of cs d <= spendable s a d).
Proof. exact add_hold_iff. Qed.
Print Assumptions C02_add_hold_iff.

(** A new order is admitted iff it is valid and, per denom, creation fee + hold amount fits into
    the owner's spendable balance. *)
Theorem C02_create_order_accept_iff : forall o cfee s, coins_nonneg cfee = true ->
  ((exists s', create_order o cfee s = Some s') <->
   order_valid o = true /\
   forall d, 0 < amt_of cfee d + amt_of (order_hold o) d ->
             amt_of cfee d + amt_of (order_hold o) d <= spendable s (o_owner o) d).
Proof. exact create_order_accept_iff. Qed.
Print Assumptions C02_create_order_accept_iff.

Theorem C02_commit_accept_iff : forall m a amount cfee s, coins_nonneg cfee = true ->
  ((exists s', commit_funds m a amount cfee s = Some s') <->
   coins_nonneg amount = true /\
   forall d, 0 < amt_of cfee d + amt_of amount d -> amt_of cfee d + amt_of amount d <= spendable s a d).
Proof. exact commit_funds_accept_iff. Qed.
Print Assumptions C02_commit_accept_iff.

Theorem C02_payment_create_accept_iff : forall src ext samt tamt target s,
  ((exists s', pay_create src ext samt tamt target s = Some s') <->
   coins_pos samt = true /\ coins_pos tamt = true /\ (coins_is_zero samt && coins_is_zero tamt) = false /\
   afind k2_eqb (src, ext) (pays s) = None /\
   forall d, 0 < amt_of samt d -> amt_of samt d <= spendable s src d).
(* [ext] is ANY external id, the empty one included: a payment's key is (source, external id), so a
   second payment of a source under an id that is still outstanding is refused -- it would
   overwrite the record while its hold is added on top. *)
Proof. exact pay_create_accept_iff. Qed.
Print Assumptions C02_payment_create_accept_iff.

(** Releasing from a commitment: refused iff the amount is negative, nothing is committed, or more
    than is committed is asked for (in some denom of the request). *)
Theorem C02_release_accept_iff : forall cur amount,
  (exists nr, release_split cur amount = Some nr) <->
  coins_nonneg amount = true /\ coins_is_zero cur = false /\
  (coins_is_zero amount = true \/ coins_geb cur amount = true).
Proof. exact release_split_iff. Qed.
Print Assumptions C02_release_accept_iff.

(** Cancelling: in a well-formed covered state, admitted iff the order exists and the signer is
    its owner or holds the cancel permission (the release of its hold cannot fail). *)
Theorem C02_cancel_accept_iff : forall signer priv id s,
  (NoDup (map fst (orders s)) /\ NoDup (map fst (commits s)) /\ NoDup (map fst (pays s))) /\
  ((forall e, In e (orders s) -> coins_nonneg (order_hold (snd e)) = true) /\
   (forall e, In e (commits s) -> NoDup (map fst (snd e)) /\ coins_nonneg (snd e) = true) /\
   (forall e, In e (pays s) -> coins_nonneg (p_samt (snd e)) = true)) ->
  (forall a d, required s a d <= hold_of s a d) ->
  ((exists s', cancel_order_by signer priv id s = Some s') <->
   exists o, afind Z.eqb id (orders s) = Some o /\ (signer = o_owner o \/ priv = true)).
Proof. exact cancel_accept_iff. Qed.
Print Assumptions C02_cancel_accept_iff.

(** Delegating (staking MsgDelegate -> bank DelegateCoins) is the one way an account's own funds
    leave it without passing the ordinary locked-coins check: coins that are still VESTING may be
    delegated, coins on HOLD may not.  A delegation of [v] of denom [d] is admitted iff
    [0 < v <= balance - on hold]; it lowers the balance by [v], the vesting lock by [v] (not below
    zero), and moves neither a hold nor a record -- so by [C02_inv_reachable] (which quantifies
    over histories that contain delegations and passing time) hold = obligations <= balance
    survives it. *)
Theorem C02_delegate_accept_iff : forall a d v s,
  (exists s', delegate a [(d, v)] s = Some s') <-> 0 < v /\ v <= bal_of s a d - hold_of s a d.
Proof. exact delegate_one_iff. Qed.
Print Assumptions C02_delegate_accept_iff.

Theorem C02_delegate_effect : forall a d v s s',
  delegate a [(d, v)] s = Some s' ->
  bal_of s' a d = bal_of s a d - v /\ vlock_of s' a d = Z.max 0 (vlock_of s a d - v) /\
  holds s' = holds s /\ orders s' = orders s /\ commits s' = commits s /\ pays s' = pays s.
Proof. exact delegate_one_effect. Qed.
Print Assumptions C02_delegate_effect.

(** Non-vacuity for delegations and payments without an external id.  Account 1 owns 1000 of the
    bond denom 10, of which 300 are still vesting; external id 9 stands for the EMPTY external id
    (ids are interned, only equality matters).  An ask puts 600 on hold; delegating 401 is refused
    (only 400 are not on hold) although 401 <= balance, delegating 400 is accepted although only
    100 are spendable (the vesting coins may be delegated) and leaves balance 600 = hold; a first
    payment without external id is accepted, a second one from the same source is refused while
    the first is outstanding and accepted after it was cancelled. *)
Example C02_witness_delegate :
  let s0 := mk_state [] 0 [] [] [] [((1, 10), 1000); ((1, 20), 50); ((2, 20), 90)] [((1, 10), 300)] in
  let ops :=
    [ OCreate true (mk_order true 1 7 (10, 600) (20, 60) [] false) [];
      ODelegate true 1 [(10, 401)];
      ODelegate true 1 [(10, 400)];
      OPayCreate true 2 9 [(20, 7)] [] 1;
      OPayCreate true 2 9 [(20, 10)] [] 1;
      OPayCancel true 2 [9];
      OPayCreate true 2 9 [(20, 10)] [] 1 ] in
  let at_ n := run s0 (firstn n ops) in
  let results :=
    fst (fold_left (fun x o => (fst x ++ [snd (step (snd x) o)], fst (step (snd x) o))) ops ([], s0)) in
  results = [ROk; RRefused; ROk; ROk; RRefused; ROk; ROk] /\
  spendable (at_ 1%nat) 1 10 = 100 /\
  (bal_of (at_ 3%nat) 1 10, hold_of (at_ 3%nat) 1 10, vlock_of (at_ 3%nat) 1 10) = (600, 600, 0) /\
  (hold_of (at_ 5%nat) 2 20, required (at_ 5%nat) 2 20) = (7, 7) /\
  (hold_of (at_ 6%nat) 2 20, required (at_ 6%nat) 2 20) = (0, 0) /\
  (hold_of (at_ 7%nat) 2 20, required (at_ 7%nat) 2 20) = (10, 10).
Proof. vm_compute. repeat split. Qed.

(** Non-vacuity: accounts 1 (seller), 2 (buyer), 3 (payer); denoms 10 (asset), 20 (price),
    30 (fee); market 7.  The start state has balances only, so the hypotheses of
    [C02_inv_reachable] hold.  History: a partial-fill ask whose flat fee (denom 30) differs
    from the price denom, a bid with buyer settlement fees, a settlement filling the bid and
    20 of the ask's 60 assets, a commitment, a partial release, a payment created and rejected,
    the rest of the ask cancelled, the market closed.  Holds are listed per key in the order
    (1,10) (1,20) (1,30) (2,10) (2,20) (2,30) (3,10) (3,20) (3,30). *)
Example C02_witness :
  let keys := [(1, 10); (1, 20); (1, 30); (2, 10); (2, 20); (2, 30); (3, 10); (3, 20); (3, 30)] in
  let s0 := mk_state [] 0 [] [] []
              [((1, 10), 100); ((1, 20), 50); ((1, 30), 40);
               ((2, 10), 10); ((2, 20), 500); ((2, 30), 60);
               ((3, 10), 5); ((3, 20), 70); ((3, 30), 80)] [] in
  let ask := mk_order true 1 7 (10, 60) (20, 120) [(30, 6)] true in
  let bid := mk_order false 2 7 (10, 20) (20, 40) [(20, 3); (30, 5)] false in
  let ops :=
    [ OCreate true ask [(30, 2)];                        (* order 1 *)
      OCreate true bid [(30, 1)];                        (* order 2 *)
      OSettle true [1; 2] [2] (Some (1, 20))
        [((1, 10), -20); ((1, 20), 40); ((1, 30), -2); ((2, 10), 20); ((2, 20), -43); ((2, 30), -5)];
      OCommit true 7 2 [(20, 100)] [(30, 1)];
      ORelease true 7 [(2, [(20, 30)])];
      OPayCreate true 3 1 [(20, 25)] [(10, 5)] 1;
      OPayReject true 1 3 1;
      OCancel true 1 false 1;
      OCloseMarket true 7 ] in
  let at_ n := run s0 (firstn n ops) in
  let holds_at n := map (fun k => hold_of (at_ n) (fst k) (snd k)) keys in
  let results :=
    fst (fold_left (fun x o => (fst x ++ [snd (step (snd x) o)], fst (step (snd x) o))) ops ([], s0)) in
  (* the hypotheses of C02_inv_reachable on the start state *)
  forallb (fun k => (hold_of s0 (fst k) (snd k) =? required s0 (fst k) (snd k)) &&
                    (hold_of s0 (fst k) (snd k) <=? bal_of s0 (fst k) (snd k))) keys = true /\
  orders s0 = [] /\
  (* every operation is accepted *)
  results = [ROk; ROk; ROk; ROk; ROk; ROk; ROk; ROk; ROk] /\
  (* both orders open: assets 60 + fee 6 held for the seller, price 40 + fees 3, 5 for the buyer *)
  holds_at 2%nat = [60; 0; 6; 0; 43; 5; 0; 0; 0] /\
  (* after the partial settlement only the unfilled part of the ask is held: 40 assets, fee 4 *)
  holds_at 3%nat = [40; 0; 4; 0; 0; 0; 0; 0; 0] /\
  (* commitment of 100 minus the release of 30, and the payment's source amount 25 *)
  holds_at 6%nat = [40; 0; 4; 0; 70; 0; 0; 25; 0] /\
  (* at the end nothing is on hold and nothing is required *)
  holds_at 9%nat = [0; 0; 0; 0; 0; 0; 0; 0; 0] /\
  map (fun k => required (at_ 9%nat) (fst k) (snd k)) keys = [0; 0; 0; 0; 0; 0; 0; 0; 0] /\
  (* and at every point of the history hold = required <= balance on these keys *)
  forallb (fun n => forallb (fun k =>
      (hold_of (at_ n) (fst k) (snd k) =? required (at_ n) (fst k) (snd k)) &&
      (hold_of (at_ n) (fst k) (snd k) <=? bal_of (at_ n) (fst k) (snd k))) keys)
    [0; 1; 2; 3; 4; 5; 6; 7; 8; 9]%nat = true.
Proof. vm_compute. repeat split. Qed.

(** Non-vacuity of the multi-item theorems: same accounts / denoms; market 7.  The start state has
    balances only, so it satisfies the hypotheses of [C02_reserved_delta_exact_history] (empty KV
    stores, nothing required).  History: two asks of seller 1 and two bids of buyer 2 (one of each
    partially fillable), a settlement filling ask 1 and bid 3 in full and 10 of bid 4's 30 assets;
    commitments of 2 and 3; a release list naming account 2 twice (a part, then "everything");
    a commitment settlement with an input, an output and a fee; three payments of 3 (two naming
    1), reject-all by 1 listing source 3 twice; close market with an open order and a commitment
    left.  Every operation is accepted, and at each multi-item step the observed hold movement on
    the nine keys equals [reserved_delta], computed from the records before the step. *)
Example C02_witness_multi :
  let keys := [(1, 10); (1, 20); (1, 30); (2, 10); (2, 20); (2, 30); (3, 10); (3, 20); (3, 30)] in
  let s0 := mk_state [] 0 [] [] []
              [((1, 10), 100); ((1, 20), 50); ((1, 30), 40);
               ((2, 10), 10); ((2, 20), 900); ((2, 30), 60);
               ((3, 10), 5); ((3, 20), 300); ((3, 30), 80)] [] in
  let ops :=
    [ OCreate true (mk_order true 1 7 (10, 20) (20, 40) [(30, 6)] false) [];                (* 1 *)
      OCreate true (mk_order true 1 7 (10, 30) (20, 60) [(10, 5)] false) [];                 (* 2: flat fee in the assets denom *)
      OCreate true (mk_order false 2 7 (10, 10) (20, 20) [(30, 2)] false) [];                (* 3 *)
      OCreate true (mk_order false 2 7 (10, 30) (20, 60) [(30, 3)] true) [];                 (* 4 *)
      OSettle true [1; 3; 4] [1; 3] (Some (4, 10))
        [((1, 10), -20); ((1, 20), 40); ((1, 30), -6); ((2, 10), 20); ((2, 20), -40); ((2, 30), -3)];
      OCommit true 7 2 [(20, 100)] [];
      OCommit true 7 3 [(20, 50); (30, 10)] [];
      ORelease true 7 [(2, [(20, 30)]); (2, [])];
      OCommit true 7 2 [(20, 80)] [];
      OCommitSettle true 7 [(2, [(20, 40)])] [(3, [(20, 40)])] [(2, [(20, 5)])];
      OPayCreate true 3 1 [(20, 25)] [] 1;
      OPayCreate true 3 2 [(20, 15)] [(10, 1)] 1;
      OPayCreate true 3 3 [(30, 7)] [] 2;
      OPayRejectAll true 1 [3; 3];
      OCloseMarket true 7 ] in
  let at_ n := run s0 (firstn n ops) in
  let results :=
    fst (fold_left (fun x o => (fst x ++ [snd (step (snd x) o)], fst (step (snd x) o))) ops ([], s0)) in
  let moved n := map (fun k => hold_of (at_ (S n)) (fst k) (snd k) - hold_of (at_ n) (fst k) (snd k)) keys in
  let reserved n := map (fun k => reserved_delta (at_ n) (nth n ops (OManageFees false)) (fst k) (snd k)) keys in
  (* hypotheses of C02_reserved_delta_exact_history on the start state *)
  (orders s0 = [] /\ commits s0 = [] /\ pays s0 = []) /\
  (forall a d, required s0 a d <= hold_of s0 a d) /\
  results = [ROk; ROk; ROk; ROk; ROk; ROk; ROk; ROk; ROk; ROk; ROk; ROk; ROk; ROk; ROk] /\
  (* ask 2 holds assets 30 + fee 5 in ONE denom *)
  map (fun k => hold_of (at_ 2%nat) (fst k) (snd k)) keys = [55; 0; 6; 0; 0; 0; 0; 0; 0] /\
  (* the settlement: ask 1 (20 + fee 6), bid 3 (20 + 2) and a third of bid 4 (20 + 1) *)
  moved 4%nat = [-20; 0; -6; 0; -40; -3; 0; 0; 0] /\ reserved 4%nat = moved 4%nat /\
  (* the release list: 30, then the 70 that are left *)
  moved 7%nat = [0; 0; 0; 0; -100; 0; 0; 0; 0] /\ reserved 7%nat = moved 7%nat /\
  (* the commitment settlement: 2 gives input 40 and fee 5, 3 receives 40 *)
  moved 9%nat = [0; 0; 0; 0; -45; 0; 0; 40; 0] /\ reserved 9%nat = moved 9%nat /\
  (* reject-all: the two payments of 3 that name 1 *)
  moved 13%nat = [0; 0; 0; 0; 0; 0; 0; -40; 0] /\ reserved 13%nat = moved 13%nat /\
  (* close market: ask 2, the rest of bid 4, the commitments of 2 and 3 *)
  moved 14%nat = [-35; 0; 0; 0; -75; -2; 0; -90; -10] /\ reserved 14%nat = moved 14%nat /\
  (* what is left on hold at the end: the payment of 3 to 2 *)
  map (fun k => hold_of (at_ 15%nat) (fst k) (snd k)) keys = [0; 0; 0; 0; 0; 0; 0; 0; 7].
Proof.
  cbv zeta. split; [repeat split|]. split; [intros a d; vm_compute; discriminate|].
  vm_compute. repeat split.
Qed.
