(** C12 — Marker operations need the matching access right; authz transfers stay in grant.
    Only theorem statements here; each is closed by [exact] of a lemma proved in
    Proofs/MarkerAccessProofs.v about the models Marker/Access.v and Marker/Authz.v. *)
From Coq Require Import ZArith NArith List Bool.
Import ListNotations.
From PV Require Import Marker.Access Marker.Authz Proofs.MarkerAccessProofs.
From PV Require Import Marker.AccessTable Gen.GenMarkerAccess Proofs.MarkerAccessGenProofs.
Open Scope Z_scope.

(** Every administration endpoint (mint, burn, withdraw, finalize, activate, cancel, delete, add /
    delete access, denom metadata, account data, deny list, required attributes, fee allowance,
    net asset values), for EVERY marker status, type, set of rights of the caller (any bit mask,
    not only the 256 meaningful ones), manager / governance / governance-control / supply flags
    and activation history satisfying the lifecycle invariant [cfg_wfb] (an activated marker has no
    manager; see [C12_manager_gone_after_activation]): when the code performs the operation, the
    caller holds a right the documentation names for that endpoint in the marker's CURRENT status,
    or meets a documented alternative (manager of a marker that has never been active, governance
    account on a marker under governance control, holder of the entire non-empty supply for access
    changes). *)
Theorem C12_op_needs_documented_right : forall c o,
  cfg_wfb c = true ->
  decide c o = Done -> req_met c (documented o (c_status c) (c_type c)) = true.
Proof. exact decide_documented. Qed.
Print Assumptions C12_op_needs_documented_right.

(** Over EVERY history of status transitions (finalize, activate, cancel, delete by authorised
    callers, and governance ChangeStatus to any status, e.g. Proposed -> Active directly), starting
    from any state satisfying the invariant (a new marker: proposed / finalized with a manager,
    or created active without one): a marker that is or has been active has no manager. *)
Theorem C12_manager_gone_after_activation : forall ops l,
  life_wfb l = true -> life_wfb (life_run l ops) = true.
Proof. exact life_run_wf. Qed.
Print Assumptions C12_manager_gone_after_activation.

(** Both halves are needed: a SetStatus that clears the manager only on Finalized -> Active loses
    the invariant through the governance route, and a manager surviving activation would set denom
    metadata on an active marker (and delete a cancelled one) without holding any right. *)
Theorem C12_manager_cleared_only_from_finalized_refuted : exists l ops,
  life_wfb l = true /\ life_wfb (life_run_gen set_status_from_finalized_only l ops) = false.
Proof. exact manager_cleared_only_from_finalized_refuted. Qed.
Print Assumptions C12_manager_cleared_only_from_finalized_refuted.

Theorem C12_surviving_manager_refuted : exists c o,
  cfg_wfb c = false /\ c_rights c = 0%N /\ c_status c = SActive /\
  decide c o = Done /\ req_met c (documented o (c_status c) (c_type c)) = false.
Proof. exact surviving_manager_refuted. Qed.
Print Assumptions C12_surviving_manager_refuted.

(** The code before fix 374f3de02 ([decide_prefix]: no positivity test in
    accountControlsAllSupply) violates it: a caller with no rights at all changes the access list of
    an active marker whose recorded supply is zero; the current code denies that call. *)
Theorem C12_zero_supply_prefix_refuted : exists c o,
  decide_prefix c o = Done /\ c_rights c = 0%N /\ c_manager c = false /\ c_gov c = false /\
  req_met c (documented o (c_status c) (c_type c)) = false /\ decide c o = Denied.
Proof. exact zero_supply_prefix_refuted. Qed.
Print Assumptions C12_zero_supply_prefix_refuted.

(** The same, by exhaustive computation over the stated finite domain
    [all_cfgs] = 5 statuses x 2 types x 256 right masks x 2^6 flags, and all 15 endpoints. *)
Theorem C12_table_exhaustive :
  forallb (fun c => forallb (table_ok c) all_ops) all_cfgs = true.
Proof. exact table_ok_everywhere. Qed.
Print Assumptions C12_table_exhaustive.

(** Tie to the Go source, re-established on every run: the table the extractor
    translate/markeraccess reads off x/marker/keeper/marker.go and msg_server.go (per method: the
    Access_* constants passed to an access predicate, manager / authority / whole-supply /
    any-grant guards, and every other mention of an Access_* constant as an "unrecognised" row) is
    the documented one; the rows of the fifteen endpoints are computed from [documented]. *)
Theorem C12_generated_access_table : generated_access_table = documented_access_table.
Proof. exact generated_table_is_documented. Qed.
Print Assumptions C12_generated_access_table.

(** The only success that is not an effect: cancelling a marker that is already cancelled. *)
Theorem C12_noop_is_cancel_of_cancelled : forall c o,
  decide c o = NoOp -> o = OCancel /\ c_status c = SCancelled /\ status_after c o = SCancelled.
Proof. exact noop_only_cancel_of_cancelled. Qed.
Print Assumptions C12_noop_is_cancel_of_cancelled.

(** MsgTransferRequest.  Whenever a transfer goes through: the marker is an active restricted
    marker, the admin holds TRANSFER or FORCE_TRANSFER (and DEPOSIT on a restricted destination
    marker), the destination is not blocked; and it went through in exactly one of three ways:
    out of the admin's own account; under a MarkerTransferAuthorization of the source that accepts
    the message (the grant stored afterwards is the reduced one); or as a forced transfer, which
    needs a marker allowing forced transfers, FORCE_TRANSFER on the admin, and a source that is
    neither a module account nor a smart-contract account. *)
Theorem C12_forced_transfer_rules : forall x p g',
  transfer x = Some (p, g') ->
  x_status x = SActive /\ x_type x = TRestricted /\
  (has RTransfer (x_rights x) || has RForceTransfer (x_rights x)) = true /\
  dest_marker_ok (x_dest x) = true /\ dest_blocked (x_dest x) = false /\
  0 <= m_amt (x_msg x) <= x_frombal x /\
  match p with
  | PSelf => x_self x = true /\ g' = x_grant x
  | PForced =>
      x_self x = false /\ x_forced x = true /\ has RForceTransfer (x_rights x) = true /\
      can_force_transfer_from (x_from x) = true /\ module_or_contract_shape (x_from x) = false /\
      g' = x_grant x
  | PGrant =>
      x_self x = false /\ (x_forced x && has RForceTransfer (x_rights x)) = false /\
      exists g r, x_grant x = Some g /\ accept g (x_msg x) = Some r /\ g' = stored_after r
  end.
Proof. exact transfer_rules. Qed.
Print Assumptions C12_forced_transfer_rules.

Theorem C12_third_party_transfer_needs_grant_or_force : forall x p g',
  transfer x = Some (p, g') -> x_self x = false ->
  (exists g r, x_grant x = Some g /\ accept g (x_msg x) = Some r) \/
  (x_forced x = true /\ has RForceTransfer (x_rights x) = true /\
   module_or_contract_shape (x_from x) = false).
Proof. exact third_party_needs_grant_or_force. Qed.
Print Assumptions C12_third_party_transfer_needs_grant_or_force.

(** Over ANY sequence of uses of a grant (accepted or not, any recipients, denoms, amounts, any
    balance of the granter), the total moved in each denom never exceeds the original limit. *)
Theorem C12_grant_total_le_limit : forall g0 bal ms d,
  (forall d', 0 <= amount_of d' (g_limit g0)) ->
  moved d (fst (run {| gs_grant := Some g0; gs_bal := bal |} ms)) <= amount_of d (g_limit g0).
Proof. exact grant_total_le_limit. Qed.
Print Assumptions C12_grant_total_le_limit.

(** Over ANY sequence of uses, every use that went through was sent to an address of the ORIGINAL
    allow list, when the grant has one. *)
Theorem C12_grant_recipients_allowed : forall g0 bal ms,
  recipients_in (g_allow g0) (fst (run {| gs_grant := Some g0; gs_bal := bal |} ms)) = true.
Proof. exact grant_recipients_allowed. Qed.
Print Assumptions C12_grant_recipients_allowed.

(** The code before fix 24c42e028 ([accept_prefix]: the updated grant carries no allow list)
    violates it: after one partial use a transfer to a non-listed address goes through. *)
Theorem C12_unfixed_accept_refuted : exists g0 bal ms,
  recipients_in (g_allow g0) (fst (run_prefix {| gs_grant := Some g0; gs_bal := bal |} ms)) = false /\
  recipients_in (g_allow g0) (fst (run {| gs_grant := Some g0; gs_bal := bal |} ms)) = true.
Proof. exact unfixed_accept_refuted. Qed.
Print Assumptions C12_unfixed_accept_refuted.

(** Non-vacuity: a holder of DELETE cancels an active marker; a grant of 10 with allow list [1] is
    used for 3 + 3, refuses address 2 and an overdraw, and is deleted by the last 4; a forced
    transfer out of a signed account goes through and one out of a module account does not. *)
Example C12_witness :
  decide {| c_status := SActive; c_type := TRestricted; c_rights := 16; c_manager := false; c_gov := false;
            c_govctl := true; c_allsupply := false; c_supply_zero := false; c_activated := true |} OCancel = Done /\
  (let g := {| g_limit := [(1%N, 10)]; g_allow := [1%N] |} in
   let u to a := {| m_to := to; m_denom := 1%N; m_amt := a |} in
   let '(tr, s) := run {| gs_grant := Some g; gs_bal := [(1%N, 100)] |} [u 1%N 3; u 2%N 3; u 1%N 3; u 1%N 5; u 1%N 4] in
   map snd tr = [true; false; true; false; true] /\ gs_grant s = None /\ moved 1%N tr = 10) /\
  (let x from := {| x_status := SActive; x_type := TRestricted; x_rights := 128; x_forced := true; x_self := false;
                    x_from := from; x_dest := DPlain; x_grant := None;
                    x_msg := {| m_to := 9%N; m_denom := 1%N; m_amt := 5 |}; x_frombal := 50 |} in
   transfer (x {| a_group := false; a_exists := true; a_seq := 4; a_marker := false; a_market := false |}) = Some (PForced, None) /\
   transfer (x {| a_group := false; a_exists := true; a_seq := 0; a_marker := false; a_market := false |}) = None).
Proof. vm_compute. repeat split. Qed.
