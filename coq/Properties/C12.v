(** C12 — Marker operations need the matching access right; authz transfers stay in grant.
    Only theorem statements here; each is closed by [exact] of a lemma proved in
    Proofs/MarkerAccessProofs.v about the models Marker/Access.v and Marker/Authz.v. *)
From Coq Require Import ZArith NArith List Bool.
Import ListNotations.
From PV Require Import Marker.Access Marker.Authz Proofs.MarkerAccessProofs.
From PV Require Import Marker.AccessTable Gen.GenMarkerAccess Proofs.MarkerAccessGenProofs.
From PV Require Import Marker.AuthzSeq Marker.AccessHist.
From PV Require Import Proofs.MarkerTransferProofs Proofs.AuthzSeqProofs Proofs.AccessHistProofs.
Open Scope Z_scope.

(** Every administration endpoint (mint, burn, withdraw, finalize, activate, cancel, delete, add /
    delete access, denom metadata, account data, deny list, required attributes, fee allowance,
    net asset values, and the eight governance-only endpoints: forced-transfer flag, supply
    increase / decrease, set / remove administrator, change status, withdraw escrow, denom metadata
    proposal), for EVERY marker status, type, set of rights of the caller (any bit mask,
    not only the 256 meaningful ones), manager / governance / governance-control / supply flags
    and activation history satisfying the lifecycle invariant [cfg_wfb] (an activated marker has no
    manager; see [C12_manager_gone_after_activation]): when the code performs the operation, the
    caller holds a right the documentation names for that endpoint in the marker's CURRENT status,
    or meets a documented alternative (manager of a marker that has never been active, governance
    account on a marker under governance control, holder of the entire non-empty supply for access
    changes). *)
Theorem C12_op_needs_documented_right : forall c o,
  cfg_wfb c = true ->
  decide c o = Done -> req_met c (documented o (c_status c) (c_type c)) = true.
Proof. exact decide_documented. Qed.
Print Assumptions C12_op_needs_documented_right.

(** Over EVERY history of status transitions (finalize, activate, cancel, delete by authorised
    callers, and governance ChangeStatus to any status, e.g. Proposed -> Active directly), starting
    from any state satisfying the invariant (a new marker: proposed / finalized with a manager,
    or created active without one): a marker that is or has been active has no manager. *)
Theorem C12_manager_gone_after_activation : forall ops l,
  life_wfb l = true -> life_wfb (life_run l ops) = true.
Proof. exact life_run_wf. Qed.
Print Assumptions C12_manager_gone_after_activation.

(** Both halves are needed: a SetStatus that clears the manager only on Finalized -> Active loses
    the invariant through the governance route, and a manager surviving activation would set denom
    metadata on an active marker (and delete a cancelled one) without holding any right. *)
Theorem C12_manager_cleared_only_from_finalized_refuted : exists l ops,
  life_wfb l = true /\ life_wfb (life_run_gen set_status_from_finalized_only l ops) = false.
Proof. exact manager_cleared_only_from_finalized_refuted. Qed.
Print Assumptions C12_manager_cleared_only_from_finalized_refuted.

Theorem C12_surviving_manager_refuted : exists c o,
  cfg_wfb c = false /\ c_rights c = 0%N /\ c_status c = SActive /\
  decide c o = Done /\ req_met c (documented o (c_status c) (c_type c)) = false.
Proof. exact surviving_manager_refuted. Qed.
Print Assumptions C12_surviving_manager_refuted.

(** The code before fix 374f3de02 ([decide_prefix]: no positivity test in
    accountControlsAllSupply) violates it: a caller with no rights at all changes the access list of
    an active marker whose recorded supply is zero; the current code denies that call. *)
Theorem C12_zero_supply_prefix_refuted : exists c o,
  decide_prefix c o = Done /\ c_rights c = 0%N /\ c_manager c = false /\ c_gov c = false /\
  req_met c (documented o (c_status c) (c_type c)) = false /\ decide c o = Denied.
Proof. exact zero_supply_prefix_refuted. Qed.
Print Assumptions C12_zero_supply_prefix_refuted.

(** The same, by exhaustive computation over the stated finite domain
    [all_cfgs] = 5 statuses x 2 types x 256 right masks x 2^6 flags, and all 23 endpoints. *)
Theorem C12_table_exhaustive :
  forallb (fun c => forallb (table_ok c) all_ops) all_cfgs = true.
Proof. exact table_ok_everywhere. Qed.
Print Assumptions C12_table_exhaustive.

(** Tie to the Go source, re-established on every run: the table the extractor
    translate/markeraccess reads off x/marker/keeper/marker.go and msg_server.go (per method: the
    Access_* constants passed to an access predicate, manager / authority / whole-supply /
    any-grant guards, and every other mention of an Access_* constant as an "unrecognised" row) is
    the documented one; the rows of the twenty-three endpoints are computed from [documented]. *)
Theorem C12_generated_access_table : generated_access_table = documented_access_table.
Proof. exact generated_table_is_documented. Qed.
Print Assumptions C12_generated_access_table.

(** The only success that is not an effect: cancelling a marker that is already cancelled. *)
Theorem C12_noop_is_cancel_of_cancelled : forall c o,
  decide c o = NoOp -> o = OCancel /\ c_status c = SCancelled /\ status_after c o = SCancelled.
Proof. exact noop_only_cancel_of_cancelled. Qed.
Print Assumptions C12_noop_is_cancel_of_cancelled.

(** MsgTransferRequest, as an EQUIVALENCE.  A transfer goes through, in the way [p] and leaving the
    source's grant [g'] behind, exactly when: the marker is an active restricted marker, the
    administrator holds TRANSFER or FORCE_TRANSFER (and DEPOSIT on a restricted destination marker,
    whatever that marker's status), the destination is not blocked, the amount is not negative and
    covered by the source, and one of
      - the source is the administrator's own account;
      - a forced transfer: the marker allows forced transfers, the administrator holds FORCE_TRANSFER
        (TRANSFER is not needed) and the source may be forced -- a group policy, a missing account,
        an account that has signed, a marker account (the marker's own included: no WITHDRAW is
        asked), a market account; by [C12_forced_never_from_module_or_contract] never an account
        of module / contract shape; the source's grant is untouched;
      - otherwise (the marker does not allow forced transfers or the administrator lacks
        FORCE_TRANSFER): a MarkerTransferAuthorization of the source to the administrator that
        accepts the message; the grant stored afterwards is the reduced one. *)
Theorem C12_forced_transfer_rules : forall x p g',
  transfer x = Some (p, g') <->
  (x_status x = SActive /\ x_type x = TRestricted /\
   (has RTransfer (x_rights x) || has RForceTransfer (x_rights x)) = true /\
   dest_marker_ok (x_dest x) = true /\ dest_blocked (x_dest x) = false /\
   0 <= m_amt (x_msg x) <= x_frombal x /\
   match p with
   | PSelf => x_self x = true /\ g' = x_grant x
   | PForced =>
       x_self x = false /\ x_forced x = true /\ has RForceTransfer (x_rights x) = true /\
       can_force_transfer_from (x_from x) = true /\ g' = x_grant x
   | PGrant =>
       x_self x = false /\ (x_forced x && has RForceTransfer (x_rights x)) = false /\
       exists g r, x_grant x = Some g /\ accept g (x_msg x) = Some r /\ g' = stored_after r
   end).
Proof. exact transfer_iff. Qed.
Print Assumptions C12_forced_transfer_rules.

Theorem C12_forced_never_from_module_or_contract : forall x g',
  transfer x = Some (PForced, g') ->
  module_or_contract_shape (x_from x) = false /\ x_forced x = true /\
  has RForceTransfer (x_rights x) = true /\ x_type x = TRestricted /\ x_status x = SActive.
Proof. exact forced_transfer_summary. Qed.
Print Assumptions C12_forced_never_from_module_or_contract.

(** The receiving marker's STATUS does not lift the DEPOSIT requirement (transfers and withdrawals
    alike); a check that only guarded ACTIVE receiving markers is refuted by a transfer into a
    proposed restricted marker's account without DEPOSIT on it. *)
Theorem C12_deposit_needed_whatever_the_recipient_status : forall x p g' st rs,
  transfer x = Some (p, g') -> x_dest x = DMarker true st rs -> has RDeposit rs = true.
Proof. exact deposit_needed_in_every_status. Qed.
Print Assumptions C12_deposit_needed_whatever_the_recipient_status.

Theorem C12_active_only_deposit_check_refuted : exists x p g' st rs,
  x_dest x = DMarker true st rs /\ has RDeposit rs = false /\
  transfer_gen2 dest_marker_ok_active_only accept x = Some (p, g') /\ transfer x = None.
Proof. exact active_only_deposit_check_refuted. Qed.
Print Assumptions C12_active_only_deposit_check_refuted.

(** MsgWithdrawRequest with its recipient, as an equivalence: WITHDRAW on the (active) source
    marker, DEPOSIT on a restricted recipient marker in whatever status, recipient not blocked. *)
Theorem C12_withdraw_rules : forall c d,
  withdraw_to c d = true <->
  (has RWithdraw (c_rights c) = true /\ c_status c = SActive /\
   dest_marker_ok d = true /\ dest_blocked d = false).
Proof. exact withdraw_to_iff. Qed.
Print Assumptions C12_withdraw_rules.

(** GrantAllowance: the fee allowance is paid out of the MARKER's account; exactly ADMIN on the
    marker is needed -- neither the manager, the governance account, the holder of the whole supply
    nor any other right will do, in any status. *)
Theorem C12_grant_allowance_needs_admin : forall c,
  decide c OGrantAllowance = Done <-> has RAdmin (c_rights c) = true.
Proof. exact grant_allowance_iff. Qed.
Print Assumptions C12_grant_allowance_needs_admin.

(** The governance-only endpoints: no set of rights stands in for the governance account. *)
Theorem C12_governance_only_endpoints : forall c o,
  gov_only o = true -> decide c o = Done -> c_gov c = true /\ c_govctl c = true.
Proof. exact gov_only_needs_governance. Qed.
Print Assumptions C12_governance_only_endpoints.

(** MsgIbcTransferRequest, as an equivalence: a restricted marker (whatever its status), TRANSFER
    on the administrator (FORCE_TRANSFER does not stand in), a positive covered amount, and either
    the administrator's own account or an accepting MarkerTransferAuthorization of the sender,
    which is reduced / deleted by the use.  There is no forced ibc transfer: the variant sharing
    TransferCoin's source logic is refuted. *)
Theorem C12_ibc_transfer_rules : forall x g',
  ibc_transfer x = Some g' <->
  (x_type x = TRestricted /\ has RTransfer (x_rights x) = true /\
   0 < m_amt (x_msg x) <= x_frombal x /\
   ((x_self x = true /\ g' = x_grant x) \/
    (x_self x = false /\ exists g r, x_grant x = Some g /\ accept g (x_msg x) = Some r /\ g' = stored_after r))).
Proof. exact ibc_transfer_iff. Qed.
Print Assumptions C12_ibc_transfer_rules.

Theorem C12_ibc_forced_branch_refuted : exists x g',
  x_self x = false /\ x_grant x = None /\
  ibc_transfer_gen true accept x = Some g' /\ ibc_transfer x = None.
Proof. exact ibc_forced_branch_refuted. Qed.
Print Assumptions C12_ibc_forced_branch_refuted.

(** The whole-supply escape of AddAccess / DeleteAccess reads the supply RECORDED on the marker:
    a caller without ADMIN who is not the manager gets through only with a balance equal to the
    (non-zero) recorded supply, whatever the bank says exists; comparing with the bank supply
    instead is refuted (floating marker recorded at 1000, 600 coins left, all with the caller). *)
Theorem C12_all_supply_is_the_recorded_supply : forall c sf o,
  (o = OAddAccess \/ o = ODeleteAccess) ->
  has RAdmin (c_rights c) = false -> c_manager c = false ->
  decide (with_supply c sf) o = Done ->
  sf_balance sf = sf_record sf /\ sf_record sf <> 0.
Proof. exact all_supply_is_the_recorded_supply. Qed.
Print Assumptions C12_all_supply_is_the_recorded_supply.

Theorem C12_circulating_supply_variant_refuted : exists c sf o,
  c_rights c = 0%N /\ c_manager c = false /\ c_gov c = false /\
  sf_balance sf = sf_bank sf /\ sf_balance sf < sf_record sf /\
  decide (with_supply_circulating c sf) o = Done /\ decide (with_supply c sf) o = Denied /\
  req_met (with_supply c sf) (documented o (c_status c) (c_type c)) = false.
Proof. exact circulating_supply_variant_refuted. Qed.
Print Assumptions C12_circulating_supply_variant_refuted.

(** Every rpc of the marker module's `service Msg` (read off tx.proto on every run) and every
    exported method of its msgServer, with the guarded keeper methods each reaches, is one of the
    documented endpoints: a new endpoint without a row breaks this.  Every operation of the
    decision table is behind exactly one rpc, every guard row is in front of some rpc, and the row
    in front of an administration endpoint is the one computed from its documented requirement. *)
Theorem C12_every_endpoint_has_a_row :
  generated_marker_rpcs = map ep_rpc documented_endpoints /\
  generated_marker_endpoints = map (fun e => (ep_rpc e, ep_guards e)) documented_endpoints /\
  forallb (endpoint_ok generated_access_table) documented_endpoints = true /\
  endpoints_cover_ops = true /\ rows_all_reachable generated_access_table = true.
Proof. exact every_endpoint_has_a_row. Qed.
Print Assumptions C12_every_endpoint_has_a_row.

Theorem C12_third_party_transfer_needs_grant_or_force : forall x p g',
  transfer x = Some (p, g') -> x_self x = false ->
  (exists g r, x_grant x = Some g /\ accept g (x_msg x) = Some r) \/
  (x_forced x = true /\ has RForceTransfer (x_rights x) = true /\
   module_or_contract_shape (x_from x) = false).
Proof. exact third_party_needs_grant_or_force. Qed.
Print Assumptions C12_third_party_transfer_needs_grant_or_force.

(** Over ANY sequence of uses of a grant (accepted or not, any recipients, denoms, amounts, any
    balance of the granter), the total moved in each denom never exceeds the original limit. *)
Theorem C12_grant_total_le_limit : forall g0 bal ms d,
  (forall d', 0 <= amount_of d' (g_limit g0)) ->
  moved d (fst (run {| gs_grant := Some g0; gs_bal := bal |} ms)) <= amount_of d (g_limit g0).
Proof. exact grant_total_le_limit. Qed.
Print Assumptions C12_grant_total_le_limit.

(** Over ANY sequence of uses, every use that went through was sent to an address of the ORIGINAL
    allow list, when the grant has one. *)
Theorem C12_grant_recipients_allowed : forall g0 bal ms,
  recipients_in (g_allow g0) (fst (run {| gs_grant := Some g0; gs_bal := bal |} ms)) = true.
Proof. exact grant_recipients_allowed. Qed.
Print Assumptions C12_grant_recipients_allowed.

(** The code before fix 24c42e028 ([accept_prefix]: the updated grant carries no allow list)
    violates it: after one partial use a transfer to a non-listed address goes through. *)
Theorem C12_unfixed_accept_refuted : exists g0 bal ms,
  recipients_in (g_allow g0) (fst (run_prefix {| gs_grant := Some g0; gs_bal := bal |} ms)) = false /\
  recipients_in (g_allow g0) (fst (run {| gs_grant := Some g0; gs_bal := bal |} ms)) = true.
Proof. exact unfixed_accept_refuted. Qed.
Print Assumptions C12_unfixed_accept_refuted.

(** ** Histories of one grant with block time, expiration, re-grants and revocation
    ([Marker/AuthzSeq.v]; both routes: the marker keeper's authz handler and authz MsgExec; the
    administrator's rights and the marker's forced-transfer flag are arbitrary at every use).

    An "issue" is what the granter signed last (the initial grant, replaced by every accepted
    MsgGrant); [account] adds up, per denom, what went through under the current issue. *)

(** Per denom, what went through under the current issue never exceeds THAT issue's limit, over
    every history: a re-grant while the old grant is partly used REPLACES the limit (nothing of
    the old one is carried over), and uses after a revocation / expiry / exhaustion add nothing. *)
Theorem C12_timed_grant_total_le_limit : forall r g0 e0 bal now ops d,
  grant_valid g0 = true ->
  let '(i, used) := account {| is_grant := g0; is_exp := e0 |} []
        (fst (srun r {| ts_grant := Some {| tg_grant := g0; tg_exp := e0 |}; ts_bal := bal; ts_now := now |} ops)) in
  0 <= amount_of d used <= amount_of d (g_limit (is_grant i)).
Proof. exact timed_total_le_limit. Qed.
Print Assumptions C12_timed_grant_total_le_limit.

(** After every history: the stored grant, if any, is the current issue less what was used (limit
    per denom), with the issue's allow list and the issue's EXPIRATION (uses change neither); and
    once the issue is used up in every denom the grant is gone (deleted, not kept at zero). *)
Theorem C12_grant_deleted_when_exhausted : forall r g0 e0 bal now ops,
  grant_valid g0 = true ->
  let run := srun r {| ts_grant := Some {| tg_grant := g0; tg_exp := e0 |}; ts_bal := bal; ts_now := now |} ops in
  let '(i, used) := account {| is_grant := g0; is_exp := e0 |} [] (fst run) in
  (forall tg, ts_grant (snd run) = Some tg -> stored_matches i used tg) /\
  ((forall d, amount_of d used = amount_of d (g_limit (is_grant i))) -> ts_grant (snd run) = None).
Proof. exact timed_stored_grant. Qed.
Print Assumptions C12_grant_deleted_when_exhausted.

(** No use consumes the grant after the expiration of the issue it runs under, and every such use
    goes to an address of that issue's allow list (when it has one). *)
Theorem C12_no_use_after_expiry : forall r g0 e0 bal now ops,
  grant_valid g0 = true ->
  uses_ok {| is_grant := g0; is_exp := e0 |}
    (fst (srun r {| ts_grant := Some {| tg_grant := g0; tg_exp := e0 |}; ts_bal := bal; ts_now := now |} ops)) = true.
Proof. exact timed_uses_ok. Qed.
Print Assumptions C12_no_use_after_expiry.

(** A third-party use that went through WITHOUT consuming the grant was a forced transfer: keeper
    route, marker allowing forced transfers, administrator holding FORCE_TRANSFER. *)
Theorem C12_use_without_grant_is_forced : forall r ops s,
  forallb (other_use_ok r) (fst (srun r s ops)) = true.
Proof. exact srun_other_uses. Qed.
Print Assumptions C12_use_without_grant_is_forced.

(** Writing the reduced grant back WITHOUT its expiration (authzHandler passing nil to SaveGrant)
    breaks it: after one partial use the grant never expires. *)
Theorem C12_nil_expiration_refuted :
  let s0 := {| ts_grant := Some {| tg_grant := nil_exp_witness_grant; tg_exp := Some 100 |};
               ts_bal := [(1%N, 50)]; ts_now := 0 |} in
  let i0 := {| is_grant := nil_exp_witness_grant; is_exp := Some 100 |} in
  uses_ok i0 (fst (srun_nil_exp ViaKeeper s0 nil_exp_witness_ops)) = false /\
  map se_res (fst (srun_nil_exp ViaKeeper s0 nil_exp_witness_ops)) = [UGrant; UOther; UGrant] /\
  uses_ok i0 (fst (srun ViaKeeper s0 nil_exp_witness_ops)) = true /\
  map se_res (fst (srun ViaKeeper s0 nil_exp_witness_ops)) = [UGrant; UOther; URefused].
Proof. exact nil_expiration_refuted. Qed.
Print Assumptions C12_nil_expiration_refuted.

(** ** Histories of calls on TWO markers whose access lists change ([Marker/AccessHist.v]). *)

(** Over every history (AddAccess / DeleteAccess, Set- / RemoveAdministrator proposals, status
    transitions and every other endpoint, on either marker, by anybody): every call that is let
    through is justified by the rights the caller holds ON THE MARKER THE CALL NAMES at that very
    moment, or by a documented alternative. *)
Theorem C12_history_calls_need_rights_on_the_named_marker : forall ops s,
  hwfb s = true -> forallb justified (fst (hrun s ops)) = true.
Proof. exact hrun_justified. Qed.
Print Assumptions C12_history_calls_need_rights_on_the_named_marker.

(** Non-interference between markers: after any history, marker [w] is what the calls naming [w]
    alone would have made of it, and those calls have the same outcomes: rights granted on the
    other marker (and its status) are of no use on this one. *)
Theorem C12_rights_do_not_cross_markers : forall w ops s,
  get w (snd (hrun s ops)) = get w (snd (hrun s (filter (on_marker w) ops))) /\
  map he_out (filter (fun e => on_marker w (he_op e)) (fst (hrun s ops))) =
  map he_out (fst (hrun s (filter (on_marker w) ops))).
Proof. exact hrun_projection. Qed.
Print Assumptions C12_rights_do_not_cross_markers.

(** Access changes take effect at once.  After an accepted AddAccess (or SetAdministrator) the
    target's rights on that marker are the union of what it had and what was granted, nobody
    else's change; after an accepted DeleteAccess (or RemoveAdministrator) the target holds nothing,
    and its very next call on that marker is let through only by a documented alternative. *)
Theorem C12_granted_rights_hold_at_once : forall s o s' a e,
  hstep s o = (s', Done) -> is_add (ho_op o) = true ->
  c_rights (cfg_of (get (ho_on o) s') a e) =
  if N.eqb a (ho_target o)
  then N.lor (c_rights (cfg_of (get (ho_on o) s) a e)) (ho_mask o)
  else c_rights (cfg_of (get (ho_on o) s) a e).
Proof. exact added_rights_hold_at_once. Qed.
Print Assumptions C12_granted_rights_hold_at_once.

Theorem C12_revoked_rights_stop_at_once : forall s o s' o2 s2,
  hwfb s = true -> hstep s o = (s', Done) -> is_del (ho_op o) = true ->
  ho_on o2 = ho_on o -> ho_caller o2 = ho_target o -> hstep s' o2 = (s2, Done) ->
  c_rights (cfg_of (get (ho_on o2) s') (ho_caller o2) (ho_env o2)) = 0%N /\
  let m := get (ho_on o2) s' in
  via_alternative (cfg_of m (ho_caller o2) (ho_env o2)) (documented (ho_op o2) (mk_status m) (mk_type m)) = true.
Proof. exact revoked_rights_summary. Qed.
Print Assumptions C12_revoked_rights_stop_at_once.

(** The lifecycle invariant holds along every such history (an activated marker has no manager),
    so "manager" keeps meaning "manager of a marker that was never active". *)
Theorem C12_history_keeps_manager_invariant : forall ops s,
  hwfb s = true -> hwfb (snd (hrun s ops)) = true.
Proof. exact hrun_wf. Qed.
Print Assumptions C12_history_keeps_manager_invariant.

(** Manager semantics end at activation, along every history: no call on a marker that has been
    active is decided with "the caller is the manager". *)
Theorem C12_no_manager_once_activated : forall ops s,
  hwfb s = true -> forallb no_manager_once_activated (fst (hrun s ops)) = true.
Proof. exact hrun_no_manager_after_activation. Qed.
Print Assumptions C12_no_manager_once_activated.

(** Non-vacuity: a holder of DELETE cancels an active marker; a grant of 10 with allow list [1] is
    used for 3 + 3, refuses address 2 and an overdraw, and is deleted by the last 4; a forced
    transfer out of a signed account goes through and one out of a module account does not. *)
Example C12_witness :
  decide {| c_status := SActive; c_type := TRestricted; c_rights := 16; c_manager := false; c_gov := false;
            c_govctl := true; c_allsupply := false; c_supply_zero := false; c_activated := true |} OCancel = Done /\
  (let g := {| g_limit := [(1%N, 10)]; g_allow := [1%N] |} in
   let u to a := {| m_to := to; m_denom := 1%N; m_amt := a |} in
   let '(tr, s) := run {| gs_grant := Some g; gs_bal := [(1%N, 100)] |} [u 1%N 3; u 2%N 3; u 1%N 3; u 1%N 5; u 1%N 4] in
   map snd tr = [true; false; true; false; true] /\ gs_grant s = None /\ moved 1%N tr = 10) /\
  (let x from := {| x_status := SActive; x_type := TRestricted; x_rights := 128; x_forced := true; x_self := false;
                    x_from := from; x_dest := DPlain; x_grant := None;
                    x_msg := {| m_to := 9%N; m_denom := 1%N; m_amt := 5 |}; x_frombal := 50 |} in
   transfer (x {| a_group := false; a_exists := true; a_seq := 4; a_marker := false; a_market := false |}) = Some (PForced, None) /\
   transfer (x {| a_group := false; a_exists := true; a_seq := 0; a_marker := false; a_market := false |}) = None).
Proof. vm_compute. repeat split. Qed.

(** Non-vacuity of the history theorems.  A grant of 10 (expiring at 100) is used for 3, re-granted
    as 5 while partly used (the limit is REPLACED: 7 + 5 is never available), used for 5 -- gone --,
    then refused; a second grant expires between two uses.  On two markers: address 2 is granted
    MINT on marker A by A's manager, mints on A at once, is refused on marker B, is revoked and
    refused on A at once. *)
Example C12_witness_histories :
  (let g a := {| g_limit := [(1%N, a)]; g_allow := [] |} in
   let u a := SUse {| m_to := 7%N; m_denom := 1%N; m_amt := a |} 64%N false in
   let s0 := {| ts_grant := Some {| tg_grant := g 10; tg_exp := Some 100 |}; ts_bal := [(1%N, 50)]; ts_now := 0 |} in
   let '(tr, s) := srun ViaKeeper s0 [u 3; SGrant (g 5) (Some 200); u 6; u 5; u 1; SGrant (g 4) (Some 300); u 1; STick 400; u 1] in
   map se_res tr = [UGrant; UOther; URefused; UGrant; URefused; UOther; UGrant; UOther; URefused] /\
   account {| is_grant := g 10; is_exp := Some 100 |} [] tr = ({| is_grant := g 4; is_exp := Some 300 |}, [(1%N, 1)])) /\
  (let m mgr := {| mk_status := SProposed; mk_type := TRestricted; mk_manager := Some mgr; mk_access := [];
                   mk_govctl := true; mk_activated := false |} in
   let e := {| e_gov := false; e_allsupply := false; e_supply_zero := false |} in
   let call w c o t k := {| ho_on := w; ho_caller := c; ho_op := o; ho_target := t; ho_mask := k; ho_env := e |} in
   let '(tr, s) := hrun {| h_a := m 1%N; h_b := m 3%N |}
        [call MA 1%N OAddAccess 2%N 1%N; call MA 2%N OMint 0%N 0%N; call MB 2%N OMint 0%N 0%N;
         call MA 1%N ODeleteAccess 2%N 0%N; call MA 2%N OMint 0%N 0%N] in
   map he_out tr = [Done; Done; Denied; Done; Denied] /\ hwfb s = true)%N.
Proof. vm_compute. repeat split. Qed.
