(** C01 — Order settlement moves exactly the agreed assets, price and fees.
    Only theorem statements here; each is closed by [exact] of a lemma proved in
    Proofs/SplitProofs.v, Proofs/FulfillProofs.v, Proofs/SettleProofs.v about the models
    Exchange/Split.v (Order.Split), Exchange/Fulfill.v (BuildSettlement) and Exchange/Settle.v
    (SettleOrders / FillBids / FillAsks / closeSettlement over bank, hold and the order store). *)
From Coq Require Import ZArith List PArith.
Import ListNotations.
From PV Require Import Exchange.Arith Exchange.Split Exchange.Fulfill Exchange.Settle
  Proofs.SplitProofs Proofs.FulfillProofs Proofs.SettleProofs.
Open Scope Z_scope.

(** A settlement that BuildSettlement accepts: every filled ask order (fully or partially filled)
    is paid at least the price of the filled order, every filled bid order pays exactly its price;
    every transfer hands over, denom by denom, exactly what it takes; and without a left-over
    order there is no partially filled order. *)
Theorem C01_build_sound : forall asks bids lk s,
  build asks bids lk = Ok s ->
  (forall x, In x (s_full s ++ opt_list (s_partial s)) ->
     (o_ask (fo_order x) = true -> o_price (fo_order x) <= fo_price x) /\
     (o_ask (fo_order x) = false -> fo_price x = o_price (fo_order x))) /\
  (forall t, In t (s_transfers s) ->
     forall d, idx_amount (t_in t) d = idx_amount (t_out t) d) /\
  (s_left s = None -> s_partial s = None).
Proof. exact build_sound. Qed.
Print Assumptions C01_build_sound.

(** At most one order is split, it is the last ask or the last bid, and what is stored for it
    afterwards ([unf]) and what is settled ([f_order f']) come from Order.Split on the assets
    allocated to it. *)
Theorem C01_partial_shape : forall asks bids asks' bids' lft,
  split_partial asks bids = Ok (asks', bids', lft) ->
  match lft with
  | None => True
  | Some unf =>
      exists pre f f',
        ((asks = pre ++ [f] /\ asks' = pre ++ [f'] /\ bids' = bids) \/
         (bids = pre ++ [f] /\ bids' = pre ++ [f'] /\ asks' = asks)) /\
        split (f_order f) (f_afilled f) = Ok (f_order f', unf)
  end.
Proof. exact split_partial_shape. Qed.
Print Assumptions C01_partial_shape.

(** Order.Split only succeeds for an order that allows partial fills, strictly inside its assets;
    identity is kept; assets and price of the two parts add up to the original; and the price is
    divided exactly in the proportion of the assets (cross-multiplication, no rounding). *)
Theorem C01_split_exact : forall o k f u,
  split o k = Ok (f, u) ->
  0 < k < o_assets o /\ o_partial o = true /\
  same_static o f /\ same_static o u /\
  o_assets f = k /\ o_assets u = o_assets o - k /\
  o_price f + o_price u = o_price o /\
  o_price f * o_assets o = o_price o * o_assets f /\
  o_price u * o_assets o = o_price o * o_assets u.
Proof. exact split_sound. Qed.
Print Assumptions C01_split_exact.

(** ... and so is every settlement fee coin of a bid order. *)
Theorem C01_split_fees_exact : forall o k f u,
  o_ask o = false -> sorted (o_fees o) ->
  split o k = Ok (f, u) ->
  forall d,
    amount_of (o_fees f) d + amount_of (o_fees u) d = amount_of (o_fees o) d /\
    amount_of (o_fees f) d * o_assets o = amount_of (o_fees o) d * o_assets f /\
    amount_of (o_fees u) d * o_assets o = amount_of (o_fees o) d * o_assets u.
Proof. exact split_fees_sound. Qed.
Print Assumptions C01_split_fees_exact.

(** An accepted market settlement executed exactly the settlement that BuildSettlement built for
    the stored orders (so [C01_build_sound] and [C01_partial_shape] speak about what moved), and the
    ExpectPartial flag matched. *)
Theorem C01_settle_executes_build : forall cfg st askids bidids e st',
  settle cfg st askids bidids e = Ok st' ->
  exists asks bids s,
    get_orders (st_orders st) true askids None = Ok asks /\
    get_orders (st_orders st) false bidids None = Ok bids /\
    build asks bids (match asks with a :: _ => ratio_lookup cfg (o_pd a) | [] => Err end) = Ok s /\
    (e = true <-> s_partial s <> None) /\
    close cfg st s = Ok st'.
Proof. exact settle_ok_build. Qed.
Print Assumptions C01_settle_executes_build.

(** Over EVERY history of order creations, market settlements, FillBids and FillAsks (accepted or
    rejected, any ids, any owners, any fee configuration) no coin is created or destroyed: the sum
    of all balances of every denom is what it was at the start. *)
Theorem C01_history_conservation : forall cfg ops st d,
  total (st_bal (run cfg st ops)) d = total (st_bal st) d.
Proof. exact run_total. Qed.
Print Assumptions C01_history_conservation.

(** A rejected operation moves nothing: balances, holds and order records are untouched. *)
Theorem C01_rejected_changes_nothing : forall cfg st o st',
  step cfg st o = (st', false) -> st' = st.
Proof. exact step_rejected. Qed.
Print Assumptions C01_rejected_changes_nothing.

(** Fuel of the model's loops is never exhausted: asset allocation, and the inner loop of the
    first price pass with the fuel [first_pass] gives it. *)
Theorem C01_fuel_assets : forall asks bids, allocate_assets asks bids <> OutOfFuel.
Proof. exact allocate_assets_fuel. Qed.
Print Assumptions C01_fuel_assets.

Theorem C01_fuel_first_pass_partial : forall fuel a bdone brest tot,
  (length brest + (if Z.leb (f_pleft a) 0 then 0 else 1) <= fuel)%nat ->
  fp_inner fuel a bdone brest tot <> OutOfFuel.
Proof. exact fp_inner_fuel. Qed.
Print Assumptions C01_fuel_first_pass_partial.

(** The whole price allocation (first pass and the leftover distribution loop with fuel
    2*|asks|+1) never runs out of fuel when every bid still has price left and no ask has a
    negative amount of assets filled, which is what BuildSettlement hands it for valid orders. *)
Theorem C01_fuel_allocate_price_partial : forall asks bids,
  Forall (fun b => 0 < f_pleft b) bids -> Forall (fun a => 0 <= f_afilled a) asks ->
  allocate_price asks bids <> OutOfFuel.
Proof. exact allocate_price_fuel. Qed.
Print Assumptions C01_fuel_allocate_price_partial.

(** The model of BuildSettlement never reports fuel exhaustion for orders with positive assets
    and price (every stored order): an [OutOfFuel] result is never mistaken for a rejection. *)
Theorem C01_fuel : forall asks bids lk,
  Forall (fun o => 0 < o_assets o /\ 0 < o_price o) asks ->
  Forall (fun o => 0 < o_assets o /\ 0 < o_price o) bids ->
  lk <> OutOfFuel ->
  build asks bids lk <> OutOfFuel.
Proof. exact build_fuel. Qed.
Print Assumptions C01_fuel.

(* NOT PROVED (full statements kept visible):

   Theorem C01_price_conserved : forall asks bids lk s, build asks bids lk = Ok s ->
       sum of fo_price over the filled asks = sum of fo_price over the filled bids.
     Every [dist_price2] adds the same amount to one ask and one bid, so the statement is an
     invariant of fp_inner / first_pass / consume / leftover_loop; the bookkeeping over the
     zippers was not finished.  Per transfer the statement IS proved ([C01_build_sound], second
     part: each bid's price transfer hands the sellers exactly what the buyer pays).  Also not
     proved: that what a seller receives through those transfers equals the [fo_price] reported
     for its ask orders (the price transfers are built from the bids' distributions only).  Both
     are evaluated by the property checker on every observed settlement
     ("prop:price_paid_ne_price_received", "prop:transfers_ne_agreed_movements").

   Theorem C01_settle_refines_spec (DESIGN section 6): balances' = balances + spec_delta for the
     ten-line specification.  Not proved in Coq; the same specification is the executable checker
     [prop_step] in Corr/C01.v, evaluated on every step of every generated history. *)

(** Non-vacuity: two asks (the second one split), one bid paying more than asked, a 100:3 seller
    ratio.  10 + 15 assets are sold; the surplus of 20 is shared 8 : 12 by assets; 15 assets with
    price 30 and fee 15 are left over. *)
Definition ex_asks : list order :=
  [ {| o_id := 1; o_ask := true; o_owner := 1%positive; o_ad := 1%positive; o_assets := 10; o_pd := 2%positive; o_price := 20;
       o_fees := []; o_partial := false |};
    {| o_id := 2; o_ask := true; o_owner := 3%positive; o_ad := 1%positive; o_assets := 30; o_pd := 2%positive; o_price := 60;
       o_fees := [(3%positive, 30)]; o_partial := true |} ].
Definition ex_bids : list order :=
  [ {| o_id := 3; o_ask := false; o_owner := 2%positive; o_ad := 1%positive; o_assets := 25; o_pd := 2%positive; o_price := 70;
       o_fees := [(2%positive, 5)]; o_partial := false |} ].
Definition ex_ratio : ratio := {| r_pd := 2%positive; r_p := 100; r_fd := 2%positive; r_f := 3 |}.

Example C01_witness :
  match build ex_asks ex_bids (Ok (Some ex_ratio)) with
  | Ok s =>
      (map fo_price (s_full s), map fo_fees (s_full s),
       option_map fo_price (s_partial s), option_map fo_fees (s_partial s),
       option_map (fun l => (o_assets l, o_price l, o_fees l)) (s_left s)) =
      ([28; 70], [[(2%positive, 1)]; [(2%positive, 5)]],
       Some 42, Some [(2%positive, 2); (3%positive, 15)],
       Some (15, 30, [(3%positive, 15)]))
  | _ => False
  end.
Proof. vm_compute. reflexivity. Qed.
