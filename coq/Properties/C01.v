(** C01 — Order settlement moves exactly the agreed assets, price and fees.
    Only theorem statements here; each is closed by [exact] of a lemma proved in
    Proofs/SplitProofs.v, Proofs/FulfillProofs.v, Proofs/SettleProofs.v about the models
    Exchange/Split.v (Order.Split), Exchange/Fulfill.v (BuildSettlement) and Exchange/Settle.v
    (SettleOrders / FillBids / FillAsks / closeSettlement over bank, hold and the order store);
    the second half (sums, transfers = reported amounts, refinement of the abstract specification
    Exchange/SettleSpec.v, histories) is proved in Proofs/FulfillSteps.v, FulfillShape.v,
    FulfillSums.v, SettleRefine.v, SettleFills.v, SettleHistory.v. *)
From Coq Require Import ZArith List PArith.
Import ListNotations.
From PV Require Import Exchange.Arith Exchange.Split Exchange.Fulfill Exchange.Settle Exchange.SettleSpec
  Proofs.ArithProofs Proofs.SplitProofs Proofs.FulfillProofs Proofs.SettleProofs
  Proofs.FulfillSteps Proofs.FulfillShape Proofs.FulfillSums
  Proofs.SettleRefine Proofs.SettleFills Proofs.SettleHistory
  Exchange.SurplusSpec Exchange.SettleMulti Proofs.Surplus Proofs.SettleMultiProofs Proofs.OrderDep Proofs.OrderDepWitness.
From Coq Require Import Permutation.
Open Scope Z_scope.

(** A settlement that BuildSettlement accepts: every filled ask order (fully or partially filled)
    is paid at least the price of the filled order, every filled bid order pays exactly its price;
    every transfer hands over, denom by denom, exactly what it takes; and without a left-over
    order there is no partially filled order. *)
Theorem C01_build_sound : forall asks bids lk s,
  build asks bids lk = Ok s ->
  (forall x, In x (s_full s ++ opt_list (s_partial s)) ->
     (o_ask (fo_order x) = true -> o_price (fo_order x) <= fo_price x) /\
     (o_ask (fo_order x) = false -> fo_price x = o_price (fo_order x))) /\
  (forall t, In t (s_transfers s) ->
     forall d, idx_amount (t_in t) d = idx_amount (t_out t) d) /\
  (s_left s = None -> s_partial s = None).
Proof. exact build_sound. Qed.
Print Assumptions C01_build_sound.

(** At most one order is split, it is the last ask or the last bid, and what is stored for it
    afterwards ([unf]) and what is settled ([f_order f']) come from Order.Split on the assets
    allocated to it. *)
Theorem C01_partial_shape : forall asks bids asks' bids' lft,
  split_partial asks bids = Ok (asks', bids', lft) ->
  match lft with
  | None => True
  | Some unf =>
      exists pre f f',
        ((asks = pre ++ [f] /\ asks' = pre ++ [f'] /\ bids' = bids) \/
         (bids = pre ++ [f] /\ bids' = pre ++ [f'] /\ asks' = asks)) /\
        split (f_order f) (f_afilled f) = Ok (f_order f', unf)
  end.
Proof. exact split_partial_shape. Qed.
Print Assumptions C01_partial_shape.

(** Order.Split only succeeds for an order that allows partial fills, strictly inside its assets;
    identity is kept; assets and price of the two parts add up to the original; and the price is
    divided exactly in the proportion of the assets (cross-multiplication, no rounding). *)
Theorem C01_split_exact : forall o k f u,
  split o k = Ok (f, u) ->
  0 < k < o_assets o /\ o_partial o = true /\
  same_static o f /\ same_static o u /\
  o_assets f = k /\ o_assets u = o_assets o - k /\
  o_price f + o_price u = o_price o /\
  o_price f * o_assets o = o_price o * o_assets f /\
  o_price u * o_assets o = o_price o * o_assets u.
Proof. exact split_sound. Qed.
Print Assumptions C01_split_exact.

(** ... and so is every settlement fee coin of a bid order. *)
Theorem C01_split_fees_exact : forall o k f u,
  o_ask o = false -> sorted (o_fees o) ->
  split o k = Ok (f, u) ->
  forall d,
    amount_of (o_fees f) d + amount_of (o_fees u) d = amount_of (o_fees o) d /\
    amount_of (o_fees f) d * o_assets o = amount_of (o_fees o) d * o_assets f /\
    amount_of (o_fees u) d * o_assets o = amount_of (o_fees o) d * o_assets u.
Proof. exact split_fees_sound. Qed.
Print Assumptions C01_split_fees_exact.

(** An accepted market settlement executed exactly the settlement that BuildSettlement built for
    the stored orders (so [C01_build_sound] and [C01_partial_shape] speak about what moved), and the
    ExpectPartial flag matched. *)
Theorem C01_settle_executes_build : forall cfg st askids bidids e st',
  settle cfg st askids bidids e = Ok st' ->
  exists asks bids s,
    get_orders (st_orders st) true askids None = Ok asks /\
    get_orders (st_orders st) false bidids None = Ok bids /\
    build asks bids (match asks with a :: _ => ratio_lookup cfg (o_pd a) | [] => Err end) = Ok s /\
    (e = true <-> s_partial s <> None) /\
    close cfg st s = Ok st'.
Proof. exact settle_ok_build. Qed.
Print Assumptions C01_settle_executes_build.

(** Over EVERY history of order creations, market settlements, FillBids and FillAsks (accepted or
    rejected, any ids, any owners, any fee configuration) no coin is created or destroyed: the sum
    of all balances of every denom is what it was at the start. *)
Theorem C01_history_conservation : forall cfg ops st d,
  total (st_bal (run cfg st ops)) d = total (st_bal st) d.
Proof. exact run_total. Qed.
Print Assumptions C01_history_conservation.

(** A rejected operation moves nothing: balances, holds and order records are untouched. *)
Theorem C01_rejected_changes_nothing : forall cfg st o st',
  step cfg st o = (st', false) -> st' = st.
Proof. exact step_rejected. Qed.
Print Assumptions C01_rejected_changes_nothing.

(** Fuel of the model's loops is never exhausted: asset allocation, and the inner loop of the
    first price pass with the fuel [first_pass] gives it. *)
Theorem C01_fuel_assets : forall asks bids, allocate_assets asks bids <> OutOfFuel.
Proof. exact allocate_assets_fuel. Qed.
Print Assumptions C01_fuel_assets.

Theorem C01_fuel_first_pass_partial : forall fuel a bdone brest tot,
  (length brest + (if Z.leb (f_pleft a) 0 then 0 else 1) <= fuel)%nat ->
  fp_inner fuel a bdone brest tot <> OutOfFuel.
Proof. exact fp_inner_fuel. Qed.
Print Assumptions C01_fuel_first_pass_partial.

(** The whole price allocation (first pass and the leftover distribution loop with fuel
    2*|asks|+1) never runs out of fuel when every bid still has price left and no ask has a
    negative amount of assets filled, which is what BuildSettlement hands it for valid orders. *)
Theorem C01_fuel_allocate_price_partial : forall asks bids,
  Forall (fun b => 0 < f_pleft b) bids -> Forall (fun a => 0 <= f_afilled a) asks ->
  allocate_price asks bids <> OutOfFuel.
Proof. exact allocate_price_fuel. Qed.
Print Assumptions C01_fuel_allocate_price_partial.

(** The model of BuildSettlement never reports fuel exhaustion for orders with positive assets
    and price (every stored order): an [OutOfFuel] result is never mistaken for a rejection. *)
Theorem C01_fuel : forall asks bids lk,
  Forall (fun o => 0 < o_assets o /\ 0 < o_price o) asks ->
  Forall (fun o => 0 < o_assets o /\ 0 < o_price o) bids ->
  lk <> OutOfFuel ->
  build asks bids lk <> OutOfFuel.
Proof. exact build_fuel. Qed.
Print Assumptions C01_fuel.

(** ** What the reported per-order records add up to

    Notation used below (all plain definitions, Exchange/SettleSpec.v and Proofs/FulfillSums.v):
      [sumz g l]        sum of [g x] over the list [l];
      [at_d d d' z]     [z] if [d = d'], else 0;
      [idx_at i x d]    what the insertion-ordered address -> coins index [i] holds for address [x]
                        in denom [d] (sum over the entries of [x]);
      [s_full s ++ opt_list (s_partial s)]
                        the filled orders BuildSettlement reports: for each, [fo_order] is the
                        order (for the partially filled one: its filled part, so [o_assets] are the
                        assets filled), [fo_price] the price applied, [fo_fees] the fees to pay. *)

(** Sum of the price applied over the asks = sum of the prices of the bids, and sum of the assets
    filled over the asks = sum of the assets of the bids; all in one asset denom and one price
    denom.  Order ids must be distinct (the keeper guarantees it; see
    [C01_sum_needs_distinct_ids] below for why it cannot be dropped). *)
Theorem C01_sum_applied_eq_sum_bid_price : forall asks bids lk s,
  build asks bids lk = Ok s -> NoDup (map o_id (asks ++ bids)) ->
  let fills := s_full s ++ opt_list (s_partial s) in
  sumz (fun f => if o_ask (fo_order f) then fo_price f else 0) fills =
  sumz (fun f => if o_ask (fo_order f) then 0 else o_price (fo_order f)) fills /\
  sumz (fun f => if o_ask (fo_order f) then o_assets (fo_order f) else 0) fills =
  sumz (fun f => if o_ask (fo_order f) then 0 else o_assets (fo_order f)) fills /\
  exists AD PD, Forall (fun f => o_ad (fo_order f) = AD /\ o_pd (fo_order f) = PD) fills.
Proof. exact build_sums. Qed.
Print Assumptions C01_sum_applied_eq_sum_bid_price.

(** The hypothesis on the ids is needed: BuildSettlement recognises the partially filled order
    by its id, so an ask carrying the id of the partially filled bid is dropped from the report. *)
Theorem C01_sum_needs_distinct_ids :
  exists asks bids s,
    build asks bids (Ok None) = Ok s /\
    let fills := s_full s ++ opt_list (s_partial s) in
    sumz (fun f => if o_ask (fo_order f) then fo_price f else 0) fills <>
    sumz (fun f => if o_ask (fo_order f) then 0 else o_price (fo_order f)) fills.
Proof. exact build_sums_needs_distinct_ids. Qed.
Print Assumptions C01_sum_needs_distinct_ids.

(** Which orders are reported, and with which amounts: without a left-over order the fully filled
    orders are exactly the input orders, unchanged and in order; with a left-over order [unf] the
    last ask (or the last bid) [o] was split by Order.Split into the reported filled part and
    [unf] ([C01_split_exact] gives the proportions), every other order is reported unchanged.
    Every ask is paid at least its price and owes its flat fee plus (when the market has a
    seller ratio) the ratio fee on the price APPLIED; every bid pays exactly its price and owes
    exactly the fees it committed to. *)
Theorem C01_reported_orders : forall asks bids lk s,
  build asks bids lk = Ok s -> NoDup (map o_id (asks ++ bids)) ->
  exists r, lk = Ok r /\
    match s_left s with
    | None => s_partial s = None /\ map fo_order (s_full s) = asks ++ bids
    | Some unf =>
        exists pre o p, s_partial s = Some p /\
          split o (o_assets (fo_order p)) = Ok (fo_order p, unf) /\
          ((asks = pre ++ [o] /\ map fo_order (s_full s) = pre ++ bids) \/
           (bids = pre ++ [o] /\ map fo_order (s_full s) = asks ++ pre))
    end /\
    Forall (fun f =>
      let o := fo_order f in
      if o_ask o then
        o_price o <= fo_price f /\
        match r with
        | None => fo_fees f = o_fees o
        | Some rt => exists amt, ratio_fee rt (o_pd o) (fo_price f) = Ok (r_fd rt, amt) /\
                                 fo_fees f = coins_add1 (o_fees o) (r_fd rt) amt
        end
      else fo_price f = o_price o /\ fo_fees f = o_fees o) (s_full s ++ opt_list (s_partial s)) /\
    Forall (fun o => o_ask o = true) asks /\ Forall (fun o => o_ask o = false) bids.
Proof. exact build_fills. Qed.
Print Assumptions C01_reported_orders.

(** ... where the ratio fee is the ceiling of price applied * ratio fee / ratio price. *)
Theorem C01_ratio_fee_is_ceiling : forall rt pd p fd amt,
  ratio_fee rt pd p = Ok (fd, amt) -> 0 < r_p rt -> 0 <= r_f rt -> 0 <= p ->
  fd = r_fd rt /\ r_pd rt = pd /\ r_p rt * (amt - 1) < p * r_f rt <= r_p rt * amt.
Proof. exact ratio_fee_ceiling. Qed.
Print Assumptions C01_ratio_fee_is_ceiling.

(** The built transfers pay exactly the reported amounts: summed over all transfers, address [x]
    receives in denom [d] (outputs minus inputs) exactly what the reported filled orders of [x] say:
    per ask -assets filled +price applied, per bid +assets -price (an account on several orders
    or on both sides: the sum).  The link between the price transfers (built from the bids'
    distributions only) and the asks' "price applied" is the invariant of allocate_price that
    every elementary distribution step adds the same amount to the ask's price applied and, under
    the ask owner's address, to the bid's distributions (Proofs/FulfillSteps.v).
    And the fee inputs charge every address exactly the fees reported for its orders. *)
Theorem C01_transfers_pay_reported_amounts : forall asks bids lk s,
  build asks bids lk = Ok s -> NoDup (map o_id (asks ++ bids)) ->
  let fills := s_full s ++ opt_list (s_partial s) in
  (forall x d,
     sumz (fun t => idx_at (t_out t) x d - idx_at (t_in t) x d) (s_transfers s) =
     sumz (fun f => let o := fo_order f in
                    if Pos.eqb x (o_owner o) then
                      if o_ask o then at_d d (o_pd o) (fo_price f) - at_d d (o_ad o) (o_assets o)
                      else at_d d (o_ad o) (o_assets o) - at_d d (o_pd o) (fo_price f)
                    else 0) fills) /\
  (Forall (fun o => sorted (o_fees o)) (asks ++ bids) ->
   forall x d, idx_at (s_fee_inputs s) x d =
               sumz (fun f => if Pos.eqb x (o_owner (fo_order f)) then amount_of (fo_fees f) d else 0) fills).
Proof. exact build_transfers_reported. Qed.
Print Assumptions C01_transfers_pay_reported_amounts.

(** ** The keeper step refines the abstract specification Exchange/SettleSpec.v

    [spec_delta cfg parties x d] (SettleSpec.v, a dozen lines): the sum over the parties that
    are [x] of (gets - gives - fees), plus total fees minus the exchange's share if [x] is the
    market account, plus the share if [x] is the fee collector; share = [exchange_split] of the
    total fees of the denom = ceiling of total * split / 10000.  [party_of_fill]: seller gets
    the price applied, gives the assets filled; buyer gets the assets, gives the price; each
    pays the fees reported for its order.  [store_ok]: stored orders have sorted fee coins
    (Order.Validate).  [reported_shape] / [fill_ok] are the two middle conjuncts of
    [C01_reported_orders]. *)

(** An accepted MarketSettle: for EVERY address and denom the balance changes by exactly
    [spec_delta] of the reported filled orders (so nothing else moves); the hold shrinks by the
    hold amounts of the filled (parts of the) orders; the order store loses the fully filled
    orders and keeps what is left of the partially filled one; total supply is unchanged. *)
Theorem C01_settle_refines_spec : forall cfg st askids bidids e st',
  store_ok (st_orders st) ->
  settle cfg st askids bidids e = Ok st' ->
  exists asks bids r s,
    get_orders (st_orders st) true askids None = Ok asks /\
    get_orders (st_orders st) false bidids None = Ok bids /\
    build asks bids (Ok r) = Ok s /\
    reported_shape asks bids s /\ Forall (fill_ok r) (fills_of s) /\
    (e = true <-> s_partial s <> None) /\
    (forall x d, aget (st_bal st') x d =
                 aget (st_bal st) x d + spec_delta cfg (map party_of_fill (fills_of s)) x d) /\
    (forall x d, aget (st_hold st') x d = aget (st_hold st) x d - hold_released (fills_of s) x d) /\
    (forall id, find_order (st_orders st') id = orders_after (st_orders st) (s_full s) (s_left s) id) /\
    (forall d, total (st_bal st') d = total (st_bal st) d) /\
    store_ok (st_orders st').
Proof. exact settle_refine. Qed.
Print Assumptions C01_settle_refines_spec.

(** ... where the exchange's share is the ceiling of total * split / 10000 and never more than
    the total (for a split between 0 and 10000 basis points). *)
Theorem C01_exchange_share_is_ceiling : forall cfg ps d,
  0 <= fees_total ps d -> 0 <= get_split cfg d <= 10000 ->
  let x := exchange_share cfg ps d in
  10000 * (x - 1) < fees_total ps d * get_split cfg d <= 10000 * x /\ 0 <= x <= fees_total ps d.
Proof. exact (fun cfg ps d => ArithProofs.exchange_split_ceiling (fees_total ps d) (get_split cfg d)). Qed.
Print Assumptions C01_exchange_share_is_ceiling.

(** An accepted FillBids: the same specification, with the seller as one more party: it hands
    over the total assets, receives the total price and pays its flat fee plus the ratio fees. *)
Theorem C01_fill_bids_refines_spec : forall cfg st seller ids total_assets flat st',
  store_ok (st_orders st) ->
  fill_bids cfg st seller ids total_assets flat = Ok st' ->
  exists bids rf,
    get_orders (st_orders st) false ids (Some seller) = Ok bids /\
    total_assets = sum_assets bids /\
    ratio_fees_of cfg (sum_price bids) = Ok rf /\
    let fills := map (fun o => {| fo_order := o; fo_price := o_price o; fo_fees := o_fees o |}) bids in
    let me := {| p_addr := seller; p_gets := sum_price bids; p_gives := total_assets;
                 p_fees := coins_add (match flat with Some (d, z) => coins_add1 [] d z | None => [] end) rf |} in
    (forall x d, aget (st_bal st') x d =
                 aget (st_bal st) x d + spec_delta cfg (me :: map party_of_fill fills) x d) /\
    (forall x d, aget (st_hold st') x d = aget (st_hold st) x d - hold_released fills x d) /\
    (forall id, find_order (st_orders st') id = orders_after (st_orders st) fills None id) /\
    (forall d, total (st_bal st') d = total (st_bal st) d) /\
    store_ok (st_orders st').
Proof. exact fill_bids_refine. Qed.
Print Assumptions C01_fill_bids_refines_spec.

(** An accepted FillAsks: the buyer is the extra party: it receives the total assets, hands over
    the total price and pays the settlement fees of its request; every ask is filled at exactly
    its price and owes its flat fee plus the seller ratio fee on that price. *)
Theorem C01_fill_asks_refines_spec : forall cfg st buyer ids total_price fees st',
  store_ok (st_orders st) -> sorted fees ->
  fill_asks cfg st buyer ids total_price fees = Ok st' ->
  exists asks fills,
    get_orders (st_orders st) true ids (Some buyer) = Ok asks /\
    sum_price asks = [total_price] /\
    Forall2 (fun o f => fo_order f = o /\ fo_price f = o_price o /\
                        exists rfee, seller_ratio_fee cfg (o_pd o) (o_price o) = Ok rfee /\
                                     fo_fees f = coins_add (o_fees o) rfee) asks fills /\
    let me := {| p_addr := buyer; p_gets := sum_assets asks; p_gives := [total_price]; p_fees := fees |} in
    (forall x d, aget (st_bal st') x d =
                 aget (st_bal st) x d + spec_delta cfg (me :: map party_of_fill fills) x d) /\
    (forall x d, aget (st_hold st') x d = aget (st_hold st) x d - hold_released fills x d) /\
    (forall id, find_order (st_orders st') id = orders_after (st_orders st) fills None id) /\
    (forall d, total (st_bal st') d = total (st_bal st) d) /\
    store_ok (st_orders st').
Proof. exact fill_asks_refine. Qed.
Print Assumptions C01_fill_asks_refines_spec.

(** Over EVERY history of creations, market settlements, FillBids and FillAsks whose requests
    carry sorted fee coins ([op_ok], ValidateBasic), from any state whose stored orders do: after
    any prefix, an accepted operation satisfies [step_spec] (Proofs/SettleHistory.v: by kind of
    operation exactly the conclusions of the three theorems above; for a creation: balances and
    other orders untouched, hold grows by the order's hold amount), a rejected one changes
    nothing, and the per-denom sum of all balances is still what it was at the very start. *)
Theorem C01_history : forall cfg st ops,
  store_ok (st_orders st) -> Forall op_ok ops ->
  forall pre o post, ops = pre ++ o :: post ->
    let st1 := run cfg st pre in
    let st2 := fst (step cfg st1 o) in
    (snd (step cfg st1 o) = true -> step_spec cfg st1 o st2) /\
    (snd (step cfg st1 o) = false -> st2 = st1) /\
    (forall d, total (st_bal st2) d = total (st_bal st) d).
Proof. exact history_refines. Qed.
Print Assumptions C01_history.

(** ** Who gets the price improvement (Exchange/SurplusSpec.v, Proofs/Surplus.v)

    When the bids together pay more than the asks ask for, the surplus [L] goes to the sellers
    by this rule, which the leftover loop of allocatePrice is PROVED to compute: ask i (with
    [af_i] of the [TA] assets filled) first gets its floor share q_i = L * af_i / TA; what is then
    left, R = L - sum q_i (fewer units than there are asks), is handed out in the order of the ask
    ids in the request, ask i taking min (max q_i 1) (what is left).  [fa] / [fb] are the reported
    fills of the asks / bids in request order ([fo_order] of the split order is its FILLED part);
    every bid pays exactly its price, whatever the order of the bids. *)
Theorem C01_surplus_distribution : forall asks bids lk s,
  build asks bids lk = Ok s -> NoDup (map o_id (asks ++ bids)) ->
  Forall valid_order asks -> Forall valid_order bids ->
  exists fa fb : list filled,
    Permutation (fills_of s) (fa ++ fb) /\
    map (fun f => o_id (fo_order f)) fa = map o_id asks /\
    map (fun f => o_id (fo_order f)) fb = map o_id bids /\
    Forall (fun f => o_ask (fo_order f) = true) fa /\ Forall (fun f => o_ask (fo_order f) = false) fb /\
    Forall (fun f => fo_price f = o_price (fo_order f)) fb /\
    let L := sumz (fun f => o_price (fo_order f)) fb - sumz (fun f => o_price (fo_order f)) fa in
    0 <= L /\
    map fo_price fa = zip_add (map (fun f => o_price (fo_order f)) fa)
                              (surplus L (map (fun f => o_assets (fo_order f)) fa)).
Proof. exact build_surplus. Qed.
Print Assumptions C01_surplus_distribution.

(** ... all of the surplus is handed out, entry i is its floor share plus a remainder part
    [e_i] with 0 <= e_i <= max q_i 1 and e_i <= R, and 0 <= R < number of asks. *)
Theorem C01_surplus_shape : forall L afs,
  0 <= L -> Forall (fun a => 0 < a) afs -> afs <> [] ->
  sumz (fun z => z) (surplus L afs) = L /\
  let TA := sumz (fun z => z) afs in
  let R := L - sumz (fun z => z) (map (floor_share L TA) afs) in
  0 <= R < Z.of_nat (length afs) /\
  exists es, surplus L afs = zip_add (map (floor_share L TA) afs) es /\ sumz (fun z => z) es = R /\
    Forall2 (fun e af => 0 <= e <= Z.max (floor_share L TA af) 1 /\ e <= R) es afs.
Proof. intros L afs H1 H2 H3. split; [exact (surplus_sum L afs H1 H2 H3)|exact (surplus_entry L afs H1 H2 H3)]. Qed.
Print Assumptions C01_surplus_shape.

(** ** Several markets, creation fees, governance-changed splits, send restrictions
       (Exchange/SettleMulti.v, Proofs/SettleMultiProofs.v)

    [mstep_spec] (Proofs/SettleMultiProofs.v), by kind of operation, with [cfg] = the fee table of
    the market named in the request and the exchange splits IN FORCE at that moment: a market
    settlement / FillBids / FillAsks satisfies the single-market specification [step_spec] above
    for [cfg], every order it names belongs to that market, and an order creation fee is collected
    on its own ([after_cfee]: payer -fee, market +fee - share, fee collector +share, share =
    ceiling on THAT fee); a creation moves only its creation fee and places the hold; a params /
    flag / sanction change moves nothing. *)
Theorem C01_multi_history : forall w ms ops,
  store_ok (st_orders (ms_st ms)) -> Forall mop_ok ops ->
  forall pre o post, ops = pre ++ o :: post ->
    let ms1 := mrun w ms pre in
    let ms2 := fst (mstep w ms1 o) in
    (snd (mstep w ms1 o) = true -> mstep_spec w ms1 o ms2) /\
    (snd (mstep w ms1 o) = false -> ms2 = ms1) /\
    (forall d, total (st_bal (ms_st ms2)) d = total (st_bal (ms_st ms)) d).
Proof. exact mhistory_refines. Qed.
Print Assumptions C01_multi_history.

(** A settlement or fill that names an order of ANOTHER market is refused and changes nothing. *)
Theorem C01_other_market_refused : forall w ms mid id,
  in_market ms mid id = false ->
  (forall admin a b e, In id (a ++ b) -> mstep w ms (MSettle mid admin a b e) = (ms, false)) /\
  (forall seller ids total flat cfee, In id ids -> mstep w ms (MFillBids mid seller ids total flat cfee) = (ms, false)) /\
  (forall buyer ids tp fees cfee, In id ids -> mstep w ms (MFillAsks mid buyer ids tp fees cfee) = (ms, false)).
Proof.
  intros w ms mid id H. split; [|split].
  - intros admin a b e Hin. exact (foreign_order_refused w ms mid admin a b e id Hin H).
  - intros seller ids total flat cfee Hin. exact (foreign_order_refused_fill_bids w ms mid seller ids total flat cfee id Hin H).
  - intros buyer ids tp fees cfee Hin. exact (foreign_order_refused_fill_asks w ms mid buyer ids tp fees cfee id Hin H).
Qed.
Print Assumptions C01_other_market_refused.

(** The exchange's share is the rounded-up share of the TOTAL of the collected settlement fees
    per denom, whatever the number of payers (one payer or forty): after an accepted market
    settlement the fee collector has gained exactly [exchange_split T split] and the market
    [T - exchange_split T split], T = sum over ALL reported fills of their fees in that denom
    (for a fee collector / market account that is not itself a party). *)
Theorem C01_share_on_total_for_any_number_of_payers : forall w ms mid admin a b e ms',
  store_ok (st_orders (ms_st ms)) ->
  mrun_op w ms (MSettle mid admin a b e) = Ok ms' ->
  exists m asks bids r s,
    let cfg := cfg_of w m (ms_params ms) in
    lookup (ms_markets ms) mid = Some m /\
    get_orders (st_orders (ms_st ms)) true a None = Ok asks /\
    get_orders (st_orders (ms_st ms)) false b None = Ok bids /\
    build asks bids (Ok r) = Ok s /\
    (mk_addr m <> w_feecol w ->
     forall d, let T := sumz (fun f => amount_of (fo_fees f) d) (fills_of s) in
       ((forall f, In f (fills_of s) -> o_owner (fo_order f) <> w_feecol w) ->
        aget (st_bal (ms_st ms')) (w_feecol w) d =
        aget (st_bal (ms_st ms)) (w_feecol w) d + exchange_split T (get_split cfg d)) /\
       ((forall f, In f (fills_of s) -> o_owner (fo_order f) <> mk_addr m) ->
        aget (st_bal (ms_st ms')) (mk_addr m) d =
        aget (st_bal (ms_st ms)) (mk_addr m) d + (T - exchange_split T (get_split cfg d)))).
Proof. exact msettle_fee_shares. Qed.
Print Assumptions C01_share_on_total_for_any_number_of_payers.

(** An accepted market settlement passed every send restriction: no recipient of a transfer is a
    blocked (module) account, no sender is sanctioned, and every (from, to, coins) the bank sees
    is allowed by the marker rules with the market admin as transfer agent. *)
Theorem C01_settlement_passed_send_restrictions : forall w ms mid admin a b e ms',
  mrun_op w ms (MSettle mid admin a b e) = Ok ms' ->
  exists m asks bids s,
    let cfg := cfg_of w m (ms_params ms) in
    lookup (ms_markets ms) mid = Some m /\
    get_orders (st_orders (ms_st ms)) true a None = Ok asks /\
    get_orders (st_orders (ms_st ms)) false b None = Ok bids /\
    build asks bids (match asks with x :: _ => ratio_lookup cfg (o_pd x) | [] => Err end) = Ok s /\
    close cfg (ms_st ms) s = Ok (ms_st ms') /\
    (forall t e0, In t (s_transfers s) -> In e0 (t_out t) -> mem (fst e0) (w_blocked w) = false) /\
    (forall from to c, In (from, to, c) (flat_map transfer_sends (s_transfers s) ++ fee_sends cfg (s_fee_inputs s)) ->
       send_allowed w (ms_sanctioned ms) (Some admin) from to c = true /\ mem from (ms_sanctioned ms) = false).
Proof. exact settle_needs_allowed_sends. Qed.
Print Assumptions C01_settlement_passed_send_restrictions.

(** ** At most one order is filled in part, and what depends on the order of the ids (Proofs/OrderDep.v)

    [short s o]: order [o] of the request is reported with fewer assets than it has. *)
Theorem C01_at_most_one_partial : forall asks bids lk s,
  build asks bids lk = Ok s -> NoDup (map o_id (asks ++ bids)) ->
  (* every order of the request is reported, with some and at most all of its assets *)
  (forall o, In o (asks ++ bids) ->
     exists f, In f (fills_of s) /\ o_id (fo_order f) = o_id o /\ o_ask (fo_order f) = o_ask o /\
       o_owner (fo_order f) = o_owner o /\ o_ad (fo_order f) = o_ad o /\ o_pd (fo_order f) = o_pd o /\
       0 < o_assets (fo_order f) <= o_assets o) /\
  (* at most one is reported with fewer assets than it has *)
  (forall o1 o2, In o1 (asks ++ bids) -> In o2 (asks ++ bids) ->
     (exists f, In f (fills_of s) /\ o_id (fo_order f) = o_id o1 /\ o_assets (fo_order f) <> o_assets o1) ->
     (exists f, In f (fills_of s) /\ o_id (fo_order f) = o_id o2 /\ o_assets (fo_order f) <> o_assets o2) ->
     o1 = o2) /\
  (* that one allows it, is the LAST of its list, and the rest of it is what stays in the store *)
  (forall o, In o (asks ++ bids) ->
     (exists f, In f (fills_of s) /\ o_id (fo_order f) = o_id o /\ o_assets (fo_order f) <> o_assets o) ->
     o_partial o = true /\ (exists pre, asks = pre ++ [o] \/ bids = pre ++ [o]) /\
     exists unf f, s_left s = Some unf /\ s_partial s = Some f /\ In f (fills_of s) /\
       o_id (fo_order f) = o_id o /\ o_id unf = o_id o /\
       0 < o_assets (fo_order f) < o_assets o /\ o_assets unf = o_assets o - o_assets (fo_order f)) /\
  (* nothing left over: every order is reported with all its assets *)
  (s_left s = None -> forall o, In o (asks ++ bids) ->
     ~ (exists f, In f (fills_of s) /\ o_id (fo_order f) = o_id o /\ o_assets (fo_order f) <> o_assets o)).
Proof. exact build_at_most_one_partial. Qed.
Print Assumptions C01_at_most_one_partial.

(** FillBids and FillAsks never split an order: every listed order is gone afterwards, every other
    order is untouched. *)
Theorem C01_fills_never_split :
  (forall cfg st seller ids total flat st',
     store_ok (st_orders st) -> fill_bids cfg st seller ids total flat = Ok st' ->
     (forall id, In id ids -> find_order (st_orders st') id = None) /\
     (forall id, ~ In id ids -> find_order (st_orders st') id = find_order (st_orders st) id)) /\
  (forall cfg st buyer ids total_price fees st',
     store_ok (st_orders st) -> sorted fees -> fill_asks cfg st buyer ids total_price fees = Ok st' ->
     (forall id, In id ids -> find_order (st_orders st') id = None) /\
     (forall id, ~ In id ids -> find_order (st_orders st') id = find_order (st_orders st) id)).
Proof. exact (conj fill_bids_never_splits fill_asks_never_splits). Qed.
Print Assumptions C01_fills_never_split.

(** WHICH side is split, and by HOW MUCH, does not depend on the order of the ids: it is the side
    with more assets in total, by the difference of the totals.  The order of the ids only decides
    which order is the last of that list (and so whether the settlement is accepted at all). *)
Theorem C01_partial_side : forall asks bids lk s,
  build asks bids lk = Ok s -> NoDup (map o_id (asks ++ bids)) ->
  let SA := sumz o_assets asks in let SB := sumz o_assets bids in
  match s_left s with
  | None => SA = SB
  | Some unf =>
      (o_ask unf = true /\ SB < SA /\ o_assets unf = SA - SB /\
       exists pre o, asks = pre ++ [o] /\ o_id o = o_id unf) \/
      (o_ask unf = false /\ SA < SB /\ o_assets unf = SB - SA /\
       exists pre o, bids = pre ++ [o] /\ o_id o = o_id unf)
  end.
Proof. exact build_partial_side. Qed.
Print Assumptions C01_partial_side.

(** Exactly what is order-dependent.  The same orders in two orderings, both accepted, nothing
    split in the first: nothing is split in the second; every bid is reported identically; with
    L = the surplus, TA = the assets sold, R = what the floor shares leave over (0 <= R < number of
    asks), every ask is paid its price + its floor share + a remainder part e (0 <= e <= max share 1,
    e <= R) in both, so that the two settlements pay the same ask amounts that differ by at most R
    units; and the asks together are paid the same, namely what the bids pay.
    ([C01_order_dependence_with_split] below: the same with a split when the last ask and the last
    bid are the same in both requests; [C01_order_dependence_is_real]: the remainder units do move,
    and acceptance itself can depend on the order.) *)
Theorem C01_order_dependence_exact : forall asks bids asks' bids' lk s s',
  Permutation asks asks' -> Permutation bids bids' ->
  NoDup (map o_id (asks ++ bids)) -> Forall valid_order asks -> Forall valid_order bids ->
  build asks bids lk = Ok s -> build asks' bids' lk = Ok s' -> s_left s = None ->
  s_left s' = None /\
  let L := sumz o_price bids - sumz o_price asks in
  let TA := sumz o_assets asks in
  let R := L - sumz (fun o => floor_share L TA (o_assets o)) asks in
  (forall f, In f (fills_of s) -> o_ask (fo_order f) = false -> In f (fills_of s')) /\
  0 <= L /\ 0 <= R < Z.of_nat (length asks) /\
  (forall t, t = s \/ t = s' -> forall f, In f (fills_of t) -> o_ask (fo_order f) = true ->
     In (fo_order f) asks /\
     exists e, fo_price f = o_price (fo_order f) + floor_share L TA (o_assets (fo_order f)) + e /\
               0 <= e <= Z.max (floor_share L TA (o_assets (fo_order f))) 1 /\ e <= R) /\
  (forall f f', In f (fills_of s) -> In f' (fills_of s') -> o_ask (fo_order f) = true ->
     o_id (fo_order f) = o_id (fo_order f') ->
     fo_order f = fo_order f' /\ Z.abs (fo_price f - fo_price f') <= R /\
     Z.abs (fo_price f - fo_price f') < Z.of_nat (length asks)) /\
  sumz (ask_part fo_price) (fills_of s) = sumz (ask_part fo_price) (fills_of s') /\
  sumz (ask_part fo_price) (fills_of s) = sumz o_price bids.
Proof. exact build_order_dependence. Qed.
Print Assumptions C01_order_dependence_exact.

Theorem C01_order_dependence_with_split : forall asks bids asks' bids' lk s s' d,
  Permutation asks asks' -> Permutation bids bids' ->
  NoDup (map o_id (asks ++ bids)) -> Forall valid_order asks -> Forall valid_order bids ->
  build asks bids lk = Ok s -> build asks' bids' lk = Ok s' ->
  last asks d = last asks' d -> last bids d = last bids' d ->
  s_left s' = s_left s /\
  option_map fo_order (s_partial s') = option_map fo_order (s_partial s) /\
  exists FA FB FA' FB', view asks bids s FA FB /\ view asks' bids' s' FA' FB' /\
    Permutation FA FA' /\ Permutation FB FB' /\ dep_concl s s' FA FB.
Proof. exact build_order_dependence_split. Qed.
Print Assumptions C01_order_dependence_with_split.

(** The dependence is real: four asks (5,5,1,1 assets) and a surplus of 7: listed 1,2,3,4 they are
    paid 14,13,2,2, listed 3,1,2,4 they are paid 14,12,3,2 (ask 2 loses the unit ask 3 gains); and
    two asks of which only one may be split: accepted when that one is listed last, refused
    otherwise. *)
Theorem C01_order_dependence_is_real :
  (exists asks asks' bids s s' f f',
     Permutation asks asks' /\ NoDup (map o_id (asks ++ bids)) /\
     build asks bids (Ok None) = Ok s /\ build asks' bids (Ok None) = Ok s' /\
     s_left s = None /\ s_left s' = None /\
     In f (fills_of s) /\ In f' (fills_of s') /\ fo_order f = fo_order f' /\
     o_ask (fo_order f) = true /\ fo_price f <> fo_price f') /\
  (exists asks asks' bids s,
     Permutation asks asks' /\ NoDup (map o_id (asks ++ bids)) /\
     build asks bids (Ok None) = Ok s /\ s_left s <> None /\ build asks' bids (Ok None) = Err).
Proof. exact order_dependence_is_real. Qed.
Print Assumptions C01_order_dependence_is_real.

(* NOT PROVED (statements kept visible):

   Theorem C01_history_holds : over every history starting with an empty order store and no holds,
       forall x d, aget (st_hold (run cfg st ops)) x d =
                   sumz (fun o => if Pos.eqb x (o_owner o) then amount_of (hold_amount o) d else 0)
                        (st_orders (run cfg st ops)).
     It does not follow cheaply from the step theorems: it additionally needs (a) distinct ids in the
     store, i.e. a freshness condition on every accepted creation relative to the state reached so
     far (the model takes the id from the implementation), (b) that an ask order carries at most
     one fee coin (hold_amount and Order.Split's [&fees[0]] only look at the first), and (c)
     hold_amount o = hold_amount filled + hold_amount left for Order.Split.  The step theorems above
     state the hold change as "minus the hold amounts of the filled parts", which is what
     closeSettlement releases; "hold = obligations of the open orders" as a state invariant is
     property C02 (its own model Exchange/Holds.v and proofs).

   The refinement is about the bank / hold semantics as transcribed in Exchange/Settle.v and the
   sanction / marker send restrictions as transcribed in Exchange/SettleMulti.v (active markers
   without required attributes, deny lists or bypass accounts), tied to the real modules by the
   correspondence run only; the full restriction rules are C04 / C06 / C07.

   Not modelled: a filler of FillBids / FillAsks spelling its own address in another case than its
   orders do (the handlers compare the bech32 strings; findings/C01.md, observation). *)

(** Non-vacuity: two asks (the second one split), one bid paying more than asked, a 100:3 seller
    ratio.  10 + 15 assets are sold; the surplus of 20 is shared 8 : 12 by assets; 15 assets with
    price 30 and fee 15 are left over. *)
Definition ex_asks : list order :=
  [ {| o_id := 1; o_ask := true; o_owner := 1%positive; o_ad := 1%positive; o_assets := 10; o_pd := 2%positive; o_price := 20;
       o_fees := []; o_partial := false |};
    {| o_id := 2; o_ask := true; o_owner := 3%positive; o_ad := 1%positive; o_assets := 30; o_pd := 2%positive; o_price := 60;
       o_fees := [(3%positive, 30)]; o_partial := true |} ].
Definition ex_bids : list order :=
  [ {| o_id := 3; o_ask := false; o_owner := 2%positive; o_ad := 1%positive; o_assets := 25; o_pd := 2%positive; o_price := 70;
       o_fees := [(2%positive, 5)]; o_partial := false |} ].
Definition ex_ratio : ratio := {| r_pd := 2%positive; r_p := 100; r_fd := 2%positive; r_f := 3 |}.

Example C01_witness :
  match build ex_asks ex_bids (Ok (Some ex_ratio)) with
  | Ok s =>
      (map fo_price (s_full s), map fo_fees (s_full s),
       option_map fo_price (s_partial s), option_map fo_fees (s_partial s),
       option_map (fun l => (o_assets l, o_price l, o_fees l)) (s_left s)) =
      ([28; 70], [[(2%positive, 1)]; [(2%positive, 5)]],
       Some 42, Some [(2%positive, 2); (3%positive, 15)],
       Some (15, 30, [(3%positive, 15)]))
  | _ => False
  end.
Proof. vm_compute. reflexivity. Qed.

(** Non-vacuity of the refinement: the orders above, created through the keeper model and settled
    by the market (5 % default exchange split, 10 % for denom 3).  Seller 1 ends with 28 - 1,
    seller 3 with 15 assets, 42 - 2 and 15 of its fee denom, buyer 2 with 25 assets and
    100 - 70 - 5; the market keeps 8 - 1 and 15 - 2, the fee collector gets 1 and 2; what is left
    of order 2 stays in the store with its hold. *)
Definition ex_cfg : config :=
  {| c_ratios := [ex_ratio]; c_splits := [(3%positive, 1000)]; c_default_split := 500;
     c_seller_flat := []; c_buyer_flat := []; c_market := 9%positive; c_feecol := 10%positive |}.
Definition ex_st0 : state :=
  {| st_bal := [(1%positive, 1%positive, 10); (3%positive, 1%positive, 30); (3%positive, 3%positive, 30);
                (2%positive, 2%positive, 100)];
     st_hold := []; st_orders := [] |}.
Definition ex_keys : list (addr * denom) :=
  [(1,1); (1,2); (3,1); (3,2); (3,3); (2,1); (2,2); (9,2); (9,3); (10,2); (10,3)]%positive.

Example C01_settle_witness :
  let st1 := run ex_cfg ex_st0 (map (fun o => OCreate o true) (ex_asks ++ ex_bids)) in
  let st2 := fst (step ex_cfg st1 (OSettle [1; 2]%positive [3]%positive true)) in
  store_ok (st_orders st1) /\
  snd (step ex_cfg st1 (OSettle [1; 2]%positive [3]%positive true)) = true /\
  map (fun k => aget (st_bal st2) (fst k) (snd k)) ex_keys = [0; 27; 15; 40; 15; 25; 25; 7; 13; 1; 2] /\
  map (fun k => aget (st_hold st1) (fst k) (snd k)) ex_keys = [10; 0; 30; 0; 30; 0; 75; 0; 0; 0; 0] /\
  map (fun k => aget (st_hold st2) (fst k) (snd k)) ex_keys = [0; 0; 15; 0; 15; 0; 0; 0; 0; 0; 0] /\
  map (fun o => (o_id o, o_assets o, o_price o, o_fees o)) (st_orders st2) = [(2%positive, 15, 30, [(3%positive, 15)])].
Proof.
  vm_compute. split; [|repeat split; reflexivity].
  repeat constructor.
Qed.
