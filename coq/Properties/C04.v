(** C04 — Restricted coins move through the bank only as the marker transfer rules allow.
    Only theorem statements here; each is closed by [exact] of a lemma proved in
    Proofs/SendRestrProofs.v.  [allowed]/[send_restriction] is the transcription of the Go code
    (Marker/SendRestr.v); [doc_send_allowed] is the transcription of the flowcharts of
    x/marker/spec/12_transfers.md (Marker/SendRestrSpec.v). *)
From Coq Require Import ZArith PArith List Bool Ascii.
Import ListNotations.
From PV Require Import Marker.SendRestr Marker.SendRestrSpec Proofs.SendRestrProofs.

(** "Permitted exactly when the documented rules permit it": for every configuration, sender,
    receiver and valid sdk.Coins (positive amounts), the code decides exactly as the documented
    flowcharts do. *)
Theorem C04_code_eq_doc : forall c from to amt,
  coins_valid amt -> allowed c from to amt = doc_send_allowed c from to amt.
Proof. exact code_eq_doc. Qed.
Print Assumptions C04_code_eq_doc.

(** This was false of the code before fix commit f4bdf3346 (findings/C04.md): with a non-marker
    account at a denom's marker address the old code ([prefix_allowed]) denied a send that the
    document — and the code now — allows.  Witness by computation. *)
Theorem C04_prefix_refuted :
  exists c from to amt, coins_valid amt /\
    prefix_allowed c from to amt = false /\ doc_send_allowed c from to amt = true /\
    allowed c from to amt = true.
Proof. exact prefix_refuted. Qed.
Print Assumptions C04_prefix_refuted.

(** A restricted coin never reaches the fee collector: whenever a send to the fee collector is
    allowed — also under a context bypass and for the marker / ibc-transfer module senders —
    every denom in it that has a marker has a marker of the unrestricted type. *)
Theorem C04_no_restricted_to_fee_collector : forall c from amt,
  allowed c from (cfg_fee_collector c) amt = true ->
  forall d a m, In (d, a) amt -> get_marker c (AMarker d) = GMSome m -> m_type m = MCoin.
Proof. exact no_restricted_to_fee_collector. Qed.
Print Assumptions C04_no_restricted_to_fee_collector.

(** Coins leave a marker account (outside a context bypass) only when a marker fee grant is in
    use or one of the transfer agents has withdraw access; and the marker's own denom leaves
    only an active marker. *)
Theorem C04_withdraw_needs_authority : forall c from to amt fm,
  cfg_ctx_bypass c = false /\ from <> cfg_marker_module c /\ from <> cfg_ibc_module c ->
  get_marker c from = GMSome fm ->
  allowed c from to amt = true ->
  (cfg_fee_grant c = true \/ exists a, In a (cfg_agents c) /\ has_access fm a AcWithdraw = true) /\
  (m_status fm = SActive \/ coins_find (m_denom fm) amt = None \/ coins_find (m_denom fm) amt = Some 0%Z).
Proof. exact withdraw_needs_authority. Qed.
Print Assumptions C04_withdraw_needs_authority.

(** A deposit into a restricted marker (outside a context bypass) needs deposit access: the
    sender's when there is no transfer agent, otherwise a transfer agent's. *)
Theorem C04_deposit_needs_authority : forall c from to amt tm,
  cfg_ctx_bypass c = false /\ from <> cfg_marker_module c /\ from <> cfg_ibc_module c ->
  get_marker c to = GMSome tm -> m_type tm = MRestricted ->
  allowed c from to amt = true ->
  (cfg_agents c = [] /\ has_access tm from AcDeposit = true) \/
  (exists a, In a (cfg_agents c) /\ has_access tm a AcDeposit = true).
Proof. exact deposit_needs_authority. Qed.
Print Assumptions C04_deposit_needs_authority.

(** What the two theorems above do NOT cover, stated positively: under a context bypass, or
    from the marker / ibc-transfer module account, everything except the fee-collector guard is
    skipped. *)
Theorem C04_bypass_skips_marker_checks : forall c from to amt,
  cfg_ctx_bypass c || addr_eqb from (cfg_marker_module c) || addr_eqb from (cfg_ibc_module c) = true ->
  to <> cfg_fee_collector c -> send_restriction c from to amt = Some to.
Proof. exact bypass_skips_marker_checks. Qed.
Print Assumptions C04_bypass_skips_marker_checks.

(** The restriction never redirects the funds. *)
Theorem C04_destination_unchanged : forall c from to amt x,
  send_restriction c from to amt = Some x -> x = to.
Proof. exact send_restriction_same_to. Qed.
Print Assumptions C04_destination_unchanged.

(** Each denom in a multi-denom transfer is judged on its own: outside the bypass branch the
    decision is the sender-marker check, the receiver-marker check, and one independent
    [validate_send_denom] per coin (whose arguments do not include the other coins) ... *)
Theorem C04_each_denom_on_its_own : forall c from to amt,
  cfg_ctx_bypass c || addr_eqb from (cfg_marker_module c) || addr_eqb from (cfg_ibc_module c) = false ->
  allowed c from to amt =
  sender_marker_block c from (cfg_agents c) amt &&
  receiver_marker_block c from (cfg_agents c) (get_marker_ign c to) &&
  forallb (fun p => validate_send_denom c from to (cfg_agents c) (fst p) (get_marker_ign c to)) amt.
Proof. exact allowed_decomposition. Qed.
Print Assumptions C04_each_denom_on_its_own.

(** ... and in every branch a transfer of valid coins is allowed iff both of its parts are. *)
Theorem C04_per_denom_independent : forall c from to a1 a2,
  coins_valid a1 -> coins_valid a2 ->
  allowed c from to (a1 ++ a2) = allowed c from to a1 && allowed c from to a2.
Proof. exact per_denom_independent. Qed.
Print Assumptions C04_per_denom_independent.

(** Required-attribute matching: "*.base" is satisfied exactly by names that end in ".base",
    i.e. base with one or more extra leading levels — never by base itself; anything else is
    an exact comparison; and this agrees with the level-wise rule of 01_state.md. *)
Theorem match_attribute_spec : forall base attr,
  match_attribute (star :: dot :: base) attr = true <-> exists pre, attr = pre ++ dot :: base.
Proof. exact match_attribute_wildcard. Qed.
Print Assumptions match_attribute_spec.

Theorem match_attribute_not_zero_levels : forall base,
  match_attribute (star :: dot :: base) base = false.
Proof. exact match_attribute_no_zero_levels. Qed.
Print Assumptions match_attribute_not_zero_levels.

Theorem match_attribute_exact_spec : forall req attr,
  req <> [] -> has_prefix req [star; dot] = false ->
  (match_attribute req attr = true <-> req = attr).
Proof. exact match_attribute_exact. Qed.
Print Assumptions match_attribute_exact_spec.

Theorem match_attribute_eq_documented_levels : forall req attr,
  match_attribute req attr = doc_match req attr.
Proof. exact match_attribute_eq_doc. Qed.
Print Assumptions match_attribute_eq_documented_levels.

(** Non-vacuity: one configuration with a restricted active marker (denom 1, required attribute
    "*.b.a", a deny-listed sender 11, transfer access for 12, deposit for 13, withdraw for agent
    14), a receiver 20 holding "c.b.a" and a receiver 21 holding only "b.a". *)
Definition ex_marker : marker :=
  {| m_denom := 1%positive; m_type := MRestricted; m_status := SActive;
     m_req_attrs := [["*"; "."; "b"; "."; "a"]%char];
     m_access := [(AAcct 12%positive, [AcTransfer]); (AAcct 13%positive, [AcDeposit]);
                  (AAcct 14%positive, [AcWithdraw; AcTransfer])];
     m_forced := false |}.
Definition ex_cfg (bypass : bool) (agents : list addr) : config :=
  {| cfg_accounts := [(AMarker 1%positive, AcctMarker ex_marker)];
     cfg_deny := [(AMarker 1%positive, AAcct 11%positive)];
     cfg_attrs := [(AAcct 20%positive, [["c"; "."; "b"; "."; "a"]%char]);
                   (AAcct 21%positive, [["b"; "."; "a"]%char])];
     cfg_bypass_addrs := [AAcct 9%positive; AAcct 6%positive];
     cfg_fee_collector := AAcct 9%positive; cfg_marker_module := AAcct 8%positive;
     cfg_ibc_module := AAcct 7%positive;
     cfg_ctx_bypass := bypass; cfg_fee_grant := false; cfg_agents := agents |}.

Example C04_witness :
  let one := [(1%positive, 5%Z)] in
  (* attributes: one extra level is enough, zero is not *)
  allowed (ex_cfg false []) (AAcct 10%positive) (AAcct 20%positive) one = true /\
  allowed (ex_cfg false []) (AAcct 10%positive) (AAcct 21%positive) one = false /\
  (* deny list beats nothing-but-attributes; transfer access needs no attributes *)
  allowed (ex_cfg false []) (AAcct 11%positive) (AAcct 20%positive) one = false /\
  allowed (ex_cfg false []) (AAcct 12%positive) (AAcct 21%positive) one = true /\
  (* fee collector: denied even under context bypass and from the marker module *)
  allowed (ex_cfg true []) (AAcct 12%positive) (AAcct 9%positive) one = false /\
  allowed (ex_cfg false []) (AAcct 8%positive) (AAcct 9%positive) one = false /\
  allowed (ex_cfg true []) (AAcct 10%positive) (AAcct 21%positive) one = true /\
  (* withdraw from the marker account: only with an agent holding withdraw *)
  allowed (ex_cfg false []) (AMarker 1%positive) (AAcct 20%positive) one = false /\
  allowed (ex_cfg false [AAcct 14%positive]) (AMarker 1%positive) (AAcct 21%positive) one = true /\
  (* deposit into the restricted marker: deposit AND transfer are needed *)
  allowed (ex_cfg false []) (AAcct 13%positive) (AMarker 1%positive) one = false /\
  allowed (ex_cfg false []) (AAcct 12%positive) (AMarker 1%positive) one = false /\
  (* the hypothesis of the equality theorem is met and both sides are [true] *)
  coins_valid one /\
  doc_send_allowed (ex_cfg false []) (AAcct 10%positive) (AAcct 20%positive) one = true.
Proof.
  cbv zeta. repeat split; try (vm_compute; reflexivity).
  repeat constructor.
Qed.
