(** C04 — Restricted coins move through the bank only as the marker transfer rules allow.
    Only theorem statements here; each is closed by [exact] of a lemma proved in
    Proofs/SendRestrProofs.v.  [allowed]/[send_restriction] is the transcription of the Go code
    (Marker/SendRestr.v); [doc_send_allowed] is the transcription of the flowcharts of
    x/marker/spec/12_transfers.md (Marker/SendRestrSpec.v). *)
From Coq Require Import ZArith PArith List Bool Ascii Permutation.
Import ListNotations.
From PV Require Import Marker.SendRestr Marker.SendRestrSpec Marker.SendCompose
  Proofs.SendRestrProofs Proofs.SendRestrPerm Proofs.SendComposeProofs Proofs.ReqAttrProofs.
From PV Require Corr.C04 Proofs.C04CheckerProofs.

(** "Permitted exactly when the documented rules permit it": for every configuration, sender,
    receiver and valid sdk.Coins (positive amounts), the code decides exactly as the documented
    flowcharts do. *)
Theorem C04_code_eq_doc : forall c from to amt,
  coins_valid amt -> allowed c from to amt = doc_send_allowed c from to amt.
Proof. exact code_eq_doc. Qed.
Print Assumptions C04_code_eq_doc.

(** This was false of the code before fix commit f4bdf3346 (findings/C04.md): with a non-marker
    account at a denom's marker address the old code ([prefix_allowed]) denied a send that the
    document — and the code now — allows.  Witness by computation. *)
Theorem C04_prefix_refuted :
  exists c from to amt, coins_valid amt /\
    prefix_allowed c from to amt = false /\ doc_send_allowed c from to amt = true /\
    allowed c from to amt = true.
Proof. exact prefix_refuted. Qed.
Print Assumptions C04_prefix_refuted.

(** A restricted coin never reaches the fee collector: whenever a send to the fee collector is
    allowed — also under a context bypass and for the marker / ibc-transfer module senders —
    every denom in it that has a marker has a marker of the unrestricted type. *)
Theorem C04_no_restricted_to_fee_collector : forall c from amt,
  allowed c from (cfg_fee_collector c) amt = true ->
  forall d a m, In (d, a) amt -> get_marker c (AMarker d) = GMSome m -> m_type m = MCoin.
Proof. exact no_restricted_to_fee_collector. Qed.
Print Assumptions C04_no_restricted_to_fee_collector.

(** Coins leave a marker account (outside a context bypass) only when a marker fee grant is in
    use or one of the transfer agents has withdraw access; and the marker's own denom leaves
    only an active marker. *)
Theorem C04_withdraw_needs_authority : forall c from to amt fm,
  cfg_ctx_bypass c = false /\ from <> cfg_marker_module c /\ from <> cfg_ibc_module c ->
  get_marker c from = GMSome fm ->
  allowed c from to amt = true ->
  (cfg_fee_grant c = true \/ exists a, In a (cfg_agents c) /\ has_access fm a AcWithdraw = true) /\
  (m_status fm = SActive \/ coins_find (m_denom fm) amt = None \/ coins_find (m_denom fm) amt = Some 0%Z).
Proof. exact withdraw_needs_authority. Qed.
Print Assumptions C04_withdraw_needs_authority.

(** A deposit into a restricted marker (outside a context bypass) needs deposit access: the
    sender's when there is no transfer agent, otherwise a transfer agent's. *)
Theorem C04_deposit_needs_authority : forall c from to amt tm,
  cfg_ctx_bypass c = false /\ from <> cfg_marker_module c /\ from <> cfg_ibc_module c ->
  get_marker c to = GMSome tm -> m_type tm = MRestricted ->
  allowed c from to amt = true ->
  (cfg_agents c = [] /\ has_access tm from AcDeposit = true) \/
  (exists a, In a (cfg_agents c) /\ has_access tm a AcDeposit = true).
Proof. exact deposit_needs_authority. Qed.
Print Assumptions C04_deposit_needs_authority.

(** What the two theorems above do NOT cover, stated positively: under a context bypass, or
    from the marker / ibc-transfer module account, everything except the fee-collector guard is
    skipped. *)
Theorem C04_bypass_skips_marker_checks : forall c from to amt,
  cfg_ctx_bypass c || addr_eqb from (cfg_marker_module c) || addr_eqb from (cfg_ibc_module c) = true ->
  to <> cfg_fee_collector c -> send_restriction c from to amt = Some to.
Proof. exact bypass_skips_marker_checks. Qed.
Print Assumptions C04_bypass_skips_marker_checks.

(** The restriction never redirects the funds. *)
Theorem C04_destination_unchanged : forall c from to amt x,
  send_restriction c from to amt = Some x -> x = to.
Proof. exact send_restriction_same_to. Qed.
Print Assumptions C04_destination_unchanged.

(** Each denom in a multi-denom transfer is judged on its own: outside the bypass branch the
    decision is the sender-marker check, the receiver-marker check, and one independent
    [validate_send_denom] per coin (whose arguments do not include the other coins) ... *)
Theorem C04_each_denom_on_its_own : forall c from to amt,
  cfg_ctx_bypass c || addr_eqb from (cfg_marker_module c) || addr_eqb from (cfg_ibc_module c) = false ->
  allowed c from to amt =
  sender_marker_block c from (cfg_agents c) amt &&
  receiver_marker_block c from (cfg_agents c) (get_marker_ign c to) &&
  forallb (fun p => validate_send_denom c from to (cfg_agents c) (fst p) (get_marker_ign c to)) amt.
Proof. exact allowed_decomposition. Qed.
Print Assumptions C04_each_denom_on_its_own.

(** ... and in every branch a transfer of valid coins is allowed iff both of its parts are. *)
Theorem C04_per_denom_independent : forall c from to a1 a2,
  coins_valid a1 -> coins_valid a2 ->
  allowed c from to (a1 ++ a2) = allowed c from to a1 && allowed c from to a2.
Proof. exact per_denom_independent. Qed.
Print Assumptions C04_per_denom_independent.

(** "Each denom is judged on its own", full strength: the verdict on a valid sdk.Coins (positive
    amounts) is the conjunction of the verdicts of its coins taken one at a time ... *)
Theorem C04_verdict_is_conjunction_of_coin_verdicts : forall c from to amt,
  coins_valid amt -> amt <> [] ->
  allowed c from to amt = forallb (fun p => allowed c from to [p]) amt.
Proof. exact allowed_per_coin. Qed.
Print Assumptions C04_verdict_is_conjunction_of_coin_verdicts.

(** ... it does not depend on the order in which the coins are listed (Coins.Find, the denom loop and
    the fee-collector loop cannot make one coin's verdict depend on its position) ... *)
Theorem C04_verdict_order_independent : forall c from to a1 a2,
  coins_valid a1 -> Permutation a1 a2 -> allowed c from to a1 = allowed c from to a2.
Proof. exact allowed_perm. Qed.
Print Assumptions C04_verdict_order_independent.

(** ... nor on the (positive) amounts. *)
Theorem C04_coin_verdict_ignores_amount : forall c from to d x y,
  (0 < x)%Z -> (0 < y)%Z -> allowed c from to [(d, x)] = allowed c from to [(d, y)].
Proof. exact allowed_amount_irrelevant. Qed.
Print Assumptions C04_coin_verdict_ignores_amount.

(** When marker accounts sit at the address of their denom (types.MarkerAddress), the sender block's
    "own denom leaves only an active marker" test is subsumed by the denom loop: the verdict is the
    same without it (a change weakening only that test cannot be observed). *)
Theorem C04_own_denom_check_subsumed : forall c from to amt,
  (forall a m, lookup_acct a (cfg_accounts c) = Some (AcctMarker m) -> a = AMarker (m_denom m)) ->
  cfg_ctx_bypass c || addr_eqb from (cfg_marker_module c) || addr_eqb from (cfg_ibc_module c) = false ->
  allowed c from to amt =
  sender_marker_block_no_own c from (cfg_agents c) &&
  receiver_marker_block c from (cfg_agents c) (get_marker_ign c to) &&
  forallb (fun p => validate_send_denom c from to (cfg_agents c) (fst p) (get_marker_ign c to)) amt.
Proof. exact own_denom_check_subsumed. Qed.
Print Assumptions C04_own_denom_check_subsumed.

(** Required attributes are judged one by one, also when they OVERLAP (a wildcard and an exact name
    under it, nested wildcards, duplicates): nothing is reported missing iff every requirement has SOME
    attribute matching it; the verdict on a list is that of its parts and depends only on the set of
    requirements; one attribute that matches all requirements satisfies them all; more attributes never
    hurt; and this is the documented level-wise rule applied per requirement. *)
Theorem C04_required_attributes_are_independent : forall required attrs,
  (find_missing_attributes required attrs = [] <->
   forall r, In r required -> exists a, In a attrs /\ match_attribute r a = true) /\
  (forall r1 r2, find_missing_attributes (r1 ++ r2) attrs =
                 find_missing_attributes r1 attrs ++ find_missing_attributes r2 attrs) /\
  (forall required', (forall r, In r required <-> In r required') ->
     (find_missing_attributes required attrs = [] <-> find_missing_attributes required' attrs = [])) /\
  (forall a, In a attrs -> (forall r, In r required -> match_attribute r a = true) ->
     find_missing_attributes required attrs = []) /\
  (forall attrs', (forall a, In a attrs -> In a attrs') ->
     find_missing_attributes required attrs = [] -> find_missing_attributes required attrs' = []) /\
  match find_missing_attributes required attrs with [] => true | _ => false end =
  each_requirement_matched required attrs.
Proof. exact required_attributes_independent. Qed.
Print Assumptions C04_required_attributes_are_independent.

(** Where the attributes decide (ordinary sender without transfer permission and not deny-listed, no
    agent with transfer permission, ordinary receiver, active restricted marker with required
    attributes) the verdict on a one-coin send IS that rule on the marker's requirements and the
    receiver's attribute names. *)
Theorem C04_attribute_decided_verdict : forall c from to d a m,
  (0 < a)%Z -> attribute_decided c from to d = true -> marker_for_denom c d = Some m ->
  allowed c from to [(d, a)] = each_requirement_matched (m_req_attrs m) (attributes_of c to).
Proof. exact attribute_decided_verdict. Qed.
Print Assumptions C04_attribute_decided_verdict.

(** A one-pass rewrite that lets each attribute tick off only the FIRST unsatisfied requirement it
    matches is a different rule: "*.investor.pb" + "accredited.investor.pb" against the single name
    "accredited.investor.pb".  Witness by computation. *)
Theorem C04_one_pass_tick_off_refuted :
  exists required attrs,
    find_missing_attributes required attrs = [] /\ one_pass_missing required attrs <> [].
Proof. exact one_pass_refuted. Qed.
Print Assumptions C04_one_pass_tick_off_refuted.

(** * The three restrictions of the application together *)

(** The restriction the application's bank applies — the registered restrictions composed in the
    effective order of the reviewed wiring table of app/app.go (Base/WiringDoc.v, proved equal to the
    table regenerated from the source on every run) — is: marker, then sanction, then quarantine,
    each seeing the destination the previous one returned. *)
Theorem C04_app_restriction_is_marker_sanction_quarantine : forall ac from to amt,
  app_restriction ac from to amt =
  match send_restriction (ac_marker ac) from to amt with
  | None => None
  | Some to1 =>
      match sanction_restriction (ac_sanction ac) from to1 amt with
      | None => None
      | Some to2 => quarantine_restriction (ac_quar ac) from to2 amt
      end
  end.
Proof. exact app_restriction_unfold. Qed.
Print Assumptions C04_app_restriction_is_marker_sanction_quarantine.

(** A bank movement is permitted by the application, with destination [dest], exactly when the marker
    rules permit it FOR THE ORIGINAL RECEIVER, the sender is not sanctioned (or the context carries the
    sanction bypass, which no site of the application sets), and [dest] is the quarantine funds holder
    when the receiver is quarantined (no quarantine bypass, sender is neither the receiver nor the
    holder, no auto-accept for the sender), the receiver otherwise. *)
Theorem C04_composition : forall ac from to amt dest,
  app_restriction ac from to amt = Some dest <->
  allowed (ac_marker ac) from to amt = true /\
  (sc_bypass (ac_sanction ac) = true \/ is_sanctioned (ac_sanction ac) from = false) /\
  dest = (if q_redirects (ac_quar ac) from to then qc_holder (ac_quar ac) else to).
Proof. exact composition. Qed.
Print Assumptions C04_composition.

(** The marker verdict is independent of the other two restrictions: a marker denial is final
    whatever the sanction and quarantine state and flags are ... *)
Theorem C04_marker_denial_is_final : forall mc from to amt,
  allowed mc from to amt = false ->
  forall sc qc, app_restriction {| ac_marker := mc; ac_sanction := sc; ac_quar := qc |} from to amt = None.
Proof. exact marker_denial_final. Qed.
Print Assumptions C04_marker_denial_is_final.

(** ... and the application's verdict factors into the marker verdict and the sanction test. *)
Theorem C04_app_verdict_factors : forall mc sc qc from to amt,
  match app_restriction {| ac_marker := mc; ac_sanction := sc; ac_quar := qc |} from to amt with
  | Some _ => true | None => false end =
  allowed mc from to amt && sanction_passes sc from.
Proof. exact app_verdict_factor. Qed.
Print Assumptions C04_app_verdict_factors.

(** What the quarantine pay-out (AcceptQuarantinedFunds: SendCoins(quarantine.WithBypass(ctx), holder,
    receiver, coins)) is subject to.  The holder is a required-attribute bypass address of the marker
    keeper (wiring fact marker_req_attr_bypass_addrs.elems) and not a marker account; the context has
    no marker flags.  Then the pay-out passes exactly when the receiver-marker check passes for the
    holder and every coin passes [payout_denom_ok]: all of validateSendDenom with the holder as the
    sender — marker active; if restricted: receiver is not the fee collector, the holder is not on the
    deny list, and the holder has TRANSFER or else the receiver is not a marker account and holds the
    required attributes (or is itself a bypass address) — EXCEPT that for a marker WITHOUT required
    attributes the missing transfer permission of the sender is forgiven (the documented bypass). *)
Theorem C04_quarantine_payout_exact : forall ac to amt,
  let mc := ac_marker ac in
  let holder := qc_holder (ac_quar ac) in
  cfg_ctx_bypass mc = false -> holder <> cfg_marker_module mc -> holder <> cfg_ibc_module mc ->
  cfg_agents mc = [] ->
  get_marker_ign mc holder = None ->
  is_req_attr_bypass mc holder = true ->
  qc_bypass (ac_quar ac) = true ->
  sc_bypass (ac_sanction ac) = true \/ is_sanctioned (ac_sanction ac) holder = false ->
  app_restriction ac holder to amt =
  if receiver_marker_block mc holder [] (get_marker_ign mc to) &&
     forallb (fun p => payout_denom_ok mc holder to (fst p)) amt
  then Some to else None.
Proof. exact payout_exact. Qed.
Print Assumptions C04_quarantine_payout_exact.

(** The two simplified flowcharts of 12_transfers.md "Quarantine Complexities" are what the code does
    under the assumptions the document states. *)
Theorem C04_quarantined_send_as_documented : forall c S R d m,
  marker_for_denom c d = Some m -> m_status m = SActive -> m_type m = MRestricted ->
  R <> cfg_fee_collector c -> on_deny_list c d S = false ->
  marker_at c R = None -> bypass_account c R = false -> bypass_account c S = false ->
  validate_send_denom c S R (cfg_agents c) d (get_marker_ign c R) =
  (some_agent_has m (cfg_agents c) AcTransfer || has_role m S AcTransfer) ||
  match m_req_attrs m with [] => false | _ :: _ => has_required_attributes c m R end.
Proof. exact quarantined_send_doc_simplified. Qed.
Print Assumptions C04_quarantined_send_as_documented.

Theorem C04_quarantine_payout_as_documented : forall c holder R d m,
  get_marker_ign c (AMarker d) = Some m -> m_status m = SActive -> m_type m = MRestricted ->
  R <> cfg_fee_collector c -> is_send_deny c (AMarker d) holder = false ->
  has_access m holder AcTransfer = false ->
  get_marker_ign c R = None -> is_req_attr_bypass c R = false ->
  payout_denom_ok c holder R d =
  match m_req_attrs m with [] => true | _ :: _ => has_required_attributes c m R end.
Proof. exact payout_doc_simplified. Qed.
Print Assumptions C04_quarantine_payout_as_documented.

(** Restricted coins cannot be laundered through the quarantine holder: coins that reach R by way of a
    quarantine (sent in state ac1, accepted in state ac2) were permitted by the marker rules for
    (sender, R) when sent and for (holder, R) when accepted. *)
Theorem C04_no_laundering_via_quarantine : forall ac1 ac2 S R amt dest,
  app_restriction ac1 S R amt = Some (qc_holder (ac_quar ac1)) ->
  app_restriction ac2 (qc_holder (ac_quar ac2)) R amt = Some dest ->
  allowed (ac_marker ac1) S R amt = true /\
  allowed (ac_marker ac2) (qc_holder (ac_quar ac2)) R amt = true.
Proof. exact no_laundering. Qed.
Print Assumptions C04_no_laundering_via_quarantine.

(** What the pay-out does NOT re-check is who sent: a restricted coin without required attributes
    leaves a bypass address for an ordinary account although the same send by an ordinary account
    without TRANSFER is denied (documented: "it's assumed that they were originally sent by someone
    with transfer authority").  Witness by computation. *)
Theorem C04_payout_forgets_sender :
  exists c holder S R amt,
    coins_valid amt /\ is_req_attr_bypass c holder = true /\
    allowed c S R amt = false /\ allowed c holder R amt = true.
Proof. exact payout_forgets_sender. Qed.
Print Assumptions C04_payout_forgets_sender.

(** * Endpoints that reach the bank with marker context flags *)

Import String.
(** The flags the endpoint models set are reviewed setter sites (and nothing sets the sanction bypass). *)
Theorem C04_endpoint_flags_are_reviewed_sites :
  site_listed "markertypes.WithBypass"%string "x/marker/keeper"%string "Keeper.TransferCoin"%string = true /\
  site_listed "markertypes.WithTransferAgents"%string "x/exchange/keeper"%string "Keeper.SettleOrders"%string = true /\
  site_listed "quarantine.WithBypass"%string "x/exchange/keeper"%string "Keeper.DoTransfer"%string = true /\
  site_listed "markertypes.WithTransferAgents"%string "x/metadata/keeper"%string "msgServer.UpdateValueOwners"%string = true /\
  site_listed "quarantine.WithBypass"%string "x/quarantine/keeper"%string "Keeper.AcceptQuarantinedFunds"%string = true /\
  site_listed "sanction.WithBypass"%string "x/sanction/keeper"%string "Keeper.SendRestrictionFn"%string = false.
Proof. exact endpoint_flag_sites. Qed.
Print Assumptions C04_endpoint_flags_are_reviewed_sites.

(** An accepted MsgTransferRequest (which runs the bank send under the marker bypass): the marker
    exists, is active and restricted, the administrator holds TRANSFER or FORCE_TRANSFER, a
    restricted-marker receiver gave the administrator DEPOSIT, a foreign source consented through authz
    unless this is a permitted forced transfer, the receiver is neither bank-blocked nor the fee
    collector, the source is not sanctioned, and a quarantined receiver's coin goes to the holder. *)
Theorem C04_transfer_request_accepts : forall ac admin from to d a authz_ok forcible blocked dest,
  transfer_coin ac admin from to d a authz_ok forcible blocked = Some dest ->
  exists m, get_marker (ac_marker ac) (AMarker d) = GMSome m /\
    m_status m = SActive /\ m_type m = MRestricted /\
    (has_access m admin AcTransfer = true \/ has_access m admin AcForceTransfer = true) /\
    validate_send_to_marker (ac_marker ac) to admin = true /\
    (admin = from \/ authz_ok = true \/
     (m_forced m = true /\ has_access m admin AcForceTransfer = true /\ forcible = true)) /\
    blocked = false /\ to <> cfg_fee_collector (ac_marker ac) /\
    sanction_passes (ac_sanction ac) from = true /\
    dest = q_dest (ac_quar ac) from to.
Proof. exact transfer_coin_accepts. Qed.
Print Assumptions C04_transfer_request_accepts.

(** The scope of [C04_withdraw_needs_authority] made explicit: MsgTransferRequest by a holder of
    FORCE_TRANSFER (marker allows forced transfers) moves the coin out of a marker account — here the
    marker's own escrow — without WITHDRAW and without TRANSFER; the same movement as a bank send with
    that account as transfer agent is refused.  Documented behaviour ("out of almost any account",
    canForceTransferFrom lets marker accounts through); witness by computation. *)
Theorem C04_forced_transfer_leaves_marker_without_withdraw :
  exists ac admin m to d a,
    get_marker (ac_marker ac) (AMarker d) = GMSome m /\
    has_access m admin AcWithdraw = false /\ has_access m admin AcTransfer = false /\
    transfer_coin ac admin (AMarker d) to d a false true false = Some to /\
    app_restriction_seq (with_agents ac [admin]) (AMarker d) to [(d, a)] = None.
Proof. exact forced_transfer_leaves_marker_without_withdraw. Qed.
Print Assumptions C04_forced_transfer_leaves_marker_without_withdraw.

(** An accepted exchange settlement: every transfer was permitted by the marker rules with the market
    admin as the only transfer agent, from an unsanctioned sender to an unblocked receiver, and is
    credited to the receiver itself (quarantine bypassed by DoTransfer). *)
Theorem C04_settlement_accepts : forall ac admin legs,
  settle_ok ac admin legs = true ->
  forall f t amt blocked, In (f, t, amt, blocked) legs ->
    blocked = false /\
    allowed (mc_with (ac_marker ac) (cfg_ctx_bypass (ac_marker ac)) (cfg_fee_grant (ac_marker ac)) [admin]) f t amt = true /\
    sanction_passes (ac_sanction ac) f = true /\
    app_restriction_seq (settle_ctx ac admin) f t amt = Some t.
Proof. exact settle_accepts. Qed.
Print Assumptions C04_settlement_accepts.

(** An accepted value-owner update: the owner signed or is a marker account; the scope coin moved
    under the marker rules with the signers as transfer agents: out of a marker account only with a
    signer holding WITHDRAW (or a fee grant in use), into a restricted marker only with DEPOSIT. *)
Theorem C04_value_owner_update_accepts : forall ac signers owner to d blocked dest,
  cfg_ctx_bypass (ac_marker ac) = false -> owner <> cfg_marker_module (ac_marker ac) ->
  owner <> cfg_ibc_module (ac_marker ac) ->
  update_value_owner ac signers owner to d blocked = Some dest ->
  let c := mc_with (ac_marker ac) false (cfg_fee_grant (ac_marker ac)) signers in
  (In owner signers \/ exists om, get_marker (ac_marker ac) owner = GMSome om) /\
  blocked = false /\ owner <> to /\
  allowed c owner to [(d, 1%Z)] = true /\
  sanction_passes (ac_sanction ac) owner = true /\
  dest = q_dest (ac_quar ac) owner to /\
  (forall om, get_marker (ac_marker ac) owner = GMSome om ->
     cfg_fee_grant (ac_marker ac) = true \/ exists a, In a signers /\ has_access om a AcWithdraw = true) /\
  (forall tm, get_marker (ac_marker ac) to = GMSome tm -> m_type tm = MRestricted ->
     (signers = [] /\ has_access tm owner AcDeposit = true) \/
     exists a, In a signers /\ has_access tm a AcDeposit = true).
Proof. exact update_value_owner_accepts. Qed.
Print Assumptions C04_value_owner_update_accepts.

(** The executable property checker of the correspondence (Corr/C04.v: documented rules = answer, the
    "in particular" clauses, sanctioned senders, quarantined receivers not credited) holds on the model:
    a "prop:" failure on the real code is a behaviour the model cannot show. *)
Theorem C04_checker_holds_on_model : forall what ac from to amt,
  coins_valid amt ->
  PV.Corr.C04.check_answer what (ac_marker ac) from to amt (allowed (ac_marker ac) from to amt) = [] /\
  (forall dest, app_restriction_seq ac from to amt = Some dest ->
     PV.Corr.C04.moved_clauses what ac from to amt = [] /\
     (from <> to ->
      PV.Corr.C04.quarantine_clause ac from to amt
        (PV.Corr.C04.expected_deltas from to (qc_holder (ac_quar ac)) dest amt) = true)) /\
  (app_restriction_seq ac from to amt = None -> PV.Corr.C04.denied_clauses what ac from to amt = []).
Proof. exact PV.Proofs.C04CheckerProofs.checker_holds_on_model. Qed.
Print Assumptions C04_checker_holds_on_model.

(** Required-attribute matching: "*.base" is satisfied exactly by names that end in ".base",
    i.e. base with one or more extra leading levels — never by base itself; anything else is
    an exact comparison; and this agrees with the level-wise rule of 01_state.md. *)
Theorem match_attribute_spec : forall base attr,
  match_attribute (star :: dot :: base) attr = true <-> exists pre, attr = pre ++ dot :: base.
Proof. exact match_attribute_wildcard. Qed.
Print Assumptions match_attribute_spec.

Theorem match_attribute_not_zero_levels : forall base,
  match_attribute (star :: dot :: base) base = false.
Proof. exact match_attribute_no_zero_levels. Qed.
Print Assumptions match_attribute_not_zero_levels.

Theorem match_attribute_exact_spec : forall req attr,
  req <> [] -> has_prefix req [star; dot] = false ->
  (match_attribute req attr = true <-> req = attr).
Proof. exact match_attribute_exact. Qed.
Print Assumptions match_attribute_exact_spec.

Theorem match_attribute_eq_documented_levels : forall req attr,
  match_attribute req attr = doc_match req attr.
Proof. exact match_attribute_eq_doc. Qed.
Print Assumptions match_attribute_eq_documented_levels.

(** Non-vacuity: one configuration with a restricted active marker (denom 1, required attribute
    "*.b.a", a deny-listed sender 11, transfer access for 12, deposit for 13, withdraw for agent
    14), a receiver 20 holding "c.b.a" and a receiver 21 holding only "b.a". *)
Definition ex_marker : marker :=
  {| m_denom := 1%positive; m_type := MRestricted; m_status := SActive;
     m_req_attrs := [["*"; "."; "b"; "."; "a"]%char];
     m_access := [(AAcct 12%positive, [AcTransfer]); (AAcct 13%positive, [AcDeposit]);
                  (AAcct 14%positive, [AcWithdraw; AcTransfer])];
     m_forced := false |}.
Definition ex_cfg (bypass : bool) (agents : list addr) : config :=
  {| cfg_accounts := [(AMarker 1%positive, AcctMarker ex_marker)];
     cfg_deny := [(AMarker 1%positive, AAcct 11%positive)];
     cfg_attrs := [(AAcct 20%positive, [["c"; "."; "b"; "."; "a"]%char]);
                   (AAcct 21%positive, [["b"; "."; "a"]%char])];
     cfg_bypass_addrs := [AAcct 9%positive; AAcct 6%positive];
     cfg_fee_collector := AAcct 9%positive; cfg_marker_module := AAcct 8%positive;
     cfg_ibc_module := AAcct 7%positive;
     cfg_ctx_bypass := bypass; cfg_fee_grant := false; cfg_agents := agents |}.

Example C04_witness :
  let one := [(1%positive, 5%Z)] in
  (* attributes: one extra level is enough, zero is not *)
  allowed (ex_cfg false []) (AAcct 10%positive) (AAcct 20%positive) one = true /\
  allowed (ex_cfg false []) (AAcct 10%positive) (AAcct 21%positive) one = false /\
  (* deny list beats nothing-but-attributes; transfer access needs no attributes *)
  allowed (ex_cfg false []) (AAcct 11%positive) (AAcct 20%positive) one = false /\
  allowed (ex_cfg false []) (AAcct 12%positive) (AAcct 21%positive) one = true /\
  (* fee collector: denied even under context bypass and from the marker module *)
  allowed (ex_cfg true []) (AAcct 12%positive) (AAcct 9%positive) one = false /\
  allowed (ex_cfg false []) (AAcct 8%positive) (AAcct 9%positive) one = false /\
  allowed (ex_cfg true []) (AAcct 10%positive) (AAcct 21%positive) one = true /\
  (* withdraw from the marker account: only with an agent holding withdraw *)
  allowed (ex_cfg false []) (AMarker 1%positive) (AAcct 20%positive) one = false /\
  allowed (ex_cfg false [AAcct 14%positive]) (AMarker 1%positive) (AAcct 21%positive) one = true /\
  (* deposit into the restricted marker: deposit AND transfer are needed *)
  allowed (ex_cfg false []) (AAcct 13%positive) (AMarker 1%positive) one = false /\
  allowed (ex_cfg false []) (AAcct 12%positive) (AMarker 1%positive) one = false /\
  (* the hypothesis of the equality theorem is met and both sides are [true] *)
  coins_valid one /\
  doc_send_allowed (ex_cfg false []) (AAcct 10%positive) (AAcct 20%positive) one = true.
Proof.
  cbv zeta. repeat split; try (vm_compute; reflexivity).
  repeat constructor.
Qed.

(** Non-vacuity of the composition: the configuration above inside an application state with a
    sanctioned account 15 (holding TRANSFER would not help it) and a quarantined receiver 20 that
    auto-accepts sender 12; holder 6 is a bypass address. *)
Definition ex_app (qbypass : bool) : app_config :=
  {| ac_marker := ex_cfg false [];
     ac_sanction := {| sc_sanctioned := [AAcct 15%positive]; sc_bypass := false |};
     ac_quar := {| qc_optin := [AAcct 20%positive]; qc_auto_accept := [(AAcct 20%positive, AAcct 12%positive)];
                   qc_holder := AAcct 6%positive; qc_bypass := qbypass |} |}.

Example C04_composition_witness :
  let one := [(1%positive, 5%Z)] in
  (* attributes let 10 send to 20, but 20 is quarantined: the holder is credited *)
  app_restriction (ex_app false) (AAcct 10%positive) (AAcct 20%positive) one = Some (AAcct 6%positive) /\
  (* 12 is auto-accepted: straight to 20 *)
  app_restriction (ex_app false) (AAcct 12%positive) (AAcct 20%positive) one = Some (AAcct 20%positive) /\
  (* the marker judged the ORIGINAL receiver: 21 lacks the attribute, quarantined or not *)
  app_restriction (ex_app false) (AAcct 10%positive) (AAcct 21%positive) one = None /\
  (* a sanctioned sender is stopped although the marker rules would let it through *)
  allowed (ex_cfg false []) (AAcct 15%positive) (AAcct 20%positive) one = true /\
  app_restriction (ex_app false) (AAcct 15%positive) (AAcct 20%positive) one = None /\
  (* the pay-out: holder -> 20 under the quarantine bypass passes (20 has the attribute), holder -> 21 does not *)
  app_restriction (ex_app true) (AAcct 6%positive) (AAcct 20%positive) one = Some (AAcct 20%positive) /\
  app_restriction (ex_app true) (AAcct 6%positive) (AAcct 21%positive) one = None /\
  (* order independence is about real permutations *)
  Permutation [(1%positive, 5%Z); (2%positive, 7%Z)] [(2%positive, 7%Z); (1%positive, 5%Z)].
Proof.
  cbv zeta. repeat split; try (vm_compute; reflexivity).
  apply perm_swap.
Qed.
