(** C15 — Names: only owners bind, change, delete; lookups agree; resolution unambiguous.
    Only theorem statements; each is closed by [exact] of a lemma of Proofs/NameProofs.v about the
    model Name/Name.v.  [hash] (SHA-256 in the code) is universally quantified: nothing is assumed
    of it.  The store is keyed by [name_key hash n = hash (name_key_preimage n)]; [rget s k] reads
    the record stored under key [k], [get_record hash s n] is GetRecordByName.

    The last clause of the property (two different valid names never share a record) is FALSE
    of the code: see [C15_distinct_names_distinct_keys_refuted] and
    [C15_collision_confers_authority_refuted]; the other theorems therefore speak about "the
    record stored under the name's key", and [C15_lookup_exact_unless_keys_collide] /
    [C15_distinct_names_distinct_keys_same_profile] say exactly when that is the name's own record. *)
From Coq Require Import NArith List String.
Import ListNotations.
From PV Require Import Name.Name Proofs.NameProofs.
Open Scope string_scope.
Open Scope list_scope.

(** Ownership, after ANY history [ops], for the next message [o]:
    a rejected message changes nothing; an accepted
    - root creation was signed by the governance authority, the name's key was free, no existing
      record changed and every new record carries the requested owner and flag;
    - bind found a record under the parent's key and, if that record is restricted, the signer is
      its owner; the new name's key was free; exactly that key changed;
    - modify found a record under the name's key and the signer is the governance authority or
      that record's owner; exactly the key of the normalised name changed;
    - delete found a record under the name's key whose owner is the signer; exactly that key
      was removed (children are NOT checked: the code lets an owner delete a name that has
      sub-names). *)
Theorem C15_ownership : forall (hash : string -> string) (p : params) (ops : list op) (o : op),
  let s := run hash p ops in
  let s' := fst (step hash p s o) in
  (snd (step hash p s o) = Err -> s' = s) /\
  (snd (step hash p s o) = Ok ->
   match o with
   | OpCreateRoot signer name owner restr =>
       signer = gov_authority /\ get_record hash s name = None /\
       (forall k r, rget s k = Some r -> rget s' k = Some r) /\
       (forall k r, rget s' k = Some r ->
          rget s k = Some r \/ (rget s k = None /\ r_addr r = owner /\ r_restricted r = restr))
   | OpBind parent signer child owner restr =>
       exists prec name k,
         get_record hash s parent = Some prec /\
         (r_restricted prec = true -> r_addr prec = signer) /\
         normalize p (child ++ "." ++ parent) = Some name /\
         name_key hash name = Some k /\ rget s k = None /\
         rget s' k = Some {| r_name := name; r_addr := owner; r_restricted := restr |} /\
         (forall k', k' <> k -> rget s' k' = rget s k')
   | OpModify signer name owner restr =>
       exists ex n k,
         get_record hash s name = Some ex /\ (signer = gov_authority \/ signer = r_addr ex) /\
         normalize p name = Some n /\ name_key hash n = Some k /\
         rget s' k = Some {| r_name := n; r_addr := owner; r_restricted := restr |} /\
         (forall k', k' <> k -> rget s' k' = rget s k')
   | OpDelete name signer =>
       exists ex n k,
         normalize p name = Some n /\ name_key hash n = Some k /\
         rget s k = Some ex /\ r_addr ex = signer /\
         rget s' k = None /\ (forall k', k' <> k -> rget s' k' = rget s k')
   end).
Proof. exact ownership. Qed.
Print Assumptions C15_ownership.

(** The by-address index, after any history: its entry for (address, key) is exactly the record
    stored under the key when that record's owner is the address, and the listing
    (ReverseLookup / GetRecordsByAddress) contains exactly the stored names of the records
    currently owned by the address. *)
Theorem C15_index_agrees : forall (hash : string -> string) (p : params) (ops : list op) (a : addr),
  let s := run hash p ops in
  (forall k, iget s (a, k) =
             match rget s k with
             | Some r => if N.eqb (r_addr r) a then Some r else None
             | None => None
             end) /\
  (forall n, In n (reverse_lookup s a) <->
             exists k r, rget s k = Some r /\ r_addr r = a /\ r_name r = n).
Proof. exact index_agrees. Qed.
Print Assumptions C15_index_agrees.

(** Resolve vs. listing, in the presence of colliding keys: a listed name resolves to the
    address; a name resolving to the address is listed, or a DIFFERENT name with the same key is
    listed in its place. *)
Theorem C15_lookups_agree_up_to_key : forall (hash : string -> string) (p : params) (ops : list op) (a : addr) (n : string),
  let s := run hash p ops in
  (In n (reverse_lookup s a) -> resolves_to hash s n a = true) /\
  (resolves_to hash s n a = true ->
     In n (reverse_lookup s a) \/
     exists n', n' <> n /\ In n' (reverse_lookup s a) /\ name_key hash n' = name_key hash n).
Proof. exact lookups_agree_up_to_key. Qed.
Print Assumptions C15_lookups_agree_up_to_key.

(** What a lookup returns, after any history: a record whose stored name has the queried name's
    key and is a valid name in storage format; it is the queried name's own record unless two different
    names share the key. *)
Theorem C15_lookup_exact_unless_keys_collide : forall (hash : string -> string) (p : params) (ops : list op) (n : string) (r : record),
  get_record hash (run hash p ops) n = Some r ->
  name_key hash (r_name r) = name_key hash n /\ valid p (r_name r) /\
  (r_name r = n \/ (r_name r <> n /\ name_key hash (r_name r) = name_key hash n)).
Proof. exact lookup_up_to_key. Qed.
Print Assumptions C15_lookup_exact_unless_keys_collide.

(** Keeper.Normalize is idempotent: its results are valid names in storage format. *)
Theorem C15_normalize_idempotent : forall p raw n, normalize p raw = Some n -> valid p n.
Proof. exact normalize_idem. Qed.
Print Assumptions C15_normalize_idempotent.

(** REFUTED clause.  Two different valid names with the same key pre-image, hence (for every
    hash function) the same store key. *)
Theorem C15_distinct_names_distinct_keys_refuted :
  exists n1 n2, valid default_params n1 /\ valid default_params n2 /\ n1 <> n2 /\
                name_key_preimage n1 = name_key_preimage n2.
Proof. exact keys_collide. Qed.
Print Assumptions C15_distinct_names_distinct_keys_refuted.

Theorem C15_equal_preimage_equal_key : forall (hash : string -> string) n1 n2,
  name_key_preimage n1 = name_key_preimage n2 -> name_key hash n1 = name_key hash n2.
Proof. exact same_preimage_same_key. Qed.
Print Assumptions C15_equal_preimage_equal_key.

(** ... and the collision does confer authority, even for an injective hash (the identity):
    after root bbcc, aa.bbcc bound by user 1, restricted root bb owned by user 3 — the never-bound
    ccaa.bb reads as user 1's record and resolves to user 1 without being listed for user 1; the
    owner of bb cannot bind ccaa under bb; user 1 can modify ccaa.bb and bind under it. *)
Theorem C15_collision_confers_authority_refuted :
  let h := fun x : string => x in
  let s := run h default_params
             [OpCreateRoot 0%N "bbcc" 2%N false; OpBind "bbcc" 1%N "aa" 1%N true; OpCreateRoot 0%N "bb" 3%N true] in
  get_record h s "ccaa.bb" = Some {| r_name := "aa.bbcc"; r_addr := 1%N; r_restricted := true |} /\
  resolves_to h s "ccaa.bb" 1%N = true /\
  reverse_lookup s 1%N = ["aa.bbcc"] /\
  snd (step h default_params s (OpBind "bb" 3%N "ccaa" 3%N false)) = Err /\
  snd (step h default_params s (OpModify 1%N "ccaa.bb" 2%N false)) = Ok /\
  snd (step h default_params s (OpBind "ccaa.bb" 1%N "zz" 1%N false)) = Ok.
Proof. exact authority_confusion. Qed.
Print Assumptions C15_collision_confers_authority_refuted.

(** Strongest true form of the refuted clause: the pre-image is injective on segment lists with
    the same length profile, so names with space-free segments and equal segment lengths have
    different keys pre-images unless equal (a collision needs a shifted segment boundary). *)
Theorem C15_preimage_injective_on_equal_profiles : forall l1 l2 : list string,
  map String.length l1 = map String.length l2 ->
  String.concat "" (rev l1) = String.concat "" (rev l2) -> l1 = l2.
Proof. exact preimage_inj_profile. Qed.
Print Assumptions C15_preimage_injective_on_equal_profiles.

Theorem C15_distinct_names_distinct_keys_same_profile : forall n1 n2,
  map trim (split_dots n1) = split_dots n1 -> map trim (split_dots n2) = split_dots n2 ->
  map String.length (split_dots n1) = map String.length (split_dots n2) ->
  name_key_preimage n1 <> None ->
  name_key_preimage n1 = name_key_preimage n2 -> n1 = n2.
Proof. exact same_profile_injective. Qed.
Print Assumptions C15_distinct_names_distinct_keys_same_profile.

(** Non-vacuity: a history with every message kind, accepted and rejected, whose final state
    has the index in step; and the profile hypotheses hold of ordinary names. *)
Example C15_witness :
  let h := fun x : string => x in
  map (fun n => snd (step h default_params (run h default_params (firstn n sample_ops)) (nth n sample_ops (OpDelete "" 0%N))))
      (seq 0 9) = [Ok; Ok; Err; Ok; Ok; Err; Err; Ok; Ok] /\
  reverse_lookup (run h default_params sample_ops) 2%N = ["pb"] /\
  reverse_lookup (run h default_params sample_ops) 3%N = ["aa.pb"] /\
  get_record h (run h default_params sample_ops) "cc.aa.pb" = None /\
  map trim (split_dots "aa.pb") = split_dots "aa.pb" /\
  map String.length (split_dots "aa.pb") = map String.length (split_dots "bb.pb") /\
  name_key_preimage "aa.pb" <> name_key_preimage "bb.pb".
Proof. vm_compute. repeat split. intros H. discriminate H. Qed.
