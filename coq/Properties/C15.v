(** C15 — Names: only owners bind, change, delete; lookups agree; resolution unambiguous.
    Only theorem statements; each is closed by [exact] of a lemma of Proofs/NameProofs.v about the
    model Name/Name.v.  [hash] (SHA-256 in the code) is universally quantified: nothing is assumed
    of it.  The store is keyed by [name_key hash n = hash (name_key_preimage n)]; [rget s k] reads
    the record stored under key [k], [get_record hash s n] is GetRecordByName.

    The last clause of the property (two different valid names never share a record) is FALSE
    of the code: see [C15_distinct_names_distinct_keys_refuted] and
    [C15_collision_confers_authority_refuted]; the other theorems therefore speak about "the
    record stored under the name's key", and [C15_lookup_exact_unless_keys_collide] /
    [C15_distinct_names_distinct_keys_same_profile] say exactly when that is the name's own record.

    The theorems of the first part quantify over histories of the four name messages under FIXED
    parameters ([run]); those of the second part (from [C15_ownership_under_params_in_force] on)
    over histories of [msg] (Name/NameMsgs.v): the four messages, MsgUpdateParams and InitGenesis
    imports, from an empty store under arbitrary initial parameters ([prun]). *)
From Coq Require Import NArith List String Ascii.
Import ListNotations.
From PV Require Import Name.Name Name.NameMsgs Name.NamePaging Name.NameUnicode
  Proofs.NameProofs Proofs.NameMsgsProofs Proofs.NameHistoryProofs Proofs.NameValidProofs
  Proofs.NamePagingProofs Proofs.NameGenesisProofs Proofs.NameAuthorityProofs Proofs.NameUnicodeProofs.
Open Scope string_scope.
Open Scope list_scope.

(** Ownership, after ANY history [ops], for the next message [o]:
    a rejected message changes nothing; an accepted
    - root creation was signed by the governance authority, the name's key was free, no existing
      record changed and every new record carries the requested owner and flag;
    - bind found a record under the parent's key and, if that record is restricted, the signer is
      its owner; the new name's key was free; exactly that key changed;
    - modify found a record under the name's key and the signer is the governance authority or
      that record's owner; exactly the key of the normalised name changed;
    - delete found a record under the name's key whose owner is the signer; exactly that key
      was removed (children are NOT checked: the code lets an owner delete a name that has
      sub-names). *)
Theorem C15_ownership : forall (hash : string -> string) (p : params) (ops : list op) (o : op),
  let s := run hash p ops in
  let s' := fst (step hash p s o) in
  (snd (step hash p s o) = Err -> s' = s) /\
  (snd (step hash p s o) = Ok ->
   match o with
   | OpCreateRoot signer name owner restr =>
       signer = gov_authority /\ get_record hash s name = None /\
       (forall k r, rget s k = Some r -> rget s' k = Some r) /\
       (forall k r, rget s' k = Some r ->
          rget s k = Some r \/ (rget s k = None /\ r_addr r = owner /\ r_restricted r = restr))
   | OpBind parent signer child owner restr =>
       exists prec name k,
         get_record hash s parent = Some prec /\
         (r_restricted prec = true -> r_addr prec = signer) /\
         normalize p (child ++ "." ++ parent) = Some name /\
         name_key hash name = Some k /\ rget s k = None /\
         rget s' k = Some {| r_name := name; r_addr := owner; r_restricted := restr |} /\
         (forall k', k' <> k -> rget s' k' = rget s k')
   | OpModify signer name owner restr =>
       exists ex n k,
         get_record hash s name = Some ex /\ (signer = gov_authority \/ signer = r_addr ex) /\
         normalize p name = Some n /\ name_key hash n = Some k /\
         rget s' k = Some {| r_name := n; r_addr := owner; r_restricted := restr |} /\
         (forall k', k' <> k -> rget s' k' = rget s k')
   | OpDelete name signer =>
       exists ex n k,
         normalize p name = Some n /\ name_key hash n = Some k /\
         rget s k = Some ex /\ r_addr ex = signer /\
         rget s' k = None /\ (forall k', k' <> k -> rget s' k' = rget s k')
   end).
Proof. exact ownership. Qed.
Print Assumptions C15_ownership.

(** The by-address index, after any history: its entry for (address, key) is exactly the record
    stored under the key when that record's owner is the address, and the listing
    (ReverseLookup / GetRecordsByAddress) contains exactly the stored names of the records
    currently owned by the address. *)
Theorem C15_index_agrees : forall (hash : string -> string) (p : params) (ops : list op) (a : addr),
  let s := run hash p ops in
  (forall k, iget s (a, k) =
             match rget s k with
             | Some r => if N.eqb (r_addr r) a then Some r else None
             | None => None
             end) /\
  (forall n, In n (reverse_lookup s a) <->
             exists k r, rget s k = Some r /\ r_addr r = a /\ r_name r = n).
Proof. exact index_agrees. Qed.
Print Assumptions C15_index_agrees.

(** Resolve vs. listing, in the presence of colliding keys: a listed name resolves to the
    address; a name resolving to the address is listed, or a DIFFERENT name with the same key is
    listed in its place. *)
Theorem C15_lookups_agree_up_to_key : forall (hash : string -> string) (p : params) (ops : list op) (a : addr) (n : string),
  let s := run hash p ops in
  (In n (reverse_lookup s a) -> resolves_to hash s n a = true) /\
  (resolves_to hash s n a = true ->
     In n (reverse_lookup s a) \/
     exists n', n' <> n /\ In n' (reverse_lookup s a) /\ name_key hash n' = name_key hash n).
Proof. exact lookups_agree_up_to_key. Qed.
Print Assumptions C15_lookups_agree_up_to_key.

(** What a lookup returns, after any history: a record whose stored name has the queried name's
    key and is a valid name in storage format; it is the queried name's own record unless two different
    names share the key. *)
Theorem C15_lookup_exact_unless_keys_collide : forall (hash : string -> string) (p : params) (ops : list op) (n : string) (r : record),
  get_record hash (run hash p ops) n = Some r ->
  name_key hash (r_name r) = name_key hash n /\ valid p (r_name r) /\
  (r_name r = n \/ (r_name r <> n /\ name_key hash (r_name r) = name_key hash n)).
Proof. exact lookup_up_to_key. Qed.
Print Assumptions C15_lookup_exact_unless_keys_collide.

(** Keeper.Normalize is idempotent: its results are valid names in storage format. *)
Theorem C15_normalize_idempotent : forall p raw n, normalize p raw = Some n -> valid p n.
Proof. exact normalize_idem. Qed.
Print Assumptions C15_normalize_idempotent.

(** REFUTED clause.  Two different valid names with the same key pre-image, hence (for every
    hash function) the same store key. *)
Theorem C15_distinct_names_distinct_keys_refuted :
  exists n1 n2, valid default_params n1 /\ valid default_params n2 /\ n1 <> n2 /\
                name_key_preimage n1 = name_key_preimage n2.
Proof. exact keys_collide. Qed.
Print Assumptions C15_distinct_names_distinct_keys_refuted.

Theorem C15_equal_preimage_equal_key : forall (hash : string -> string) n1 n2,
  name_key_preimage n1 = name_key_preimage n2 -> name_key hash n1 = name_key hash n2.
Proof. exact same_preimage_same_key. Qed.
Print Assumptions C15_equal_preimage_equal_key.

(** ... and the collision does confer authority, even for an injective hash (the identity):
    after root bbcc, aa.bbcc bound by user 1, restricted root bb owned by user 3 — the never-bound
    ccaa.bb reads as user 1's record and resolves to user 1 without being listed for user 1; the
    owner of bb cannot bind ccaa under bb; user 1 can modify ccaa.bb and bind under it. *)
Theorem C15_collision_confers_authority_refuted :
  let h := fun x : string => x in
  let s := run h default_params
             [OpCreateRoot 0%N "bbcc" 2%N false; OpBind "bbcc" 1%N "aa" 1%N true; OpCreateRoot 0%N "bb" 3%N true] in
  get_record h s "ccaa.bb" = Some {| r_name := "aa.bbcc"; r_addr := 1%N; r_restricted := true |} /\
  resolves_to h s "ccaa.bb" 1%N = true /\
  reverse_lookup s 1%N = ["aa.bbcc"] /\
  snd (step h default_params s (OpBind "bb" 3%N "ccaa" 3%N false)) = Err /\
  snd (step h default_params s (OpModify 1%N "ccaa.bb" 2%N false)) = Ok /\
  snd (step h default_params s (OpBind "ccaa.bb" 1%N "zz" 1%N false)) = Ok.
Proof. exact authority_confusion. Qed.
Print Assumptions C15_collision_confers_authority_refuted.

(** Strongest true form of the refuted clause: the pre-image is injective on segment lists with
    the same length profile, so names with space-free segments and equal segment lengths have
    different keys pre-images unless equal (a collision needs a shifted segment boundary). *)
Theorem C15_preimage_injective_on_equal_profiles : forall l1 l2 : list string,
  map String.length l1 = map String.length l2 ->
  String.concat "" (rev l1) = String.concat "" (rev l2) -> l1 = l2.
Proof. exact preimage_inj_profile. Qed.
Print Assumptions C15_preimage_injective_on_equal_profiles.

Theorem C15_distinct_names_distinct_keys_same_profile : forall n1 n2,
  map trim (split_dots n1) = split_dots n1 -> map trim (split_dots n2) = split_dots n2 ->
  map String.length (split_dots n1) = map String.length (split_dots n2) ->
  name_key_preimage n1 <> None ->
  name_key_preimage n1 = name_key_preimage n2 -> n1 = n2.
Proof. exact same_profile_injective. Qed.
Print Assumptions C15_distinct_names_distinct_keys_same_profile.

(** * Second part: the full message surface *)

(** Ownership under the parameters IN FORCE, after any history in which the parameters were
    changed by governance and records were imported: a name message leaves the parameters alone,
    a rejected one changes nothing, an accepted one satisfies the clauses of [C15_ownership] with
    [p] = the parameters of the last accepted update / import. *)
Theorem C15_ownership_under_params_in_force : forall (hash : string -> string) (p0 : params) (allow0 : bool) (ms : list msg) (o : op),
  let ps := prun hash p0 allow0 ms in
  let p := ps_p ps in
  let s := ps_s ps in
  let ps' := fst (pstep hash ps (MOp o)) in
  let s' := ps_s ps' in
  ps_p ps' = p /\ ps_allow ps' = ps_allow ps /\
  (snd (pstep hash ps (MOp o)) = Err -> s' = s) /\
  (snd (pstep hash ps (MOp o)) = Ok ->
   match o with
   | OpCreateRoot signer name owner restr =>
       signer = gov_authority /\ get_record hash s name = None /\
       (forall k r, rget s k = Some r -> rget s' k = Some r) /\
       (forall k r, rget s' k = Some r ->
          rget s k = Some r \/ (rget s k = None /\ r_addr r = owner /\ r_restricted r = restr))
   | OpBind parent signer child owner restr =>
       exists prec name k,
         get_record hash s parent = Some prec /\
         (r_restricted prec = true -> r_addr prec = signer) /\
         normalize p (child ++ "." ++ parent) = Some name /\
         name_key hash name = Some k /\ rget s k = None /\
         rget s' k = Some {| r_name := name; r_addr := owner; r_restricted := restr |} /\
         (forall k', k' <> k -> rget s' k' = rget s k')
   | OpModify signer name owner restr =>
       exists ex n k,
         get_record hash s name = Some ex /\ (signer = gov_authority \/ signer = r_addr ex) /\
         normalize p name = Some n /\ name_key hash n = Some k /\
         rget s' k = Some {| r_name := n; r_addr := owner; r_restricted := restr |} /\
         (forall k', k' <> k -> rget s' k' = rget s k')
   | OpDelete name signer =>
       exists ex n k,
         normalize p name = Some n /\ name_key hash n = Some k /\
         rget s k = Some ex /\ r_addr ex = signer /\
         rget s' k = None /\ (forall k', k' <> k -> rget s' k' = rget s k')
   end).
Proof. exact ownership_params. Qed.
Print Assumptions C15_ownership_under_params_in_force.

(** "bound under a restricted parent only by that parent's owner", judged on the DIRECT PARENT OF
    THE RESULTING NAME (everything after its first dot), for a hash that is injective: an accepted
    bind found a record under the key of that direct parent, and if the record is restricted the
    signer owns it.  (The handler looks the parent up as given in the message; the theorem says
    that this is the resulting name's direct parent.) *)
Theorem C15_bind_checks_direct_parent : forall (hash : string -> string),
  (forall x y, hash x = hash y -> x = y) ->
  forall p0 allow0 (ms : list msg) parent signer child owner restr,
  let ps := prun hash p0 allow0 ms in
  snd (pstep hash ps (MOp (OpBind parent signer child owner restr))) = Ok ->
  exists name dp prec,
    normalize (ps_p ps) (child ++ "." ++ parent) = Some name /\
    parent_of name = Some dp /\
    get_record hash (ps_s ps) dp = Some prec /\
    (r_restricted prec = true -> r_addr prec = signer) /\
    name_key_preimage (r_name prec) = name_key_preimage dp.
Proof. exact bind_checks_direct_parent. Qed.
Print Assumptions C15_bind_checks_direct_parent.

(** MsgUpdateParams: accepted iff signed by the governance authority; it changes the parameters
    and nothing else. *)
Theorem C15_params_only_by_authority : forall (hash : string -> string) ps signer p allow,
  (snd (pstep hash ps (MParams signer p allow)) = Ok ->
     signer = gov_authority /\
     fst (pstep hash ps (MParams signer p allow)) = {| ps_p := p; ps_allow := allow; ps_s := ps_s ps |}) /\
  (snd (pstep hash ps (MParams signer p allow)) = Err ->
     signer <> gov_authority /\ fst (pstep hash ps (MParams signer p allow)) = ps).
Proof. exact params_only_by_authority. Qed.
Print Assumptions C15_params_only_by_authority.

(** allow_unrestricted_names is dead: replacing every flag of a history changes neither the
    parameters in force, nor the name store, nor any verdict. *)
Theorem C15_allow_unrestricted_names_is_dead : forall (hash : string -> string) b ms ps1 ps2,
  ps_p ps1 = ps_p ps2 -> ps_s ps1 = ps_s ps2 ->
  ps_p (prun_from hash ps1 (map (set_allow b) ms)) = ps_p (prun_from hash ps2 ms) /\
  ps_s (prun_from hash ps1 (map (set_allow b) ms)) = ps_s (prun_from hash ps2 ms).
Proof. exact allow_flag_is_dead. Qed.
Print Assumptions C15_allow_unrestricted_names_is_dead.

(** The by-address index after any history of the full message surface (owner changes move the
    entry, deletes remove it, imports add it). *)
Theorem C15_index_agrees_full : forall (hash : string -> string) p0 allow0 (ms : list msg) (a : addr),
  let s := ps_s (prun hash p0 allow0 ms) in
  (forall k, iget s (a, k) =
             match rget s k with
             | Some r => if N.eqb (r_addr r) a then Some r else None
             | None => None
             end) /\
  (forall n, In n (reverse_lookup s a) <->
             exists k r, rget s k = Some r /\ r_addr r = a /\ r_name r = n).
Proof. exact index_agrees_params. Qed.
Print Assumptions C15_index_agrees_full.

Theorem C15_lookups_agree_up_to_key_full : forall (hash : string -> string) p0 allow0 (ms : list msg) (a : addr) (n : string),
  let s := ps_s (prun hash p0 allow0 ms) in
  (In n (reverse_lookup s a) -> resolves_to hash s n a = true) /\
  (resolves_to hash s n a = true ->
     In n (reverse_lookup s a) \/
     exists n', n' <> n /\ In n' (reverse_lookup s a) /\ name_key hash n' = name_key hash n).
Proof. exact lookups_agree_params. Qed.
Print Assumptions C15_lookups_agree_up_to_key_full.

(** What a lookup returns when parameters change: the stored name was valid under the
    parameters in force when it was written — NOT necessarily under those in force now
    ([C15_stored_names_valid_under_current_params_refuted]). *)
Theorem C15_lookup_full : forall (hash : string -> string) p0 allow0 (ms : list msg) (n : string) (r : record),
  get_record hash (ps_s (prun hash p0 allow0 ms)) n = Some r ->
  name_key hash (r_name r) = name_key hash n /\ (exists p', valid p' (r_name r)) /\
  (r_name r = n \/ (r_name r <> n /\ name_key hash (r_name r) = name_key hash n)).
Proof. exact lookup_params. Qed.
Print Assumptions C15_lookup_full.

Theorem C15_stored_names_valid_under_current_params_refuted :
  exists ms n r, let ps := prun (fun x : string => x) default_params true ms in
    get_record (fun x : string => x) (ps_s ps) n = Some r /\ normalize (ps_p ps) (r_name r) = None.
Proof. exact stored_names_valid_under_current_params_refuted. Qed.
Print Assumptions C15_stored_names_valid_under_current_params_refuted.

(** ... and such a name is frozen: after governance tightened the limits, the owner can neither
    delete nor modify "abcdef", governance cannot modify it, nobody can bind under it; it still
    resolves; relaxing the limits thaws it.  (Observation, not a clause of the property.) *)
Theorem C15_tightened_params_freeze_names :
  let h := fun x : string => x in
  let tight := {| p_min_seg := 2; p_max_seg := 3; p_max_levels := 2 |} in
  let ps := prun h default_params true [MOp (OpCreateRoot 0%N "abcdef" 1%N false); MParams 0%N tight true] in
  ps_p ps = tight /\
  get_record h (ps_s ps) "abcdef" = Some {| r_name := "abcdef"; r_addr := 1%N; r_restricted := false |} /\
  normalize (ps_p ps) "abcdef" = None /\
  snd (pstep h ps (MOp (OpDelete "abcdef" 1%N))) = Err /\
  snd (pstep h ps (MOp (OpModify 1%N "abcdef" 2%N false))) = Err /\
  snd (pstep h ps (MOp (OpModify 0%N "abcdef" 2%N false))) = Err /\
  snd (pstep h ps (MOp (OpBind "abcdef" 1%N "ab" 1%N false))) = Err /\
  (let ps' := fst (pstep h ps (MParams 0%N default_params true)) in
   snd (pstep h ps' (MOp (OpDelete "abcdef" 1%N))) = Ok).
Proof. exact tightened_params_freeze_names. Qed.
Print Assumptions C15_tightened_params_freeze_names.

(** * Normalisation *)

(** The model's validity predicate IS the documented rule ([doc_valid], Name/Name.v: at most
    max_levels segments; each at least min bytes and either UUID-shaped in normal form — of any
    length — or lower-case letters / digits / at most one dash and at most max bytes). *)
Theorem C15_valid_iff : forall p n, valid p n <-> doc_valid p n = true.
Proof. exact valid_iff. Qed.
Print Assumptions C15_valid_iff.

(** Validity is inherited by the direct parent. *)
Theorem C15_parent_of_valid_is_valid : forall p n dp, valid p n -> parent_of n = Some dp -> valid p dp.
Proof. exact parent_of_valid. Qed.
Print Assumptions C15_parent_of_valid_is_valid.

(** The UTF-8 widening (Name/NameUnicode.v: Unicode TrimSpace / ToLower / IsLower / IsDigit on a
    tabulated part of Unicode) is conservative: on ASCII input it is defined and equals the
    ASCII model every other theorem speaks about. *)
Theorem C15_unicode_model_conservative : forall p s,
  forallb (fun c => (N_of_ascii c <? 128)%N) (chars s) = true -> normalize_utf8 p s = Some (normalize p s).
Proof. exact normalize_utf8_ascii. Qed.
Print Assumptions C15_unicode_model_conservative.

(** * The store key: exact characterisation of collisions *)

Section InjectiveHash.
  Variable hash : string -> string.
  Hypothesis Hinj : forall x y, hash x = hash y -> x = y.

  (** For an injective hash, two names share a store key iff they have the same pre-image ... *)
  Theorem C15_keys_equal_iff_preimage_equal : forall n1 n2,
    name_key hash n1 = name_key hash n2 <-> name_key_preimage n1 = name_key_preimage n2.
  Proof. exact (keys_equal_iff_preimage_equal hash Hinj). Qed.

  (** ... which for valid names is: the concatenation of the segments in reverse order, without
      separator, is the same string. *)
  Theorem C15_valid_names_collide_iff_reversed_concatenations_equal : forall p n1 n2,
    (1 <= p_min_seg p)%N -> valid p n1 -> valid p n2 ->
    (name_key hash n1 = name_key hash n2 <->
     String.concat "" (rev (split_dots n1)) = String.concat "" (rev (split_dots n2))).
  Proof. exact (keys_equal_iff_revcat hash Hinj). Qed.

  (** Resolution is ambiguous only inside such a class: whatever a lookup of [n] returns has
      [n]'s pre-image; when no other well-formed name has it, the lookup is exact. *)
  Theorem C15_ambiguity_only_inside_preimage_class : forall p0 allow0 (ms : list msg) n r,
    get_record hash (ps_s (prun hash p0 allow0 ms)) n = Some r ->
    name_key_preimage (r_name r) = name_key_preimage n.
  Proof. exact (ambiguity_only_inside_preimage_class hash Hinj). Qed.

  Theorem C15_lookup_exact_when_class_is_singleton : forall p0 allow0 (ms : list msg) n r,
    (forall m, (exists p raw, normalize p raw = Some m) -> name_key_preimage m = name_key_preimage n -> m = n) ->
    get_record hash (ps_s (prun hash p0 allow0 ms)) n = Some r -> r_name r = n.
  Proof. exact (lookup_exact_when_class_is_singleton hash Hinj). Qed.
End InjectiveHash.
Print Assumptions C15_keys_equal_iff_preimage_equal.
Print Assumptions C15_valid_names_collide_iff_reversed_concatenations_equal.
Print Assumptions C15_ambiguity_only_inside_preimage_class.
Print Assumptions C15_lookup_exact_when_class_is_singleton.

(** * Reverse lookup with paging *)

(** After any history, for every address and every limit >= 1: a client that follows next keys,
    and one that asks for offsets 0, limit, 2*limit, …, both receive exactly the one-page listing
    — every name once, same order — in pages whose sizes depend only on the number of names
    (every page full but the last); and the listing has no duplicates. *)
Theorem C15_paged_reverse_lookup_complete : forall (hash : string -> string) p0 allow0 (ms : list msg) (a : addr) (limit fuel : nat),
  let s := ps_s (prun hash p0 allow0 ms) in
  let l := idx_view s a in
  let hit := fun r : record => N.eqb (r_addr r) a in
  (1 <= limit)%nat -> (List.length l < fuel)%nat ->
  (exists pages, follow_keys String.eqb hit fuel l None limit = Some pages /\
     map r_name (List.concat pages) = reverse_lookup s a /\
     map (@List.length record) pages = chunk_sizes (List.length (reverse_lookup s a)) limit fuel) /\
  (exists pages, follow_offsets String.eqb hit fuel l 0 limit = Some pages /\
     map r_name (List.concat pages) = reverse_lookup s a /\
     map (@List.length record) pages = chunk_sizes (List.length (reverse_lookup s a)) limit fuel) /\
  NoDup (reverse_lookup s a).
Proof. exact paged_reverse_lookup_complete. Qed.
Print Assumptions C15_paged_reverse_lookup_complete.

(** The index key prefix 0x05 ‖ len(addr) ‖ addr is unambiguous: the prefix scan for address [a]
    never sees an entry of another address [b], even when a's bytes are a prefix of b's
    (20-byte account vs. 32-byte address that extends it). *)
Theorem C15_address_prefix_unambiguous : forall (a b rest : list N),
  is_prefix (addr_key_prefix a) (addr_key_prefix b ++ rest) = true -> a = b.
Proof. exact addr_prefix_unambiguous. Qed.
Print Assumptions C15_address_prefix_unambiguous.

(** * Genesis import *)

(** What InitGenesis accepts: a successful import wrote every binding — normalised, with the
    owner and flag as written — under a key that was free; no two bindings share a key (so no
    duplicates and no two spellings of one name); existing records stay; nothing else appears.
    Parents are NOT looked at ([C15_genesis_accepts_orphans]). Lookups agree afterwards by
    [C15_index_agrees_full] (imports are steps of the histories it quantifies over). *)
Theorem C15_genesis_import_spec : forall (hash : string -> string) p bs s s',
  import_bindings hash p s bs = Some s' ->
  Forall (fun b : binding => let '(raw, a, r) := b in
            exists n k, normalize p raw = Some n /\ name_key hash n = Some k /\ rget s k = None /\
                        rget s' k = Some {| r_name := n; r_addr := a; r_restricted := r |}) bs /\
  NoDup (map (bkey hash p) bs) /\
  (forall k r, rget s k = Some r -> rget s' k = Some r) /\
  (forall k r, rget s' k = Some r -> rget s k = Some r \/
      exists raw a rs n, In (raw, a, rs) bs /\ normalize p raw = Some n /\ name_key hash n = Some k /\
                         r = {| r_name := n; r_addr := a; r_restricted := rs |}).
Proof. exact import_bindings_spec. Qed.
Print Assumptions C15_genesis_import_spec.

Theorem C15_genesis_rejects_duplicates : forall (hash : string -> string) p s bs1 b1 bs2 b2 bs3,
  bkey hash p b1 = bkey hash p b2 -> import_bindings hash p s (bs1 ++ b1 :: bs2 ++ b2 :: bs3) = None.
Proof. exact import_bindings_rejects_duplicates. Qed.
Print Assumptions C15_genesis_rejects_duplicates.

Theorem C15_genesis_rejects_invalid_names : forall (hash : string -> string) p s bs1 raw a r bs2,
  normalize p raw = None -> import_bindings hash p s (bs1 ++ (raw, a, r) :: bs2) = None.
Proof. exact import_bindings_rejects_invalid. Qed.
Print Assumptions C15_genesis_rejects_invalid_names.

(** A record whose parent is neither stored nor imported is accepted; nobody can then bind under
    the missing parent, anybody can bind under the orphan (it is unrestricted). *)
Theorem C15_genesis_accepts_orphans :
  let h := fun x : string => x in
  exists s,
    import_bindings h default_params init [("cc.aa.pb", 3%N, false)] = Some s /\
    get_record h s "cc.aa.pb" = Some {| r_name := "cc.aa.pb"; r_addr := 3%N; r_restricted := false |} /\
    get_record h s "aa.pb" = None /\
    get_record h s "pb" = None /\
    snd (step h default_params s (OpBind "aa.pb" 1%N "dd" 1%N false)) = Err /\
    snd (step h default_params s (OpBind "cc.aa.pb" 7%N "dd" 7%N false)) = Ok.
Proof. exact genesis_accepts_orphan. Qed.
Print Assumptions C15_genesis_accepts_orphans.

(** An exported genesis cannot be imported after governance tightened the limits below a stored
    name (InitGenesis panics).  Observation next to the property; it concerns C18's clause. *)
Theorem C15_export_import_fails_after_tightening :
  let h := fun x : string => x in
  let tight := {| p_min_seg := 2; p_max_seg := 3; p_max_levels := 2 |} in
  let ps := prun h default_params true [MOp (OpCreateRoot 0%N "abcdef" 1%N false); MParams 0%N tight true] in
  ps_p ps = tight /\
  map (fun kr : string * record => (r_name (snd kr), r_addr (snd kr), r_restricted (snd kr))) (st_recs (ps_s ps))
    = [("abcdef", 1%N, false)] /\
  import_bindings h tight init [("abcdef", 1%N, false)] = None /\
  snd (pstep h (pstart default_params true) (MGenesis tight true [("abcdef", 1%N, false)])) = Err.
Proof. exact export_import_fails_after_tightening. Qed.
Print Assumptions C15_export_import_fails_after_tightening.

(** Non-vacuity: a history with every message kind, accepted and rejected, whose final state
    has the index in step; and the profile hypotheses hold of ordinary names. *)
Example C15_witness :
  let h := fun x : string => x in
  map (fun n => snd (step h default_params (run h default_params (firstn n sample_ops)) (nth n sample_ops (OpDelete "" 0%N))))
      (seq 0 9) = [Ok; Ok; Err; Ok; Ok; Err; Err; Ok; Ok] /\
  reverse_lookup (run h default_params sample_ops) 2%N = ["pb"] /\
  reverse_lookup (run h default_params sample_ops) 3%N = ["aa.pb"] /\
  get_record h (run h default_params sample_ops) "cc.aa.pb" = None /\
  map trim (split_dots "aa.pb") = split_dots "aa.pb" /\
  map String.length (split_dots "aa.pb") = map String.length (split_dots "bb.pb") /\
  name_key_preimage "aa.pb" <> name_key_preimage "bb.pb".
Proof. vm_compute. repeat split. intros H. discriminate H. Qed.

(** Non-vacuity of the second part: a history with an import (one binding in a padded, capitalised
    spelling), binds, a parameter update refused to a user and accepted from the authority, a
    bind refused under the tightened limits, an authority modify, and a delete refused because
    the name (three levels) is no longer valid; the by-address listings at the end. *)
Example C15_witness_full :
  let h := fun x : string => x in
  let tight := {| p_min_seg := 2; p_max_seg := 3; p_max_levels := 2 |} in
  let ms := [MGenesis default_params true [("pb", 1%N, true); (" Aa . PB ", 2%N, false)];
             MOp (OpBind "aa.pb" 3%N "cc" 3%N false);
             MParams 3%N tight true; MParams 0%N tight false;
             MOp (OpBind "pb" 1%N "toolong" 1%N false);
             MOp (OpBind "pb" 1%N "bb" 4%N false);
             MOp (OpModify 0%N "pb" 2%N false);
             MOp (OpDelete "cc.aa.pb" 3%N)] in
  map (fun n => snd (pstep h (prun h default_params true (firstn n ms)) (nth n ms (MParams 9%N tight true)))) (seq 0 8)
    = [Ok; Ok; Err; Ok; Err; Ok; Ok; Err] /\
  reverse_lookup (ps_s (prun h default_params true ms)) 2%N = ["pb"; "aa.pb"] /\
  reverse_lookup (ps_s (prun h default_params true ms)) 3%N = ["cc.aa.pb"] /\
  ps_p (prun h default_params true ms) = tight /\ ps_allow (prun h default_params true ms) = false.
Proof. vm_compute. repeat split. Qed.

(** Long segments: two uuid-shaped names that agree on the first 32 characters of the uuid, and two
    64-character names (valid once max_segment_length is 64) that agree on the first 32, are
    different valid names with DIFFERENT key pre-images — the model hashes whole segments (a key
    function that looked only at a prefix of each segment would merge them; seeded change C15-H). *)
Example C15_long_segments_have_distinct_keys :
  let p64 := {| p_min_seg := 2; p_max_seg := 64; p_max_levels := 16 |} in
  let u1 := "123e4567-e89b-12d3-a456-426614174000.pb" in
  let u2 := "123e4567-e89b-12d3-a456-42661417ffff.pb" in
  let l1 := "aaaaaaaaaaaaaaaabbbbbbbbbbbbbbbbccccccccccccccccdddddddddddddddd.pb" in
  let l2 := "aaaaaaaaaaaaaaaabbbbbbbbbbbbbbbbccccccccccccccccddddddddddddddd0.pb" in
  valid default_params u1 /\ valid default_params u2 /\ name_key_preimage u1 <> name_key_preimage u2 /\
  valid p64 l1 /\ valid p64 l2 /\ normalize default_params l1 = None /\
  name_key_preimage l1 <> name_key_preimage l2.
Proof. vm_compute. repeat split; try reflexivity; intros H; discriminate H. Qed.
