(** C17 — Triggers fire at most once, in order, atomically, with their creators' authority.
    Theorem statements only; proofs are in Proofs/TriggerProofs.v about the model Trigger/Trigger.v.
    A history is any list of blocks [bs] run from the empty trigger store ([init b0], any balances b0):
    every block is (begin) dispatch from the queue head, (txs) creations / destructions / plain sends,
    (end) detection of transaction events, then height, then time.  The outcome oracle of the actions,
    the gas figures and the events of each block are arbitrary. *)
From Coq Require Import ZArith NArith List Bool.
From PV Require Import Trigger.Trigger Proofs.TriggerProofs.
Import ListNotations.
Open Scope N_scope.

(** Every id is in at most one place: the number of registry entries plus the number of queue entries
    with that id is at most 1 (0 = gone or never created); ids that are somewhere were issued
    (1 <= id < next id); and an id that has ever been dispatched is in neither place. *)
Theorem C17_exactly_one_place : forall b0 bs s outs,
  run (init b0) bs = (s, outs) ->
  forall i, (cnt (reg s) i + cnt (queue s) i <= 1)%nat /\
            ((0 < cnt (reg s) i + cnt (queue s) i)%nat -> 1 <= i < next_id s) /\
            ((0 < cnt (disp_of outs) i)%nat -> cnt (reg s) i = 0%nat /\ cnt (queue s) i = 0%nat).
Proof. exact exactly_one_place. Qed.
Print Assumptions C17_exactly_one_place.

(** Over a whole history no id is dispatched twice. *)
Theorem C17_at_most_once : forall b0 bs s outs,
  run (init b0) bs = (s, outs) -> NoDup (map eid (disp_of outs)).
Proof. exact at_most_once. Qed.
Print Assumptions C17_at_most_once.

(** A trigger dispatched in the block that follows the history [bs] was detected by the end blocker of
    one of the blocks of [bs] — a strictly earlier block, so it runs in the next block at the earliest —
    and in that block its condition held (height reached, time reached, or a matching event among the
    block's events). *)
Theorem C17_not_before_condition : forall b0 bs b s outs s' o,
  run (init b0) bs = (s, outs) -> step s b = (s', o) ->
  forall e ok, In (e, ok) (o_disp o) ->
  exists b' o', In (b', o') (combine bs outs) /\ In e (o_det o') /\
                met (b_height b') (b_time b') (b_events b') (t_event (fst e)) = true.
Proof. exact not_before_condition. Qed.
Print Assumptions C17_not_before_condition.

(** First in, first out: the sequence of all detections of the history is the sequence of all
    dispatches followed by what is still queued. *)
Theorem C17_fifo : forall b0 bs s outs,
  run (init b0) bs = (s, outs) -> det_of outs = disp_of outs ++ queue s.
Proof. exact fifo. Qed.
Print Assumptions C17_fifo.

(** All or nothing: after the begin blocker of any block of any history the balances are the previous
    ones with, for each dispatched trigger in order, either all of its actions applied (success) or
    none (failure, whatever the reason: an action failed, panicked or ran out of gas). *)
Theorem C17_atomic : forall b0 bs s outs oracle s1 d,
  run (init b0) bs = (s, outs) -> dispatch MaximumActions 0 s oracle = (s1, d) ->
  bank s1 = fold_left (fun (b : bank_t) (x : entry * bool) =>
                         if snd x then apply_all b (t_actions (fst (fst x))) else b) d (bank s).
Proof. exact atomic. Qed.
Print Assumptions C17_atomic.

(** Caps: a block dispatches at most MaximumActions triggers whose gas limits sum to at most
    MaximumQueueGas; every dispatched trigger's limit is at most MaximumTriggerGas and at most the gas
    of the transaction that created it. *)
Theorem C17_gas_caps : forall b0 bs b s outs s' o,
  run (init b0) bs = (s, outs) -> step s b = (s', o) ->
  (length (o_disp o) <= MaximumActions)%nat /\
  sum_lim (map fst (o_disp o)) <= MaximumQueueGas /\
  forall e ok, In (e, ok) (o_disp o) -> snd e <= MaximumTriggerGas /\ snd e <= t_prepaid (fst e).
Proof. exact gas_caps. Qed.
Print Assumptions C17_gas_caps.

(** Destroy, attempted at any point of any block after any history: it succeeds only for a trigger
    that is in the registry and owned by the caller, which is then in neither place; a queued trigger
    cannot be destroyed; a refused destroy changes nothing. *)
Theorem C17_destroy_rules : forall b0 bs s outs oracle s1 d h t txs s2 oks who id s3 ok,
  run (init b0) bs = (s, outs) ->
  dispatch MaximumActions 0 s oracle = (s1, d) ->
  apply_txs h t s1 txs = (s2, oks) ->
  apply_tx h t s2 (TDestroy who id) = (s3, ok) ->
  (ok = true -> (exists e, In e (reg s2) /\ eid e = id /\ t_owner (fst e) = who) /\
                cnt (queue s2) id = 0%nat /\ cnt (reg s3) id = 0%nat /\ queue s3 = queue s2) /\
  ((0 < cnt (queue s2) id)%nat -> ok = false) /\
  (ok = false -> s3 = s2).
Proof. exact destroy_rules. Qed.
Print Assumptions C17_destroy_rules.

(** Authority: a creation is accepted only if the transaction's signers are exactly the message's
    authorities and EVERY required signer of every action is one of them; the stored trigger carries those actions, the
    first authority as owner, and a gas limit within the transaction's gas ... *)
Theorem C17_create_requires_signers : forall h t s sg au ev acts g u s',
  apply_tx h t s (TCreate sg au ev acts g u) = (s', true) ->
  sg = au /\ (forall a x, In a acts -> In x (a_signers a) -> In x au) /\ acts <> [] /\ event_valid_ctx h t ev = true /\
  exists owner rest lim,
    au = owner :: rest /\ lim <= MaximumTriggerGas /\ lim <= g /\
    s' = {| reg := reg s ++ [({| t_id := next_id s; t_owner := owner; t_event := ev; t_actions := acts;
                                  t_auths := au; t_prepaid := g |}, lim)];
            queue := queue s; next_id := next_id s + 1; bank := bank s |}.
Proof. exact create_accepted. Qed.
Print Assumptions C17_create_requires_signers.

(** ... and over every history each dispatched trigger's actions are signed for: the signer of each
    action, and the owner, are among the authorities of the creating transaction. *)
Theorem C17_action_signers : forall b0 bs b s outs s' o,
  run (init b0) bs = (s, outs) -> step s b = (s', o) ->
  forall e ok, In (e, ok) (o_disp o) ->
  In (t_owner (fst e)) (t_auths (fst e)) /\
  forall a x, In a (t_actions (fst e)) -> In x (a_signers a) -> In x (t_auths (fst e)).
Proof. exact action_signers. Qed.
Print Assumptions C17_action_signers.

(** [run] is the fold of [step] the conventions ask for. *)
Theorem C17_run_is_fold : forall bs s, fst (run s bs) = fold_left (fun st b => fst (step st b)) bs s.
Proof. exact run_state_eq. Qed.
Print Assumptions C17_run_is_fold.

(** Non-vacuity: account 1 (balance 100) creates, in block 5, a height-7 trigger with two sends and a
    time trigger whose second send cannot be paid; a stranger's destroy is refused, the owner's is
    accepted for a third trigger.  Both are detected in block 7 (height before time), dispatched in
    block 8 in that order: the first takes full effect, the second none. *)
Example C17_witness :
  let b0 : bank_t := fun a => if a =? 1 then 100%Z else 0%Z in
  let send f t v := {| a_from := f; a_to := t; a_amt := v; a_co := [] |} in
  let blk h t txs := {| b_height := h; b_time := t; b_oracle := []; b_txs := txs; b_events := [] |} in
  let bs := [ blk 5 50 [ TCreate [1] [1] (EvTime 70) [send 1 2 10%Z; send 1 3 500%Z] 200000 80000;
                         TCreate [1] [1] (EvHeight 7) [send 1 2 30%Z; send 1 3 5%Z] 200000 80000;
                         TCreate [2] [2] (EvHeight 9) [send 2 1 1%Z] 200000 80000;
                         TCreate [2] [2] (EvHeight 9) [{| a_from := 2; a_to := 1; a_amt := 0%Z; a_co := [1] |}] 200000 80000; (* co-signer 1 did not sign *)
                         TDestroy 1 3; TDestroy 2 3 ];
              blk 6 60 []; blk 7 70 []; blk 8 80 [TDestroy 1 1] ] in
  let '(s, outs) := run (init b0) bs in
  map o_txres outs = [[true; true; true; false; false; true]; []; []; [false]] /\
  map (fun o => map eid (o_det o)) outs = [[]; []; [2; 1]; []] /\
  map (fun o => map (fun x => (eid (fst x), snd x)) (o_disp o)) outs = [[]; []; []; [(2, true); (1, false)]] /\
  reg s = [] /\ queue s = [] /\ next_id s = 4 /\
  (bank s 1, bank s 2, bank s 3) = (65%Z, 30%Z, 5%Z).
Proof. vm_compute. repeat split; reflexivity. Qed.
