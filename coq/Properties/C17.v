(** C17 — Triggers fire at most once, in order, atomically, with their creators' authority.
    Theorem statements only; proofs are in Proofs/Trigger*Proofs.v about the model Trigger/Trigger.v.
    A history is any list of blocks [bs] run from any well-formed start state [s0] ([wf_gen s0]: the empty
    store [init b0], or what InitGenesis was given with distinct ids below the next id, limits within the
    caps and actions signed for): every block is (begin) dispatch from the queue head — the actions are
    bank sends and multi-sends, restricted-marker transfers, name bindings, authz grants, trigger
    destructions and nested trigger creations —, (txs) creations / destructions / plain sends, (end)
    detection of transaction events, then height, then time, through the ordered listener scan.  The outcome
    oracles of the actions, the gas figures and the events of each block are arbitrary. *)
From Coq Require Import ZArith NArith List Bool.
From PV Require Import Trigger.Trigger Proofs.TriggerDetectProofs Proofs.TriggerLiveProofs Proofs.TriggerProofs
                       Proofs.TriggerGlueProofs.
Import ListNotations.
Open Scope N_scope.

(** Every id is in at most one place: the number of registry entries plus the number of queue entries
    with that id is at most 1 (0 = gone or never created); ids that are somewhere were issued
    (1 <= id < next id); and an id that has ever been dispatched is in neither place. *)
Theorem C17_exactly_one_place : forall s0 bs s outs,
  wf_gen s0 -> run s0 bs = (s, outs) ->
  forall i, (cnt (reg s) i + cnt (queue s) i <= 1)%nat /\
            ((0 < cnt (reg s) i + cnt (queue s) i)%nat -> 1 <= i < next_id s) /\
            ((0 < cnt (disp_of outs) i)%nat -> cnt (reg s) i = 0%nat /\ cnt (queue s) i = 0%nat).
Proof. exact exactly_one_place. Qed.
Print Assumptions C17_exactly_one_place.

(** Over a whole history no id is dispatched twice. *)
Theorem C17_at_most_once : forall s0 bs s outs,
  wf_gen s0 -> run s0 bs = (s, outs) -> NoDup (map eid (disp_of outs)).
Proof. exact at_most_once. Qed.
Print Assumptions C17_at_most_once.

(** Ids are never reused: a trigger that is gone (executed or destroyed: its id was issued and is in neither
    place) is never registered, queued, detected or dispatched again, whatever blocks follow. *)
Theorem C17_gone_stays_gone : forall s0 bs s outs,
  wf_gen s0 -> run s0 bs = (s, outs) ->
  forall i, i < next_id s -> cnt (reg s) i = 0%nat -> cnt (queue s) i = 0%nat ->
  forall bs' s' outs', run s bs' = (s', outs') ->
  cnt (reg s') i = 0%nat /\ cnt (queue s') i = 0%nat /\ cnt (disp_of outs') i = 0%nat /\ cnt (det_of outs') i = 0%nat.
Proof. exact gone_stays_gone. Qed.
Print Assumptions C17_gone_stays_gone.

(** A trigger dispatched in the block that follows the history [bs] was queued at genesis or detected by the
    end blocker of one of the blocks of [bs] — a strictly earlier block, so it runs in the next block at the
    earliest — and in that block its condition held (height reached, time reached, or a matching event
    among the block's events). *)
Theorem C17_not_before_condition : forall s0 bs b s outs s' o,
  wf_gen s0 -> run s0 bs = (s, outs) -> step s b = (s', o) ->
  forall e ok, In (e, ok) (o_disp o) ->
  In e (queue s0) \/
  exists b' o', In (b', o') (combine bs outs) /\ In e (o_det o') /\
                D_met (b_height b') (b_time b') (b_events b') (t_event (fst e)) = true.
Proof. exact not_before_condition. Qed.
Print Assumptions C17_not_before_condition.

(** First in, first out: what was queued at genesis followed by the sequence of all detections of the
    history is the sequence of all dispatches followed by what is still queued. *)
Theorem C17_fifo : forall s0 bs s outs,
  wf_gen s0 -> run s0 bs = (s, outs) -> queue s0 ++ det_of outs = disp_of outs ++ queue s.
Proof. exact fifo. Qed.
Print Assumptions C17_fifo.

(** All or nothing, with heterogeneous effects: the begin blocker leaves exactly the state obtained by
    applying, for each dispatched trigger in order, either the effect of ALL its actions ([eff_all]: both
    coins, bound names, grants, destroyed and newly registered triggers, next id) or nothing at all
    (failure, whatever the reason: an action was refused half-way, panicked or ran out of gas). *)
Theorem C17_atomic : forall h t oracle nest fuel gas s s' d,
  dispatch fuel h t gas s oracle nest = (s', d) ->
  s' = set_queue (fold_left (eff_entry nest) d s) (skipn (length d) (queue s)).
Proof. exact dispatch_effects. Qed.
Print Assumptions C17_atomic.

(** ... in particular a block whose dispatched triggers all failed leaves every store as it was (the model's
    form of "the store digests before and after are identical"); only the queue lost its head items. *)
Theorem C17_failed_trigger_changes_nothing : forall h t oracle nest fuel gas s s' d,
  dispatch fuel h t gas s oracle nest = (s', d) ->
  (forall x, In x d -> snd x = false) ->
  cfg s' = cfg s /\ reg s' = reg s /\ next_id s' = next_id s /\ bank s' = bank s /\ rbank s' = rbank s /\
  names s' = names s /\ grants s' = grants s /\ queue s' = skipn (length d) (queue s).
Proof. exact dispatch_all_failed. Qed.
Print Assumptions C17_failed_trigger_changes_nothing.

(** The accept condition is evaluated action by action on the state the previous actions left, and a nested
    creation takes all the gas that is left, so it can only succeed as the LAST action. *)
Theorem C17_nested_creation_is_last : forall h t root plim nl acts s s',
  exec_all h t root plim nl s acts = Some s' ->
  forall pre a post, acts = pre ++ a :: post -> (exists au ev l, a = ACreate au ev l) -> post = [].
Proof. exact nested_last. Qed.
Print Assumptions C17_nested_creation_is_last.

(** Caps: a block dispatches at most MaximumActions triggers whose gas limits sum to at most
    MaximumQueueGas; every dispatched trigger's limit is at most MaximumTriggerGas, and limit plus the cost of
    recording it is at most the gas that paid for it (the creating transaction's gas, or — for a trigger
    created by a trigger action — the creating trigger's own limit: prepaid gas is never multiplied). *)
Theorem C17_gas_caps : forall s0 bs b s outs s' o,
  wf_gen s0 -> run s0 bs = (s, outs) -> step s b = (s', o) ->
  (length (o_disp o) <= MaximumActions)%nat /\
  sum_lim (map fst (o_disp o)) <= MaximumQueueGas /\
  forall e ok, In (e, ok) (o_disp o) -> snd e <= MaximumTriggerGas /\ snd e + SetGasLimitCost <= t_prepaid (fst e).
Proof. exact gas_caps. Qed.
Print Assumptions C17_gas_caps.

(** The queue carry-over, exactly: a block dispatches the LONGEST prefix of the queue that has at most
    MaximumActions items and whose gas limits fit into MaximumQueueGas; the rest stays, in order, in front of
    what the block detects. *)
Theorem C17_dispatch_exact : forall s b s' o,
  step s b = (s', o) ->
  let k := length (o_disp o) in
  let lims := map snd (queue s) in
  map fst (o_disp o) = firstn k (queue s) /\
  queue s' = skipn k (queue s) ++ o_det o /\
  (k <= MaximumActions)%nat /\ (k <= length (queue s))%nat /\
  L_sum (firstn k lims) <= MaximumQueueGas /\
  (k = MaximumActions \/ k = length (queue s) \/ MaximumQueueGas < L_sum (firstn (S k) lims)).
Proof. exact dispatch_exact_hist. Qed.
Print Assumptions C17_dispatch_exact.

(** No starvation behind the caps: after any history, the trigger at position p of the queue is dispatched
    within the next p+1 blocks, whatever those blocks contain (each block takes at least the queue head,
    because every limit is at most MaximumTriggerGas = MaximumQueueGas and the block's gas counter starts at 0). *)
Theorem C17_no_starvation : forall s0 bs s outs p e bs' s' outs',
  wf_gen s0 -> run s0 bs = (s, outs) -> nth_error (queue s) p = Some e ->
  run s bs' = (s', outs') -> (p < length bs')%nat -> In e (disp_of outs').
Proof. exact no_starvation_hist. Qed.
Print Assumptions C17_no_starvation.

(** ... and m per block while the limits in front are small: with limits <= g and m*g <= MaximumQueueGas
    (m <= MaximumActions) the trigger at position p runs within ceil((p+1)/m) blocks. *)
Theorem C17_no_starvation_fast : forall bs s s' outs p e (m : nat) g,
  (1 <= m <= MaximumActions)%nat -> N.of_nat m * g <= MaximumQueueGas ->
  (forall i x, (i <= p)%nat -> nth_error (queue s) i = Some x -> snd x <= g) ->
  nth_error (queue s) p = Some e -> run s bs = (s', outs) -> (p < m * length bs)%nat ->
  In e (L_disp_of outs).
Proof. exact no_starvation_fast. Qed.
Print Assumptions C17_no_starvation_fast.

(** Destroy, attempted at any point of any block after any history: it succeeds only for a trigger
    that is in the registry and owned by the caller (the FIRST authority of its creation: see
    C17_create_requires_signers), which is then in neither place; a queued trigger cannot be destroyed; a
    refused destroy changes nothing. *)
Theorem C17_destroy_rules : forall s0 bs s outs h t oracle nest s1 d txs s2 oks who id s3 ok,
  wf_gen s0 -> run s0 bs = (s, outs) ->
  dispatch MaximumActions h t 0 s oracle nest = (s1, d) -> apply_txs h t s1 txs = (s2, oks) ->
  apply_tx h t s2 (TDestroy who id) = (s3, ok) ->
  (ok = true -> id <> 0 /\ (exists e, In e (reg s2) /\ eid e = id /\ t_owner (fst e) = who) /\
                cnt (queue s2) id = 0%nat /\ cnt (reg s3) id = 0%nat /\ queue s3 = queue s2 /\
                s3 = set_reg s2 (remove_id id (reg s2))) /\
  ((0 < cnt (queue s2) id)%nat -> ok = false) /\ (ok = false -> s3 = s2).
Proof. exact destroy_rules. Qed.
Print Assumptions C17_destroy_rules.

(** Races inside one block: once a destroy of [id] was accepted, whatever transactions precede and follow it
    in the block, [id] is not registered at the end of the block and is not detected by that block's end
    blocker (and by C17_gone_stays_gone never later), even if the block carries a matching event. *)
Theorem C17_destroyed_in_block_never_detected : forall h t s1 pre who id post s2 oks det disp evs,
  Inv s1 det disp -> apply_txs h t s1 (pre ++ TDestroy who id :: post) = (s2, oks) ->
  nth (length pre) oks false = true ->
  cnt (reg s2) id = 0%nat /\ id < next_id s2 /\ forall x, In x (detect h t evs (reg s2)) -> eid x <> id.
Proof. exact destroyed_in_block_never_detected. Qed.
Print Assumptions C17_destroyed_in_block_never_detected.

(** Authority: a creation is accepted only if the transaction's signers are exactly the message's
    authorities and EVERY required signer of every action is one of them; the event passed Validate and
    ValidateContext; the stored trigger carries those actions, the first authority as owner, and a gas limit
    within the transaction's gas ... *)
Theorem C17_create_requires_signers : forall h t s sg au ev acts g u s',
  apply_tx h t s (TCreate sg au ev acts g u) = (s', true) ->
  sg = au /\ (forall a x, In a acts -> In x (a_signers a) -> In x au) /\ acts <> [] /\
  event_valid_ctx h t ev = true /\ event_valid ev = true /\
  exists owner rest lim, au = owner :: rest /\ lim <= MaximumTriggerGas /\ lim + SetGasLimitCost <= g /\
    s' = register s owner au au ev acts lim g.
Proof. exact create_accepted. Qed.
Print Assumptions C17_create_requires_signers.

(** ... a creation performed BY a trigger action registers a trigger whose authorities, event and actions
    passed the same validation at that block, with a limit taken out of the running trigger's own ... *)
Theorem C17_nested_creation : forall h t root plim nl s au ev acts s',
  exec_action h t root plim nl s (ACreate au ev acts) = Some s' ->
  exists owner rest lim, au = owner :: rest /\ nl = Some lim /\ lim + SetGasLimitCost <= plim /\
    validate_basic0 au ev acts = true /\ event_valid_ctx h t ev = true /\
    s' = register s owner au root ev (map ABasic acts) lim plim.
Proof. exact nested_registered. Qed.
Print Assumptions C17_nested_creation.

(** ... and over every history each dispatched trigger's actions are signed for: the owner and every
    required signer of every action are among the authorities of its creation, and those are among the
    signers of the transaction the trigger ultimately stems from ([t_root]: handed down unchanged through
    nested creations). *)
Theorem C17_action_signers : forall s0 bs b s outs s' o,
  wf_gen s0 -> run s0 bs = (s, outs) -> step s b = (s', o) ->
  forall e ok, In (e, ok) (o_disp o) ->
  In (t_owner (fst e)) (t_auths (fst e)) /\
  (forall a x, In a (t_actions (fst e)) -> In x (a_signers a) -> In x (t_auths (fst e))) /\
  (forall x, In x (t_auths (fst e)) -> In x (t_root (fst e))).
Proof. exact action_signers. Qed.
Print Assumptions C17_action_signers.

(** Event matching, exactly: a transaction event condition matches an emitted event iff the type names are
    equal and EVERY requested attribute (name, value; empty value = any) is present in the event — repeated
    keys, supersets and further attributes of the event do not matter. *)
Theorem C17_match_exact : forall name attrs e,
  tx_matches name attrs e = true <->
  (name = em_type e /\ forall w, In w attrs -> exists g, In g (em_attrs e) /\ fst g = fst w /\ (snd w = 0 \/ snd w = snd g)).
Proof. exact tx_matches_spec. Qed.
Print Assumptions C17_match_exact.

(** Detection, exactly, over all histories whose block times are not before 1970 ([TimeOk s0]: the imported
    time triggers lie in 1970 .. MaxInt64 ns, which is what Validate enforces for messages): of the triggers
    registered when the end blocker of a block runs ([reg s2]: after that block's dispatches and
    transactions, so including those created in this very block, whatever their position relative to the
    emitting transaction), the detected ones are
      - a height trigger iff its height is reached (also 2^63 <= height < 2^64: never; a transaction event
        named "block-height" sits under the same listener prefix and neither matches nor stops the scan),
      - a time trigger iff its time is reached, to the nanosecond,
      - a transaction-event trigger iff SOME event of the block whose type has the trigger's listener
        prefix matches it (commit 77d9b10c4: an earlier non-matching event no longer hides it);
    nothing else is detected, and nothing twice. *)
Theorem C17_detection_exact : forall s0 bs s outs b s1 d s2 oks,
  wf_gen s0 -> TimeOk s0 -> run s0 bs = (s, outs) ->
  (forall b', In b' bs -> (0 <= b_time b')%Z) -> (0 <= b_time b)%Z ->
  dispatch MaximumActions (b_height b) (b_time b) 0 s (b_oracle b) (b_nest b) = (s1, d) ->
  apply_txs (b_height b) (b_time b) s1 (b_txs b) = (s2, oks) ->
  (forall x, In x (reg s2) ->
     (In x (detect (b_height b) (b_time b) (b_events b) (reg s2)) <->
      match t_event (fst x) with
      | EvHeight v => v <= b_height b
      | EvTime v => (v <= b_time b)%Z
      | EvTx name lname attrs =>
          exists e, In e (b_events b) /\ em_ltype e = lname /\ tx_matches name attrs e = true
      end)) /\
  (forall x, In x (detect (b_height b) (b_time b) (b_events b) (reg s2)) -> In x (reg s2)) /\
  NoDup (map eid (detect (b_height b) (b_time b) (b_events b) (reg s2))).
Proof. exact detection_exact. Qed.
Print Assumptions C17_detection_exact.

(** ... in particular a time trigger fires in the block whose time equals its time and not in a block one
    nanosecond earlier. *)
Theorem C17_time_boundary : forall s0 bs s outs b s1 d s2 oks,
  wf_gen s0 -> TimeOk s0 -> run s0 bs = (s, outs) ->
  (forall b', In b' bs -> (0 <= b_time b')%Z) -> (0 <= b_time b)%Z ->
  dispatch MaximumActions (b_height b) (b_time b) 0 s (b_oracle b) (b_nest b) = (s1, d) ->
  apply_txs (b_height b) (b_time b) s1 (b_txs b) = (s2, oks) ->
  forall x v, In x (reg s2) -> t_event (fst x) = EvTime v ->
  ((b_time b = v - 1)%Z -> ~ In x (detect (b_height b) (b_time b) (b_events b) (reg s2))) /\
  ((b_time b = v)%Z -> In x (detect (b_height b) (b_time b) (b_events b) (reg s2))).
Proof. exact time_boundary. Qed.
Print Assumptions C17_time_boundary.

(** The time range is kept by every history: all registered time triggers lie in 0 .. MaxInt64 ns. *)
Theorem C17_time_range_invariant : forall bs s s' outs,
  TimeOk s -> (forall b, In b bs -> (0 <= b_time b)%Z) -> run s bs = (s', outs) -> TimeOk s'.
Proof. exact TimeOk_run. Qed.
Print Assumptions C17_time_range_invariant.

(** Why Validate must bound the time (keeper-level statement about a registry that was NOT validated; the
    defect repaired by commit 0ecc451a1): the listener order is the time modulo 2^64, so a registered time
    beyond 2^64 ns sorts first and ends the scan: a trigger whose time is reached is not detected. *)
Theorem C17_time_detection_refuted_without_validation : exists t r x v,
  NoDup (map eid r) /\ In x r /\ t_event (fst x) = EvTime v /\ (v <= t)%Z /\ ~ In x (detect_time t r).
Proof. exact detect_time_refuted. Qed.
Print Assumptions C17_time_detection_refuted_without_validation.

(** [run] is the fold of [step] the conventions ask for. *)
Theorem C17_run_is_fold : forall bs s, fst (run s bs) = fold_left (fun st b => fst (step st b)) bs s.
Proof. exact run_state_eq. Qed.
Print Assumptions C17_run_is_fold.

(** The empty store is a well-formed start. *)
Theorem C17_init_wf : forall b, wf_gen (init b) /\ TimeOk (init b).
Proof. intro b. split; [exact (wf_gen_init0 b)|exact (TimeOk_init cfg0 b (fun _ => 0%Z))]. Qed.
Print Assumptions C17_init_wf.

(** Non-vacuity: account 1 (balance 100; may transfer the restricted coin; owns the root name) creates, in
    block 5, (1) a time trigger whose second action cannot be paid, (2) a height-7 trigger with a send, a
    multi-send, a grant, a name binding, a marker transfer and finally a nested creation, (3) a trigger it
    destroys again (the stranger's destroy is refused), (4) a transaction-event trigger, created AFTER the
    matching event was emitted in the same block.  (4) is detected in block 5 (and fails in block 6: account 2 has nothing to send), (2) then (1) in block 7; in
    block 8 (2) takes full effect — trigger 5 is registered out of its gas — and (1) none at all. *)
Example C17_witness :
  let c := {| xfer_admins := [1]; root_owner := 1 |} in
  let b0 : bank_t := fun a => if a =? 1 then 100%Z else 0%Z in
  let blk h t nest txs evs := {| b_height := h; b_time := t; b_oracle := []; b_nest := nest; b_txs := txs; b_events := evs |} in
  let bs := [ blk 5 50%Z [] [ TCreate [1] [1] (EvTime 70) [ABasic (ASend 1 2 10%Z); ABasic (ASend 1 3 500%Z)] 200000 80000;
                            TCreate [1] [1] (EvHeight 7)
                              [ABasic (ASend 1 2 30%Z); ABasic (AMulti 1 5%Z [(2, 2%Z); (3, 3%Z)]); ABasic (AGrant 1 2 None);
                               ABasic (ABind 1 4 3); ABasic (AMarker 1 1 2 9%Z); ACreate [1] (EvHeight 99) [ASend 1 2 1%Z]] 400000 90000;
                            TCreate [2] [2] (EvHeight 9) [ABasic (ASend 2 1 1%Z)] 200000 80000;
                            TDestroy 1 3; TDestroy 2 3;
                            TCreate [2] [2] (EvTx 7 7 [(8, 0); (9, 6)]) [ABasic (ASend 2 1 1%Z)] 200000 80000;
                            TCreate [2] [2] (EvHeight 9) [ABasic (ASend 2 1 0%Z); ACreate [2; 1] (EvHeight 99) [ASend 2 1 1%Z]] 200000 80000 (* co-signer 1 did not sign *) ]
                          [ {| em_type := 7; em_ltype := 7; em_attrs := [(9, 6); (9, 6); (8, 3)] |} ];
              blk 6 60%Z [] [] []; blk 7 70%Z [] [] []; blk 8 80%Z [(2, 100000)] [TDestroy 1 1] [] ] in
  let '(s, outs) := run (init_cfg c b0 (fun a => if a =? 1 then 50%Z else 0%Z)) bs in
  map o_txres outs = [[true; true; true; false; true; true; false]; []; []; [false]] /\
  map (fun o => map eid (o_det o)) outs = [[4]; []; [2; 1]; []] /\
  map (fun o => map (fun x => (eid (fst x), snd x)) (o_disp o)) outs = [[]; [(4, false)]; []; [(2, true); (1, false)]] /\
  map (fun e => (eid e, snd e, t_prepaid (fst e))) (reg s) = [(5, 100000, 307490)] /\ queue s = [] /\ next_id s = 6 /\
  (bank s 1, bank s 2, bank s 3, rbank s 1, rbank s 2) = (65%Z, 32%Z, 3%Z, 41%Z, 9%Z) /\
  names s = [(4, 3)] /\ grants s = [(1, 2)].
Proof. vm_compute. repeat split; reflexivity. Qed.
