(** C07 — Quarantined funds are held, never lost, and released only on acceptance.
    Only theorem statements here; each is closed by [exact] of a lemma proved in
    Proofs/QuarantineProofs.v about the model Quarantine/Quarantine.v.

    Reading guide.  [h] is the quarantine funds-holder account.  [run h s0 ops] is the state after
    the history [ops] (bank sends and multi-sends, opt-in/out, accept, decline, auto-response
    updates; rejected operations leave the state as it was) started in any well-formed state [s0]
    — in particular any genesis, which is how records with several senders come to exist.
    [wf]: record keys are distinct, every record is stored under the key of its own sender set
    and has at least one unaccepted sender.  [signer_ok h]: the holder (a module address with no
    key) signs nothing, and no Accept / Decline names two DIFFERENT senders that share their first
    32 bytes ([inj_named froms]; [named_ok] is that second half alone).  Addresses may be up to
    255 bytes long; the record key of a single sender is [trunc] of it (its first 32 bytes), so
    two senders longer than 32 bytes with a common 32-byte prefix share one record.  Without
    [inj_named] the statements are FALSE of the code: [C07_prefix_collision_refuted] (known
    finding: such an Accept releases the shared record twice).  [rget k (s_recs s)] is the record stored under key [k = (to, suffix)];
    [rec_total (s_recs s) d] the total of all records in denom [d];
    [slack h s d] = holder balance - record total.

    The theorems of the second half start from [good s0] = [wf s0], the suffix index of [s0]
    reaches every multi-sender record from each of its senders ([idx_sound]) and no record holds
    a negative amount ([recs_nn]); [C07_genesis_good] shows that every state InitGenesis builds
    is such a state.  A transfer operation [o] (MsgSend, MsgMultiSend, many-inputs
    InputOutputCoins) hands the pairs [transfers_of o] = (from, to, coins) to the send
    restriction and debits [inputs_of o]; [is_quarantined h s from to] says that the pair is
    quarantined in state [s] (to opted in, from is neither to, the holder nor auto-accepted);
    [dest h s t] is the holder for a quarantined pair and its receiver otherwise;
    [credited h s ts a d] the sum of the pairs whose [dest] is [a]; [recorded h s ts k d] the sum
    of the quarantined pairs whose record key [(to, [trunc from])] is [k]; [old k recs d] the amount
    the record under [k] holds (0 when there is none).  The model includes the marker send
    restriction for restricted coins ([s_xfer]): a refused transfer is a rejected operation. *)
From Coq Require Import ZArith PArith List Bool.
Import ListNotations.
From PV Require Import Quarantine.Quarantine Proofs.QuarantineProofs Proofs.QuarantineConservation
  Proofs.QuarantineIndex Proofs.QuarantineSteps Proofs.QuarantineTransfers Proofs.QuarantineLiveness
  Proofs.QuarantineHistories Proofs.QuarantineCollision.
Open Scope Z_scope.

(** The holder's balance covers the total of all records after every history, per denom; what it
    holds beyond that never shrinks, and is exactly constant when no transfer names the holder
    itself as its receiver. *)
Theorem C07_holder_covers_records : forall h s0 ops,
  wf s0 -> covers h s0 -> Forall (signer_ok h) ops ->
  let s := run h s0 ops in
  wf s /\
  (forall d, rec_total (s_recs s) d <= s_bal s h d) /\
  (forall d, slack h s0 d <= slack h s d) /\
  (Forall (no_direct h) ops -> forall d, slack h s d = slack h s0 d).
Proof. exact holder_covers_records. Qed.
Print Assumptions C07_holder_covers_records.

(** After any history, an accepted MsgSend to an opted-in receiver from a sender that is not set
    to auto-accept does not change the receiver's balance: the amount goes to the holder and is
    added to the (to, from) record (a top-up adds to what the record held); no other record moves. *)
Theorem C07_not_credited_until_accept : forall h s0 ops from to c s' res,
  wf s0 -> Forall (signer_ok h) ops ->
  let s := run h s0 ops in
  step h s (OSend from to c) = (s', Some res) ->
  is_optin s to = true -> get_auto s to from <> AAccept -> from <> h -> to <> h ->
  (forall d, s_bal s' to d = s_bal s to d) /\
  (forall d, s_bal s' h d = s_bal s h d + amt c d) /\
  (forall d, s_bal s' from d = s_bal s from d - amt c d) /\
  (forall d, rec_total (s_recs s') d = rec_total (s_recs s) d + amt c d) /\
  (exists r', aget rkey_eqb (to, [trunc from]) (s_recs s') = Some r' /\
              forall d, amt (q_coins r') d = old (to, [trunc from]) (s_recs s) d + amt c d) /\
  (forall k, k <> (to, [trunc from]) -> aget rkey_eqb k (s_recs s') = aget rkey_eqb k (s_recs s)).
Proof. exact not_credited_until_accept. Qed.
Print Assumptions C07_not_credited_until_accept.

(** After any history, an accepted Accept(to, froms): every record is either kept with exactly
    its coins (and still has an unaccepted sender), or it is removed in this very step, was
    addressed to [to], and all of its unaccepted senders were named; nothing appears.  The
    released amount is exactly what left the records; it leaves the holder and reaches [to], and
    no other balance changes.  (A removed record cannot be paid again: it is gone.) *)
Theorem C07_paid_once_in_full : forall h s0 ops to froms perm s' rel,
  wf s0 -> Forall (signer_ok h) ops -> to <> h -> inj_named froms ->
  let s := run h s0 ops in
  step h s (OAccept to froms perm) = (s', Some rel) ->
  (forall k r, aget rkey_eqb k (s_recs s) = Some r ->
     (exists r', aget rkey_eqb k (s_recs s') = Some r' /\ q_coins r' = q_coins r /\ q_unacc r' <> []) \/
     (aget rkey_eqb k (s_recs s') = None /\ fst k = to /\ incl (q_unacc r) froms)) /\
  (forall k r', aget rkey_eqb k (s_recs s') = Some r' -> exists r, aget rkey_eqb k (s_recs s) = Some r) /\
  (forall d, amt rel d = rec_total (s_recs s) d - rec_total (s_recs s') d) /\
  (forall d, s_bal s' to d = s_bal s to d + amt rel d) /\
  (forall d, s_bal s' h d = s_bal s h d - amt rel d) /\
  (forall a d, a <> to -> a <> h -> s_bal s' a d = s_bal s a d).
Proof. exact paid_once_in_full. Qed.
Print Assumptions C07_paid_once_in_full.

(** Decline (temporary or permanent), opt-in, opt-out and auto-response updates, accepted or
    rejected, after any history: no balance changes, no record's coins change, no record appears
    or disappears. *)
Theorem C07_neutral_ops : forall h s0 ops o s' res,
  wf s0 -> Forall (signer_ok h) ops -> neutral o ->
  let s := run h s0 ops in
  step h s o = (s', res) ->
  (forall a d, s_bal s' a d = s_bal s a d) /\
  (forall k, option_map q_coins (aget rkey_eqb k (s_recs s')) = option_map q_coins (aget rkey_eqb k (s_recs s))) /\
  (forall d, rec_total (s_recs s') d = rec_total (s_recs s) d).
Proof. exact neutral_ops. Qed.
Print Assumptions C07_neutral_ops.

(** Funds from an auto-accepted sender (or to a receiver that has not opted in) arrive directly:
    the receiver is credited, the sender debited, no record and no other balance changes. *)
Theorem C07_auto_accept_direct : forall h s0 ops from to c s' res,
  wf s0 -> Forall (signer_ok h) ops ->
  let s := run h s0 ops in
  step h s (OSend from to c) = (s', Some res) ->
  is_optin s to = false \/ get_auto s to from = AAccept ->
  s_recs s' = s_recs s /\
  (forall a d, s_bal s' a d = bal_add (bal_sub (s_bal s) from c) to c a d) /\
  (from <> to -> forall d, s_bal s' to d = s_bal s to d + amt c d /\ s_bal s' from d = s_bal s from d - amt c d) /\
  (forall a d, a <> from -> a <> to -> s_bal s' a d = s_bal s a d).
Proof. exact auto_accept_direct. Qed.
Print Assumptions C07_auto_accept_direct.

(** No operation creates or destroys funds: over any set [U] of distinct accounts that contains
    the holder and every account an operation names as sender or receiver, the sum of all balances
    per denom is the same after every history. *)
Theorem C07_conservation : forall h U, NoDup U -> In h U -> forall ops s0 d,
  wf s0 -> Forall (signer_ok h) ops -> Forall (fun o => incl (parties o) U) ops ->
  total U (s_bal (run h s0 ops)) d = total U (s_bal s0) d.
Proof. exact conservation. Qed.
Print Assumptions C07_conservation.

(** ** Deepened statements *)

(** InitGenesis (records with non-negative coins, which GenesisState.Validate guarantees) accepts a
    genesis EXACTLY when every record has a sender and the funds holder holds, in every denom that
    occurs in a record, at least the total of all imported records (a denom the holder does not hold
    at all counts as 0; two records add up).  What it accepts is a [good] state with the bank's
    balances, in which the holder covers the records. *)
Theorem C07_genesis_good : forall h g,
  Forall fund_nn (g_funds g) ->
  (init_genesis h g <> None <->
     Forall (fun e => fund_senders e <> []) (g_funds g) /\
     forall d, In d (funds_denoms (g_funds g)) -> funds_total (g_funds g) d <= bal_of_list (g_bal g) h d) /\
  (forall s, init_genesis h g = Some s ->
     good s /\ s_xfer s = g_xfer g /\ s_bal s = bal_of_list (g_bal g) /\
     ((forall d, 0 <= bal_of_list (g_bal g) h d) -> covers h s)).
Proof. exact genesis_good. Qed.
Print Assumptions C07_genesis_good.

(** The suffix index is sound after every history: the index entry (to, f) of every sender [f] of
    every multi-sender record holds the record's suffix, and therefore GetQuarantineRecords
    (to, froms) returns every record to [to] that has a sender among [froms] — which is what
    accept and decline iterate over.  (No [signer_ok] needed.) *)
Theorem C07_suffix_index_sound : forall h s0 ops,
  good s0 -> Forall named_ok ops ->
  let s := run h s0 ops in
  good s /\
  (forall k r f, aget rkey_eqb k (s_recs s) = Some r -> is_multi (all_froms r) = true -> In f (all_froms r) ->
     In (snd k) (idx_get (s_idx s) (fst k) f)) /\
  (forall k r f froms, aget rkey_eqb k (s_recs s) = Some r -> In f (all_froms r) -> In f froms ->
     In (k, r) (get_records s (fst k) froms)).
Proof. exact suffix_index_sound_hist. Qed.
Print Assumptions C07_suffix_index_sound.

(** [C07_not_credited_until_accept] for every transfer kind, pair by pair.  After any history,
    an accepted MsgSend / MsgMultiSend / many-inputs InputOutputCoins: every account's balance
    changes by exactly what it is debited as an input and what is credited to it, where the
    amount of each (input, output) pair is credited to the holder when the pair is quarantined
    and to its receiver otherwise; the record under (to, [trunc from]) gains exactly the quarantined
    pairs from [from] to [to] (repeated receivers add up; a top-up adds to what was there), no
    other record changes; a receiver all of whose pairs are quarantined (and that is not an
    input) keeps its balance; the holder gains exactly the quarantined amounts plus what is
    sent to it directly; opt-ins and auto-responses are unchanged. *)
Theorem C07_transfer_pairs : forall h s0 ops o s' res,
  good s0 -> Forall named_ok ops -> is_transfer o ->
  let s := run h s0 ops in
  step h s o = (s', Some res) ->
  let ts := transfers_of o in
  (forall a d, s_bal s' a d = s_bal s a d - debited (inputs_of o) a d + credited h s ts a d) /\
  (forall k d, old k (s_recs s') d = old k (s_recs s) d + recorded h s ts k d) /\
  (forall k, (forall t, In t ts -> is_quarantined h s (x_from t) (x_to t) = false \/ k <> rec_key t) ->
             aget rkey_eqb k (s_recs s') = aget rkey_eqb k (s_recs s)) /\
  (forall to, to <> h -> ~ In to (map fst (inputs_of o)) ->
     (forall t, In t ts -> x_to t = to -> is_quarantined h s (x_from t) to = true) ->
     forall d, s_bal s' to d = s_bal s to d) /\
  (signer_ok h o -> forall d, s_bal s' h d = s_bal s h d + credited h s ts h d) /\
  s_optin s' = s_optin s /\ s_auto s' = s_auto s.
Proof. exact transfer_pairs_hist. Qed.
Print Assumptions C07_transfer_pairs.

(** Only an accept lowers the holder's balance: after any history, no operation of any other
    kind (accepted or rejected; sends, multi-sends, declines, opt-in/out, auto-response updates)
    lowers it in any denom, and neither does any continuation without an accept. *)
Theorem C07_only_accept_lowers_holder : forall h s0 ops,
  good s0 -> Forall named_ok ops ->
  let s := run h s0 ops in
  (forall o s' res, signer_ok h o -> not_accept o -> step h s o = (s', res) ->
     forall d, s_bal s h d <= s_bal s' h d) /\
  (forall ops2, Forall (signer_ok h) ops2 -> Forall not_accept ops2 ->
     forall d, s_bal s h d <= s_bal (run h s ops2) h d).
Proof. exact only_accept_lowers_holder_hist. Qed.
Print Assumptions C07_only_accept_lowers_holder.

(** Payout liveness: after any history, an Accept(to, froms) that names every currently
    unaccepted sender of a record to [to] is accepted, removes that record in this very step,
    releases at least its coins, and the released amount reaches [to] from the holder.  (The
    marker restriction cannot block the payout: the holder is a required-attribute bypass
    address; the holder's balance suffices by [C07_holder_covers_records].) *)
Theorem C07_accept_pays_out : forall h s0 ops to froms perm k r,
  good s0 -> covers h s0 -> Forall (signer_ok h) ops -> to <> h -> inj_named froms ->
  let s := run h s0 ops in
  aget rkey_eqb k (s_recs s) = Some r -> fst k = to -> incl (q_unacc r) froms ->
  exists s' rel,
    step h s (OAccept to froms perm) = (s', Some rel) /\
    aget rkey_eqb k (s_recs s') = None /\
    (forall d, amt (q_coins r) d <= amt rel d) /\
    (forall d, s_bal s' to d = s_bal s to d + amt rel d) /\
    (forall d, s_bal s' h d = s_bal s h d - amt rel d).
Proof. exact accept_pays_out_hist. Qed.
Print Assumptions C07_accept_pays_out.

(** Decline after accept: after any history, a Decline(to, froms) is accepted and every record
    to [to] that has a sender [f] among [froms] — accepted earlier or not — is kept with its
    coins, is flagged declined, and has [f] among its UNACCEPTED senders again; no balance
    changes.  From then on the record stays, with [f] unaccepted and without losing a coin,
    through every continuation in which [to] sends no Accept naming [f]: it cannot be paid out
    until [f] is accepted anew (by [C07_paid_once_in_full] a record is only removed by an
    accept naming all its unaccepted senders). *)
Theorem C07_decline_revokes_acceptance : forall h s0 ops to froms perm k r f,
  good s0 -> Forall named_ok ops -> inj_named froms ->
  let s := run h s0 ops in
  aget rkey_eqb k (s_recs s) = Some r -> fst k = to -> In f (all_froms r) -> In f froms ->
  exists s' r',
    step h s (ODecline to froms perm) = (s', Some []) /\
    aget rkey_eqb k (s_recs s') = Some r' /\ In f (q_unacc r') /\ incl (q_unacc r) (q_unacc r') /\
    q_coins r' = q_coins r /\ q_declined r' = true /\
    (forall a d, s_bal s' a d = s_bal s a d) /\
    (forall ops2, Forall named_ok ops2 -> Forall (fun o => ~ accepts_sender to f o) ops2 ->
       exists r2, aget rkey_eqb k (s_recs (run h s' ops2)) = Some r2 /\ In f (q_unacc r2) /\
                  forall d, amt (q_coins r) d <= amt (q_coins r2) d).
Proof. exact decline_revokes_hist. Qed.
Print Assumptions C07_decline_revokes_acceptance.

(** Released only on acceptance, over histories: a record with an unaccepted sender [f] is still
    there, with [f] unaccepted and at least its coins, after every continuation in which the
    receiver sends no Accept naming [f] (whatever else happens: sends, top-ups, accepts of other
    senders, declines, opt-outs, auto-response changes — including setting [f] to auto-accept). *)
Theorem C07_unaccepted_sender_blocks_payout : forall h s0 ops k r f ops2,
  good s0 -> Forall named_ok ops -> Forall named_ok ops2 ->
  let s := run h s0 ops in
  aget rkey_eqb k (s_recs s) = Some r -> In f (q_unacc r) ->
  Forall (fun o => ~ accepts_sender (fst k) f o) ops2 ->
  exists r2, aget rkey_eqb k (s_recs (run h s ops2)) = Some r2 /\ In f (q_unacc r2) /\
             forall d, amt (q_coins r) d <= amt (q_coins r2) d.
Proof. exact unaccepted_blocks_payout_hist. Qed.
Print Assumptions C07_unaccepted_sender_blocks_payout.

(** KNOWN FINDING (refutes [C07_paid_once_in_full], [C07_holder_covers_records] and
    [C07_accept_pays_out] without [inj_named]).  createRecordSuffix cuts a single sender address
    longer than 32 bytes to its first 32 bytes.  Two different 40-byte senders L1, L2 with the same
    first 32 bytes: the funds L2 sends to the opted-in receiver 3 are added to the record whose only
    sender is L1; an Accept naming L2 alone releases nothing; an Accept naming both looks the one
    record up twice and releases it twice (260 for a record of 130), out of the funds held for
    receiver 4, whose own Accept then fails for lack of funds in the holder.  Reproduced on the
    real handlers by the harness (findings/C07.md). *)
Theorem C07_prefix_collision_refuted :
  good cx_s0 /\ covers cx_h cx_s0 /\ Forall (signer_ok cx_h) cx_ops /\ cx_L1 <> cx_L2 /\ trunc cx_L1 = trunc cx_L2 /\
  let s := run cx_h cx_s0 cx_ops in
  option_map all_froms (aget rkey_eqb (3%positive, [trunc cx_L2]) (s_recs s)) = Some [cx_L1] /\
  old (3%positive, [trunc cx_L2]) (s_recs s) 1%positive = 130 /\
  snd (step cx_h s (OAccept 3%positive [cx_L2] false)) = Some [] /\
  s_recs (fst (step cx_h s (OAccept 3%positive [cx_L2] false))) = s_recs s /\
  let s' := fst (step cx_h s (OAccept 3%positive [cx_L1; cx_L2] false)) in
  option_map (fun rel => amt rel 1%positive) (snd (step cx_h s (OAccept 3%positive [cx_L1; cx_L2] false))) = Some 260 /\
  rec_total (s_recs s) 1%positive - rec_total (s_recs s') 1%positive = 130 /\
  s_bal s' 3%positive 1%positive = s_bal s 3%positive 1%positive + 260 /\
  s_bal s' cx_h 1%positive = 370 /\ rec_total (s_recs s') 1%positive = 500 /\
  snd (step cx_h s' (OAccept 4%positive [2%positive] false)) = None.
Proof. exact prefix_collision_refuted. Qed.
Print Assumptions C07_prefix_collision_refuted.

(** Non-vacuity: a well-formed genesis with a two-sender record; a quarantined send, an accept
    of one sender (pays the single-sender record only), then of the other (pays the rest). *)
Definition ex_s0 : state :=
  {| s_optin := [3%positive]; s_auto := [];
     s_recs := [((3%positive, [4%positive; 5%positive]),
                 {| q_unacc := [4%positive; 5%positive]; q_acc := []; q_coins := [(1%positive, 10)]; q_declined := false |})];
     s_idx := [((3%positive, 4%positive), [[4%positive; 5%positive]]); ((3%positive, 5%positive), [[4%positive; 5%positive]])];
     s_bal := bal_of_list [(1%positive, 1%positive, 10); (4%positive, 1%positive, 100)];
     s_xfer := [] |}.

Example C07_witness :
  wf ex_s0 /\ covers 1%positive ex_s0 /\
  init_genesis 1%positive {| g_optin := [3%positive]; g_auto := [];
                  g_funds := [(3%positive, [4%positive; 5%positive], [(1%positive, 10)], false)];
                  g_bal := [(1%positive, 1%positive, 10); (4%positive, 1%positive, 100)];
                  g_xfer := [] |} <> None /\
  let ops1 := [OSend 4%positive 3%positive [(1%positive, 7)]; OAccept 3%positive [4%positive] false] in
  let s1 := run 1%positive ex_s0 ops1 in
  let s2 := run 1%positive s1 [OAccept 3%positive [5%positive; 5%positive] true] in
  Forall (signer_ok 1%positive) ops1 /\
  s_bal s1 3%positive 1%positive = 7 /\ s_bal s1 1%positive 1%positive = 10 /\ List.length (s_recs s1) = 1%nat /\
  s_bal s2 3%positive 1%positive = 17 /\ s_bal s2 1%positive 1%positive = 0 /\ s_recs s2 = [].
Proof.
  split; [|split; [|split]].
  - split.
    + constructor; [intros [] | constructor].
    + constructor; [|constructor]. split; [reflexivity | discriminate].
  - intros d. unfold covers, ex_s0, rec_total, bal_of_list. cbn [s_recs s_bal fold_right snd q_coins amt fst].
    destruct (Pos.eqb_spec 1 d) as [<-|Hn]; [vm_compute; discriminate|].
    destruct (Pos.eqb d 1); cbn; discriminate.
  - vm_compute. discriminate.
  - cbn zeta. split; [|vm_compute; repeat split].
    constructor; [discriminate|]. constructor; [|constructor]. split; [discriminate|].
    intros a b [<-|[]] [<-|[]] _; reflexivity.
Qed.

(** Non-vacuity of the deepened statements: [ex_s0] is [good]; denom 2 is a restricted marker coin
    on which 4 and 5 (not 6) hold Transfer access.  Accept 4, Decline 5, Decline 4, Accept 5 leaves
    the two-sender record unpaid (4 is unaccepted again); a multi-send of the restricted coin
    from 4 to the opted-in 3 (twice) and to 6 is quarantined pair by pair; 6 cannot send it;
    accepting 4 and 5 together pays everything out, restricted coins included. *)
Definition ex_s1 : state :=
  {| s_optin := s_optin ex_s0; s_auto := []; s_recs := s_recs ex_s0; s_idx := s_idx ex_s0;
     s_bal := bal_of_list [(1%positive, 1%positive, 10); (4%positive, 1%positive, 100); (4%positive, 2%positive, 50);
                           (6%positive, 2%positive, 5)];
     s_xfer := [(2%positive, [4%positive; 5%positive])] |}.

Example C07_witness_deepened :
  good ex_s0 /\ good ex_s1 /\
  let h := 1%positive in
  let s1 := run h ex_s1 [OAccept 3%positive [4%positive] false; ODecline 3%positive [5%positive] false;
                         ODecline 3%positive [4%positive] false; OAccept 3%positive [5%positive] false] in
  option_map q_unacc (aget rkey_eqb (3%positive, [4%positive; 5%positive]) (s_recs s1)) = Some [4%positive] /\
  s_bal s1 3%positive 1%positive = 0 /\
  let m := OMulti 4%positive [(2%positive, 9)] [(3%positive, [(2%positive, 4)]); (6%positive, [(2%positive, 3)]); (3%positive, [(2%positive, 2)])] in
  let s2 := run h s1 [m] in
  is_transfer m /\ snd (step h s1 m) = Some [] /\
  s_bal s2 3%positive 2%positive = 0 /\ s_bal s2 6%positive 2%positive = 8 /\ s_bal s2 h 2%positive = 6 /\
  old (3%positive, [4%positive]) (s_recs s2) 2%positive = 6 /\
  snd (step h s2 (OSend 6%positive 4%positive [(2%positive, 1)])) = None /\
  let s3 := run h s2 [OAccept 3%positive [5%positive; 4%positive] false] in
  s_recs s3 = [] /\ s_bal s3 3%positive 2%positive = 6 /\ s_bal s3 3%positive 1%positive = 10 /\ s_bal s3 h 2%positive = 0.
Proof.
  assert (G : forall b x, good {| s_optin := s_optin ex_s0; s_auto := []; s_recs := s_recs ex_s0; s_idx := s_idx ex_s0;
                                  s_bal := b; s_xfer := x |}).
  { intros b x. split; [|split].
    - split.
      + constructor; [intros [] | constructor].
      + constructor; [|constructor]. split; [reflexivity | discriminate].
    - intros k r Hk Hm f Hf. cbn [s_recs ex_s0 aget fst snd] in Hk.
      destruct (rkey_eqb k (3%positive, [4%positive; 5%positive])) eqn:Ek; [|discriminate].
      injection Hk as <-. apply rkey_eqb_eq in Ek. subst k. cbn in Hf. cbn.
      destruct Hf as [<-|[<-|[]]]; vm_compute; left; reflexivity.
    - constructor; [|constructor]. intros d. cbn [snd q_coins amt fst]. destruct (Pos.eqb 1 d); cbn; discriminate. }
  split; [apply G|]. split; [apply G|].
  vm_compute. repeat split.
Qed.

(** Non-vacuity of [C07_genesis_good]: under-funded genesis files are refused in every shape —
    the holder short by one in a denom it holds, a record denom the holder does not hold at all, an
    empty holder, and two records that are covered one by one but not together — and the exactly
    funded one is accepted. *)
Example C07_genesis_underfunded_refused :
  let h := 1%positive in
  let gen funds bal := {| g_optin := [3%positive]; g_auto := []; g_funds := funds; g_bal := bal; g_xfer := [] |} in
  let r1 := (3%positive, [4%positive; 5%positive], [(1%positive, 10); (2%positive, 4)], false) in
  let r2 := (3%positive, [4%positive], [(1%positive, 7)], false) in
  init_genesis h (gen [r1] [(h, 1%positive, 9); (h, 2%positive, 4)]) = None /\
  init_genesis h (gen [r1] [(h, 1%positive, 10)]) = None /\
  init_genesis h (gen [r1] []) = None /\
  init_genesis h (gen [r1; r2] [(h, 1%positive, 16); (h, 2%positive, 4)]) = None /\
  init_genesis h (gen [r1; r2] [(h, 1%positive, 17); (h, 2%positive, 4)]) <> None.
Proof. vm_compute. repeat split; discriminate. Qed.
