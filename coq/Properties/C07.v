(** C07 — Quarantined funds are held, never lost, and released only on acceptance.
    Only theorem statements here; each is closed by [exact] of a lemma proved in
    Proofs/QuarantineProofs.v about the model Quarantine/Quarantine.v.

    Reading guide.  [h] is the quarantine funds-holder account.  [run h s0 ops] is the state after
    the history [ops] (bank sends and multi-sends, opt-in/out, accept, decline, auto-response
    updates; rejected operations leave the state as it was) started in any well-formed state [s0]
    — in particular any genesis, which is how records with several senders come to exist.
    [wf]: record keys are distinct, every record is stored under the key of its own sender set
    and has at least one unaccepted sender.  [signer_ok h]: the holder (a module address with no
    key) signs nothing.  [rget k (s_recs s)] is the record stored under key [k = (to, suffix)];
    [rec_total (s_recs s) d] the total of all records in denom [d];
    [slack h s d] = holder balance - record total. *)
From Coq Require Import ZArith PArith List Bool.
Import ListNotations.
From PV Require Import Quarantine.Quarantine Proofs.QuarantineProofs Proofs.QuarantineConservation.
Open Scope Z_scope.

(** The holder's balance covers the total of all records after every history, per denom; what it
    holds beyond that never shrinks, and is exactly constant when no transfer names the holder
    itself as its receiver. *)
Theorem C07_holder_covers_records : forall h s0 ops,
  wf s0 -> covers h s0 -> Forall (signer_ok h) ops ->
  let s := run h s0 ops in
  wf s /\
  (forall d, rec_total (s_recs s) d <= s_bal s h d) /\
  (forall d, slack h s0 d <= slack h s d) /\
  (Forall (no_direct h) ops -> forall d, slack h s d = slack h s0 d).
Proof. exact holder_covers_records. Qed.
Print Assumptions C07_holder_covers_records.

(** After any history, an accepted MsgSend to an opted-in receiver from a sender that is not set
    to auto-accept does not change the receiver's balance: the amount goes to the holder and is
    added to the (to, from) record (a top-up adds to what the record held); no other record moves. *)
Theorem C07_not_credited_until_accept : forall h s0 ops from to c s' res,
  wf s0 -> Forall (signer_ok h) ops ->
  let s := run h s0 ops in
  step h s (OSend from to c) = (s', Some res) ->
  is_optin s to = true -> get_auto s to from <> AAccept -> from <> h -> to <> h ->
  (forall d, s_bal s' to d = s_bal s to d) /\
  (forall d, s_bal s' h d = s_bal s h d + amt c d) /\
  (forall d, s_bal s' from d = s_bal s from d - amt c d) /\
  (forall d, rec_total (s_recs s') d = rec_total (s_recs s) d + amt c d) /\
  (exists r', aget rkey_eqb (to, [from]) (s_recs s') = Some r' /\
              forall d, amt (q_coins r') d = old (to, [from]) (s_recs s) d + amt c d) /\
  (forall k, k <> (to, [from]) -> aget rkey_eqb k (s_recs s') = aget rkey_eqb k (s_recs s)).
Proof. exact not_credited_until_accept. Qed.
Print Assumptions C07_not_credited_until_accept.

(** After any history, an accepted Accept(to, froms): every record is either kept with exactly
    its coins (and still has an unaccepted sender), or it is removed in this very step, was
    addressed to [to], and all of its unaccepted senders were named; nothing appears.  The
    released amount is exactly what left the records; it leaves the holder and reaches [to], and
    no other balance changes.  (A removed record cannot be paid again: it is gone.) *)
Theorem C07_paid_once_in_full : forall h s0 ops to froms perm s' rel,
  wf s0 -> Forall (signer_ok h) ops -> to <> h ->
  let s := run h s0 ops in
  step h s (OAccept to froms perm) = (s', Some rel) ->
  (forall k r, aget rkey_eqb k (s_recs s) = Some r ->
     (exists r', aget rkey_eqb k (s_recs s') = Some r' /\ q_coins r' = q_coins r /\ q_unacc r' <> []) \/
     (aget rkey_eqb k (s_recs s') = None /\ fst k = to /\ incl (q_unacc r) froms)) /\
  (forall k r', aget rkey_eqb k (s_recs s') = Some r' -> exists r, aget rkey_eqb k (s_recs s) = Some r) /\
  (forall d, amt rel d = rec_total (s_recs s) d - rec_total (s_recs s') d) /\
  (forall d, s_bal s' to d = s_bal s to d + amt rel d) /\
  (forall d, s_bal s' h d = s_bal s h d - amt rel d) /\
  (forall a d, a <> to -> a <> h -> s_bal s' a d = s_bal s a d).
Proof. exact paid_once_in_full. Qed.
Print Assumptions C07_paid_once_in_full.

(** Decline (temporary or permanent), opt-in, opt-out and auto-response updates, accepted or
    rejected, after any history: no balance changes, no record's coins change, no record appears
    or disappears. *)
Theorem C07_neutral_ops : forall h s0 ops o s' res,
  wf s0 -> Forall (signer_ok h) ops -> neutral o ->
  let s := run h s0 ops in
  step h s o = (s', res) ->
  (forall a d, s_bal s' a d = s_bal s a d) /\
  (forall k, option_map q_coins (aget rkey_eqb k (s_recs s')) = option_map q_coins (aget rkey_eqb k (s_recs s))) /\
  (forall d, rec_total (s_recs s') d = rec_total (s_recs s) d).
Proof. exact neutral_ops. Qed.
Print Assumptions C07_neutral_ops.

(** Funds from an auto-accepted sender (or to a receiver that has not opted in) arrive directly:
    the receiver is credited, the sender debited, no record and no other balance changes. *)
Theorem C07_auto_accept_direct : forall h s0 ops from to c s' res,
  wf s0 -> Forall (signer_ok h) ops ->
  let s := run h s0 ops in
  step h s (OSend from to c) = (s', Some res) ->
  is_optin s to = false \/ get_auto s to from = AAccept ->
  s_recs s' = s_recs s /\
  (forall a d, s_bal s' a d = bal_add (bal_sub (s_bal s) from c) to c a d) /\
  (from <> to -> forall d, s_bal s' to d = s_bal s to d + amt c d /\ s_bal s' from d = s_bal s from d - amt c d) /\
  (forall a d, a <> from -> a <> to -> s_bal s' a d = s_bal s a d).
Proof. exact auto_accept_direct. Qed.
Print Assumptions C07_auto_accept_direct.

(** No operation creates or destroys funds: over any set [U] of distinct accounts that contains
    the holder and every account an operation names as sender or receiver, the sum of all balances
    per denom is the same after every history. *)
Theorem C07_conservation : forall h U, NoDup U -> In h U -> forall ops s0 d,
  wf s0 -> Forall (signer_ok h) ops -> Forall (fun o => incl (parties o) U) ops ->
  total U (s_bal (run h s0 ops)) d = total U (s_bal s0) d.
Proof. exact conservation. Qed.
Print Assumptions C07_conservation.

(** Non-vacuity: a well-formed genesis with a two-sender record; a quarantined send, an accept
    of one sender (pays the single-sender record only), then of the other (pays the rest). *)
Definition ex_s0 : state :=
  {| s_optin := [3%positive]; s_auto := [];
     s_recs := [((3%positive, [4%positive; 5%positive]),
                 {| q_unacc := [4%positive; 5%positive]; q_acc := []; q_coins := [(1%positive, 10)]; q_declined := false |})];
     s_idx := [((3%positive, 4%positive), [[4%positive; 5%positive]]); ((3%positive, 5%positive), [[4%positive; 5%positive]])];
     s_bal := bal_of_list [(1%positive, 1%positive, 10); (4%positive, 1%positive, 100)] |}.

Example C07_witness :
  wf ex_s0 /\ covers 1%positive ex_s0 /\
  init_genesis {| g_optin := [3%positive]; g_auto := [];
                  g_funds := [(3%positive, [4%positive; 5%positive], [(1%positive, 10)], false)];
                  g_bal := [(1%positive, 1%positive, 10); (4%positive, 1%positive, 100)] |} <> None /\
  let ops1 := [OSend 4%positive 3%positive [(1%positive, 7)]; OAccept 3%positive [4%positive] false] in
  let s1 := run 1%positive ex_s0 ops1 in
  let s2 := run 1%positive s1 [OAccept 3%positive [5%positive; 5%positive] true] in
  Forall (signer_ok 1%positive) ops1 /\
  s_bal s1 3%positive 1%positive = 7 /\ s_bal s1 1%positive 1%positive = 10 /\ List.length (s_recs s1) = 1%nat /\
  s_bal s2 3%positive 1%positive = 17 /\ s_bal s2 1%positive 1%positive = 0 /\ s_recs s2 = [].
Proof.
  split; [|split; [|split]].
  - split.
    + constructor; [intros [] | constructor].
    + constructor; [|constructor]. split; [reflexivity | discriminate].
  - intros d. unfold covers, ex_s0, rec_total, bal_of_list. cbn [s_recs s_bal fold_right snd q_coins amt fst].
    destruct (Pos.eqb_spec 1 d) as [<-|Hn]; [vm_compute; discriminate|].
    destruct (Pos.eqb d 1); cbn; discriminate.
  - vm_compute. discriminate.
  - cbn zeta. split; [|vm_compute; repeat split].
    repeat constructor; discriminate.
Qed.
