(** C11 — Privileged endpoints reject callers without the specific authority.
    Only theorem statements here; each is closed by [exact] of a lemma of Proofs/PermsProofs.v
    about the models Exchange/Perms.v and Exchange/GovGuards.v, which are defined FROM the tables
    regenerated from the Go source on every run (Gen/GenExchangePerms.v, Gen/GenGovEndpoints.v). *)
From Coq Require Import List String Bool NArith.
Import ListNotations.
From PV Require Import Exchange.Perms Exchange.GovGuards Exchange.GuardPaths Exchange.PermWorld Exchange.PermCommit
  Gen.GenExchangePerms Gen.GenGovEndpoints Gen.GenHandlerPaths
  Proofs.PermsProofs Proofs.GuardPathsProofs Proofs.PermWorldProofs Proofs.RolesProofs Proofs.PermCommitProofs.
Open Scope string_scope.

(** For every endpoint of the generated table, every store of grants, every market and caller:
    getting past the endpoint's guard implies the caller is the authority or holds THE DOCUMENTED
    permission on THAT market (authority endpoints: is the authority; deprecated endpoints:
    nobody passes; every generated endpoint is documented). *)
Theorem C11_endpoint_needs_its_permission :
  forall row, In row gen_endpoints ->
  forall auth st market caller,
    endpoint_allowed (ep_name row) auth st market caller = true ->
    match documented_requirement (ep_name row) with
    | RPerm p => caller = auth \/ In (market, caller, p) st
    | RAuthority => caller = auth
    | RRejectAll => False
    | RDelegated _ => True
    | RUnknown => False
    end.
Proof. exact endpoint_needs_its_permission. Qed.
Print Assumptions C11_endpoint_needs_its_permission.

(** Cross-market targets: an item of market X is changed by a market endpoint only for a caller
    who is the authority or holds the documented permission on market X itself, whatever market the
    request names. *)
Theorem C11_cross_market_items :
  forall row, In row gen_endpoints ->
  forall auth st req_market item_market caller,
    item_changed (ep_name row) auth st req_market item_market caller = true ->
    match documented_requirement (ep_name row) with
    | RPerm p => caller = auth \/ In (item_market, caller, p) st
    | RAuthority => caller = auth
    | RRejectAll => False
    | RDelegated _ => True
    | RUnknown => False
    end.
Proof. exact cross_market_items. Qed.
Print Assumptions C11_cross_market_items.

(** The table computed from the Go source (endpoint -> guard -> Can* helper -> Permission_*
    constant, in source order) is the documented table; endpoint names are unique; HasPermission and
    storeHasPermission have the documented shape (authority short-circuit, then the store key of
    exactly (marketID, addr, permission)). *)
Theorem C11_generated_equals_documented :
  tables_match documented_endpoints generated_requirements = true
  /\ nodup_strings (map ep_name gen_endpoints) = true
  /\ has_permission_shape_ok = true.
Proof. exact generated_equals_documented. Qed.
Print Assumptions C11_generated_equals_documented.

(** The same, spelled out for the privileged endpoints. *)
Theorem C11_generated_market_permissions :
  map (fun n => (n, endpoint_requirement n))
      ["MarketSettle"; "MarketCommitmentSettle"; "MarketReleaseCommitments"; "MarketSetOrderExternalID";
       "MarketWithdraw"; "MarketUpdateDetails"; "MarketUpdateEnabled"; "MarketUpdateAcceptingOrders";
       "MarketUpdateUserSettle"; "MarketUpdateAcceptingCommitments"; "MarketUpdateIntermediaryDenom";
       "MarketManagePermissions"; "MarketManageReqAttrs"; "GovUpdateParams"]
  = [("MarketSettle", RPerm PSettle); ("MarketCommitmentSettle", RPerm PSettle);
     ("MarketReleaseCommitments", RPerm PCancel); ("MarketSetOrderExternalID", RPerm PSetIds);
     ("MarketWithdraw", RPerm PWithdraw); ("MarketUpdateDetails", RPerm PUpdate);
     ("MarketUpdateEnabled", RRejectAll); ("MarketUpdateAcceptingOrders", RPerm PUpdate);
     ("MarketUpdateUserSettle", RPerm PUpdate); ("MarketUpdateAcceptingCommitments", RPerm PUpdate);
     ("MarketUpdateIntermediaryDenom", RPerm PUpdate); ("MarketManagePermissions", RPerm PPermissions);
     ("MarketManageReqAttrs", RPerm PAttributes); ("GovUpdateParams", RRejectAll)].
Proof. exact generated_market_permissions. Qed.
Print Assumptions C11_generated_market_permissions.

(** Every handler of every module whose request carries an Authority field, unless documented as
    usable by another party, compares that field with the keeper's configured authority (through a
    GetAuthority / ValidateAuthority / IsAuthority body of accepted shape) — or rejects
    unconditionally — as the FIRST statement that touches the keeper; the documented exceptions
    have exactly the documented alternative and write nothing before it. *)
Theorem C11_gov_only :
  forall r, In r gen_gov_endpoints ->
    match exception_of r with
    | None =>
        (exists via, gv_guard r = GvAuthority via /\ via_ok (gv_module r) via = true) \/ gv_guard r = GvReject
    | Some g => gv_guard r = g
    end /\
    match exception_of r with
    | None => gv_precalls r = []
    | Some (GvNone _) => True
    | Some _ => gv_pre_write r = false
    end.
Proof. exact gov_only. Qed.
Print Assumptions C11_gov_only.

(** Granting or revoking changes nothing for any other account, permission or market: over ANY
    sequence of MarketManagePermissions requests (by any admins, accepted or not), a triple that
    no request names is in the store afterwards iff it was before, and HasPermission agrees.
    And it takes effect AT ONCE: an accepted request was signed by the authority or a holder of
    PERMISSION_PERMISSIONS on that market; every triple it revokes (RevokeAll or ToRevoke) and does not
    grant again is gone from the store, every triple it grants is there, and an account other than the
    authority is rejected, from that moment, by every endpoint documented to need a revoked permission
    on that market. *)
Theorem C11_grant_frame :
  (forall auth reqs st g,
     (forall ar, In ar reqs -> names_grant (snd ar) g = false) ->
     (In g (run_manage auth st reqs) <-> In g st) /\
     (let '(m, a, p) := g in
      store_has (run_manage auth st reqs) m a p = store_has st m a p /\
      has_permission auth (run_manage auth st reqs) m a p = has_permission auth st m a p))
  /\
  (forall auth st admin r st',
     manage_permissions auth st admin r = (st', true) ->
     (admin = auth \/ In (u_market r, admin, PPermissions) st) /\
     (forall a p, revokes r a p = true -> grants r a p = false -> ~ In (u_market r, a, p) st') /\
     (forall a p, grants r a p = true -> In (u_market r, a, p) st'))
  /\
  (forall auth st admin r st',
     manage_permissions auth st admin r = (st', true) ->
     forall a p, revokes r a p = true -> grants r a p = false -> a <> auth ->
     forall row, In row gen_endpoints -> documented_requirement (ep_name row) = RPerm p ->
       endpoint_allowed (ep_name row) auth st' (u_market r) a = false).
Proof. exact (conj grant_frame (conj manage_success_effects revocation_immediate)). Qed.
Print Assumptions C11_grant_frame.

(** A rejected request (guard or UpdatePermissions error) changes nothing at all. *)
Theorem C11_rejected_grant_changes_nothing : forall auth st admin r st',
  manage_permissions auth st admin r = (st', false) -> st' = st.
Proof. exact manage_permissions_rejected_unchanged. Qed.
Print Assumptions C11_rejected_grant_changes_nothing.

(** Users cancel only their own orders: a successful CancelOrder was signed by the order's owner,
    the authority, or a holder of PERMISSION_CANCEL on the ORDER'S market (whatever other market the
    signer holds it on), and removes only that order; an order survives every sequence of
    cancellations by other signers; and (order ids being unique) exactly those signers succeed. *)
Theorem C11_own_orders_only :
  (forall auth st orders oid signer orders',
     cancel_order auth st orders oid signer = (orders', true) ->
     exists o, In o orders /\ o_id o = oid /\
       (signer = o_owner o \/ signer = auth \/ In (o_market o, signer, PCancel) st) /\
       (forall o', In o' orders -> o' <> o -> In o' orders'))
  /\
  (forall auth st ops orders o,
     In o orders ->
     (forall op, In op ops -> snd op <> o_owner o /\ snd op <> auth /\ ~ In (o_market o, snd op, PCancel) st) ->
     In o (run_cancels auth st orders ops))
  /\
  (forall auth st orders oid signer, NoDup (map o_id orders) ->
     (snd (cancel_order auth st orders oid signer) = true <->
      exists o, In o orders /\ o_id o = oid /\
        (signer = o_owner o \/ signer = auth \/ In (o_market o, signer, PCancel) st))).
Proof. exact (conj cancel_order_success (conj own_orders_only cancel_order_iff)). Qed.
Print Assumptions C11_own_orders_only.

(** Payments, as an IFF per operation (payments being keyed by (source, external id), an invariant of
    every history): accept and reject succeed exactly for the TARGET of the payment named; RejectPayments
    exactly when the signer is the target of some payment of every listed source; CancelPayments exactly
    when every listed external id is a payment whose SOURCE is the signer; ChangePaymentTarget exactly
    for the source of the payment (and a different new target); CreatePayment exactly when the signer
    has no payment under that id.  An operation leaves every payment in which its signer has no role
    in place and unchanged; a payment survives every sequence of operations signed by accounts that
    are neither its source nor its target. *)
Theorem C11_payment_roles :
  (forall st s src ext, NoDup (map pkey st) ->
     (snd (pay_step st (PyAccept s src ext)) = true <->
      exists e, In e st /\ p_source e = src /\ p_ext e = ext /\ p_target e = Some s) /\
     (snd (pay_step st (PyReject s src ext)) = true <->
      exists e, In e st /\ p_source e = src /\ p_ext e = ext /\ p_target e = Some s))
  /\
  (forall st s srcs,
     snd (pay_step st (PyRejectAll s srcs)) = true <->
     srcs <> [] /\ nodup_N srcs = true /\
     forall src, In src srcs -> exists p, In p st /\ p_source p = src /\ p_target p = Some s)
  /\
  (forall st s exts,
     snd (pay_step st (PyCancel s exts)) = true <->
     exts <> [] /\ nodup_N exts = true /\
     forall ext, In ext exts -> exists p, In p st /\ p_ext p = ext /\ p_source p = s)
  /\
  (forall st s ext nt, NoDup (map pkey st) ->
     (snd (pay_step st (PyRetarget s ext nt)) = true <->
      exists e, In e st /\ p_source e = s /\ p_ext e = ext /\ p_target e <> nt))
  /\
  (forall st s ext tgt,
     snd (pay_step st (PyCreate s ext tgt)) = true <-> ~ exists p, In p st /\ p_source p = s /\ p_ext p = ext)
  /\
  (forall ops st, NoDup (map pkey st) -> NoDup (map pkey (run_payments st ops)))
  /\
  (forall st op p, In p st -> ~ role_of op p -> In p (fst (pay_step st op)))
  /\
  (forall ops st p,
     In p st ->
     (forall op, In op ops -> op_signer op <> p_source p /\ Some (op_signer op) <> p_target p) ->
     In p (run_payments st ops)).
Proof.
  exact (conj (fun st s src ext Hu => conj (accept_iff st s src ext Hu) (reject_iff st s src ext Hu))
        (conj reject_all_iff (conj cancel_iff (conj retarget_iff (conj create_iff
        (conj run_payments_keys_unique (conj pay_step_keeps payment_roles_history))))))).
Qed.
Print Assumptions C11_payment_roles.

(** What the payment model reads off the generated tables: the comparisons and store lookups of
    keeper/payments.go and the custom signers of msgs.go are the documented ones. *)
Theorem C11_payment_tables : accept_checks_target = true /\ reject_checks_target = true /\
  reject_all_by_target = true /\ cancel_by_source = true /\ retarget_by_source = true /\
  accept_signer_is_target = true /\ create_signer_is_source = true.
Proof. exact payment_tables. Qed.
Print Assumptions C11_payment_tables.

(** Exactness of the guards: for every endpoint of the generated table, getting past the guard is
    EQUIVALENT to the documented condition; an item (order / commitment) of market X is changed by a
    market endpoint exactly when the request names market X and the caller satisfies the documented
    condition on X (MarketSetOrderExternalID: exactly the authority and the holders of
    PERMISSION_SET_IDS on the ORDER'S market - not the order's owner, not a holder on another market). *)
Theorem C11_endpoint_allowed_iff :
  forall row, In row gen_endpoints ->
  forall auth st market caller,
    endpoint_allowed (ep_name row) auth st market caller = true <->
    match documented_requirement (ep_name row) with
    | RPerm p => caller = auth \/ In (market, caller, p) st
    | RAuthority => caller = auth
    | RRejectAll => False
    | RDelegated _ => True
    | RUnknown => False
    end.
Proof. exact endpoint_allowed_iff. Qed.
Print Assumptions C11_endpoint_allowed_iff.

Theorem C11_cross_market_items_iff :
  forall row, In row gen_endpoints ->
  forall auth st req_market item_market caller,
    item_changed (ep_name row) auth st req_market item_market caller = true <->
    req_market = item_market /\
    match documented_requirement (ep_name row) with
    | RPerm p => caller = auth \/ In (item_market, caller, p) st
    | RAuthority => caller = auth
    | RRejectAll => False
    | RDelegated _ => True
    | RUnknown => False
    end.
Proof. exact item_changed_iff. Qed.
Print Assumptions C11_cross_market_items_iff.

(** Permissions are per market: holding the documented permission on any OTHER market does not help. *)
Theorem C11_permissions_are_per_market :
  forall row, In row gen_endpoints ->
  forall p, documented_requirement (ep_name row) = RPerm p ->
  forall auth st market caller,
    caller <> auth -> ~ In (market, caller, p) st ->
    endpoint_allowed (ep_name row) auth st market caller = false.
Proof. exact per_market. Qed.
Print Assumptions C11_permissions_are_per_market.

(** THE GUARD DOMINATES EVERY EFFECT.  For every MsgServer method of x/exchange/keeper/msg_server.go,
    on EVERY path through its body (Gen/GenHandlerPaths.v: if/else, switch, loops, returns, panics;
    no goto / label / select / go anywhere): every call that can write state and every successful
    return is preceded, on that path, by the PASS branch of the endpoint's documented guard - the Can*
    helper testing exactly the documented permission on the request's own MarketId and Admin, or
    ValidateAuthority on the request's Authority; deprecated endpoints have no effect on any path.
    (No early store write before the check, no path around it, the failing branch reaches no write.) *)
Theorem C11_guard_dominates_effects :
  forall r, In r gen_exchange_paths -> hp_kind r = "exchange" ->
  forall p, In p (hp_paths r) ->
    (forall w, ~ In (EvUnstructured w) p) /\
    forall i e, nth_error p i = Some e -> is_effect e = true ->
      match documented_requirement (hp_endpoint r) with
      | RPerm perm =>
          exists j h, j < i /\ nth_error p j = Some (EvGuard true (GCan h "msg.MarketId" "msg.Admin"))
                      /\ helper_perm h = Some perm
      | RAuthority =>
          exists j via, j < i /\ nth_error p j = Some (EvGuard true (GAuth "msg.Authority" via))
                        /\ via_ok "exchange" via = true
      | RRejectAll => False
      | RDelegated _ => True
      | RUnknown => False
      end.
Proof. exact guard_dominates_effects. Qed.
Print Assumptions C11_guard_dominates_effects.

(** The same for the keeper functions the un-guarded handlers delegate to: on every path of
    Keeper.CancelOrder every write comes after "signer = owner or CanCancelOrdersForMarket(order's
    market, signer)" held; of SetOrderExternalID after "the request's market = the order's market" held;
    of AcceptPayment / RejectPayment after "the given target = the stored payment's target" held. *)
Theorem C11_keeper_checks_dominate :
  forall r, In r gen_exchange_paths -> hp_kind r = "keeper" ->
  forall p, In p (hp_paths r) ->
    (forall w, ~ In (EvUnstructured w) p) /\
    forall i e, nth_error p i = Some e -> is_effect e = true ->
      exists j g, j < i /\ nth_error p j = Some (EvGuard true g) /\ keeper_acceptable (hp_endpoint r) g = true.
Proof. exact keeper_checks_dominate. Qed.
Print Assumptions C11_keeper_checks_dominate.

(** And for every Msg handler of every module whose request has an Authority field (open endpoint:
    oracle SendQueryOracle): every effect comes after the comparison of msg.Authority with the
    keeper's authority held - or, for the three documented exceptions, their documented alternative. *)
Theorem C11_gov_guard_dominates :
  forall r, In r gen_msg_paths -> hp_has_field r = true ->
  forall p, In p (hp_paths r) ->
    (forall w, ~ In (EvUnstructured w) p) /\
    (is_open_endpoint (hp_module r) (hp_endpoint r) = false ->
     forall i e, nth_error p i = Some e -> is_effect e = true ->
       exists j g, j < i /\ nth_error p j = Some (EvGuard true g)
                   /\ msg_acceptable (hp_module r) (hp_endpoint r) g = true).
Proof. exact msg_guard_dominates. Qed.
Print Assumptions C11_gov_guard_dominates.

(** The checker used for the three theorems above decides exactly dominance. *)
Theorem C11_path_checker_is_dominance : forall acc p,
  path_guarded acc p = true <->
  (forall i e, nth_error p i = Some e -> is_effect e = true ->
     exists j g, j < i /\ nth_error p j = Some (EvGuard true g) /\ acc g = true).
Proof. exact (fun acc p => conj (path_guarded_spec acc p) (path_guarded_complete acc p)). Qed.
Print Assumptions C11_path_checker_is_dominance.

(** No governance-only endpoint hides behind another field name: a handler of any module all of whose
    effects come after a bare comparison of SOME expression with the keeper's authority has an
    [Authority] field (so the harness' sweep over the message types with that field sees it); the
    handlers that compare another field with the authority are exactly the five reviewed ones, where
    the authority is an alternative to a right over the object; the path table and the guard tables
    list the same endpoints; every keeper's authority is initialised with the governance module
    account; MarketSetOrderExternalID hands (msg.MarketId, msg.OrderId) to SetOrderExternalID; and
    the only methods under x/ that consult their keeper's authority at all are the accessor functions,
    the Msg handlers of the path table, HasPermission and the two dry-run queries. *)
Theorem C11_authority_uses :
  (forall r, In r gen_msg_paths -> gov_only_by_paths r = true -> hp_has_field r = true) /\
  uses_match documented_authority_uses fieldless_rows = true /\
  authority_sources_ok = true /\
  same_endpoints = true /\ keeper_names_ok = true /\ same_gov_rows = true /\ gov_rows_agree = true /\
  set_ids_delegation_ok = true /\ authority_mentions_ok = true.
Proof.
  exact (conj gov_only_has_field (conj (proj1 authority_uses_check) (conj (proj2 authority_uses_check)
        (conj (proj2 exchange_rows_check) (conj (proj2 keeper_rows_check)
        (conj (proj1 (proj2 msg_rows_check)) (conj (proj2 (proj2 msg_rows_check)) (conj set_ids_delegation_check authority_mentions_check)))))))).
Qed.
Print Assumptions C11_authority_uses.

(** Query handlers of every module: structured control flow only, and every call that can write
    state is made on a context obtained from CacheContext() in the same function (or is one of the
    eleven reviewed calls whose name the read-only patterns do not cover); in the exchange module the
    handlers that call writing keeper code are exactly the two dry runs. *)
Theorem C11_query_handlers_branch_before_writing :
  (forall r, In r gen_query_handlers ->
     qh_unstructured r = [] /\
     forall w, In w (qh_writes r) ->
       qw_branched w = true \/ In (qh_module r, qw_call w) reviewed_query_calls) /\
  exchange_writing_queries = ["ValidateCreateMarket"; "ValidateManageFees"].
Proof. exact (conj query_handlers_branch (proj2 exchange_queries_branch)). Qed.
Print Assumptions C11_query_handlers_branch_before_writing.

(** QUERIES ARE READ-ONLY (frame statement over the model's query steps, whose effect is defined by
    the generated table): a query step of any exchange Query handler returns the world it was given,
    whatever authority string and market definition it carries; hence in any history the queries can
    be deleted without changing the outcome - in particular nobody gains a permission through one. *)
Theorem C11_queries_are_read_only :
  (forall r, In r gen_query_handlers -> qh_module r = "exchange" ->
     forall auth w a c, fst (wstep auth w (WQuery (qh_endpoint r) a c)) = w) /\
  (forall auth ops w,
     (forall name a c, In (WQuery name a c) ops ->
        exists r, In r gen_query_handlers /\ qh_module r = "exchange" /\ qh_endpoint r = name) ->
     wrun auth w ops = wrun auth w (filter (fun op => negb (is_query op)) ops)).
Proof. exact (conj query_step_read_only queries_do_not_matter). Qed.
Print Assumptions C11_queries_are_read_only.

(** A NEW MARKET HAS EXACTLY THE GRANTS IT WAS CREATED WITH.  In ANY world (so after any history -
    including one in which the authority granted permissions for that market id before the market
    existed): an accepted GovCreateMarket was signed by the authority for an id that did not exist;
    afterwards the permission entries of the new market are exactly those listed in the request, the
    entries of every other market are untouched; and an account the request does not list for
    permission p is rejected by every endpoint documented to need p on the new market. *)
Theorem C11_new_market_has_exactly_its_grants :
  (forall auth w caller c w',
     wstep auth w (WCreate caller c) = (w', true) ->
     caller = auth /\ market_exists w (c_market c) = false /\
     w_markets w' = c_market c :: w_markets w /\
     (forall a p, In (c_market c, a, p) (w_grants w') <-> exists ps, In (a, ps) (c_grants c) /\ In p ps) /\
     (forall m a p, m <> c_market c -> (In (m, a, p) (w_grants w') <-> In (m, a, p) (w_grants w))))
  /\
  (forall auth ops w0 caller c w',
     wstep auth (wrun auth w0 ops) (WCreate caller c) = (w', true) ->
     forall row, In row gen_endpoints -> forall p, documented_requirement (ep_name row) = RPerm p ->
     forall a, a <> auth -> lists_grant c a p = false ->
       endpoint_allowed (ep_name row) auth (w_grants w') (c_market c) a = false).
Proof.
  exact (conj create_step_success
        (fun auth ops w0 caller c w' H => new_market_rejects_unlisted auth (wrun auth w0 ops) caller c w' H)).
Qed.
Print Assumptions C11_new_market_has_exactly_its_grants.

(** A rejected step of a history (any kind) changes nothing. *)
Theorem C11_rejected_step_changes_nothing : forall auth w op w', wstep auth w op = (w', false) -> w' = w.
Proof. exact wstep_rejected_unchanged. Qed.
Print Assumptions C11_rejected_step_changes_nothing.

(** THE GOVERNANCE-RESERVED BRANCH of a market endpoint.  The exchange handlers that test both a Can*
    permission and the authority are, by the generated path table, exactly MarketUpdateAcceptingCommitments;
    on every path of it the caller was found to be the authority or validateMarketUpdateAcceptingCommitments
    (documented shape: "already has that value", and turning commitments ON needs settlement bips > 0 or a
    create-commitment flat fee) returned no error before any effect.  So: the flag is turned exactly by the
    authority or a holder of PERMISSION_UPDATE on that market, to a different value, and - unless the caller
    is the authority - ON only when the market has commitment fees; the fee options are changed only by
    the authority; hence over EVERY history of accepting-commitments / intermediary-denom / fee requests
    in which the authority does not act, a market without commitment fees that does not accept
    commitments still has no fees and still does not accept commitments (the intermediary denom, which a
    PERMISSION_UPDATE holder may set, makes no difference). *)
Theorem C11_governance_reserved_branch :
  reserved_branch_endpoints = ["MarketUpdateAcceptingCommitments"] /\ commit_rule_checked = true /\
  (forall auth st m c caller new_allow,
     snd (commit_step auth st m c (CoAccepting caller new_allow)) = true <->
     (caller = auth \/ In (m, caller, PUpdate) st) /\
     mc_accepting c <> new_allow /\
     (caller = auth \/ new_allow = false \/ mc_bips c = true \/ mc_cfee c = true)) /\
  (forall auth st m c caller a r sb ub c',
     commit_step auth st m c (CoFees caller a r sb ub) = (c', true) -> caller = auth) /\
  (forall auth st m c op c', commit_step auth st m c op = (c', false) -> c' = c) /\
  (forall auth st m ops c,
     (forall op, In op ops -> cop_caller op <> auth) ->
     mc_accepting c = false -> mc_bips c = false -> mc_cfee c = false ->
     let c' := commit_run auth st m c ops in
     mc_accepting c' = false /\ mc_bips c' = false /\ mc_cfee c' = false).
Proof.
  exact (conj (proj2 commit_tables_check) (conj (proj1 commit_tables_check) (conj accepting_iff
        (conj fees_only_by_authority (conj commit_step_rejected_unchanged no_commitments_without_authority))))).
Qed.
Print Assumptions C11_governance_reserved_branch.

(** Non-vacuity: a concrete store where the guard separates callers, a request sequence that
    really grants and revokes while an unnamed triple stays, a cancellation by a permitted
    non-owner, and a payment a third party cannot touch. *)
Example C11_witness :
  let st := [(1, 5, PSetIds); (2, 6, PSettle)]%N in
  (* account 5 may set ids on market 1 but not settle there; account 6's permission on market 2
     does not count on market 1; the authority (0) passes *)
  endpoint_allowed "MarketSetOrderExternalID" 0 st 1 5 = true /\
  endpoint_allowed "MarketSettle" 0 st 1 5 = false /\
  endpoint_allowed "MarketSettle" 0 st 1 6 = false /\
  endpoint_allowed "MarketSettle" 0 st 2 6 = true /\
  endpoint_allowed "MarketSettle" 0 st 1 0 = true /\
  endpoint_allowed "MarketUpdateEnabled" 0 st 1 0 = false /\
  (* grant then revoke-all for account 7 on market 1 by the authority; (1,5,set_ids) stays *)
  run_manage 0 st [(0, {| u_market := 1; u_revoke_all := []; u_to_revoke := []; u_to_grant := [(7, [PCancel; PUpdate])] |});
                   (7, {| u_market := 1; u_revoke_all := []; u_to_revoke := []; u_to_grant := [(8, [PCancel])] |});
                   (0, {| u_market := 1; u_revoke_all := [7]; u_to_revoke := []; u_to_grant := [] |})]%N
    = st /\
  snd (cancel_order 0 [(1, 9, PCancel)]%N [{| o_id := 4; o_market := 1; o_owner := 3 |}]%N 4 9) = true /\
  snd (cancel_order 0 [(2, 9, PCancel)]%N [{| o_id := 4; o_market := 1; o_owner := 3 |}]%N 4 9) = false /\
  pay_step [{| p_source := 1; p_ext := 7; p_target := Some 2 |}]%N (PyAccept 3 1 7)%N
    = ([{| p_source := 1; p_ext := 7; p_target := Some 2 |}]%N, false) /\
  pay_step [{| p_source := 1; p_ext := 7; p_target := Some 2 |}]%N (PyAccept 2 1 7)%N = ([], true).
Proof. vm_compute. repeat split. Qed.

(** Non-vacuity of the history theorems: the authority grants account 5 two permissions on market 9
    BEFORE that market exists (5 can then withdraw from it); GovCreateMarket for id 9 naming only account
    6 wipes them (5 is rejected, 6 passes); a stranger's second creation and a non-authority's creation
    are rejected; a dry-run query carrying the authority STRING reports success and changes nothing;
    revoking takes effect at once; and the generated path table really contains a guarded write. *)
Example C11_witness_world :
  let w0 := {| w_grants := [(1, 5, PSettle)]%N; w_markets := [1; 2]%N |} in
  let early := WManage 0%N {| u_market := 9%N; u_revoke_all := []; u_to_revoke := [];
                              u_to_grant := [(5, [PWithdraw; PPermissions])]%N |} in
  let create := WCreate 0%N {| c_market := 9%N; c_grants := [(6%N, all_perms)] |} in
  let dry := WQuery "ValidateCreateMarket" 0%N {| c_market := 77%N; c_grants := [(8%N, all_perms)] |} in
  endpoint_allowed "MarketWithdraw" 0%N (w_grants (wrun 0%N w0 [early])) 9%N 5%N = true /\
  endpoint_allowed "MarketWithdraw" 0%N (w_grants (wrun 0%N w0 [early; create])) 9%N 5%N = false /\
  endpoint_allowed "MarketWithdraw" 0%N (w_grants (wrun 0%N w0 [early; create])) 9%N 6%N = true /\
  store_has (w_grants (wrun 0%N w0 [early; create])) 1%N 5%N PSettle = true /\
  snd (wstep 0%N (wrun 0%N w0 [early; create]) create) = false /\
  snd (wstep 0%N w0 (WCreate 6%N {| c_market := 9%N; c_grants := [(6%N, all_perms)] |})) = false /\
  wstep 0%N w0 dry = (w0, true) /\
  wrun 0%N w0 [dry; early; dry; create] = wrun 0%N w0 [early; create] /\
  (let revoke := WManage 6%N {| u_market := 9%N; u_revoke_all := [6%N]; u_to_revoke := []; u_to_grant := [] |} in
   snd (wstep 0%N (wrun 0%N w0 [early; create]) revoke) = true /\
   endpoint_allowed "MarketSettle" 0%N (w_grants (wrun 0%N w0 [early; create; revoke])) 9%N 6%N = false) /\
  existsb (fun r => (hp_endpoint r =? "MarketWithdraw") &&
                    existsb (fun p => existsb is_effect p && path_guarded (acceptable (RPerm PWithdraw)) p) (hp_paths r))
          gen_exchange_paths = true.
Proof. vm_compute. repeat split. Qed.

(** Non-vacuity of the reserved branch: account 5 holds PERMISSION_UPDATE on market 3, which has no
    commitment fees: it may set the intermediary denom but not turn commitments on, before or after;
    the authority may; once the authority has defined a create-commitment fee, account 5 may too. *)
Example C11_witness_reserved_branch :
  let st := [(3, 5, PUpdate)]%N in
  let c0 := {| mc_accepting := false; mc_bips := false; mc_cfee := false; mc_denom := false |} in
  snd (commit_step 0%N st 3%N c0 (CoAccepting 5%N true)) = false /\
  commit_run 0%N st 3%N c0 [CoDenom 5%N true; CoAccepting 5%N true]
    = {| mc_accepting := false; mc_bips := false; mc_cfee := false; mc_denom := true |} /\
  snd (commit_step 0%N st 3%N c0 (CoAccepting 0%N true)) = true /\
  snd (commit_step 0%N st 3%N c0 (CoFees 5%N true false false false)) = false /\
  mc_accepting (commit_run 0%N st 3%N c0 [CoFees 0%N true false false false; CoAccepting 5%N true]) = true /\
  snd (commit_step 0%N st 3%N c0 (CoAccepting 6%N true)) = false.
Proof. vm_compute. repeat split. Qed.
