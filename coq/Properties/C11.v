(** C11 — Privileged endpoints reject callers without the specific authority.
    Only theorem statements here; each is closed by [exact] of a lemma of Proofs/PermsProofs.v
    about the models Exchange/Perms.v and Exchange/GovGuards.v, which are defined FROM the tables
    regenerated from the Go source on every run (Gen/GenExchangePerms.v, Gen/GenGovEndpoints.v). *)
From Coq Require Import List String Bool NArith.
Import ListNotations.
From PV Require Import Exchange.Perms Exchange.GovGuards Gen.GenExchangePerms Gen.GenGovEndpoints
  Proofs.PermsProofs.
Open Scope string_scope.

(** For every endpoint of the generated table, every store of grants, every market and caller:
    getting past the endpoint's guard implies the caller is the authority or holds THE DOCUMENTED
    permission on THAT market (authority endpoints: is the authority; deprecated endpoints:
    nobody passes; every generated endpoint is documented). *)
Theorem C11_endpoint_needs_its_permission :
  forall row, In row gen_endpoints ->
  forall auth st market caller,
    endpoint_allowed (ep_name row) auth st market caller = true ->
    match documented_requirement (ep_name row) with
    | RPerm p => caller = auth \/ In (market, caller, p) st
    | RAuthority => caller = auth
    | RRejectAll => False
    | RDelegated _ => True
    | RUnknown => False
    end.
Proof. exact endpoint_needs_its_permission. Qed.
Print Assumptions C11_endpoint_needs_its_permission.

(** Cross-market targets: an item of market X is changed by a market endpoint only for a caller
    who is the authority or holds the documented permission on market X itself, whatever market the
    request names. *)
Theorem C11_cross_market_items :
  forall row, In row gen_endpoints ->
  forall auth st req_market item_market caller,
    item_changed (ep_name row) auth st req_market item_market caller = true ->
    match documented_requirement (ep_name row) with
    | RPerm p => caller = auth \/ In (item_market, caller, p) st
    | RAuthority => caller = auth
    | RRejectAll => False
    | RDelegated _ => True
    | RUnknown => False
    end.
Proof. exact cross_market_items. Qed.
Print Assumptions C11_cross_market_items.

(** The table computed from the Go source (endpoint -> guard -> Can* helper -> Permission_*
    constant, in source order) is the documented table; endpoint names are unique; HasPermission and
    storeHasPermission have the documented shape (authority short-circuit, then the store key of
    exactly (marketID, addr, permission)). *)
Theorem C11_generated_equals_documented :
  tables_match documented_endpoints generated_requirements = true
  /\ nodup_strings (map ep_name gen_endpoints) = true
  /\ has_permission_shape_ok = true.
Proof. exact generated_equals_documented. Qed.
Print Assumptions C11_generated_equals_documented.

(** The same, spelled out for the privileged endpoints. *)
Theorem C11_generated_market_permissions :
  map (fun n => (n, endpoint_requirement n))
      ["MarketSettle"; "MarketCommitmentSettle"; "MarketReleaseCommitments"; "MarketSetOrderExternalID";
       "MarketWithdraw"; "MarketUpdateDetails"; "MarketUpdateEnabled"; "MarketUpdateAcceptingOrders";
       "MarketUpdateUserSettle"; "MarketUpdateAcceptingCommitments"; "MarketUpdateIntermediaryDenom";
       "MarketManagePermissions"; "MarketManageReqAttrs"; "GovUpdateParams"]
  = [("MarketSettle", RPerm PSettle); ("MarketCommitmentSettle", RPerm PSettle);
     ("MarketReleaseCommitments", RPerm PCancel); ("MarketSetOrderExternalID", RPerm PSetIds);
     ("MarketWithdraw", RPerm PWithdraw); ("MarketUpdateDetails", RPerm PUpdate);
     ("MarketUpdateEnabled", RRejectAll); ("MarketUpdateAcceptingOrders", RPerm PUpdate);
     ("MarketUpdateUserSettle", RPerm PUpdate); ("MarketUpdateAcceptingCommitments", RPerm PUpdate);
     ("MarketUpdateIntermediaryDenom", RPerm PUpdate); ("MarketManagePermissions", RPerm PPermissions);
     ("MarketManageReqAttrs", RPerm PAttributes); ("GovUpdateParams", RRejectAll)].
Proof. exact generated_market_permissions. Qed.
Print Assumptions C11_generated_market_permissions.

(** Every handler of every module whose request carries an Authority field, unless documented as
    usable by another party, compares that field with the keeper's configured authority (through a
    GetAuthority / ValidateAuthority / IsAuthority body of accepted shape) — or rejects
    unconditionally — as the FIRST statement that touches the keeper; the documented exceptions
    have exactly the documented alternative and write nothing before it. *)
Theorem C11_gov_only :
  forall r, In r gen_gov_endpoints ->
    match exception_of r with
    | None =>
        (exists via, gv_guard r = GvAuthority via /\ via_ok (gv_module r) via = true) \/ gv_guard r = GvReject
    | Some g => gv_guard r = g
    end /\
    match exception_of r with
    | None => gv_precalls r = []
    | Some (GvNone _) => True
    | Some _ => gv_pre_write r = false
    end.
Proof. exact gov_only. Qed.
Print Assumptions C11_gov_only.

(** Granting or revoking changes nothing for any other account, permission or market: over ANY
    sequence of MarketManagePermissions requests (by any admins, accepted or not), a triple that
    no request names is in the store afterwards iff it was before, and HasPermission agrees. *)
Theorem C11_grant_frame : forall auth reqs st g,
  (forall ar, In ar reqs -> names_grant (snd ar) g = false) ->
  (In g (run_manage auth st reqs) <-> In g st) /\
  (let '(m, a, p) := g in
   store_has (run_manage auth st reqs) m a p = store_has st m a p /\
   has_permission auth (run_manage auth st reqs) m a p = has_permission auth st m a p).
Proof. exact grant_frame. Qed.
Print Assumptions C11_grant_frame.

(** A rejected request (guard or UpdatePermissions error) changes nothing at all. *)
Theorem C11_rejected_grant_changes_nothing : forall auth st admin r st',
  manage_permissions auth st admin r = (st', false) -> st' = st.
Proof. exact manage_permissions_rejected_unchanged. Qed.
Print Assumptions C11_rejected_grant_changes_nothing.

(** Users cancel only their own orders: a successful CancelOrder was signed by the order's owner,
    the authority, or a holder of PERMISSION_CANCEL on the order's market, and removes only that
    order; and an order survives every sequence of cancellations by other signers. *)
Theorem C11_own_orders_only :
  (forall auth st orders oid signer orders',
     cancel_order auth st orders oid signer = (orders', true) ->
     exists o, In o orders /\ o_id o = oid /\
       (signer = o_owner o \/ signer = auth \/ In (o_market o, signer, PCancel) st) /\
       (forall o', In o' orders -> o' <> o -> In o' orders'))
  /\
  (forall auth st ops orders o,
     In o orders ->
     (forall op, In op ops -> snd op <> o_owner o /\ snd op <> auth /\ ~ In (o_market o, snd op, PCancel) st) ->
     In o (run_cancels auth st orders ops)).
Proof. exact (conj cancel_order_success own_orders_only). Qed.
Print Assumptions C11_own_orders_only.

(** Payments: accept / reject succeed only for the payment's target; an operation leaves every
    payment in which its signer has no role (target for accept/reject, source for cancel/retarget)
    in place and unchanged; hence a payment survives every sequence of operations signed by
    accounts that are neither its source nor its target. *)
Theorem C11_payment_roles :
  (forall st s src ext st',
     (pay_step st (PyAccept s src ext) = (st', true) \/ pay_step st (PyReject s src ext) = (st', true)) ->
     exists e, In e st /\ p_source e = src /\ p_ext e = ext /\ p_target e = Some s)
  /\
  (forall st op p, In p st -> ~ role_of op p -> In p (fst (pay_step st op)))
  /\
  (forall ops st p,
     In p st ->
     (forall op, In op ops -> op_signer op <> p_source p /\ Some (op_signer op) <> p_target p) ->
     In p (run_payments st ops)).
Proof. exact (conj pay_step_accept_reject_by_target (conj pay_step_keeps payment_roles_history)). Qed.
Print Assumptions C11_payment_roles.

(** What the payment model reads off the generated tables: the comparisons and store lookups of
    keeper/payments.go and the custom signers of msgs.go are the documented ones. *)
Theorem C11_payment_tables : accept_checks_target = true /\ reject_checks_target = true /\
  reject_all_by_target = true /\ cancel_by_source = true /\ retarget_by_source = true /\
  accept_signer_is_target = true /\ create_signer_is_source = true.
Proof. exact payment_tables. Qed.
Print Assumptions C11_payment_tables.

(** Non-vacuity: a concrete store where the guard separates callers, a request sequence that
    really grants and revokes while an unnamed triple stays, a cancellation by a permitted
    non-owner, and a payment a third party cannot touch. *)
Example C11_witness :
  let st := [(1, 5, PSetIds); (2, 6, PSettle)]%N in
  (* account 5 may set ids on market 1 but not settle there; account 6's permission on market 2
     does not count on market 1; the authority (0) passes *)
  endpoint_allowed "MarketSetOrderExternalID" 0 st 1 5 = true /\
  endpoint_allowed "MarketSettle" 0 st 1 5 = false /\
  endpoint_allowed "MarketSettle" 0 st 1 6 = false /\
  endpoint_allowed "MarketSettle" 0 st 2 6 = true /\
  endpoint_allowed "MarketSettle" 0 st 1 0 = true /\
  endpoint_allowed "MarketUpdateEnabled" 0 st 1 0 = false /\
  (* grant then revoke-all for account 7 on market 1 by the authority; (1,5,set_ids) stays *)
  run_manage 0 st [(0, {| u_market := 1; u_revoke_all := []; u_to_revoke := []; u_to_grant := [(7, [PCancel; PUpdate])] |});
                   (7, {| u_market := 1; u_revoke_all := []; u_to_revoke := []; u_to_grant := [(8, [PCancel])] |});
                   (0, {| u_market := 1; u_revoke_all := [7]; u_to_revoke := []; u_to_grant := [] |})]%N
    = st /\
  snd (cancel_order 0 [(1, 9, PCancel)]%N [{| o_id := 4; o_market := 1; o_owner := 3 |}]%N 4 9) = true /\
  snd (cancel_order 0 [(2, 9, PCancel)]%N [{| o_id := 4; o_market := 1; o_owner := 3 |}]%N 4 9) = false /\
  pay_step [{| p_source := 1; p_ext := 7; p_target := Some 2 |}]%N (PyAccept 3 1 7)%N
    = ([{| p_source := 1; p_ext := 7; p_target := Some 2 |}]%N, false) /\
  pay_step [{| p_source := 1; p_ext := 7; p_target := Some 2 |}]%N (PyAccept 2 1 7)%N = ([], true).
Proof. vm_compute. repeat split. Qed.
