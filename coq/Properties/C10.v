(** C10 — Metadata writes require the signatures that the party rules demand.
    Only theorem statements here; each is closed by [exact] of a lemma proved in
    Proofs/SignersProofs{,2,3}.v about the model Metadata/Signers.v (transcription of
    x/metadata/keeper/signers.go and of the callers in scope.go / session.go / record.go).
    The declarative vocabulary ([covered], [role_assignment], [provenance_rule], [contract_rule],
    [stands_for_party], [is_party_signer], the documented endpoint table) is Metadata/SignersSpec.v.

    Domain: addresses are valid account addresses interned to Z; roles are PartyType numbers;
    [e_grants e] are the generic (never consumed) authorizations that count for the message at
    hand; count-limited authorizations and scope value owners are outside (see the model header). *)
From Coq Require Import ZArith List Bool.
Import ListNotations.
From PV Require Import Metadata.Signers Metadata.SignersSpec
  Proofs.SignersProofs Proofs.SignersProofs2 Proofs.SignersProofs3.
Open Scope Z_scope.

(** Soundness of ValidateSignersWithParties: an accepted message accounts, by a signer or by an
    authz grant to a signer, for every non-optional required party; there EXISTS an injective
    assignment of the required-role entries (with repeats) to pairwise distinct available parties
    of the entry's role whose signature is accounted for; available parties are smart contracts
    exactly when their role is PROVENANCE; and every smart-contract signer has only smart contracts
    before it and either stands for a party or holds a grant from every signer after it (and is
    not last). *)
Theorem C10_sound : forall e req avail roles signers,
  validate_signers_with_parties e req avail roles signers = true ->
  (forall p, In p req -> p_opt p = false -> covered e signers (p_addr p)) /\
  role_assignment (covered e signers) avail roles /\
  provenance_rule e avail /\
  contract_rule e (stands_for_party e req avail) signers.
Proof. exact with_parties_sound. Qed.
Print Assumptions C10_sound.

(** The mathematical core: the two greedy passes (each signing party used for at most one
    required-role entry; signed parties first, then parties that granted to a signer) succeed
    exactly when the coverage holds and an injective assignment exists — greedy is optimal because
    a party serves only its own role. *)
Theorem C10_greedy_is_matching : forall e req avail roles signers,
  (exists ds, validate_all_required_parties_signed e req avail roles signers = Some ds) <->
  ((forall p, In p req -> p_opt p = false -> covered e signers (p_addr p)) /\
   role_assignment (covered e signers) avail roles).
Proof. exact all_required_parties_signed_spec. Qed.
Print Assumptions C10_greedy_is_matching.

(** Completeness: the documented rule, with "is a party" for smart-contract signers, is enough. *)
Theorem C10_complete : forall e req avail roles signers,
  (forall p, In p req -> p_opt p = false -> covered e signers (p_addr p)) ->
  role_assignment (covered e signers) avail roles ->
  provenance_rule e avail ->
  contract_rule e (is_party_signer req avail) signers ->
  validate_signers_with_parties e req avail roles signers = true.
Proof. exact with_parties_complete. Qed.
Print Assumptions C10_complete.

(** When every required party signs directly and the required roles are present among the
    directly signing parties, the write is accepted. *)
Theorem C10_complete_direct : forall e req avail roles signers,
  (forall p, In p req -> p_opt p = false -> In (p_addr p) signers) ->
  role_assignment (fun a => In a signers) avail roles ->
  provenance_rule e avail ->
  contract_rule e (is_party_signer req avail) signers ->
  validate_signers_with_parties e req avail roles signers = true.
Proof. exact with_parties_complete_direct. Qed.
Print Assumptions C10_complete_direct.

(** Without smart-contract signers the documented rule is exactly what is enforced. *)
Theorem C10_exact_without_contract_signers : forall e req avail roles signers,
  (forall s, In s signers -> is_wasm e s = false) ->
  (validate_signers_with_parties e req avail roles signers = true <->
   (forall p, In p req -> p_opt p = false -> covered e signers (p_addr p)) /\
   role_assignment (covered e signers) avail roles /\
   provenance_rule e avail).
Proof. exact with_parties_exact_no_contract. Qed.
Print Assumptions C10_exact_without_contract_signers.

(** ValidateSignersWithoutParties (party rollup off: plain address lists). *)
Theorem C10_sound_without_parties : forall e required signers,
  validate_signers_without_parties e required signers = true ->
  (forall a, In a required -> covered e signers a) /\
  contract_rule e (fun s => exists a, In a required /\ (a = s \/ granted e a s = true)) signers.
Proof. exact without_parties_sound. Qed.
Print Assumptions C10_sound_without_parties.

Theorem C10_complete_direct_without_parties : forall e required signers,
  (forall a, In a required -> In a signers) ->
  contract_rule e (fun s => In s required) signers ->
  validate_signers_without_parties e required signers = true.
Proof. exact without_parties_complete_direct. Qed.
Print Assumptions C10_complete_direct_without_parties.

(** Smart-contract signers: the loop of validateSmartContractSigners is the position rule, for
    whatever set of "used" signers it is given. *)
Theorem C10_contract_positions : forall e used signers,
  validate_smart_contract_signers e used signers = true <->
  contract_rule e (fun s => In s used) signers.
Proof. exact sc_loop_spec. Qed.
Print Assumptions C10_contract_positions.

(** KNOWN FINDING.  spec/01_concepts.md: "If a smart contract is a signer, but not a party, it
    cannot be the only signer, and cannot be the last signer."  Read literally ("used" = is itself
    one of the parties) this is false of the code: a contract that merely holds a party's grant is
    accepted as the only signer. *)
Theorem C10_contract_literal_refuted :
  exists e req avail roles signers,
    validate_signers_with_parties e req avail roles signers = true /\
    ~ contract_rule e (is_party_signer req avail) signers.
Proof. exact with_parties_literal_refuted. Qed.
Print Assumptions C10_contract_literal_refuted.

(** Strongest true statement: the literal reading holds whenever no party whose signature the rules
    look at has granted to a smart-contract signer. *)
Theorem C10_contract_literal_except_grantees : forall e req avail roles signers,
  validate_signers_with_parties e req avail roles signers = true ->
  (forall s p, In s signers -> is_wasm e s = true -> In p (considered req avail) ->
               granted e (p_addr p) s = false) ->
  contract_rule e (is_party_signer req avail) signers.
Proof. exact with_parties_literal_except_grantees. Qed.
Print Assumptions C10_contract_literal_except_grantees.

(** The endpoints (MsgWriteScope new/existing, MsgDeleteScope, MsgAdd/DeleteScopeOwner,
    MsgWriteSession, MsgWriteRecord, MsgDeleteRecord; rollup on and off): an accepted message
    accounts for every address the documented table names, and a signed injective role assignment
    exists for the table's (parties, roles) pair. *)
Theorem C10_endpoints_sound : forall e op signers,
  outer_accept e op signers = true ->
  (forall a, In a (doc_required_addrs op) -> covered e signers a) /\
  (forall avail roles, doc_role_pool op = Some (avail, roles) ->
     role_assignment (covered e signers) avail roles).
Proof. exact outer_sound. Qed.
Print Assumptions C10_endpoints_sound.

(** In particular, when a record moves to another session the previous session's parties
    (all of them without rollup, the non-optional ones with rollup) are accounted for. *)
Theorem C10_record_move_previous_session : forall e rollup owners session old roles signers,
  outer_accept e (OWriteRecord rollup owners session (Some old) roles) signers = true ->
  forall p, In p old -> (rollup = false \/ p_opt p = false) -> covered e signers (p_addr p).
Proof. exact record_move_sound. Qed.
Print Assumptions C10_record_move_previous_session.

(** The brute-force search used by the correspondence checker decides the assignment's existence. *)
Theorem C10_checker_decides_assignment : forall e signers avail roles,
  roles_signed_b e signers avail roles = true <-> role_assignment (covered e signers) avail roles.
Proof. exact roles_signed_b_spec. Qed.
Print Assumptions C10_checker_decides_assignment.

(** Non-vacuity: scope owners 1 (CONTROLLER, required), 2 and 3 (SERVICER, optional), 4 (SERVICER,
    optional); two SERVICER signatures required; 1 and 2 sign, 3 has granted to 2's co-signer 7.
    Accepted; without the grant only one SERVICER is signing and it is rejected; the same party
    cannot fill both SERVICER entries. *)
Example C10_witness :
  let owners := [ {| p_addr := 1; p_role := 10; p_opt := false |};
                  {| p_addr := 2; p_role := 2; p_opt := true |};
                  {| p_addr := 3; p_role := 2; p_opt := true |};
                  {| p_addr := 4; p_role := 2; p_opt := true |} ] in
  let e := {| e_wasm := []; e_grants := [(3, 7)] |} in
  let e0 := {| e_wasm := []; e_grants := [] |} in
  validate_signers_with_parties e owners owners [2; 2] [1; 2; 7] = true /\
  validate_signers_with_parties e0 owners owners [2; 2] [1; 2; 7] = false /\
  validate_signers_with_parties e owners owners [2; 2] [2; 7] = false /\
  outer_accept e (OWriteRecord true owners owners (Some [ {| p_addr := 5; p_role := 5; p_opt := false |} ]) [2])
               [1; 2] = false.
Proof. vm_compute. repeat split. Qed.
