(** C10 — Metadata writes require the signatures that the party rules demand.
    Only theorem statements here; each is closed by [exact] of a lemma proved in
    Proofs/SignersProofs{,2,3,4,5,6}.v and Proofs/AuthzCountProofs.v about the model Metadata/Signers.v (transcription of
    x/metadata/keeper/signers.go and of the callers in scope.go / session.go / record.go).
    The declarative vocabulary ([covered], [role_assignment], [provenance_rule], [contract_rule],
    [stands_for_party], [is_party_signer], the documented endpoint table) is Metadata/SignersSpec.v.

    Domain: addresses are valid account addresses interned to Z; roles are PartyType numbers;
    [e_grants e] are the generic (never consumed) authorizations that count for the message at
    hand; count-limited authorizations and scope value owners are outside (see the model header). *)
From Coq Require Import ZArith List Bool.
Import ListNotations.
From PV Require Import Metadata.Signers Metadata.SignersSpec Metadata.AuthzCount
  Proofs.SignersProofs Proofs.SignersProofs2 Proofs.SignersProofs3 Proofs.SignersProofs4
  Proofs.SignersProofs5 Proofs.SignersProofs6 Proofs.AuthzCountProofs.
Open Scope Z_scope.

(** Soundness of ValidateSignersWithParties: an accepted message accounts, by a signer or by an
    authz grant to a signer, for every non-optional required party; there EXISTS an injective
    assignment of the required-role entries (with repeats) to pairwise distinct available parties
    of the entry's role whose signature is accounted for; available parties are smart contracts
    exactly when their role is PROVENANCE; and every smart-contract signer has only smart contracts
    before it and either stands for a party or holds a grant from every signer after it (and is
    not last). *)
Theorem C10_sound : forall e req avail roles signers,
  validate_signers_with_parties e req avail roles signers = true ->
  (forall p, In p req -> p_opt p = false -> covered e signers (p_addr p)) /\
  role_assignment (covered e signers) avail roles /\
  provenance_rule e avail /\
  contract_rule e (stands_for_party e req avail) signers.
Proof. exact with_parties_sound. Qed.
Print Assumptions C10_sound.

(** The mathematical core: the two greedy passes (each signing party used for at most one
    required-role entry; signed parties first, then parties that granted to a signer) succeed
    exactly when the coverage holds and an injective assignment exists — greedy is optimal because
    a party serves only its own role. *)
Theorem C10_greedy_is_matching : forall e req avail roles signers,
  (exists ds, validate_all_required_parties_signed e req avail roles signers = Some ds) <->
  ((forall p, In p req -> p_opt p = false -> covered e signers (p_addr p)) /\
   role_assignment (covered e signers) avail roles).
Proof. exact all_required_parties_signed_spec. Qed.
Print Assumptions C10_greedy_is_matching.

(** Completeness: the documented rule, with "is a party" for smart-contract signers, is enough. *)
Theorem C10_complete : forall e req avail roles signers,
  (forall p, In p req -> p_opt p = false -> covered e signers (p_addr p)) ->
  role_assignment (covered e signers) avail roles ->
  provenance_rule e avail ->
  contract_rule e (is_party_signer req avail) signers ->
  validate_signers_with_parties e req avail roles signers = true.
Proof. exact with_parties_complete. Qed.
Print Assumptions C10_complete.

(** When every required party signs directly and the required roles are present among the
    directly signing parties, the write is accepted. *)
Theorem C10_complete_direct : forall e req avail roles signers,
  (forall p, In p req -> p_opt p = false -> In (p_addr p) signers) ->
  role_assignment (fun a => In a signers) avail roles ->
  provenance_rule e avail ->
  contract_rule e (is_party_signer req avail) signers ->
  validate_signers_with_parties e req avail roles signers = true.
Proof. exact with_parties_complete_direct. Qed.
Print Assumptions C10_complete_direct.

(** Without smart-contract signers the documented rule is exactly what is enforced. *)
Theorem C10_exact_without_contract_signers : forall e req avail roles signers,
  (forall s, In s signers -> is_wasm e s = false) ->
  (validate_signers_with_parties e req avail roles signers = true <->
   (forall p, In p req -> p_opt p = false -> covered e signers (p_addr p)) /\
   role_assignment (covered e signers) avail roles /\
   provenance_rule e avail).
Proof. exact with_parties_exact_no_contract. Qed.
Print Assumptions C10_exact_without_contract_signers.

(** ValidateSignersWithoutParties (party rollup off: plain address lists). *)
Theorem C10_sound_without_parties : forall e required signers,
  validate_signers_without_parties e required signers = true ->
  (forall a, In a required -> covered e signers a) /\
  contract_rule e (fun s => exists a, In a required /\ (a = s \/ granted e a s = true)) signers.
Proof. exact without_parties_sound. Qed.
Print Assumptions C10_sound_without_parties.

Theorem C10_complete_direct_without_parties : forall e required signers,
  (forall a, In a required -> In a signers) ->
  contract_rule e (fun s => In s required) signers ->
  validate_signers_without_parties e required signers = true.
Proof. exact without_parties_complete_direct. Qed.
Print Assumptions C10_complete_direct_without_parties.

(** Smart-contract signers: the loop of validateSmartContractSigners is the position rule, for
    whatever set of "used" signers it is given. *)
Theorem C10_contract_positions : forall e used signers,
  validate_smart_contract_signers e used signers = true <->
  contract_rule e (fun s => In s used) signers.
Proof. exact sc_loop_spec. Qed.
Print Assumptions C10_contract_positions.

(** KNOWN FINDING.  spec/01_concepts.md: "If a smart contract is a signer, but not a party, it
    cannot be the only signer, and cannot be the last signer."  Read literally ("used" = is itself
    one of the parties) this is false of the code: a contract that merely holds a party's grant is
    accepted as the only signer. *)
Theorem C10_contract_literal_refuted :
  exists e req avail roles signers,
    validate_signers_with_parties e req avail roles signers = true /\
    ~ contract_rule e (is_party_signer req avail) signers.
Proof. exact with_parties_literal_refuted. Qed.
Print Assumptions C10_contract_literal_refuted.

(** Strongest true statement: the literal reading holds whenever no party whose signature the rules
    look at has granted to a smart-contract signer. *)
Theorem C10_contract_literal_except_grantees : forall e req avail roles signers,
  validate_signers_with_parties e req avail roles signers = true ->
  (forall s p, In s signers -> is_wasm e s = true -> In p (considered req avail) ->
               granted e (p_addr p) s = false) ->
  contract_rule e (is_party_signer req avail) signers.
Proof. exact with_parties_literal_except_grantees. Qed.
Print Assumptions C10_contract_literal_except_grantees.

(** The endpoints (MsgWriteScope new/existing, MsgDeleteScope, MsgAdd/DeleteScopeOwner,
    MsgWriteSession, MsgWriteRecord, MsgDeleteRecord; rollup on and off): an accepted message
    accounts for every address the documented table names, and a signed injective role assignment
    exists for the table's (parties, roles) pair. *)
Theorem C10_endpoints_sound : forall e op signers,
  outer_accept e op signers = true ->
  (forall a, In a (doc_required_addrs op) -> covered e signers a) /\
  (forall avail roles, doc_role_pool op = Some (avail, roles) ->
     role_assignment (covered e signers) avail roles).
Proof. exact outer_sound. Qed.
Print Assumptions C10_endpoints_sound.

(** In particular, when a record moves to another session the previous session's parties
    (all of them without rollup, the non-optional ones with rollup) are accounted for. *)
Theorem C10_record_move_previous_session : forall e rollup owners session old roles signers,
  outer_accept e (OWriteRecord rollup owners session (Some old) roles) signers = true ->
  forall p, In p old -> (rollup = false \/ p_opt p = false) -> covered e signers (p_addr p).
Proof. exact record_move_sound. Qed.
Print Assumptions C10_record_move_previous_session.

(** The brute-force search used by the correspondence checker decides the assignment's existence. *)
Theorem C10_checker_decides_assignment : forall e signers avail roles,
  roles_signed_b e signers avail roles = true <-> role_assignment (covered e signers) avail roles.
Proof. exact roles_signed_b_spec. Qed.
Print Assumptions C10_checker_decides_assignment.

(** ** The endpoints, completeness.  For each endpoint that runs validateSmartContractSigners
    (MsgWriteScope new / existing, MsgDeleteScope, MsgAdd/DeleteScopeOwner, MsgWriteSession new /
    existing, MsgWriteRecord incl. a record moving between sessions, MsgDeleteRecord,
    MsgAdd/DeleteScopeDataAccess; rollup on and off): when the message is well formed, every party
    the documented table names signs DIRECTLY ([doc_direct_P]: all owners / parties without rollup;
    with rollup all non-optional parties of the lists the table names, and an injective assignment
    of the required-role entries to directly signing parties of that role; the roles the new
    owners / parties must provide are present; PROVENANCE rule), and every smart-contract signer
    has only smart contracts before it and is itself one of those parties or is not last and holds
    a grant from every signer after it, then the message is ACCEPTED. *)
Theorem C10_endpoints_complete_direct : forall e op signers,
  doc_wellformed op = true -> direct_with_contracts op = true ->
  doc_direct_P e op signers ->
  contract_rule e (doc_used is_party_signer op) signers ->
  outer_accept e op signers = true.
Proof. exact outer_complete_direct. Qed.
Print Assumptions C10_endpoints_complete_direct.

(** Every endpoint (MsgUpdateValueOwners included) when no smart contract signs. *)
Theorem C10_endpoints_complete_direct_no_contract : forall e op signers,
  doc_wellformed op = true ->
  (forall s, In s signers -> is_wasm e s = false) ->
  doc_direct_P e op signers ->
  outer_accept e op signers = true.
Proof. exact outer_complete_direct_no_contract. Qed.
Print Assumptions C10_endpoints_complete_direct_no_contract.

(** The same statement unfolded for one row of the table, so that its shape is visible: a record
    written into session [session] while it currently sits in session [old], party rollup on. *)
Theorem C10_record_move_complete_direct : forall e owners session old roles signers,
  role_assignment (fun a => In a signers) session roles ->
  (forall p, In p owners -> p_opt p = false -> In (p_addr p) signers) ->
  (forall p, In p session -> p_opt p = false -> In (p_addr p) signers) ->
  (forall p, In p old -> p_opt p = false -> In (p_addr p) signers) ->
  provenance_rule e session ->
  (forall s, In s signers -> is_wasm e s = false) ->
  outer_accept e (OWriteRecord true owners session (Some old) roles) signers = true.
Proof. exact record_move_complete_direct. Qed.
Print Assumptions C10_record_move_complete_direct.

(** ** The endpoints, smart-contract rule: on every endpoint that runs
    validateSmartContractSigners an accepted message has every smart-contract signer preceded by
    smart contracts only, and the signer either stands for one of the parties whose signature the
    endpoint's row of the table looks at ([doc_parties]) — directly or through that party's
    grant — or is not last and holds a grant from every signer after it. *)
Theorem C10_endpoints_contract_rule : forall e op signers,
  outer_accept e op signers = true -> enforces_contract_rule op = true ->
  contract_rule e (doc_used (stands_for_party e) op) signers.
Proof. exact outer_contract_rule. Qed.
Print Assumptions C10_endpoints_contract_rule.

(** The executable table the correspondence run evaluates on the implementation's answers holds of
    every message the model accepts ([doc_sound]: coverage, signed injective role assignment,
    roles present in the proposed parties, PROVENANCE rule, contract positions — the whole row),
    and its completeness half ([doc_direct]) implies acceptance by the model. *)
Theorem C10_endpoints_checker_sound : forall e op signers,
  outer_accept e op signers = true -> doc_sound e op signers = true.
Proof. exact outer_doc_sound. Qed.
Print Assumptions C10_endpoints_checker_sound.

Theorem C10_endpoints_checker_complete : forall e op signers,
  doc_direct e op signers = true -> outer_accept e op signers = true.
Proof. exact doc_direct_sound. Qed.
Print Assumptions C10_endpoints_checker_complete.

(** ** MsgWriteScope on an existing scope WITH the value-owner fields ([OWriteScopeFull]; the
    model transcribes Scope.Equals field by field and the "only the value owner changes" shortcut
    of ValidateWriteScope).  The general endpoint theorems above cover it; two instances written
    out.  (1) Whatever the message does to the value owner, if the owner list differs from the
    stored one in ANY field — address, role or optional flag — the party rules apply: with rollup
    every non-optional stored owner is accounted for and the required roles have a signed
    injective assignment, without rollup every stored owner is accounted for. *)
Theorem C10_scope_write_owner_change_needs_signatures : forall e ex pr roles signers,
  outer_accept e (OWriteScopeFull ex pr roles) signers = true ->
  owners_unchanged (sv_owners ex) (sv_owners pr) = false ->
  (sv_rollup ex = true ->
     (forall p, In p (sv_owners ex) -> p_opt p = false -> covered e signers (p_addr p)) /\
     role_assignment (covered e signers) (sv_owners ex) roles) /\
  (sv_rollup ex = false -> forall p, In p (sv_owners ex) -> covered e signers (p_addr p)).
Proof. exact scope_write_owner_change_needs_signatures. Qed.
Print Assumptions C10_scope_write_owner_change_needs_signatures.

(** (2) [owners_unchanged] (same length, every stored owner reappears with the same address, role
    and optional flag) is equality as sets when the stored owners are duplicate-free. *)
Theorem C10_owners_unchanged_is_set_equality : forall l1 l2,
  NoDup l1 -> owners_unchanged l1 l2 = true -> forall p, In p l2 <-> In p l1.
Proof. exact owners_unchanged_sym. Qed.
Print Assumptions C10_owners_unchanged_is_set_equality.

(** ** MsgUpdateValueOwners (signer part): every current value owner is one of the signers that
    count — all of them, or only the first one when that is a smart contract — or has granted the
    message type to one of them; none of them is the proposed owner. *)
Theorem C10_update_value_owners_sound : forall e vos proposed signers,
  outer_accept e (OUpdateValueOwners vos proposed) signers = true ->
  vos <> [] /\
  (forall o, In o vos -> exists a, o = Some a /\ a <> proposed /\
                                   covered e (vo_signers e signers) a).
Proof. exact update_value_owners_sound. Qed.
Print Assumptions C10_update_value_owners_sound.

Theorem C10_update_value_owners_contract_first : forall e vos proposed c rest,
  outer_accept e (OUpdateValueOwners vos proposed) (c :: rest) = true ->
  is_wasm e c = true ->
  forall a, In (Some a) vos -> a = c \/ granted e a c = true.
Proof. exact update_value_owners_contract_first. Qed.
Print Assumptions C10_update_value_owners_contract_first.

(** OBSERVATIONS about MsgUpdateValueOwners (outside the property's endpoints; findings/C10.md):
    the position rule is not enforced there, and "A smart contract cannot be used to change the
    value owner of a scope unless the smart contract is the value owner itself" fails literally
    when the value owner has granted to the contract; and because every never-used account passes
    for a smart contract, a value owner that signs first can silence the other value owners'
    direct signatures (the order of the signers decides). *)
Theorem C10_update_value_owners_no_position_rule :
  exists e vos proposed signers,
    outer_accept e (OUpdateValueOwners vos proposed) signers = true /\
    ~ contract_rule e (fun _ => True) signers.
Proof. exact update_value_owners_no_position_rule. Qed.
Print Assumptions C10_update_value_owners_no_position_rule.

Theorem C10_update_value_owners_contract_literal_refuted :
  exists e vos proposed signers c,
    outer_accept e (OUpdateValueOwners vos proposed) signers = true /\
    signers = [c] /\ is_wasm e c = true /\ ~ In (Some c) vos.
Proof. exact update_value_owners_contract_literal_refuted. Qed.
Print Assumptions C10_update_value_owners_contract_literal_refuted.

Theorem C10_update_value_owners_first_signer_silences :
  exists e vos proposed,
    outer_accept e (OUpdateValueOwners vos proposed) [2; 3] = false /\
    outer_accept e (OUpdateValueOwners vos proposed) [3; 2] = true /\
    (forall o, In o vos -> exists a, o = Some a /\ a <> proposed /\ In a [2; 3]).
Proof. exact update_value_owners_first_signer_silences. Qed.
Print Assumptions C10_update_value_owners_first_signer_silences.

(** ** The required parties are a SET.  BuildPartyDetails marks as required exactly the
    (address, role) pairs of the non-optional entries of the required list — wherever they stand,
    however often, and whatever optional entries of the same party stand before them ... *)
Theorem C10_required_set : forall req avail k,
  (exists d, In d (build_party_details req avail) /\ key d = k /\ d_opt d = false) <->
  (exists p, In p req /\ p_opt p = false /\ pkey p = k).
Proof. exact required_set_spec. Qed.
Print Assumptions C10_required_set.

(** ... and the answer of ValidateSignersWithParties depends on the required list only through
    that set: in particular on neither the order in which scope owners, session parties and
    previous-session parties are concatenated, nor on repetitions. *)
Theorem C10_required_list_is_a_set : forall e req req' avail roles signers,
  (forall k, In k (map pkey (filter (fun p => negb (p_opt p)) req)) <->
             In k (map pkey (filter (fun p => negb (p_opt p)) req'))) ->
  validate_signers_with_parties e req avail roles signers =
  validate_signers_with_parties e req' avail roles signers.
Proof. exact with_parties_reqset. Qed.
Print Assumptions C10_required_list_is_a_set.

Theorem C10_required_order_and_duplicates : forall e l1 l2 avail roles signers,
  validate_signers_with_parties e (l1 ++ l2) avail roles signers =
  validate_signers_with_parties e (l2 ++ l1) avail roles signers /\
  validate_signers_with_parties e (l1 ++ l1) avail roles signers =
  validate_signers_with_parties e l1 avail roles signers.
Proof. exact with_parties_req_order_dup. Qed.
Print Assumptions C10_required_order_and_duplicates.

(** GetRequiredPartyAddresses (specification gone): the addresses of the non-optional entries. *)
Theorem C10_required_addresses_set : forall ps a,
  In a (required_party_addrs ps) <-> exists p, In p ps /\ p_opt p = false /\ p_addr p = a.
Proof. exact required_party_addrs_set. Qed.
Print Assumptions C10_required_addresses_set.

(** OBSERVATION: the order of the AVAILABLE parties is observable (only) through a smart
    contract that holds a grant. *)
Theorem C10_available_order_observable :
  exists e p1 p2 roles signers,
    validate_signers_with_parties e [p1; p2] [p1; p2] roles signers = true /\
    validate_signers_with_parties e [p2; p1] [p2; p1] roles signers = false.
Proof. exact avail_order_observable. Qed.
Print Assumptions C10_available_order_observable.

(** ** What the model assumes about x/authz (Metadata/AuthzCount.v transcribes findAuthzGrantee
    over a store that may hold count-limited and expiring authorizations).  If every stored
    authorization is generic, then at any block time and for whatever the per-message cache holds
    (as long as it is backed by the store) the lookup never errors, returns exactly the model's
    [find_grantee] over the relation of the grants live at that time, and leaves the store
    unchanged. *)
Theorem C10_generic_grants_assumption : forall now st c m wasm granter grantees,
  all_generic st -> cache_ok now st c ->
  exists c',
    (match find_grantee (mk_env m wasm (raw_of now st)) granter grantees with
     | Some g => find_grantee_c now st c granter grantees (authz_urls m) = RFound g st c'
     | None => find_grantee_c now st c granter grantees (authz_urls m) = RNone st c'
     end) /\ cache_ok now st c'.
Proof. exact generic_store_is_relation. Qed.
Print Assumptions C10_generic_grants_assumption.

(** The assumption is needed: with one count-limited authorization the lookup consumes it, and the
    same lookup by the next message finds nothing although the erased relation still grants. *)
Theorem C10_count_limited_outside_model :
  exists st granter grantees m now,
    find_grantee_c now st [] granter grantees (authz_urls m) = RFound 2 [] [(2, 1, 1)] /\
    find_grantee_c now [] [] granter grantees (authz_urls m) = RNone [] [] /\
    find_grantee (mk_env m [] (raw_of now st)) granter grantees = Some 2.
Proof. exact counted_store_is_not_a_relation. Qed.
Print Assumptions C10_count_limited_outside_model.

(** A signer standing in through a grant needs a grant that is LIVE at that block time: a message
    whose only requirement is [granter]'s signature is accepted only if [granter] signs or some
    stored authorization from [granter] to a signer, under a message type that counts, has no
    expiration or one that is not before the block time. *)
Theorem C10_grant_must_be_live : forall now st granter signers m,
  fst (one_message now st granter signers m) = true ->
  In granter signers \/
  exists g s, In g st /\ In s signers /\ In (cg_kind g) (authz_urls m) /\
              cg_granter g = granter /\ cg_grantee g = s /\ live now g = true.
Proof. exact accepted_message_had_live_grant. Qed.
Print Assumptions C10_grant_must_be_live.

(** A CountAuthorization with n uses and no expiration stands in for exactly the first n of the
    identical messages, whatever their block times. *)
Theorem C10_count_n_messages : forall n times a b m, a <> b ->
  messages times (st_n a b m n) a [b] m =
  repeat true (Nat.min (length times) n) ++ repeat false (length times - n).
Proof. exact count_n_stands_for_n_messages. Qed.
Print Assumptions C10_count_n_messages.

(** Expirations (granter 1, grantee 2, expiring at second 10; messages at the listed seconds;
    second component: the expiration stored for the key afterwards, -1 = nothing stored): uses
    never change the expiration; a grant is still live AT its expiration second, where a
    CountAuthorization with two or more uses left makes the message fail (the decremented grant
    cannot be re-saved), one with a single use or a generic one still works; afterwards nothing. *)
Theorem C10_expiration_behaviour :
  let g uses := {| cg_granter := 1; cg_grantee := 2; cg_kind := 1; cg_left := uses; cg_exp := Some 10 |} in
  messages_obs [g (Some 3)] [5; 10; 10; 11] [g (Some 3)] 1 [2] 1 =
    [(true, [10]); (false, [10]); (false, [10]); (false, [10])] /\
  messages_obs [g (Some 2)] [5; 10; 11] [g (Some 2)] 1 [2] 1 =
    [(true, [10]); (true, [-1]); (false, [-1])] /\
  messages_obs [g None] [5; 10; 11] [g None] 1 [2] 1 =
    [(true, [10]); (true, [10]); (false, [10])].
Proof. exact expiration_behaviour. Qed.
Print Assumptions C10_expiration_behaviour.

(** Non-vacuity: scope owners 1 (CONTROLLER, required), 2 and 3 (SERVICER, optional), 4 (SERVICER,
    optional); two SERVICER signatures required; 1 and 2 sign, 3 has granted to 2's co-signer 7.
    Accepted; without the grant only one SERVICER is signing and it is rejected; the same party
    cannot fill both SERVICER entries. *)
Example C10_witness :
  let owners := [ {| p_addr := 1; p_role := 10; p_opt := false |};
                  {| p_addr := 2; p_role := 2; p_opt := true |};
                  {| p_addr := 3; p_role := 2; p_opt := true |};
                  {| p_addr := 4; p_role := 2; p_opt := true |} ] in
  let e := {| e_wasm := []; e_grants := [(3, 7)] |} in
  let e0 := {| e_wasm := []; e_grants := [] |} in
  validate_signers_with_parties e owners owners [2; 2] [1; 2; 7] = true /\
  validate_signers_with_parties e0 owners owners [2; 2] [1; 2; 7] = false /\
  validate_signers_with_parties e owners owners [2; 2] [2; 7] = false /\
  outer_accept e (OWriteRecord true owners owners (Some [ {| p_addr := 5; p_role := 5; p_opt := false |} ]) [2])
               [1; 2] = false.
Proof. vm_compute. repeat split. Qed.

(** Non-vacuity of the endpoint theorems: a rollup scope whose owners 1 (CONTROLLER, required) and
    2 (SERVICER, optional) also appear in the session with the flags swapped and in the previous
    session; record spec requires a SERVICER.  Signed directly by 1 and 2: accepted, the documented
    hypotheses hold; without 2 (required in the session although optional in the scope): rejected.
    Data access on the same scope; a value-owner update signed by both current value owners. *)
Example C10_witness_endpoints :
  let owners := [ {| p_addr := 1; p_role := 10; p_opt := false |};
                  {| p_addr := 2; p_role := 2; p_opt := true |} ] in
  let session := [ {| p_addr := 2; p_role := 2; p_opt := false |};
                   {| p_addr := 1; p_role := 10; p_opt := true |} ] in
  let old := [ {| p_addr := 2; p_role := 2; p_opt := true |} ] in
  let e := {| e_wasm := [6]; e_grants := [] |} in
  let op := OWriteRecord true owners session (Some old) [2] in
  doc_direct e op [1; 2] = true /\ outer_accept e op [1; 2] = true /\
  outer_accept e op [1] = false /\
  outer_accept e (ODataAccess true owners (Some [2])) [1; 2] = true /\
  outer_accept e (ODataAccess true owners (Some [2])) [1] = false /\
  outer_accept e (OUpdateValueOwners [Some 3; Some 4; Some 3] 5) [3; 4] = true /\
  outer_accept e (OUpdateValueOwners [Some 3; Some 4] 5) [3] = false /\
  enforces_contract_rule op = true.
Proof. vm_compute. repeat split. Qed.

(** Non-vacuity for the value-owner shortcut: rollup scope, owners 1 and 2 (OWNER, both required),
    value owner 3.  Moving the value owner to 4 signed by 3 alone is accepted when nothing else
    changes, and REJECTED when the same message also makes owner 2 optional (or changes its role,
    the data access or the specification); with 1 and 2 signing as well it is accepted. *)
Example C10_witness_value_owner_shortcut :
  let o1 := {| p_addr := 1; p_role := 5; p_opt := false |} in
  let o2 := {| p_addr := 2; p_role := 5; p_opt := false |} in
  let o2' := {| p_addr := 2; p_role := 5; p_opt := true |} in
  let ex := {| sv_spec := 1; sv_owners := [o1; o2]; sv_data := [4]; sv_vo := Some 3; sv_rollup := true |} in
  let pr owners data := {| sv_spec := 1; sv_owners := owners; sv_data := data; sv_vo := Some 4; sv_rollup := true |} in
  let e := {| e_wasm := [6]; e_grants := [] |} in
  outer_accept e (OWriteScopeFull ex (pr [o2; o1] [4]) [5]) [3] = true /\
  outer_accept e (OWriteScopeFull ex (pr [o1; o2'] [4]) [5]) [3] = false /\
  outer_accept e (OWriteScopeFull ex (pr [o1; o2] [4; 1]) [5]) [3] = false /\
  outer_accept e (OWriteScopeFull ex (pr [o1; o2'] [4]) [5]) [3; 1; 2] = true /\
  outer_accept e (OWriteScopeFull ex (pr [o1; o2'] [4]) [5]) [1; 2] = false /\
  doc_only_vo ex (pr [o2; o1] [4]) = true /\ doc_only_vo ex (pr [o1; o2'] [4]) = false.
Proof. vm_compute. repeat split. Qed.
