(** C19 — Fee arithmetic follows the documented rounding for all amounts; splits add up.
    Only theorem statements here; each is closed by [exact] of a lemma proved in
    Proofs/ArithProofs.v about the model Exchange/Arith.v. *)
From Coq Require Import ZArith List.
Import ListNotations.
From PV Require Import Exchange.Arith Proofs.ArithProofs Exchange.FeeQuote Proofs.FeeQuoteProofs.
Open Scope Z_scope.

(** Seller and buyer settlement ratio fees: the charge x for price p under ratio rp:rf is the
    exact rational p*rf/rp rounded up to the next whole unit, and is never negative. *)
Theorem C19_ratio_is_ceiling : forall rp rf p,
  0 < rp -> 0 <= rf -> 0 <= p ->
  exists x r, apply_loosely rp rf p = Some (x, r) /\
    rp * (x - 1) < p * rf <= rp * x /\ 0 <= x /\ (r = false <-> rp * x = p * rf).
Proof. exact apply_loosely_ceiling. Qed.
Print Assumptions C19_ratio_is_ceiling.

(** The strict variant (order creation fees on exact ratios) only ever returns the exact value. *)
Theorem C19_exact_ratio : forall rp rf p x,
  0 < rp -> 0 <= rf -> 0 <= p -> apply_to rp rf p = Some x -> rp * x = p * rf.
Proof. exact apply_to_exact. Qed.
Print Assumptions C19_exact_ratio.

(** QuoIntRoundUp is the ceiling on nonnegative operands and moves away from zero in general. *)
Theorem C19_quo_round_up_ceiling : forall a b,
  0 <= a -> 0 < b -> let x := quo_round_up a b in b * (x - 1) < a <= b * x /\ 0 <= x.
Proof. exact quo_round_up_ceiling. Qed.
Print Assumptions C19_quo_round_up_ceiling.

Theorem C19_quo_round_up_away_from_zero : forall a b,
  b <> 0 -> Z.rem a b <> 0 ->
  Z.abs (quo_round_up a b) = Z.abs (Z.quot a b) + 1 /\ Z.sgn (quo_round_up a b) = Z.sgn a * Z.sgn b.
Proof. exact quo_round_up_away. Qed.
Print Assumptions C19_quo_round_up_away_from_zero.

(** The exchange's share of a collected fee coin: ceiling of amt*split/10000, within [0, amt]. *)
Theorem C19_exchange_split_is_ceiling : forall amt split,
  0 <= amt -> 0 <= split <= 10000 ->
  let x := exchange_split amt split in
  10000 * (x - 1) < amt * split <= 10000 * x /\ 0 <= x <= amt.
Proof. exact exchange_split_ceiling. Qed.
Print Assumptions C19_exchange_split_is_ceiling.

(** Commitment settlement charge: every other-denom input is converted at 18-decimal precision
    with truncation ([others_sum]), the running total is rounded up to whole intermediary units,
    converted to the fee denom rounding up, and charged bips/20000 rounding up. *)
Theorem C19_commitment_conversion_exact : forall i,
  Forall other_ok (ci_others i) ->
  conv_dec i = ci_conv i * dec_one + others_sum (ci_others i).
Proof. exact conv_dec_spec. Qed.
Print Assumptions C19_commitment_conversion_exact.

Theorem C19_commitment_total_is_ceiling : forall i,
  0 <= ci_conv i -> Forall other_ok (ci_others i) ->
  let d := conv_dec i in
  dec_one * (conv_amt i - 1) < d <= dec_one * conv_amt i /\ 0 <= conv_amt i.
Proof. exact conv_amt_ceiling. Qed.
Print Assumptions C19_commitment_total_is_ceiling.

Theorem C19_commitment_fee_exact : forall i,
  0 <= ci_fee i -> 0 <= ci_conv i -> Forall other_ok (ci_others i) ->
  0 <= ci_tfp i -> 0 < ci_tfa i -> 0 <= ci_bips i ->
  let c := conv_amt i in
  let asfee := quo_round_up (c * ci_tfp i) (ci_tfa i) in
  let tot := ci_fee i + asfee in
  let x := commitment_fee i in
  ci_tfa i * (asfee - 1) < c * ci_tfp i <= ci_tfa i * asfee /\
  20000 * (x - 1) < tot * ci_bips i <= 20000 * x /\ 0 <= x.
Proof. exact commitment_fee_spec. Qed.
Print Assumptions C19_commitment_fee_exact.

(** Message-fee recipient split: the recipient gets the floor, the parts add up, none negative. *)
Theorem C19_bips_split : forall amt bips,
  0 <= amt -> 0 <= bips <= 10000 ->
  exists r rest, split_by_bips amt bips = Some (r, rest) /\
    r = amt * bips / 10000 /\ r + rest = amt /\ 0 <= r /\ 0 <= rest.
Proof. exact split_by_bips_spec. Qed.
Print Assumptions C19_bips_split.

(** No amount makes the computation fail: inside the stated ranges the overflow-checked
    transcription (where [None] is a Go panic) returns exactly the mathematical function. *)
Theorem C19_total_ratio : forall rp rf p,
  0 < rp -> 0 <= rf -> 0 <= p -> p * rf < int_max - 1 ->
  apply_loosely_chk rp rf p = Some (apply_loosely rp rf p).
Proof. exact apply_loosely_total. Qed.
Print Assumptions C19_total_ratio.

Theorem C19_total_exchange_split : forall amt split,
  0 <= amt -> 0 <= split <= 10000 -> amt * 10000 < int_max ->
  exchange_split_chk amt split = Some (exchange_split amt split).
Proof. exact exchange_split_total. Qed.
Print Assumptions C19_total_exchange_split.

Theorem C19_total_bips_split : forall amt bips,
  0 <= amt < int_max -> 0 <= bips ->
  split_by_bips_chk amt bips = Some (split_by_bips amt bips).
Proof. exact split_by_bips_total. Qed.
Print Assumptions C19_total_bips_split.

Theorem C19_total_commitment_fee : forall i,
  0 <= ci_fee i -> 0 <= ci_conv i -> Forall other_ok (ci_others i) ->
  0 <= ci_tfp i -> 0 < ci_tfa i -> 0 <= ci_bips i <= 10000 ->
  Forall (fun o => let '(amt, np, _) := o in amt * np < int_max) (ci_others i) ->
  conv_dec i < dec_max - dec_one ->
  (conv_amt i) * ci_tfp i < int_max - ci_tfa i ->
  (ci_fee i + quo_round_up (conv_amt i * ci_tfp i) (ci_tfa i)) * 10000 < int_max ->
  commitment_fee_chk i = Some (commitment_fee i).
Proof. exact commitment_fee_total. Qed.
Print Assumptions C19_total_commitment_fee.


(** The message-fee distribution accumulated over the messages of a transaction: after ANY
    sequence of Increase calls (any amounts, bips 0..10000, with or without recipient) the total
    equals the module part plus the recipients' parts, and no part is negative. *)
Theorem C19_distribution_adds_up : forall ops,
  Forall (fun o => let '(_, bips, _) := o in 0 <= bips <= 10000) ops ->
  let d := dist_run dist_empty ops in
  d_total d = d_module d + recips_sum (d_recips d) /\ 0 <= d_module d /\ Forall (fun p => 0 <= snd p) (d_recips d).
Proof. intros ops H. exact (dist_run_ok ops dist_empty dist_empty_ok H). Qed.
Print Assumptions C19_distribution_adds_up.

(** What a market quotes (OrderFeeCalc): for a bid exactly one option per stored buyer ratio whose
    price denom IS the price's denom — never one of a longer or shorter denom — each the ceiling of
    price * fee / ratio price in that ratio's fee denom; the quote fails exactly when the market has
    ratios but none for this denom.  [is_charge r p x] is  r_p*(x-1) < p*r_f <= r_p*x  /\ 0 <= x. *)
Theorem C19_quoted_buyer_options_exact : forall rs pd p,
  Forall ratio_ok rs -> 0 <= p ->
  match buyer_options rs pd p with
  | Some l => Forall2 (fun r e => fst e = r_fd r /\ is_charge r p (snd e)) (ratios_for rs pd) l
  | None => rs <> [] /\ ratios_for rs pd = []
  end.
Proof. exact buyer_options_spec. Qed.
Print Assumptions C19_quoted_buyer_options_exact.

Theorem C19_ratios_for_the_price_denom : forall rs pd r,
  In r (ratios_for rs pd) <-> In r rs /\ r_pd r = pd.
Proof. exact ratios_for_In. Qed.
Print Assumptions C19_ratios_for_the_price_denom.

Theorem C19_quote_fails_iff_no_ratio_for_the_denom : forall rs pd p,
  Forall ratio_ok rs -> 0 <= p ->
  (buyer_options rs pd p = None <-> rs <> [] /\ forall r, In r rs -> r_pd r <> pd).
Proof. exact buyer_options_none_iff. Qed.
Print Assumptions C19_quote_fails_iff_no_ratio_for_the_denom.

Theorem C19_quoted_seller_fee_exact : forall rs pd p,
  Forall ratio_ok rs -> 0 <= p ->
  match seller_ratio_fee rs pd p with
  | Some (Some x) => exists r, In r rs /\ r_pd r = pd /\ r_fd r = pd /\ is_charge r p x
  | Some None => rs = []
  | None => rs <> [] /\ forall r, In r rs -> ~ (r_pd r = pd /\ r_fd r = pd)
  end.
Proof. exact seller_ratio_fee_spec. Qed.
Print Assumptions C19_quoted_seller_fee_exact.

Theorem C19_charge_unique : forall r p x y, ratio_ok r -> is_charge r p x -> is_charge r p y -> x = y.
Proof. exact is_charge_unique. Qed.
Print Assumptions C19_charge_unique.

(** The fee meter of a transaction, filled message by message under the key (message type,
    recipient) and read per recipient: after ANY list of messages the total is the sum of the fees,
    every recipient's reading is the sum of its floor shares over all message types naming it, the
    module's reading is the rest, and for any duplicate-free recipient list covering the named
    recipients the parts add up to the total. *)
Theorem C19_tx_meter_exact : forall ops, Forall mop_ok ops ->
  meter_total (meter_run ops) = fees_total ops /\
  meter_for (meter_run ops) None = module_parts ops /\
  forall r, meter_for (meter_run ops) (Some r) = shares ops r.
Proof. exact meter_run_spec. Qed.
Print Assumptions C19_tx_meter_exact.

Theorem C19_tx_parts_add_up : forall ops R, NoDup R -> Forall mop_ok ops ->
  (forall o r, In o ops -> names o = Some r -> In r R) ->
  meter_total (meter_run ops)
  = meter_for (meter_run ops) None + fold_right (fun r acc => meter_for (meter_run ops) (Some r) + acc) 0 R.
Proof. exact meter_parts_add_up. Qed.
Print Assumptions C19_tx_parts_add_up.

Theorem C19_tx_shares_nonnegative : forall ops r, Forall mop_ok ops -> 0 <= shares ops r.
Proof. exact shares_nonneg. Qed.
Print Assumptions C19_tx_shares_nonnegative.

(** The exchange's share of a fee in SEVERAL denoms: each entry of the share is the ceiling for its
    own coin under its own denom's split (the denom's entry in the params, else the default split),
    positive and never more than the coin; a coin contributes iff its amount and its split are
    non-zero; no denom appears that is not in the fee. *)
Theorem C19_exchange_split_per_denom : forall dflt tbl coins d x,
  In (d, x) (exchange_split_coins dflt tbl coins) <->
  exists a, In (d, a) coins /\ a <> 0 /\ split_for dflt tbl d <> 0 /\ x = exchange_split a (split_for dflt tbl d).
Proof. exact exchange_split_coins_In. Qed.
Print Assumptions C19_exchange_split_per_denom.

Theorem C19_exchange_split_coins_is_ceiling : forall dflt tbl coins d x,
  0 <= dflt <= 10000 -> Forall (fun e => 0 <= snd e <= 10000) tbl -> Forall (fun c => 0 <= snd c) coins ->
  In (d, x) (exchange_split_coins dflt tbl coins) ->
  exists a, In (d, a) coins /\
    10000 * (x - 1) < a * split_for dflt tbl d <= 10000 * x /\ 0 < x <= a.
Proof. exact exchange_split_coins_sound. Qed.
Print Assumptions C19_exchange_split_coins_is_ceiling.

(** Non-vacuity of the two blocks above: prefix-related price denoms (2 = "pea", 3 = "peach",
    4 = "peachy") and two message types paying recipient 0. *)
Example C19_witness_quotes :
  buyer_options [ {| r_pd := 3; r_fd := 0; r_p := 100; r_f := 1 |};
                  {| r_pd := 4; r_fd := 0; r_p := 100; r_f := 7 |};
                  {| r_pd := 4; r_fd := 5; r_p := 50; r_f := 3 |} ] 3%N 1001 = Some [(0%N, 11)] /\
  buyer_options [ {| r_pd := 3; r_fd := 0; r_p := 100; r_f := 1 |} ] 2%N 1000 = None /\
  let ops := [(0%N, 800, 7500, Some 0%N); (1%N, 400, 5000, Some 0%N); (1%N, 401, 5000, Some 1%N)] in
  meter_for (meter_run ops) (Some 0%N) = 800 /\ meter_for (meter_run ops) (Some 1%N) = 200 /\
  meter_for (meter_run ops) None = 601 /\ meter_total (meter_run ops) = 1601.
Proof. vm_compute. repeat split. Qed.

(** Non-vacuity: concrete inputs beyond 2^64 meet the hypotheses and round as stated. *)
Example C19_witness :
  apply_loosely 3 2 (2 ^ 70 + 1) = Some ((2 ^ 71 + 2) / 3 + 1, true) /\
  split_by_bips (2 ^ 64 + 7) 3333 = Some (6148299799767393555, 12298444273942158068) /\
  commitment_fee {| ci_fee := 10; ci_conv := 5; ci_others := [(7, 1, 3)]; ci_tfp := 2; ci_tfa := 3; ci_bips := 50 |} = 1.
Proof. vm_compute. repeat split. Qed.
