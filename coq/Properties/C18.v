(** C18 — State is deterministic, restart-safe and survives genesis export and import.

    PARTIAL.  What is proved here is the export / import half, about the Gallina transcriptions
    Genesis/RoundTrip.v (quarantine, sanction, name, attribute, msgfees, hold, trigger),
    Genesis/ExchangeGenesis.v, Genesis/MarkerGenesis.v, Genesis/MetadataGenesis.v of the
    InitGenesis / ExportGenesis pairs of all ten custom modules, and about their product in
    app.go's genesis order (Genesis/FullProduct.v): for every well-formed module store,
    initialising an empty store from the exported genesis succeeds and rebuilds exactly that store
    INCLUDING the secondary indexes the keepers' setters rebuild (exchange order / payment indexes,
    marker registry, metadata address / specification indexes), so the second export equals the
    first and the re-initialised state accepts its own export; and an export is a function of the
    store's content only, not of the order in which the entries were written.  One clause is
    REFUTED: quarantine records that carry accepted senders (reachable from a genesis with a
    multi-sender record by one MsgAccept) do not survive the round trip.  Determinism across runs and restart safety of
    the real node cannot be the subject of a theorem about a (deterministic by construction)
    Gallina function: they are VALIDATED by the harness on the real application and labelled so.
    Only theorem statements here; each is closed by [exact] of a lemma of Proofs/RoundTripProofs.v. *)
From Coq Require Import ZArith NArith List Bool Sorted.
Import ListNotations.
From PV Require Import Genesis.RoundTrip Genesis.Indexed Genesis.ExchangeGenesis Genesis.MarkerGenesis
                       Genesis.MetadataGenesis Genesis.FullProduct Genesis.QuarantineAccept
                       Proofs.RoundTripProofs Proofs.TableLemmas Proofs.ExchangeGenesisProofs
                       Proofs.MarkerGenesisProofs Proofs.MetadataGenesisProofs Proofs.FullProductProofs
                       Proofs.QuarantineAcceptProofs Proofs.FullWitness
                       Genesis.MarkerLifecycle Genesis.NameParams Genesis.ProcessHistory
                       Proofs.MarkerLifecycleProofs Proofs.NameParamsProofs Proofs.ProcessHistoryProofs
                       Gen.GenStorePrefixes Genesis.StorePrefixDoc Proofs.StorePrefixProofs
                       Genesis.DanglingRefs Proofs.DanglingRefsProofs.
Open Scope Z_scope.

(** Every history of raw store writes and deletes leaves a strictly key-sorted table: the
    well-formedness premise of the theorems below holds of every reachable store. *)
Theorem C18_store_histories_sorted : forall (R : Type) (h : list (sop R)), tsorted (srun h).
Proof. exact srun_sorted. Qed.
Print Assumptions C18_store_histories_sorted.

(** Export depends only on the content of the store, not on the insertion history: two histories
    whose final stores answer every lookup alike export the same genesis list. *)
Theorem C18_export_deterministic : forall (R G : Type) (proj : R -> G) (h1 h2 : list (sop R)),
  (forall k, tget k (srun h1) = tget k (srun h2)) ->
  texport proj (srun h1) = texport proj (srun h2).
Proof. exact export_deterministic. Qed.
Print Assumptions C18_export_deterministic.

(** The generic round trip: a table whose records sit under the keys their setter computes and
    are written back unchanged by it is rebuilt exactly from its own export. *)
Theorem C18_table_import_export : forall (G R : Type) (proj : R -> G) key_of upd (t : table R),
  twf proj key_of upd t -> timport key_of upd (texport proj t) = Some t.
Proof. exact timport_texport. Qed.
Print Assumptions C18_table_import_export.

(** Per module: import (export s) = Some s. *)
Theorem C18_hold_import_export : forall spend s,
  hold_wf spend s -> hold_import spend (hold_export s) = Some s.
Proof. exact hold_import_export. Qed.
Print Assumptions C18_hold_import_export.

Theorem C18_name_import_export : forall name_key name_norm addr_valid s,
  name_wf name_key name_norm addr_valid s ->
  name_import name_key name_norm addr_valid (name_export s) = Some s.
Proof. exact name_import_export. Qed.
Print Assumptions C18_name_import_export.

Theorem C18_attribute_import_export : forall attr_key attr_valid attr_norm now s,
  attr_wf attr_key attr_valid attr_norm now s ->
  attr_import attr_key attr_valid attr_norm now (attr_export s) = Some s.
Proof. exact attr_import_export. Qed.
Print Assumptions C18_attribute_import_export.

Theorem C18_quarantine_import_export : forall rec_id holder s,
  quar_wf rec_id holder s -> quar_import rec_id holder (quar_export s) = Some s.
Proof. exact quar_import_export. Qed.
Print Assumptions C18_quarantine_import_export.

Theorem C18_sanction_import_export : forall unsanctionable s,
  sanc_wf unsanctionable s -> sanc_import unsanctionable (sanc_export s) = Some s.
Proof. exact sanc_import_export. Qed.
Print Assumptions C18_sanction_import_export.

Theorem C18_msgfees_import_export : forall msgfee_key msgfee_valid s,
  msgfee_wf msgfee_key msgfee_valid s ->
  msgfee_import msgfee_key msgfee_valid (msgfee_export s) = Some s.
Proof. exact msgfee_import_export. Qed.
Print Assumptions C18_msgfees_import_export.

Theorem C18_trigger_import_export : forall trig_valid s,
  trig_wf trig_valid s -> trig_import trig_valid (trig_export s) = Some s.
Proof. exact trig_import_export. Qed.
Print Assumptions C18_trigger_import_export.

(** The product of the seven modules of Genesis/RoundTrip.v (kept; the full product is below). *)
Theorem C18_import_export_seven : forall x s,
  app_wf x s -> app_import x (app_export x s) = Some s.
Proof. exact app_import_export. Qed.
Print Assumptions C18_import_export_seven.

(** One InitGenesis loop that keeps a primary table and its secondary-index entries in step
    (exchange setOrderInStore / createPaymentInStore, metadata scope and specification setters):
    importing the export of a sorted table into a store that does not hold its records rebuilds
    the table and adds exactly the index entries derived from its records, provided the setter's
    guard passes against the index entries written so far. *)
Theorem C18_indexed_import_fresh : forall (G R : Type) (pk : G -> option key) (mk : G -> option R -> table R -> R)
    (guard : G -> option R -> index -> bool) (add : G -> option R -> list (key * key))
    (rem : G -> option R -> list key) (proj : R -> G) (t : table R) (ix : index),
  tsorted t ->
  Forall (fun kr => pk (proj (snd kr)) = Some (fst kr) /\
                    (forall p, mk (proj (snd kr)) None p = snd kr) /\
                    rem (proj (snd kr)) None = []) t ->
  (forall ta kr tb, t = ta ++ kr :: tb ->
     guard (proj (snd kr)) None (set_all (derived_index proj add ta) ix) = true) ->
  iimport pk mk guard add rem (texport proj t) [] ix = Some (t, set_all (derived_index proj add t) ix).
Proof. exact (@iimport_fresh). Qed.
Print Assumptions C18_indexed_import_fresh.

(** Exchange: params, markets with their fee tables / flags / permissions / required attributes,
    orders (any remaining amounts), commitments, payments, last ids, and the five secondary
    indexes, provided the hold module holds what the records need (C02). *)
Theorem C18_exchange_import_export : forall held s,
  exch_wf held s -> exch_import held (exch_export s) = Some s.
Proof. exact exch_import_export. Qed.
Print Assumptions C18_exchange_import_export.

(** ... in particular the indexes InitGenesis rebuilds are the exporting chain's indexes. *)
Theorem C18_exchange_indexes_rebuilt : forall held s s',
  exch_wf held s -> exch_import held (exch_export s) = Some s' -> xs_index s' = xs_index s.
Proof. exact exch_indexes_rebuilt. Qed.
Print Assumptions C18_exchange_indexes_rebuilt.

(** Marker: a well-formed marker store can be exported (the registry names marker accounts only) *)
Theorem C18_marker_export_total : forall mv nv s,
  marker_wf mv nv s -> exists g, marker_export s = Some g.
Proof. exact marker_export_total. Qed.
Print Assumptions C18_marker_export_total.

(** ... and is rebuilt (accounts with access lists, registry, deny list, net asset values) from
    its export when, as app/export.go arranges, the auth genesis carries the marker accounts as
    bare BaseAccounts with their account numbers ... *)
Theorem C18_marker_import_export : forall mv nv other next s g,
  marker_wf mv nv s -> marker_export s = Some g ->
  (forall k m, In (k, m) (mks_accounts s) -> other (mr_addr m) = Some (mr_accnum m)) ->
  marker_import mv nv [] other next g = Some s.
Proof. exact marker_import_export. Qed.
Print Assumptions C18_marker_import_export.

(** ... and also when the auth genesis lists the MarkerAccounts themselves. *)
Theorem C18_marker_import_export_kept : forall mv nv other next s g,
  marker_wf mv nv s -> marker_export s = Some g ->
  marker_import mv nv (mks_accounts s) other next g = Some s.
Proof. exact marker_import_export_kept. Qed.
Print Assumptions C18_marker_import_export_kept.

(** Metadata: scopes (value owners stay where the bank has them), sessions, records, the three
    kinds of specifications, object store locators, net asset values with their heights, and the
    five secondary indexes. *)
Theorem C18_metadata_import_export : forall rec_addr blocked vo_send_ok snav_valid s,
  md_wf rec_addr blocked snav_valid s ->
  md_import rec_addr blocked vo_send_ok snav_valid (md_vo s) (md_export s) = Some s.
Proof. exact md_import_export. Qed.
Print Assumptions C18_metadata_import_export.

Theorem C18_metadata_indexes_rebuilt : forall rec_addr blocked vo_send_ok snav_valid s s',
  md_wf rec_addr blocked snav_valid s ->
  md_import rec_addr blocked vo_send_ok snav_valid (md_vo s) (md_export s) = Some s' ->
  md_index s' = md_index s.
Proof. exact md_index_rebuilt. Qed.
Print Assumptions C18_metadata_indexes_rebuilt.

(** ExportGenesis of net asset values (marker and metadata): per owner, in the owners' order,
    what is stored under the owner's address.  When every entry has its owner this lists every
    entry exactly once and in store order. *)
Theorem C18_regroup_flat : forall (O E : Type) (oaddr : O -> key) (eaddr : E -> key) (ord : key -> key)
    (owners : list O) (entries : list E),
  StronglySorted (fun o1 o2 => kcmp (ord (oaddr o1)) (ord (oaddr o2)) = Lt) owners ->
  StronglySorted (fun e1 e2 => kcmp (ord (eaddr e1)) (ord (eaddr e2)) <> Gt) entries ->
  Forall (fun e => exists o, In o owners /\ oaddr o = eaddr e) entries ->
  flat_map snd (regroup oaddr eaddr owners entries) = entries.
Proof. exact (@regroup_flat). Qed.
Print Assumptions C18_regroup_flat.

(** The product of ALL TEN custom modules, in app.go's InitGenesis order (marker after auth and
    bank; quarantine, sanction, name, attribute + accountdata record, metadata, msgfees, hold,
    exchange with its hold check against the imported hold state; trigger). *)
Theorem C18_import_export : forall x s,
  full_wf x s -> exists g, full_export x s = Some g /\ full_import x g = Some s.
Proof. exact full_import_export. Qed.
Print Assumptions C18_import_export.

(** Export of the re-imported state equals the first export. *)
Theorem C18_export_import_export : forall x s g s',
  full_wf x s -> full_export x s = Some g -> full_import x g = Some s' -> full_export x s' = Some g.
Proof. exact full_export_import_export. Qed.
Print Assumptions C18_export_import_export.

(** The re-initialised chain accepts its own export (and lands on the same state again). *)
Theorem C18_reimported_accepts_own_export : forall x s g s',
  full_wf x s -> full_export x s = Some g -> full_import x g = Some s' ->
  exists g', full_export x s' = Some g' /\ full_import x g' = Some s'.
Proof. exact full_reimported_accepts_own_export. Qed.
Print Assumptions C18_reimported_accepts_own_export.

(** The secondary indexes rebuilt by the import are the exporting chain's. *)
Theorem C18_indexes_rebuilt : forall x s g s',
  full_wf x s -> full_export x s = Some g -> full_import x g = Some s' ->
  xs_index (f_exch s') = xs_index (f_exch s) /\
  mks_index (f_marker s') = mks_index (f_marker s) /\
  md_index (f_md s') = md_index (f_md s).
Proof. exact full_indexes_rebuilt. Qed.
Print Assumptions C18_indexes_rebuilt.

(** The premise "no accepted senders" of the quarantine round trip is needed: a record with a
    sender that already accepted is exported without its accepted list and comes back under
    another key.  The exported genesis of both stores is nevertheless identical.  (The bank send
    restriction always records a single sender, but a genesis may hold records with several: see
    the next theorem.) *)
Theorem C18_quarantine_accepted_senders_refuted :
  exists rec_id holder s s',
    tsorted (qs_recs s) /\ quar_import rec_id holder (quar_export s) = Some s' /\
    s' <> s /\ quar_export s' = quar_export s.
Proof. exact quar_accepted_refuted. Qed.
Print Assumptions C18_quarantine_accepted_senders_refuted.

(** That state IS reachable: a genesis with one record from two senders (valid, and accepted by
    InitGenesis), one MsgAccept naming one of them.  The round trip then loses the acceptance and
    re-keys the record although both exports are identical, and the same later messages (Decline
    naming the accepted sender, Accept naming the other) leave the funds quarantined on the
    exporting chain and release them on the imported chain.  Reproduced on the real application
    by the harness (findings/C18.md). *)
Theorem C18_quarantine_accepted_senders_reachable_refuted :
  exists hash holder g s0 s1 s',
    quar_import (sorted_rec_id hash) holder g = Some s0 /\
    s1 = quar_accept hash w_T [w_A] s0 /\
    (exists r, In r (map snd (qs_recs s1)) /\ qr_accepted r <> [] /\ qr_unaccepted r <> []) /\
    quar_import (sorted_rec_id hash) holder (quar_export s1) = Some s' /\
    s' <> s1 /\ quar_export s' = quar_export s1 /\
    qs_recs (quar_accept hash w_T [w_B] (quar_decline hash w_T [w_A] s1)) <> [] /\
    qs_recs (quar_accept hash w_T [w_B] (quar_decline hash w_T [w_A] s')) = [].
Proof. exact quar_reachable_divergence. Qed.
Print Assumptions C18_quarantine_accepted_senders_reachable_refuted.

(** ---------- markers in every status reached by every route ---------- *)

(** For EVERY history of finalize / activate / cancel / delete calls, by any callers, on a marker
    that MsgAddMarker created (PROPOSED or FINALIZED, manager set): the stored account stays valid,
    keeps its access list, has NO manager when ACTIVE, has the manager it was created with when
    PROPOSED or FINALIZED, and in the remaining statuses (CANCELLED, DESTROYED) has either that
    manager (cancelled before it ever was active) or none (cancelled after it was active). *)
Theorem C18_marker_manager_by_status : forall m0 ops,
  lm_init_ok m0 ->
  let m := lm_run ops m0 in
  lm_valid m = true /\ lm_access m = lm_access m0 /\
  (lm_status m = st_active -> lm_manager m = []) /\
  (lm_status m = st_proposed \/ lm_status m = st_finalized -> lm_manager m = lm_manager m0) /\
  (lm_manager m = [] \/ lm_manager m = lm_manager m0).
Proof. exact lifecycle_manager_by_status. Qed.
Print Assumptions C18_marker_manager_by_status.

(** The genesis round trip keeps, for the marker account at every address and in EVERY status,
    the status, the MANAGER and the access list - hence DeleteMarker decides alike about every
    caller on the exporting and on the re-initialised chain. *)
Theorem C18_marker_roundtrip_keeps_manager : forall mv nv other next s g,
  marker_wf mv nv s -> marker_export s = Some g ->
  (forall k m, In (k, m) (mks_accounts s) -> other (mr_addr m) = Some (mr_accnum m)) ->
  exists s', marker_import mv nv [] other next g = Some s' /\
    forall a m, tget (k_account a) (mks_accounts s) = Some m ->
      exists m', tget (k_account a) (mks_accounts s') = Some m' /\
        mr_status m' = mr_status m /\ mr_manager m' = mr_manager m /\ mr_access m' = mr_access m /\
        forall c, delete_allowed (lm_of m') c = delete_allowed (lm_of m) c.
Proof. exact marker_roundtrip_keeps_manager. Qed.
Print Assumptions C18_marker_roundtrip_keeps_manager.

(** The manager cannot be derived from the status at export time: writing the export through the
    constructor NewMarkerAccount (which clears the manager when status >= ACTIVE, and CANCELLED,
    DESTROYED sort above ACTIVE) loses, for a reachable marker, the manager whose MsgDelete the
    exporting chain accepts; on the statuses the usual flows leave behind the two forms agree,
    which is why only histories with markers cancelled before activation tell them apart. *)
Theorem C18_marker_constructor_export_drops_manager :
  exists m0 ops c, lm_init_ok m0 /\
    delete_allowed (lm_run ops m0) c = true /\ delete_allowed (lm_ctor (lm_run ops m0)) c = false.
Proof. exact ctor_export_drops_manager. Qed.
Print Assumptions C18_marker_constructor_export_drops_manager.

Theorem C18_marker_constructor_export_agrees_on_usual_flows : forall m0 ops,
  lm_init_ok m0 ->
  let m := lm_run ops m0 in
  lm_status m = st_proposed \/ lm_status m = st_finalized \/ lm_status m = st_active -> lm_ctor m = m.
Proof. exact ctor_export_agrees_on_usual_flows. Qed.
Print Assumptions C18_marker_constructor_export_agrees_on_usual_flows.

(** Non-vacuity: the ten routes the harness drives end in every status, with and without manager. *)
Example C18_marker_routes_reach_every_status :
  map (fun ops => let m := lm_run ops (lm_sample []) in (lm_status m, negb (is_nil (lm_manager m)))) lm_routes =
  [ (1, true); (2, true); (3, false); (4, true); (4, true); (4, false); (5, true); (5, true); (5, false);
    (4, false) ]%N.
Proof. exact lm_routes_outcomes. Qed.

(** ---------- names: parameter changes under existing names ---------- *)

(** Every name store reached from a well-formed one by binding names and by parameter changes
    that only LOOSEN the segment-length / level limits is rebuilt exactly from its own export. *)
Theorem C18_name_roundtrip_under_loosening : forall name_key addr_valid s0 ops,
  name_wf name_key norm_len addr_valid s0 -> loosening (ns_params s0) ops ->
  let s := nrun name_key addr_valid ops s0 in
  name_import name_key norm_len addr_valid (name_export s) = Some s.
Proof. exact name_roundtrip_under_loosening. Qed.
Print Assumptions C18_name_roundtrip_under_loosening.

(** REFUTED without that restriction (findings/C18.md, reproduced on the real application):
    bind "n1" under the default limits, raise the minimum segment length to 3 by governance: the
    reachable state's export is rejected by InitGenesis. *)
Theorem C18_name_params_tightened_export_rejected_refuted :
  let s0 := {| ns_params := np_default; ns_records := [] |} in
  let s := nrun (fun k => k) (fun _ => true) tighten_ops s0 in
  name_wf (fun k => k) norm_len (fun _ => true) s0 /\
  ns_records s <> [] /\
  name_import (fun k => k) norm_len (fun _ => true) (name_export s) = None.
Proof. exact name_params_tightened_export_rejected. Qed.
Print Assumptions C18_name_params_tightened_export_rejected_refuted.

(** ---------- references to deleted objects of another module ---------- *)

(** No InitGenesis of the ten modules reads the marker module's state.  So whatever becomes of it -
    markers cancelled, deleted and purged whose denom still prices a scope or marker net asset value,
    an order, a hold or a trigger action, or whose account still carries attributes, owns names, is a
    payment target or has data access to a scope - the export of the whole state is accepted by a
    fresh chain and rebuilds every module exactly. *)
Theorem C18_dangling_marker_references_survive : forall x s mk',
  full_wf x s ->
  marker_wf (fx_marker_valid x) (fx_nav_valid x) mk' ->
  (forall k m, In (k, m) (mks_accounts mk') -> fx_other_accnum x (mr_addr m) = Some (mr_accnum m)) ->
  exists g, full_export x (with_marker s mk') = Some g /\ full_import x g = Some (with_marker s mk').
Proof. exact dangling_marker_references_survive. Qed.
Print Assumptions C18_dangling_marker_references_survive.

(** ---------- every store prefix is exported, rebuilt by InitGenesis, or listed with a reason ---------- *)

(** Translator obligation: the store prefixes the ten custom modules declare, and whether their
    ExportGenesis / InitGenesis reach them, as regenerated from the Go source on this run, are
    exactly the reviewed table (58 prefixes: 39 carried by the genesis, 17 rebuilt by InitGenesis
    from the exported records, 2 legacy prefixes that nothing writes); every module has both
    genesis functions. *)
Theorem C18_store_prefixes_reviewed :
  prefix_audit gen_store_prefixes reviewed_store_prefixes = [] /\
  genesis_functions_audit gen_genesis_functions = [].
Proof. exact store_prefixes_reviewed. Qed.
Print Assumptions C18_store_prefixes_reviewed.

(** ---------- what the shadow-node comparison decides (model; the real node is validated) ---------- *)

(** A node whose block execution does not depend on the process memory gives, for the same blocks,
    the same results and the same committed state whatever side traffic (CheckTx, Simulate, queries,
    rolled-back branches, on whatever visible state) the process saw and wherever it was restarted. *)
Theorem C18_oblivious_node_replay_independent :
  forall (S C B T O : Type) (exec : S -> C -> B -> S * C * O) (side : S -> C -> T -> C) (fresh : C),
    oblivious S C B O exec ->
    forall (sched : list (traffic S T * B)) (restarts : list bool) s c1 c2,
      length restarts = length sched ->
      primary S C B T O exec side s c1 sched =
      shadow S C B O exec fresh s c2 (combine restarts (map snd sched)).
Proof. exact oblivious_primary_eq_shadow. Qed.
Print Assumptions C18_oblivious_node_replay_independent.

(** The shape of defect the comparison exists for (an in-memory compiled regex, reset by SetParams,
    filled lazily by whichever context validates first) is separated by a two-block schedule with
    ONE item of side traffic on the mempool state: same blocks, different results. *)
Theorem C18_cached_regex_depends_on_process_history :
  exists (sched : list (traffic N unit * rblock)) (restarts : list bool),
    length restarts = length sched /\
    fst (primary N (option N) rblock unit bool regex_exec regex_side 0%N None sched) <>
    fst (shadow N (option N) rblock bool regex_exec None 0%N None (combine restarts (map snd sched))).
Proof. exact regex_cache_depends_on_process_history. Qed.
Print Assumptions C18_cached_regex_depends_on_process_history.

(** Non-vacuity: a concrete product state with entries in every table of all ten modules
    (orders with and without external id, a payment with a target, a marker with deny entry and
    net asset value, a scope with owner, data access, specification, value owner and net asset
    value, ...) is well-formed, exports, and is rebuilt from its export, indexes included. *)
Example C18_witness :
  full_wf fw_ext fw_state /\
  (exists g, full_export fw_ext fw_state = Some g /\ full_import fw_ext g = Some fw_state /\
             xg_orders (fg_exch g) <> [] /\ xg_payments (fg_exch g) <> [] /\ mkg_markers (fg_marker g) <> [] /\
             mg_scopes (fg_md g) <> [] /\ mg_navs (fg_md g) <> []) /\
  xs_index (f_exch fw_state) <> [] /\ md_index (f_md fw_state) <> [] /\ mks_index (f_marker fw_state) <> [].
Proof. exact fw_ok. Qed.

(** ... and the seven-module witness of Genesis/RoundTrip.v. *)
Example C18_witness_seven :
  app_wf witness_ext witness_state /\
  app_import witness_ext (app_export witness_ext witness_state) = Some witness_state /\
  g_hold (app_export witness_ext witness_state) <> [] /\
  qg_funds (g_quar (app_export witness_ext witness_state)) <> [] /\
  sg_temps (g_sanc (app_export witness_ext witness_state)) <> [].
Proof. exact witness_ok. Qed.
