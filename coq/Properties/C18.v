(** C18 — State is deterministic, restart-safe and survives genesis export and import.

    PARTIAL.  What is proved here is the export / import half, about the Gallina transcription
    Genesis/RoundTrip.v of the InitGenesis / ExportGenesis pairs of quarantine, sanction, name,
    attribute, msgfees, hold and trigger (and their product in app.go's genesis order): for every
    well-formed module store, initialising an empty store from the exported genesis succeeds and
    rebuilds exactly that store, so the second export equals the first and the re-initialised
    state accepts its own export; and an export is a function of the store's content only, not of
    the order in which the entries were written.  Determinism across runs and restart safety of
    the real node cannot be the subject of a theorem about a (deterministic by construction)
    Gallina function: they are VALIDATED by the harness on the real application and labelled so.
    Only theorem statements here; each is closed by [exact] of a lemma of Proofs/RoundTripProofs.v. *)
From Coq Require Import ZArith NArith List Bool.
Import ListNotations.
From PV Require Import Genesis.RoundTrip Proofs.RoundTripProofs.
Open Scope Z_scope.

(** Every history of raw store writes and deletes leaves a strictly key-sorted table: the
    well-formedness premise of the theorems below holds of every reachable store. *)
Theorem C18_store_histories_sorted : forall (R : Type) (h : list (sop R)), tsorted (srun h).
Proof. exact srun_sorted. Qed.
Print Assumptions C18_store_histories_sorted.

(** Export depends only on the content of the store, not on the insertion history: two histories
    whose final stores answer every lookup alike export the same genesis list. *)
Theorem C18_export_deterministic : forall (R G : Type) (proj : R -> G) (h1 h2 : list (sop R)),
  (forall k, tget k (srun h1) = tget k (srun h2)) ->
  texport proj (srun h1) = texport proj (srun h2).
Proof. exact export_deterministic. Qed.
Print Assumptions C18_export_deterministic.

(** The generic round trip: a table whose records sit under the keys their setter computes and
    are written back unchanged by it is rebuilt exactly from its own export. *)
Theorem C18_table_import_export : forall (G R : Type) (proj : R -> G) key_of upd (t : table R),
  twf proj key_of upd t -> timport key_of upd (texport proj t) = Some t.
Proof. exact timport_texport. Qed.
Print Assumptions C18_table_import_export.

(** Per module: import (export s) = Some s. *)
Theorem C18_hold_import_export : forall spend s,
  hold_wf spend s -> hold_import spend (hold_export s) = Some s.
Proof. exact hold_import_export. Qed.
Print Assumptions C18_hold_import_export.

Theorem C18_name_import_export : forall name_key name_norm addr_valid s,
  name_wf name_key name_norm addr_valid s ->
  name_import name_key name_norm addr_valid (name_export s) = Some s.
Proof. exact name_import_export. Qed.
Print Assumptions C18_name_import_export.

Theorem C18_attribute_import_export : forall attr_key attr_valid attr_norm now s,
  attr_wf attr_key attr_valid attr_norm now s ->
  attr_import attr_key attr_valid attr_norm now (attr_export s) = Some s.
Proof. exact attr_import_export. Qed.
Print Assumptions C18_attribute_import_export.

Theorem C18_quarantine_import_export : forall rec_id holder s,
  quar_wf rec_id holder s -> quar_import rec_id holder (quar_export s) = Some s.
Proof. exact quar_import_export. Qed.
Print Assumptions C18_quarantine_import_export.

Theorem C18_sanction_import_export : forall unsanctionable s,
  sanc_wf unsanctionable s -> sanc_import unsanctionable (sanc_export s) = Some s.
Proof. exact sanc_import_export. Qed.
Print Assumptions C18_sanction_import_export.

Theorem C18_msgfees_import_export : forall msgfee_key msgfee_valid s,
  msgfee_wf msgfee_key msgfee_valid s ->
  msgfee_import msgfee_key msgfee_valid (msgfee_export s) = Some s.
Proof. exact msgfee_import_export. Qed.
Print Assumptions C18_msgfees_import_export.

Theorem C18_trigger_import_export : forall trig_valid s,
  trig_wf trig_valid s -> trig_import trig_valid (trig_export s) = Some s.
Proof. exact trig_import_export. Qed.
Print Assumptions C18_trigger_import_export.

(** The product state, in app.go's InitGenesis order (including the attribute module's
    accountdata name record step, which must find the record in place and leave it alone). *)
Theorem C18_import_export : forall x s,
  app_wf x s -> app_import x (app_export x s) = Some s.
Proof. exact app_import_export. Qed.
Print Assumptions C18_import_export.

(** Export of the re-imported state equals the first export. *)
Theorem C18_export_import_export : forall x s s',
  app_wf x s -> app_import x (app_export x s) = Some s' -> app_export x s' = app_export x s.
Proof. exact app_export_import_export. Qed.
Print Assumptions C18_export_import_export.

(** The re-initialised chain accepts its own export (and lands on the same state again). *)
Theorem C18_reimported_accepts_own_export : forall x s s',
  app_wf x s -> app_import x (app_export x s) = Some s' ->
  app_import x (app_export x s') = Some s'.
Proof. exact app_reimported_accepts_own_export. Qed.
Print Assumptions C18_reimported_accepts_own_export.

(** The premise "no accepted senders" of the quarantine round trip is needed: a record with a
    sender that already accepted (only the keeper API with several senders builds one; the send
    restriction always records a single sender) is exported without its accepted list and comes
    back under another key.  The exported genesis of both stores is nevertheless identical. *)
Theorem C18_quarantine_accepted_senders_refuted :
  exists rec_id holder s s',
    tsorted (qs_recs s) /\ quar_import rec_id holder (quar_export s) = Some s' /\
    s' <> s /\ quar_export s' = quar_export s.
Proof. exact quar_accepted_refuted. Qed.
Print Assumptions C18_quarantine_accepted_senders_refuted.

(** Non-vacuity: a concrete product state with entries in every module is well-formed and is
    rebuilt from its export. *)
Example C18_witness :
  app_wf witness_ext witness_state /\
  app_import witness_ext (app_export witness_ext witness_state) = Some witness_state /\
  g_hold (app_export witness_ext witness_state) <> [] /\
  qg_funds (g_quar (app_export witness_ext witness_state)) <> [] /\
  sg_temps (g_sanc (app_export witness_ext witness_state)) <> [].
Proof. exact witness_ok. Qed.
