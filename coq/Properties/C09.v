(** C09 — A scope has one value owner, changed only with the current owner's consent.
    Theorem statements only; proofs are in Proofs/ValueOwnerProofs{,2}.v about the model
    Metadata/ValueOwner.v (definitions of [Inv], [holder], [consent], [deposit_ok], [signers_of]
    are there).  [Inv] is the well-formedness of the start state: per scope denom either supply 0 and
    no balance, or supply 1 held as one unit by one account whose scope exists; it holds of every
    chain without scope tokens ([C09_init_wellformed]) and of every state reached from one. *)
From Coq Require Import ZArith NArith List Bool.
From PV Require Import Metadata.ValueOwner Proofs.ValueOwnerProofs Proofs.ValueOwnerProofs2.
Import ListNotations.
Open Scope Z_scope.

Theorem C09_init_wellformed : forall specs markers wasm blocked, Inv (init specs markers wasm blocked).
Proof. exact init_inv. Qed.
Print Assumptions C09_init_wellformed.

(** The invariant is kept by every history of scope writes, bulk updates, migrations, deletions,
    bank sends of scope tokens, authz grants/revocations and marker access changes. *)
Theorem C09_invariant : forall ops s, Inv s -> Inv (run s ops).
Proof. exact run_inv. Qed.
Print Assumptions C09_invariant.

(** Token uniqueness, after every history and for every scope id: the bank supply of the scope's
    denom is 0 or 1; every balance of it is 0 or 1; at most one account has any; whoever has any
    holds the whole supply of 1 and the scope exists (no token without scope); a supply of 1 is
    held by someone. *)
Theorem C09_token_unique : forall ops s d, Inv s ->
  let s' := run s ops in
  (sup s' d = 0 \/ sup s' d = 1) /\
  (forall a, balance s' a d = 0 \/ balance s' a d = 1) /\
  (forall a b, balance s' a d <> 0 -> balance s' b d <> 0 -> a = b) /\
  (forall a, balance s' a d <> 0 -> sup s' d = 1 /\ scope_of s' d <> None) /\
  (sup s' d = 1 -> exists a, balance s' a d = 1).
Proof. intros ops s d HI. apply balance_inv. apply run_inv. exact HI. Qed.
Print Assumptions C09_token_unique.

(** Deleting a scope destroys its token: after an accepted MsgDeleteScope, at any point of any
    history, the denom has no supply, nobody has a balance, the scope is gone. *)
Theorem C09_delete_burns : forall ops s sg d, Inv s ->
  let s1 := run s ops in
  snd (step s1 (ODelete sg d)) = true ->
  let s2 := run_op s1 (ODelete sg d) in
  sup s2 d = 0 /\ (forall a, balance s2 a d = 0) /\ scope_of s2 d = None.
Proof. intros ops s sg d HI. apply delete_burns. apply run_inv. exact HI. Qed.
Print Assumptions C09_delete_burns.

(** The value owner reported by the keeper / the Scope query ([value_owner] = DenomOwner of the
    scope denom) is the holder of the token: when it reports [h], [h] has balance 1, everybody else
    0 and the supply is 1; when it reports none, nobody has a balance and the supply is 0; and the
    lookup never errors ("more than one owner"). *)
Theorem C09_owner_query_is_holder : forall ops s d, Inv s ->
  let s' := run s ops in
  match value_owner s' d with
  | Some h => balance s' h d = 1 /\ (forall a, a <> h -> balance s' a d = 0) /\ sup s' d = 1
  | None => (forall a, balance s' a d = 0) /\ sup s' d = 0
  end /\ denom_owner (tok s' d) <> None.
Proof. intros ops s d HI. apply value_owner_inv. apply run_inv. exact HI. Qed.
Print Assumptions C09_owner_query_is_holder.

(** Consent, uniformly over MsgWriteScope, MsgUpdateValueOwners, MsgMigrateValueOwner,
    MsgDeleteScope and a bank MsgSend of the token: whenever a step, anywhere in a history, takes a
    scope's token away from its holder [h] (to someone else or to nobody), then [h] is among the
    signers of the message (for a bank send: is the sender), or [h] granted authz for this message
    type to one of the signers, or [h] is a marker and one of the signers has withdraw access on it. *)
Theorem C09_change_needs_consent : forall ops s o d h, Inv s ->
  let s1 := run s ops in
  holder s1 d = Some h -> holder (run_op s1 o) d <> Some h ->
  In h (signers_of o) \/
  (exists k g, kind_of o = Some k /\ In g (signers_of o) /\ has_grant s1 h g k = true) \/
  (exists m g, marker_of s1 h = Some m /\ In g (signers_of o) /\ In g (mk_withdraw m)).
Proof. intros ops s o d h HI. apply run_op_consent. apply run_inv. exact HI. Qed.
Print Assumptions C09_change_needs_consent.

(** ... and whenever a step makes a restricted marker [n] the holder of a scope's token (from
    another holder or by minting), one of the signers (for a bank send: the sender) has deposit
    access on [n]. *)
Theorem C09_restricted_marker_needs_deposit : forall ops s o d n, Inv s ->
  let s1 := run s ops in
  holder (run_op s1 o) d = Some n -> holder s1 d <> Some n ->
  forall m, marker_of s1 n = Some m -> mk_restricted m = true ->
  exists g, In g (signers_of o) /\ In g (mk_deposit m).
Proof. intros ops s o d n HI. apply run_op_deposit. apply run_inv. exact HI. Qed.
Print Assumptions C09_restricted_marker_needs_deposit.

(** Non-vacuity.  Users 1, 2; grantee 4; stranger 5; admin 6; restricted marker 8 (admin has withdraw
    and deposit); roles 5 = OWNER, 3 = INVESTOR.  User 1 writes scope 1 with itself as value owner; the
    stranger's attempt to take it is rejected; the grantee moves it into the marker with 1's authz grant
    and the admin's deposit right; the admin's signature (withdraw access) moves it out to user 2; user
    2 sends it on to 1 by a plain bank send; 1 deletes the scope and the token is burnt.  Scope 2 has
    party rollup on, owner 1 required and investor 2 OPTIONAL, value owner 2: the required party alone
    can neither delete it nor move the token; with 2's signature the deletion goes through. *)
Example C09_witness :
  let mk := {| mk_restricted := true; mk_withdraw := [6%N]; mk_deposit := [6%N] |} in
  let s0 := init [(1%N, [5%N])] [(8%N, mk)] [] [0%N] in
  let ps := [(1%N, 5%N, false)] in
  let s1 := run s0 [OWrite [1%N] 1%N ps 1%N [] false (Some 1%N)] in
  let s2 := run s1 [OUpdate [5%N] [1%N] 5%N] in
  let s3 := run s2 [OGrant 1%N 4%N KUpdate; OUpdate [4%N; 6%N] [1%N] 8%N] in
  let s4 := run s3 [OWrite [6%N] 1%N ps 1%N [] false (Some 2%N)] in
  let s5 := run s4 [OSend 2%N 1%N 1%N 1] in
  let s6 := run s5 [ODelete [1%N] 1%N] in
  let ps2 := [(1%N, 5%N, false); (2%N, 3%N, true)] in
  let t1 := run s6 [OWrite [1%N] 2%N ps2 1%N [] true (Some 2%N)] in
  let t2 := run t1 [ODelete [1%N] 2%N; OWrite [1%N] 2%N ps2 1%N [7%N] true (Some 1%N); OAddData [1%N] 2%N [9%N]] in
  let t3 := run t2 [ODelete [1%N; 2%N] 2%N] in
  holder s1 1%N = Some 1%N /\ sup s1 1%N = 1 /\ holder s2 1%N = Some 1%N /\
  holder s3 1%N = Some 8%N /\ holder s4 1%N = Some 2%N /\ holder s5 1%N = Some 1%N /\
  holder s6 1%N = None /\ sup s6 1%N = 0 /\ scope_of s6 1%N = None /\
  snd (step s3 (OWrite [5%N] 1%N ps 1%N [] false (Some 5%N))) = false /\
  holder t1 2%N = Some 2%N /\ holder t2 2%N = Some 2%N /\ scope_of t2 2%N <> None /\
  holder t3 2%N = None /\ sup t3 2%N = 0.
Proof. vm_compute. repeat split; try reflexivity. discriminate. Qed.
