(** C09 — A scope has one value owner, changed only with the current owner's consent.
    Theorem statements only; proofs are in Proofs/ValueOwnerProofs{,2,3,4}.v about the model
    Metadata/ValueOwner.v (definitions of [Inv], [holder], [consent], [deposit_ok], [signers_of],
    [has_grant], [qdest] are there).  [Inv] is the well-formedness of the start state: per scope denom
    either supply 0 and no balance, or supply 1 held as one unit by one account whose scope exists;
    no marker has the address of the quarantine funds holder.  It holds of every chain without scope
    tokens ([C09_init_wellformed]) and of every state reached from one.

    The model's state carries the authz store (grants with expiration and remaining uses, consumed by
    the signer checks), the block time, the sanctioned accounts, the quarantine opt-ins / auto-accepts
    / records, and markers with their status; the operations are MsgWriteScope, MsgAddScopeDataAccess,
    MsgUpdateValueOwners, MsgMigrateValueOwner, MsgDeleteScope, bank MsgSend and MsgMultiSend of scope
    tokens, authz grant / revoke, marker administration (access lists and status), a later block
    time, sanction / unsanction, quarantine opt-in / opt-out / auto-accept / accept / decline, the
    authz BeginBlocker of a chain (deletion of expired grants), and the marker module's messages aimed
    at a scope token's denom (add a marker on it, mint, forced transfer, withdraw: always refused). *)
From Coq Require Import ZArith NArith List Bool.
From PV Require Import Metadata.ValueOwner Proofs.ValueOwnerProofs Proofs.ValueOwnerProofs2
  Proofs.ValueOwnerProofs3 Proofs.ValueOwnerProofs4 Proofs.ValueOwnerAuthz.
Import ListNotations.
Open Scope Z_scope.

Theorem C09_init_wellformed : forall specs markers wasm blocked,
  get markers QHOLD = None -> Inv (init specs markers wasm blocked).
Proof. exact init_inv. Qed.
Print Assumptions C09_init_wellformed.

(** The invariant is kept by every history of the twenty-three operations. *)
Theorem C09_invariant : forall ops s, Inv s -> Inv (run s ops).
Proof. exact run_inv. Qed.
Print Assumptions C09_invariant.

(** Token uniqueness, after every history and for every scope id: the bank supply of the scope's
    denom is 0 or 1; every balance of it is 0 or 1; at most one account has any; whoever has any
    holds the whole supply of 1 and the scope exists (no token without scope); a supply of 1 is
    held by someone.  (An account includes the quarantine funds holder: a quarantined token is one
    token held by one account.) *)
Theorem C09_token_unique : forall ops s d, Inv s ->
  let s' := run s ops in
  (sup s' d = 0 \/ sup s' d = 1) /\
  (forall a, balance s' a d = 0 \/ balance s' a d = 1) /\
  (forall a b, balance s' a d <> 0 -> balance s' b d <> 0 -> a = b) /\
  (forall a, balance s' a d <> 0 -> sup s' d = 1 /\ scope_of s' d <> None) /\
  (sup s' d = 1 -> exists a, balance s' a d = 1).
Proof. intros ops s d HI. apply balance_inv. apply run_inv. exact HI. Qed.
Print Assumptions C09_token_unique.

(** Deleting a scope destroys its token: after an accepted MsgDeleteScope, at any point of any
    history, the denom has no supply, nobody has a balance, the scope is gone. *)
Theorem C09_delete_burns : forall ops s sg d, Inv s ->
  let s1 := run s ops in
  snd (step s1 (ODelete sg d)) = true ->
  let s2 := run_op s1 (ODelete sg d) in
  sup s2 d = 0 /\ (forall a, balance s2 a d = 0) /\ scope_of s2 d = None.
Proof. intros ops s sg d HI. apply delete_burns. apply run_inv. exact HI. Qed.
Print Assumptions C09_delete_burns.

(** The value owner reported by the keeper / the Scope query ([value_owner] = DenomOwner of the
    scope denom) is the holder of the token: when it reports [h], [h] has balance 1, everybody else
    0 and the supply is 1; when it reports none, nobody has a balance and the supply is 0; and the
    lookup never errors ("more than one owner"). *)
Theorem C09_owner_query_is_holder : forall ops s d, Inv s ->
  let s' := run s ops in
  match value_owner s' d with
  | Some h => balance s' h d = 1 /\ (forall a, a <> h -> balance s' a d = 0) /\ sup s' d = 1
  | None => (forall a, balance s' a d = 0) /\ sup s' d = 0
  end /\ denom_owner (tok s' d) <> None.
Proof. intros ops s d HI. apply value_owner_inv. apply run_inv. exact HI. Qed.
Print Assumptions C09_owner_query_is_holder.

(** Consent, uniformly over MsgWriteScope, MsgUpdateValueOwners, MsgMigrateValueOwner,
    MsgDeleteScope, a bank MsgSend / MsgMultiSend of the token and the release of a quarantined
    token: whenever a step, anywhere in a history, takes a scope's token away from its holder [h]
    (to someone else or to nobody), then [h] is among the signers of the message (for a bank send:
    is the sender), or [h] has, in the authz store of that moment, a grant for this message type to
    one of the signers that is not expired at the block time of that moment and has a use left, or
    [h] is a marker and one of the signers has withdraw access on it, or [h] is the quarantine funds
    holder and the step is a quarantine MsgAccept (see [C09_quarantine_release_to_addressee]). *)
Theorem C09_change_needs_consent : forall ops s o d h, Inv s ->
  let s1 := run s ops in
  holder s1 d = Some h -> holder (run_op s1 o) d <> Some h ->
  In h (signers_of o) \/
  (exists k g, kind_of o = Some k /\ In g (signers_of o) /\ has_grant s1 h g k = true) \/
  (exists m g, marker_of s1 h = Some m /\ In g (signers_of o) /\ In g (mk_withdraw m)) \/
  (h = QHOLD /\ is_accept o = true).
Proof. intros ops s o d h HI. apply run_op_consent. apply run_inv. exact HI. Qed.
Print Assumptions C09_change_needs_consent.

(** Read the other way round -- whatever the scope's parties, their roles and optional flags, the
    rollup flag and the scope specification are, and whoever else signs (all owners, all required
    parties, a contract, everybody in the cast): if the holder is not among the signers, has no live
    grant to a signer for this message type, is not a marker on which a signer has withdraw access,
    and the step is not the release of a quarantined transfer, the token stays where it is (the
    message is rejected or does not touch it). *)
Theorem C09_party_signatures_do_not_move_the_token : forall ops s o d h, Inv s ->
  let s1 := run s ops in
  holder s1 d = Some h -> ~ In h (signers_of o) ->
  (forall k g, kind_of o = Some k -> In g (signers_of o) -> has_grant s1 h g k = false) ->
  (forall m, marker_of s1 h = Some m -> forall g, In g (signers_of o) -> ~ In g (mk_withdraw m)) ->
  (h = QHOLD -> is_accept o = false) ->
  holder (run_op s1 o) d = Some h.
Proof. intros ops s o d h HI. apply run_op_no_consent_stays. apply run_inv. exact HI. Qed.
Print Assumptions C09_party_signatures_do_not_move_the_token.

(** The same along a history, step by step (the grants, their expirations against the block time,
    their remaining uses, the markers' access lists are those of the state the step starts from). *)
Theorem C09_no_owner_change_without_consent_history : forall ops s, Inv s ->
  forall i o, nth_error ops i = Some o ->
  let si := run s (firstn i ops) in
  forall d h, holder si d = Some h -> holder (run_op si o) d <> Some h ->
  In h (signers_of o) \/
  (exists k g, kind_of o = Some k /\ In g (signers_of o) /\ has_grant si h g k = true) \/
  (exists m g, marker_of si h = Some m /\ In g (signers_of o) /\ In g (mk_withdraw m)) \/
  (h = QHOLD /\ is_accept o = true).
Proof. exact history_consent. Qed.
Print Assumptions C09_no_owner_change_without_consent_history.

(** What "has a grant" means: an authorization stored under (granter, grantee, message type) whose
    expiration, if any, is not before the block time and whose remaining uses, if limited, are
    positive.  Revoked, expired and used-up grants give no consent. *)
Theorem C09_grant_meaning : forall s x y k,
  has_grant s x y k = true <->
  exists g, lookup (grants s) x y k = Some g /\
            (match g_exp g with Some e => now s <= e | None => True end) /\
            (match g_left g with Some n => 0 < n | None => True end).
Proof. exact has_grant_spec. Qed.
Print Assumptions C09_grant_meaning.

Theorem C09_revoked_expired_used_up : forall s x y k,
  has_grant (run_op s (ORevoke x y k)) x y k = false /\
  (forall g e, lookup (grants s) x y k = Some g -> g_exp g = Some e -> e < now s -> has_grant s x y k = false) /\
  (forall g n, lookup (grants s) x y k = Some g -> g_left g = Some n -> n <= 0 -> has_grant s x y k = false).
Proof.
  intros s x y k. split; [apply revoke_no_grant|].
  split; [intros g e; apply expired_no_grant|intros g n; apply used_up_no_grant].
Qed.
Print Assumptions C09_revoked_expired_used_up.

(** Grants are consumed.  The authz store keeps one authorization per (granter, grantee, message type)
    along every history ([KeyUniq]); and whenever a token leaves a holder [h] that neither signed nor is
    a marker (nor is it a quarantine release), one of the signers [g] had, in the store of that
    moment, an authorization [gr] from [h] for this message type, live at that block time, and after
    the step the store holds that authorization with ONE USE LESS ([after_use]: a generic one is
    unchanged, a count authorization has one use less, its last use removed it) -- so a count
    authorization with n uses carries at most n such changes. *)
Theorem C09_one_grant_per_key : forall ops s, Inv s -> KeyUniq (grants s) -> KeyUniq (grants (run s ops)).
Proof. exact run_keyuniq. Qed.
Print Assumptions C09_one_grant_per_key.

Theorem C09_grant_use_is_consumed : forall ops s o d h, Inv s -> KeyUniq (grants s) ->
  let s1 := run s ops in
  holder s1 d = Some h -> holder (run_op s1 o) d <> Some h ->
  ~ In h (signers_of o) -> marker_of s1 h = None -> is_accept o = false ->
  exists k g gr, kind_of o = Some k /\ In g (signers_of o) /\ lookup (grants s1) h g k = Some gr /\
                 live (now s1) gr = true /\ lookup (grants (run_op s1 o)) h g k = after_use gr.
Proof.
  intros ops s o d h HI HU. apply run_op_grant_use; [apply run_inv; exact HI|apply run_keyuniq; assumption].
Qed.
Print Assumptions C09_grant_use_is_consumed.

(** ... and whenever a step makes a restricted marker [n] the holder of a scope's token (from
    another holder or by minting), one of the signers (for a bank send: the sender) has deposit
    access on [n] (for a quarantine release: the quarantine funds holder, the sender of that
    transfer, has). *)
Theorem C09_restricted_marker_needs_deposit : forall ops s o d n, Inv s ->
  let s1 := run s ops in
  holder (run_op s1 o) d = Some n -> holder s1 d <> Some n ->
  forall m, marker_of s1 n = Some m -> mk_restricted m = true ->
  (exists g, In g (signers_of o) /\ In g (mk_deposit m)) \/
  (is_accept o = true /\ In QHOLD (mk_deposit m)).
Proof. intros ops s o d n HI. apply run_op_deposit. apply run_inv. exact HI. Qed.
Print Assumptions C09_restricted_marker_needs_deposit.

(** Markers as value owners, in EVERY status ([mk_status m] is arbitrary: proposed, finalized,
    active, cancelled, destroyed), restricted or not, with or without forced transfer: a scope
    leaves a marker only by a metadata message (never by a plain bank send or multi-send, never by a
    quarantine release) one of whose signers has withdraw access on that marker -- a signature or an
    authz grant "of the marker" is not enough. *)
Theorem C09_marker_out_needs_withdraw : forall ops s o d h m, Inv s ->
  let s1 := run s ops in
  holder s1 d = Some h -> marker_of s1 h = Some m -> holder (run_op s1 o) d <> Some h ->
  kind_of o <> None /\ exists g, In g (signers_of o) /\ In g (mk_withdraw m).
Proof. intros ops s o d h m HI. apply run_op_marker_out. apply run_inv. exact HI. Qed.
Print Assumptions C09_marker_out_needs_withdraw.

(** A sanctioned value owner keeps its tokens whatever happens: no message moves, burns or
    re-assigns the token of a scope whose value owner is sanctioned. *)
Theorem C09_sanctioned_owner_keeps_token : forall ops s o d h, Inv s ->
  let s1 := run s ops in
  holder s1 d = Some h -> In h (sanctioned s1) -> holder (run_op s1 o) d = Some h.
Proof. intros ops s o d h HI. apply run_op_sanctioned. apply run_inv. exact HI. Qed.
Print Assumptions C09_sanctioned_owner_keeps_token.

(** A quarantined token (held by the quarantine funds holder) goes to an account [n] only when the
    funds holder itself "signs" or "grants" (it has no key: the correspondence run never lets it),
    or by the MsgAccept of [n] for a quarantine record addressed to [n] that lists the token. *)
Theorem C09_quarantine_release_to_addressee : forall ops s o d n, Inv s ->
  let s1 := run s ops in
  holder s1 d = Some QHOLD -> holder (run_op s1 o) d = Some n -> n <> QHOLD ->
  In QHOLD (signers_of o) \/
  (exists k g, kind_of o = Some k /\ In g (signers_of o) /\ has_grant s1 QHOLD g k = true) \/
  (exists froms perm r, o = OAccept n froms perm /\ In r (qrecs s1) /\ accepted n froms r = true /\
                        In d (denoms (q_coins r))).
Proof. intros ops s o d n HI. apply run_op_release. apply run_inv. exact HI. Qed.
Print Assumptions C09_quarantine_release_to_addressee.

(** Bulk endpoints are all or nothing.  An accepted MsgUpdateValueOwners moves EVERY listed scope:
    each had a holder [f] other than the new owner and is now held by where a transfer from [f] to
    the new owner ends up ([qdest]: the new owner, or the quarantine funds holder when the new owner
    quarantines [f]); no other scope changes holder.  An accepted MsgMigrateValueOwner moves EVERY
    scope of the old owner, however many, and nothing else.  A rejected message changes nothing. *)
Theorem C09_update_all_or_nothing : forall ops s sg ds p, Inv s ->
  let s1 := run s ops in
  (snd (step s1 (OUpdate sg ds p)) = false -> run_op s1 (OUpdate sg ds p) = s1) /\
  (snd (step s1 (OUpdate sg ds p)) = true ->
   let s2 := run_op s1 (OUpdate sg ds p) in
   (forall d, In d ds -> exists f, holder s1 d = Some f /\ f <> p /\ holder s2 d = Some (qdest s1 f p)) /\
   (forall d, ~ In d ds -> holder s2 d = holder s1 d)).
Proof.
  intros ops s sg ds p HI. split; [apply rejected_unchanged|]. apply update_all. apply run_inv. exact HI.
Qed.
Print Assumptions C09_update_all_or_nothing.

Theorem C09_migrate_all_or_nothing : forall ops s sg e p, Inv s ->
  let s1 := run s ops in
  (snd (step s1 (OMigrate sg e p)) = false -> run_op s1 (OMigrate sg e p) = s1) /\
  (snd (step s1 (OMigrate sg e p)) = true ->
   let s2 := run_op s1 (OMigrate sg e p) in
   e <> p /\
   (forall d, holder s1 d = Some e -> holder s2 d = Some (qdest s1 e p)) /\
   (forall d, holder s1 d <> Some e -> holder s2 d = holder s1 d)).
Proof.
  intros ops s sg e p HI. split; [apply rejected_unchanged|]. apply migrate_all. apply run_inv. exact HI.
Qed.
Print Assumptions C09_migrate_all_or_nothing.

(** Non-vacuity.  Users 1, 2, 3; grantee 4; stranger 5; admin 6; markers 7 (unrestricted, PROPOSED),
    8 (restricted, CANCELLED; admin has withdraw and deposit); roles 5 = OWNER, 3 = INVESTOR.
    User 1 writes scope 1 with itself as value owner; the stranger's attempt to take it is rejected;
    the grantee moves it into the cancelled restricted marker with 1's authz grant -- a count
    authorization with ONE use that expires at time 10 -- and the admin's deposit right; the grant is
    used up: a second grant expiring at 10 no longer helps at time 11; the stranger cannot take the
    scope out of the cancelled marker, nor can a plain bank send; the admin's signature (withdraw
    access) moves it out to user 2, who has opted into quarantine: the token is held by the quarantine
    funds holder 11 until 2 accepts; user 3 cannot accept it; 2 sends it on to 1 by a bank
    multi-send; 1 is sanctioned and cannot move or delete it; unsanctioned, 1 deletes the scope and
    the token is burnt.  Scope 2 has party rollup on, owner 1 required and investor 2 OPTIONAL, value
    owner 2: the required party alone can neither delete it nor move the token. *)
Example C09_witness :
  let mk7 := {| mk_restricted := false; mk_status := 1%N; mk_forced := false; mk_withdraw := [6%N]; mk_deposit := [] |} in
  let mk8 := {| mk_restricted := true; mk_status := 4%N; mk_forced := false; mk_withdraw := [6%N]; mk_deposit := [6%N] |} in
  let s0 := init [(1%N, [5%N])] [(7%N, mk7); (8%N, mk8)] [] [0%N] in
  let ps := [(1%N, 5%N, false)] in
  let s1 := run s0 [OWrite [1%N] 1%N ps 1%N [] false (Some 1%N)] in
  let s2 := run s1 [OUpdate [5%N] [1%N] 5%N] in
  let s3 := run s2 [OGrant 1%N 4%N KUpdate (Some 10) (Some 1); OUpdate [4%N; 6%N] [1%N] 8%N] in
  let s3' := run s3 [OGrant 8%N 5%N KUpdate (Some 10) None; OSetTime 11; OUpdate [5%N] [1%N] 5%N; OSend 8%N 5%N 1%N 1] in
  let s4 := run s3' [OOptIn 2%N; OWrite [6%N] 1%N ps 1%N [] false (Some 2%N)] in
  let s4' := run s4 [OAccept 3%N [8%N] false] in
  let s5 := run s4' [OAccept 2%N [8%N] false; OMultiSend 2%N [(1%N, [1%N])]] in
  let s5' := run s5 [OSanction 1%N; ODelete [1%N] 1%N; OSend 1%N 3%N 1%N 1] in
  let s6 := run s5' [OUnsanction 1%N; ODelete [1%N] 1%N] in
  let ps2 := [(1%N, 5%N, false); (2%N, 3%N, true)] in
  let t1 := run s6 [OOptOut 2%N; OWrite [1%N] 2%N ps2 1%N [] true (Some 2%N)] in
  let t2 := run t1 [ODelete [1%N] 2%N; OWrite [1%N] 2%N ps2 1%N [7%N] true (Some 1%N); OAddData [1%N] 2%N [9%N]] in
  let t3 := run t2 [ODelete [1%N; 2%N] 2%N] in
  Inv s0 /\
  holder s1 1%N = Some 1%N /\ sup s1 1%N = 1 /\ holder s2 1%N = Some 1%N /\
  holder s3 1%N = Some 8%N /\ grants s3 = [] /\ holder s3' 1%N = Some 8%N /\
  holder s4 1%N = Some QHOLD /\ qrecs s4 = [{| q_to := 2%N; q_from := 8%N; q_coins := [(1%N, 1)] |}] /\
  holder s4' 1%N = Some QHOLD /\ holder s5 1%N = Some 1%N /\ qrecs s5 = [] /\
  holder s5' 1%N = Some 1%N /\ scope_of s5' 1%N <> None /\
  holder s6 1%N = None /\ sup s6 1%N = 0 /\ scope_of s6 1%N = None /\
  holder t1 2%N = Some 2%N /\ holder t2 2%N = Some 2%N /\ scope_of t2 2%N <> None /\
  holder t3 2%N = None /\ sup t3 2%N = 0.
Proof.
  split; [apply init_inv; reflexivity|].
  vm_compute. repeat split; try reflexivity; discriminate.
Qed.

(** Observations next to the property text (no clause is violated; DESIGN.md 7.3).  Users 1, 2;
    grantee 4; stranger 5; role 5 = OWNER. *)

(** While a transfer is quarantined the reported value owner is the quarantine funds holder (11);
    neither the scope's owner (1, the sender) nor the addressee (2) can move or delete the scope until
    2 accepts. *)
Example C09_observation_quarantine_reports_escrow :
  let s0 := init [(1%N, [5%N])] [] [] [0%N] in
  let ps := [(1%N, 5%N, false)] in
  let s1 := run s0 [OOptIn 2%N; OWrite [1%N] 1%N ps 1%N [] false (Some 1%N); OUpdate [1%N] [1%N] 2%N] in
  let s2 := run s1 [ODelete [1%N] 1%N; ODelete [1%N; 2%N] 1%N; OUpdate [1%N; 2%N] [1%N] 1%N;
                    OWrite [1%N; 2%N] 1%N ps 1%N [] false (Some 1%N); OSend 2%N 1%N 1%N 1] in
  let s3 := run s2 [OAccept 2%N [1%N] false] in
  value_owner s1 1%N = Some QHOLD /\ value_owner s2 1%N = Some QHOLD /\ scope_of s2 1%N <> None /\
  value_owner s3 1%N = Some 2%N.
Proof. vm_compute. repeat split; try reflexivity; discriminate. Qed.

(** The funds holder is not a bank-blocked address: a token sent to it directly has no record, so no
    MsgAccept releases it. *)
Example C09_observation_direct_send_to_escrow_sticks :
  let s0 := init [(1%N, [5%N])] [] [] [0%N] in
  let ps := [(1%N, 5%N, false)] in
  let s1 := run s0 [OWrite [1%N] 1%N ps 1%N [] false (Some 1%N); OSend 1%N QHOLD 1%N 1] in
  let s2 := run s1 [OOptIn 1%N; OAccept 1%N [1%N; QHOLD] false; OUpdate [1%N] [1%N] 1%N; ODelete [1%N] 1%N] in
  value_owner s1 1%N = Some QHOLD /\ qrecs s1 = [] /\ value_owner s2 1%N = Some QHOLD.
Proof. vm_compute. repeat split; reflexivity. Qed.

(** A count authorization with more than one use left cannot be used in the very second of its
    expiration: GetAuthorization still returns it (the expiration is not BEFORE the block time), but
    saving the decremented authorization fails (the expiration is not AFTER the block time) and the
    whole message is rejected; with one use left (deleted, not saved) or unlimited uses (not saved)
    the same message passes. *)
Example C09_observation_count_grant_at_its_expiration_second :
  let s0 := init [(1%N, [5%N])] [] [] [0%N] in
  let ps := [(1%N, 5%N, false)] in
  let s1 := run s0 [OWrite [1%N] 1%N ps 1%N [] false (Some 1%N)] in
  let at10 (l : option Z) := run s1 [OGrant 1%N 4%N KUpdate (Some 10) l; OSetTime 10; OUpdate [4%N] [1%N] 5%N] in
  let at9 := run s1 [OGrant 1%N 4%N KUpdate (Some 10) (Some 2); OSetTime 9; OUpdate [4%N] [1%N] 5%N] in
  value_owner (at10 (Some 2)) 1%N = Some 1%N /\ value_owner (at10 (Some 1)) 1%N = Some 5%N /\
  value_owner (at10 None) 1%N = Some 5%N /\ value_owner at9 1%N = Some 5%N /\
  map g_left (grants at9) = [Some 1] /\ grants (at10 (Some 1)) = [].
Proof. vm_compute. repeat split; reflexivity. Qed.
