(* Obligations over the bypass-site and application-wiring tables that C03 (holds), C04 (marker
   restrictions), C06 (sanctions) and C07 (quarantine) rely on.

   The tables named generated_* are REGENERATED from the Go source on every run of those checks
   (translate/wiring -> Gen/GenBypassSites.v, Gen/GenWiring.v); the tables named reviewed_* are the
   hand-reviewed ones of Base/WiringDoc.v (one justification per site).  Every theorem here is about
   the generated tables, so this file compiles exactly when the current source still has the
   reviewed set of bypass sites and the reviewed wiring.  checks/wiring.py compiles it in the post()
   hook of the four properties and reports the theorem that stopped checking. *)
From Coq Require Import List String Bool.
From PV Require Import Base.WiringTypes Gen.GenBypassSites Gen.GenWiring Base.WiringDoc.
Import ListNotations.
Open Scope string_scope.

(* ---- lifting the boolean table checks ----------------------------------------------------------- *)
Lemma flag_only_in_sound : forall flag pkg func l,
  flag_only_in flag pkg func l = true ->
  forall s, In s l -> s_flag s = flag -> s_pkg s = pkg /\ s_func s = func /\ s_shape s = "call".
Proof.
  intros flag pkg func l H s Hin Hf. unfold flag_only_in in H. rewrite forallb_forall in H.
  specialize (H s Hin). rewrite Hf, String.eqb_refl in H.
  apply andb_true_iff in H. destruct H as [H H3]. apply andb_true_iff in H. destruct H as [H1 H2].
  apply String.eqb_eq in H1, H2, H3. auto.
Qed.

Lemma mem_In : forall x l, mem x l = true -> In x l.
Proof.
  intros x l H. unfold mem in H. apply existsb_exists in H. destruct H as [y [Hy He]].
  apply String.eqb_eq in He. subst. exact Hy.
Qed.

Lemma flag_only_in_pkgs_sound : forall flag pkgs l,
  flag_only_in_pkgs flag pkgs l = true ->
  forall s, In s l -> s_flag s = flag -> In (s_pkg s) pkgs /\ s_shape s = "call".
Proof.
  intros flag pkgs l H s Hin Hf. unfold flag_only_in_pkgs in H. rewrite forallb_forall in H.
  specialize (H s Hin). rewrite Hf, String.eqb_refl in H.
  apply andb_true_iff in H. destruct H as [H1 H2]. apply String.eqb_eq in H2. split; [apply mem_In; exact H1 | exact H2].
Qed.

(* ---- generated = reviewed ---------------------------------------------------------------------- *)

(* every call site of a protection-skipping context flag in non-test code is one of the 22 reviewed sites *)
Theorem generated_bypass_sites_reviewed : generated_bypass_sites = reviewed_bypass_sites.
Proof. vm_compute. reflexivity. Qed.
Print Assumptions generated_bypass_sites_reviewed.

(* each flag is read only by the protection it belongs to *)
Theorem generated_flag_readers_reviewed : generated_flag_readers = reviewed_flag_readers.
Proof. vm_compute. reflexivity. Qed.
Print Assumptions generated_flag_readers_reviewed.

(* the context keys are mentioned only by their declarations and their With/Without/Has/Get functions *)
Theorem generated_flag_key_uses_reviewed : generated_flag_key_uses = reviewed_flag_key_uses.
Proof. vm_compute. reflexivity. Qed.
Print Assumptions generated_flag_key_uses_reviewed.

(* bank hooks are registered only by the four keeper constructors *)
Theorem generated_hook_registrations_reviewed : generated_hook_registrations = reviewed_hook_registrations.
Proof. vm_compute. reflexivity. Qed.
Print Assumptions generated_hook_registrations_reviewed.

(* app/app.go wires the protections as reviewed *)
Theorem generated_wiring_reviewed : generated_wiring = reviewed_wiring.
Proof. vm_compute. reflexivity. Qed.
Print Assumptions generated_wiring_reviewed.

(* ---- nothing unrecognised ---------------------------------------------------------------------- *)
Theorem wiring_everything_recognised :
  forallb recognised_site generated_bypass_sites = true /\
  forallb recognised_site generated_flag_readers = true /\
  forallb recognised_site generated_hook_registrations = true /\
  forallb recognised_fact generated_wiring = true.
Proof. vm_compute. repeat split; reflexivity. Qed.
Print Assumptions wiring_everything_recognised.

(* ---- derived facts used by the properties ------------------------------------------------------ *)

(* C03: the hold bypass and the vesting-lock bypass are used only by the (read-only) hold invariant helper *)
Theorem wiring_hold_bypass_only_in_invariant_helper :
  forall s, In s generated_bypass_sites ->
    s_flag s = "hold.WithBypass" \/ s_flag s = "banktypes.WithVestingLockedBypass" ->
    s_pkg s = "x/hold/keeper" /\ s_func s = "holdAccountBalancesInvariantHelper" /\ s_shape s = "call".
Proof.
  intros s Hin [Hf | Hf].
  - apply (flag_only_in_sound "hold.WithBypass" _ _ generated_bypass_sites); [vm_compute; reflexivity | exact Hin | exact Hf].
  - apply (flag_only_in_sound "banktypes.WithVestingLockedBypass" _ _ generated_bypass_sites); [vm_compute; reflexivity | exact Hin | exact Hf].
Qed.
Print Assumptions wiring_hold_bypass_only_in_invariant_helper.

(* C03: the hold keeper's GetLockedCoins is the one locked-coins getter registered, on app.BankKeeper, and it
   is the only reader of the hold bypass flag *)
Theorem wiring_hold_getter_registered :
  locked_coins_getter_order generated_wiring = ["x/hold/keeper"] /\
  lookup "locked_coins_getters.fn" generated_wiring = ["GetLockedCoins"] /\
  lookup "locked_coins_getters.on" generated_wiring = ["app.BankKeeper"] /\
  (forall s, In s generated_flag_readers -> s_flag s = "hold.HasBypass" ->
     s_pkg s = "x/hold/keeper" /\ s_func s = "Keeper.GetLockedCoins" /\ s_shape s = "call").
Proof.
  repeat split; try (vm_compute; reflexivity);
  apply (flag_only_in_sound "hold.HasBypass" "x/hold/keeper" "Keeper.GetLockedCoins" generated_flag_readers);
    try (vm_compute; reflexivity); assumption.
Qed.
Print Assumptions wiring_hold_getter_registered.

(* C04/C06/C07: the send restrictions run in the order marker, sanction, quarantine, all on app.BankKeeper,
   and no registration anywhere in the repository escapes the constructors called from app.New *)
Theorem wiring_send_restriction_order :
  send_restriction_order generated_wiring = ["x/marker/keeper"; "x/sanction/keeper"; "x/quarantine/keeper"] /\
  lookup "send_restrictions.on" generated_wiring = ["app.BankKeeper"; "app.BankKeeper"; "app.BankKeeper"] /\
  lookup "send_restrictions.fn" generated_wiring = ["SendRestrictionFn"; "SendRestrictionFn"; "SendRestrictionFn"] /\
  lookup "hook_registrations.not_reached_from_new" generated_wiring = [].
Proof. vm_compute. repeat split; reflexivity. Qed.
Print Assumptions wiring_send_restriction_order.

(* C04: the marker bypass is set only inside the marker keeper and the metadata v3->v4 migration *)
Theorem wiring_marker_bypass_packages :
  forall s, In s generated_bypass_sites -> s_flag s = "markertypes.WithBypass" ->
    In (s_pkg s) ["x/marker/keeper"; "x/metadata/keeper"] /\ s_shape s = "call".
Proof.
  intros s Hin Hf.
  apply (flag_only_in_pkgs_sound "markertypes.WithBypass" _ generated_bypass_sites); [vm_compute; reflexivity | exact Hin | exact Hf].
Qed.
Print Assumptions wiring_marker_bypass_packages.

(* C06: no code sets the sanction bypass *)
Theorem wiring_no_sanction_bypass :
  forall s, In s generated_bypass_sites -> s_flag s <> "sanction.WithBypass".
Proof.
  intros s Hin Hf.
  assert (H : forallb (fun s => negb (String.eqb (s_flag s) "sanction.WithBypass")) generated_bypass_sites = true)
    by (vm_compute; reflexivity).
  rewrite forallb_forall in H. specialize (H s Hin). rewrite Hf in H. vm_compute in H. discriminate H.
Qed.
Print Assumptions wiring_no_sanction_bypass.

(* C06: every module account of maccPerms and the quarantine funds holder are unsanctionable; maccPerms is
   never written; the list reaches the sanction keeper's unsanctionableAddrs parameter *)
Theorem wiring_unsanctionable_covers_module_accounts_and_quarantine_holder :
  (forall k, In k (lookup "macc_perms.keys" generated_wiring) ->
     In ("authtypes.NewModuleAddress(" ++ k ++ ")") (unsanctionable_exprs generated_wiring)) /\
  (exists holder, ctor_arg "x/quarantine/keeper" "fundsHolder" generated_wiring = Some holder /\
     In holder (unsanctionable_exprs generated_wiring)) /\
  lookup "macc_perms.keys" generated_wiring <> [] /\
  lookup "macc_perms.writes" generated_wiring = [] /\
  lookup "unsanctionable_addrs.other_statements" generated_wiring = [] /\
  ctor_arg "x/sanction/keeper" "unsanctionableAddrs" generated_wiring = Some "unsanctionableAddrs".
Proof.
  split; [| split; [| repeat split; try (vm_compute; reflexivity); vm_compute; discriminate]].
  - intros k Hk.
    assert (H : forallb (fun k => mem ("authtypes.NewModuleAddress(" ++ k ++ ")") (unsanctionable_exprs generated_wiring))
                        (lookup "macc_perms.keys" generated_wiring) = true) by (vm_compute; reflexivity).
    rewrite forallb_forall in H. apply mem_In. apply H. exact Hk.
  - exists "authtypes.NewModuleAddress(quarantine.ModuleName)". split; [vm_compute; reflexivity |].
    apply mem_In. vm_compute. reflexivity.
Qed.
Print Assumptions wiring_unsanctionable_covers_module_accounts_and_quarantine_holder.

(* C06: the sanction keeper is a gov hook of the gov keeper it was given, and the gov end blocker runs *)
Theorem wiring_sanction_gov_hooks_registered :
  In "app.SanctionKeeper" (lookup "gov_hooks" generated_wiring) /\
  lookup "gov_hooks.on" generated_wiring = ["govKeeper -> app.GovKeeper"] /\
  ctor_arg "x/sanction/keeper" "govKeeper" generated_wiring = Some "&app.GovKeeper" /\
  In "govtypes.ModuleName" (lookup "end_blockers" generated_wiring).
Proof.
  repeat split; try (vm_compute; reflexivity); apply mem_In; vm_compute; reflexivity.
Qed.
Print Assumptions wiring_sanction_gov_hooks_registered.

(* C07: the quarantine bypass is set only by the quarantine release itself and by the exchange (whose orders,
   commitments and payments carry the receiver's consent); the quarantine funds holder is the quarantine
   module account and is exempt from the marker required-attributes check *)
Theorem wiring_quarantine_bypass_packages :
  (forall s, In s generated_bypass_sites -> s_flag s = "quarantine.WithBypass" ->
     In (s_pkg s) ["x/quarantine/keeper"; "x/exchange/keeper"] /\ s_shape s = "call") /\
  ctor_arg "x/quarantine/keeper" "fundsHolder" generated_wiring = Some "authtypes.NewModuleAddress(quarantine.ModuleName)" /\
  In "authtypes.NewModuleAddress(quarantine.ModuleName)" (lookup "marker_req_attr_bypass_addrs.elems" generated_wiring).
Proof.
  split; [| split; [vm_compute; reflexivity | apply mem_In; vm_compute; reflexivity]].
  intros s Hin Hf.
  apply (flag_only_in_pkgs_sound "quarantine.WithBypass" _ generated_bypass_sites); [vm_compute; reflexivity | exact Hin | exact Hf].
Qed.
Print Assumptions wiring_quarantine_bypass_packages.

(* non-vacuity: the tables are not empty and the derived statements speak about real rows *)
Example wiring_tables_nonempty :
  generated_bypass_sites <> [] /\ generated_flag_readers <> [] /\
  generated_hook_registrations <> [] /\ lookup "macc_perms.keys" generated_wiring <> [] /\
  In {| s_flag := "hold.WithBypass"; s_pkg := "x/hold/keeper"; s_func := "holdAccountBalancesInvariantHelper"; s_shape := "call" |}
     generated_bypass_sites.
Proof. vm_compute. repeat split; try discriminate. right. left. reflexivity. Qed.
