(** C13 — Exchange records and their lookups stay consistent, and listings are complete.
    Only theorem statements here; each is closed by [exact] of a lemma proved in
    Proofs/IndexProofs.v or Proofs/PagingProofs.v about the models Exchange/Index.v (byte-level
    store keys) and Exchange/Paging.v (the pagination routines).

    Histories: [run ops] folds [step] over ANY list of operations (create, cancel, set external id,
    settlement incl. partial fill, market closure, payment create/accept-reject/cancel/retarget),
    failed operations leaving the state unchanged.  The hypothesis [length ops < 2^64-1] is
    needed because [nextOrderID] is uint64 arithmetic: after 2^64-1 creations it wraps to 0 and
    would reuse ids ([C13_ids_wrap_example]).  Order ids, market ids are Go uint64 / uint32: the
    statements quantify over [id < 2^64], [m < 2^32] (the model's keys reduce larger numbers mod
    2^64 / 2^32, so a larger number would alias the order of its residue). *)
From Coq Require Import ZArith NArith List Bool Sorted.
Import ListNotations.
From PV Require Import Exchange.KV Exchange.Index Exchange.Paging Exchange.Commit Proofs.C13Glue Proofs.PagingSdkProofs
  Proofs.CommitProofs.
Open Scope N_scope.

(** Every open order is fetchable by id (that is [open]) and is listed exactly once (strictly
    ascending ids, so no duplicates) in its market's, its owner's and its asset's lookup and in the
    all-orders listing; nothing else is listed there.  For the by-asset lookup this is what the
    FIXED code guarantees: an index entry counts only if its key suffix after the requested denom
    is exactly 8 bytes, so the orders listed for denom [d] are exactly those with [o_asset o = d]
    even when another denom extends [d]. *)
Theorem C13_index_consistent : forall ops,
  N.of_nat (length ops) < u64max ->
  let s := run ops in
  (forall m, m < two32 ->
     StronglySorted N.lt (by_market s m) /\
     forall id, id < two64 ->
       (In id (by_market s m) <-> exists o, get_order s id = Some o /\ o_market o = m)) /\
  (forall a,
     StronglySorted N.lt (by_owner s a) /\
     forall id, id < two64 ->
       (In id (by_owner s a) <-> exists o, get_order s id = Some o /\ o_owner o = a)) /\
  (forall d,
     StronglySorted N.lt (by_asset s d) /\
     forall id, id < two64 ->
       (In id (by_asset s d) <-> exists o, get_order s id = Some o /\ o_asset o = d)) /\
  (StronglySorted N.lt (all_orders s) /\
   forall id, id < two64 -> (In id (all_orders s) <-> exists o, get_order s id = Some o)) /\
  (forall m e id o, m < two32 -> id < two64 ->
     (get_order_by_ext s m e = Some (id, o) <->
      (get_order s id = Some o /\ o_market o = m /\ o_ext o = e /\ e <> []))).
Proof. exact index_consistent. Qed.
Print Assumptions C13_index_consistent.

(** The type byte stored in every market/owner/asset index entry is the order's type, so the
    order-type filter of the listings selects exactly the asks or the bids. *)
Theorem C13_index_types : forall ops,
  N.of_nat (length ops) < u64max ->
  let s := run ops in
  forall p id t,
    (exists m, m < two32 /\ p = p_mkt m) \/ (exists a, p = p_addr a) \/ (exists d, p = p_asset d) ->
    In (id, t) (index_scan s p) ->
    exists o, get_order s id = Some o /\ ty_byte o = t.
Proof. exact index_types. Qed.
Print Assumptions C13_index_types.

(** Before commit c4d7ece23 the by-asset lookup was NOT exact: an order of asset "aaab" was
    listed under "aaa". *)
Theorem C13_by_asset_unfixed_refuted :
  exists ops d id o,
    In id (by_asset_unfixed (run ops) d) /\ get_order (run ops) id = Some o /\ o_asset o <> d.
Proof. exact by_asset_unfixed_refuted. Qed.
Print Assumptions C13_by_asset_unfixed_refuted.

(** Order ids strictly increase along a history (never reused), start at 1, and every open order
    carries an id that was handed out by a creation of this history. *)
Theorem C13_ids_fresh : forall ops,
  N.of_nat (length ops) < u64max ->
  StronglySorted N.lt (created_from init ops) /\
  (forall id, In id (created_from init ops) -> 1 <= id <= last_order_id (run ops)) /\
  (forall id o, id < two64 -> get_order (run ops) id = Some o -> In id (created_from init ops)).
Proof. exact ids_fresh. Qed.
Print Assumptions C13_ids_fresh.

(** Why the length bound is there: at the uint64 limit the counter wraps to 0. *)
Example C13_ids_wrap_example :
  snd (next_order_id [(k_last, VBytes (u64be u64max))]) = 0.
Proof. vm_compute. reflexivity. Qed.

(** External ids are unique within a market. *)
Theorem C13_external_id_unique : forall ops,
  N.of_nat (length ops) < u64max ->
  let s := run ops in
  forall id1 o1 id2 o2,
    id1 < two64 -> id2 < two64 ->
    get_order s id1 = Some o1 -> get_order s id2 = Some o2 ->
    o_market o1 = o_market o2 -> o_ext o1 = o_ext o2 -> o_ext o1 <> [] ->
    id1 = id2.
Proof. exact external_id_unique. Qed.
Print Assumptions C13_external_id_unique.

(** Payments: at most one per (source, external id); the all-payments and by-source listings
    show exactly the stored payments; the by-target listing shows a payment exactly under its
    CURRENT target (and payments without a target under no target). *)
Theorem C13_payments : forall ops,
  let s := run ops in
  (NoDup (map (fun p => (p_source p, p_ext p)) (all_payments s)) /\
   forall p, In p (all_payments s) <-> get_payment s (p_source p) (p_ext p) = Some p) /\
  (forall src,
     NoDup (map p_ext (payments_of_source s src)) /\
     forall p, In p (payments_of_source s src) <->
               (get_payment s (p_source p) (p_ext p) = Some p /\ p_source p = src)) /\
  (forall t,
     NoDup (map (fun p => (p_source p, p_ext p)) (payments_of_target s t)) /\
     forall p, In p (payments_of_target s t) <->
               (get_payment s (p_source p) (p_ext p) = Some p /\ p_target p = t /\ t <> [])).
Proof. exact payments_consistent. Qed.
Print Assumptions C13_payments.

(** [matching hit l reverse after] (Exchange/Paging.v) is the complete listing: the hits among the
    entries at or after the after-order start key, in iteration order.
    filteredPaginateAfterOrder, any prefix-store contents [l] (strictly ascending keys), any hit
    test whose hits have non-empty keys (index hits have 8-byte keys), any limit >= 1, forward or
    reverse, any after-order bound: following next_key from the first page, and separately paging
    by offsets 0, limit, 2*limit, ..., returns every matching entry exactly once, in order; and
    count_total reports their number. *)
Theorem C13_paging_complete : forall V (hit : key -> V -> bool) (l : list (key * V))
    (limit : N) (reverse : bool) (after : N) (fuel : nat),
  sorted_keys l ->
  (forall k v, In (k, v) l -> hit k v = true -> k <> []) ->
  1 <= limit ->
  N.of_nat (length l) + limit + 1 < two64 ->
  (length l < fuel)%nat ->
  follow_keys (fun rq => filtered_paginate_after_order hit l rq after) fuel limit reverse []
    = Some (matching hit l reverse after) /\
  follow_offsets (fun rq => filtered_paginate_after_order hit l rq after) fuel limit reverse 0
    = Some (matching hit l reverse after) /\
  (exists items next,
     filtered_paginate_after_order hit l
       {| pr_key := []; pr_offset := 0; pr_limit := limit; pr_count_total := true;
          pr_reverse := reverse |} after
     = Some (items, {| ps_next := next; ps_total := N.of_nat (length (matching hit l reverse after)) |})).
Proof. exact paging_complete. Qed.
Print Assumptions C13_paging_complete.

(** ... and every index listing of every reachable state meets those hypotheses, for every
    order-type filter: market, owner and asset listings page completely. *)
Theorem C13_paging_complete_index : forall ops p otype limit reverse after fuel,
  let l := pstore (run ops) p in
  1 <= limit ->
  N.of_nat (length l) + limit + 1 < two64 ->
  (length l < fuel)%nat ->
  follow_keys (fun rq => filtered_paginate_after_order (index_hit otype) l rq after) fuel limit reverse []
    = Some (matching (index_hit otype) l reverse after) /\
  follow_offsets (fun rq => filtered_paginate_after_order (index_hit otype) l rq after) fuel limit reverse 0
    = Some (matching (index_hit otype) l reverse after).
Proof. exact paging_complete_index. Qed.
Print Assumptions C13_paging_complete_index.

(** The after-order bound is exclusive: for 0 < after < 2^64-1 exactly the ids greater than
    [after] pass; at after = 2^64-1 (not incremented since commit cd8a0fb50) only the id 2^64-1
    itself passes, which [C13_ids_fresh] shows is never handed out. *)
Theorem C13_after_bound : forall after id,
  id < two64 -> 0 < after -> after < two64 ->
  ge_start (after_start after) (u64be id) =
  if after =? u64max then (id =? u64max) else (after <? id).
Proof. exact after_bound. Qed.
Print Assumptions C13_after_bound.

(** Before commit cd8a0fb50 ([afterOrderID + 1] unconditionally) the bound 2^64-1 wrapped to 0 and
    let every order through. *)
Theorem C13_after_bound_unfixed_refuted :
  exists id, id < u64max /\
    ge_start (Some (u64be (wrap64 (u64max + 1)))) (u64be id) = true.
Proof. exact after_bound_unfixed_refuted. Qed.
Print Assumptions C13_after_bound_unfixed_refuted.

(** query.Paginate (payments listings) pages completely by keys when no entry of the prefix
    store has an EMPTY key ... *)
Theorem C13_paging_payments_except_empty_key : forall V (l : list (key * V))
    (limit : N) (reverse : bool) (fuel : nat),
  sorted_keys l ->
  (forall k v, In (k, v) l -> k <> []) ->
  1 <= limit ->
  N.of_nat (length l) + limit + 1 < two64 ->
  (length l < fuel)%nat ->
  follow_keys (fun rq => sdk_paginate l rq) fuel limit reverse []
    = Some (if reverse then rev l else l) /\
  follow_offsets (fun rq => sdk_paginate l rq) fuel limit reverse 0
    = Some (if reverse then rev l else l).
Proof. exact sdk_paging_complete. Qed.
Print Assumptions C13_paging_payments_except_empty_key.

(** ... but the full statement is FALSE for the payments-of-a-source listing: a payment whose
    external id is empty has the empty prefix-store key; in reverse order it comes last, its
    next_key is empty, and a client following next_key never receives it (FINDING, see
    findings/C13.md). *)
Theorem C13_paging_payments_refuted :
  exists ops src limit,
    1 <= limit /\
    let l := pstore (run ops) (p_pay_src src) in
    exists got, follow_keys (fun rq => sdk_paginate l rq) 10 limit true [] = Some got /\
                (length got < length l)%nat.
Proof. exact sdk_paging_refuted. Qed.
Print Assumptions C13_paging_payments_refuted.

(** ---- query.FilteredPaginate (GetAllOrders, GetAllMarkets) and query.Paginate ---- *)

(** query.FilteredPaginate: in key mode NextKey is the next ENTRY after [limit] hits (not the next
    hit as in filteredPaginateAfterOrder), in offset mode it is the key of hit number
    offset+limit+1.  For every strictly sorted prefix store whose keys are non-empty, every hit
    test, every limit >= 1 and both directions: following next_key, and paging by offsets, return
    every matching entry exactly once in order, and count_total is their number. *)
Theorem C13_paging_complete_sdk_filtered : forall V (hit : key -> V -> bool) (l : list (key * V))
    (limit : N) (reverse : bool) (fuel : nat),
  sorted_keys l ->
  (forall k v, In (k, v) l -> k <> []) ->
  1 <= limit ->
  N.of_nat (length l) + limit + 1 < two64 ->
  (length l < fuel)%nat ->
  follow_keys (fun rq => sdk_filtered_paginate hit l rq) fuel limit reverse []
    = Some (matching hit l reverse 0) /\
  follow_offsets (fun rq => sdk_filtered_paginate hit l rq) fuel limit reverse 0
    = Some (matching hit l reverse 0) /\
  (exists items next,
     sdk_filtered_paginate hit l
       {| pr_key := []; pr_offset := 0; pr_limit := limit; pr_count_total := true;
          pr_reverse := reverse |}
     = Some (items, {| ps_next := next; ps_total := N.of_nat (length (matching hit l reverse 0)) |})).
Proof. exact sdk_filtered_paging_complete. Qed.
Print Assumptions C13_paging_complete_sdk_filtered.

(** ... and GetAllOrders of every reachable state meets those hypotheses: every entry under the
    order prefix has an 8-byte key and is a hit, so paging GetAllOrders returns every open order
    exactly once, in id order (or reversed), with the exact total. *)
Theorem C13_paging_complete_all_orders : forall ops limit reverse fuel,
  let l := pstore (run ops) p_all_orders in
  N.of_nat (length ops) < u64max ->
  1 <= limit ->
  N.of_nat (length l) + limit + 1 < two64 ->
  (length l < fuel)%nat ->
  follow_keys (fun rq => sdk_filtered_paginate all_orders_hit l rq) fuel limit reverse []
    = Some (if reverse then rev l else l) /\
  follow_offsets (fun rq => sdk_filtered_paginate all_orders_hit l rq) fuel limit reverse 0
    = Some (if reverse then rev l else l) /\
  (exists items next,
     sdk_filtered_paginate all_orders_hit l
       {| pr_key := []; pr_offset := 0; pr_limit := limit; pr_count_total := true; pr_reverse := reverse |}
     = Some (items, {| ps_next := next; ps_total := N.of_nat (length l) |})).
Proof. exact paging_complete_all_orders. Qed.
Print Assumptions C13_paging_complete_all_orders.

(** query.Paginate reports the exact number of entries as count_total ... *)
Theorem C13_paginate_count_total : forall V (l : list (key * V)) (limit : N) (reverse : bool),
  1 <= limit ->
  exists items next,
    sdk_paginate l {| pr_key := []; pr_offset := 0; pr_limit := limit; pr_count_total := true;
                      pr_reverse := reverse |}
    = Some (items, {| ps_next := next; ps_total := N.of_nat (length l) |}).
Proof. exact sdk_paginate_count_total. Qed.
Print Assumptions C13_paginate_count_total.

(** ... the all-payments and payments-with-target listings of every reachable state have no empty
    prefix-store key, so they page completely in both directions (the known finding is confined to
    payments-with-SOURCE) ... *)
Theorem C13_paging_complete_payments_all_target : forall ops p limit reverse fuel,
  let l := pstore (run ops) p in
  (p = p_all_pay \/ exists t, p = p_tgt t) ->
  1 <= limit ->
  N.of_nat (length l) + limit + 1 < two64 ->
  (length l < fuel)%nat ->
  follow_keys (fun rq => sdk_paginate l rq) fuel limit reverse [] = Some (if reverse then rev l else l) /\
  follow_offsets (fun rq => sdk_paginate l rq) fuel limit reverse 0 = Some (if reverse then rev l else l).
Proof. exact paging_complete_payments_all_target. Qed.
Print Assumptions C13_paging_complete_payments_all_target.

(** ... and in the FORWARD direction query.Paginate is complete for every sorted prefix store, an
    empty key included (only the first entry can have it and a forward next_key is never the first
    entry): the payments-with-source finding is confined to reverse paging. *)
Theorem C13_paging_payments_forward_complete : forall V (l : list (key * V)) (limit : N) (fuel : nat),
  sorted_keys l -> 1 <= limit -> N.of_nat (length l) + limit + 1 < two64 -> (length l < fuel)%nat ->
  follow_keys (fun rq => sdk_paginate l rq) fuel limit false [] = Some l /\
  follow_offsets (fun rq => sdk_paginate l rq) fuel limit false 0 = Some l.
Proof. exact sdk_paging_complete_forward. Qed.
Print Assumptions C13_paging_payments_forward_complete.

(** ---- the maximum page limit (2^64-1, the SDK's PaginationMaxLimit) ---- *)

(** With the clamp of commit 9f0ea4287, filteredPaginateAfterOrder with limit = 2^64-1 returns
    EVERYTHING that is left after the offset in one page, with no next key and the exact total:
    for every hit test (type filter), both directions, every after-order bound, every offset and
    either count_total flag.  ([max_limit_req offset ct reverse] is the request with key = nil and
    limit = 2^64-1.)  Key-mode requests do no arithmetic on the limit and are covered by
    [C13_paging_complete]. *)
Theorem C13_max_limit_one_page : forall V (hit : key -> V -> bool) (l : list (key * V))
    (offset : N) (ct reverse : bool) (after : N),
  N.of_nat (length l) < u64max -> offset < two64 ->
  filtered_paginate_after_order hit l (max_limit_req offset ct reverse) after
  = Some (skipn (N.to_nat offset) (matching hit l reverse after),
          {| ps_next := [];
             ps_total := if ct then N.of_nat (length (matching hit l reverse after)) else 0 |}).
Proof. exact fpao_max_limit_one_page. Qed.
Print Assumptions C13_max_limit_one_page.

(** Before that commit ([end := offset + limit] and [end + 1] in plain uint64 arithmetic) the same
    request returned NOTHING and a next key as soon as the first iterated entry was not a hit:
    market 1 holding bid 1 and ask 2, type filter "bid", reverse (the finding's minimal history),
    and the same with filter "ask" forward. *)
Theorem C13_max_limit_unclamped_refuted :
  exists ops p otype reverse,
    let l := pstore (run ops) p in
    matching (index_hit otype) l reverse 0 <> [] /\
    exists next, next <> [] /\
      filtered_paginate_after_order_unclamped (index_hit otype) l (max_limit_req 0 false reverse) 0
      = Some ([], {| ps_next := next; ps_total := 0 |}).
Proof. exact fpao_unclamped_refuted. Qed.
Print Assumptions C13_max_limit_unclamped_refuted.

(** ---- commitments and market ids (model Exchange/Commit.v) ---- *)

(** Joint histories: ANY sequence of order, payment, commitment and market operations ([xop];
    MsgGovCloseMarket acts on orders and commitments at once) decomposes into a history of
    Exchange/Index.v and a history of Exchange/Commit.v, so every theorem above holds of
    [fst (xrun xs)] and every theorem below of [snd (xrun xs)]. *)
Theorem C13_joint_histories : forall xs,
  fst (xrun xs) = run (flat_map proj_o xs) /\ snd (xrun xs) = crun (flat_map proj_c xs).
Proof. exact (fun xs => conj (xrun_fst xs) (xrun_snd xs)). Qed.
Print Assumptions C13_joint_histories.

(** A market id identifies at most one market: over ALL histories of market creations (automatic
    or explicit ids, also ids whose derived address already holds a foreign account), commitment
    operations and closures, the ids handed out by successful creations are pairwise different, the
    market listing (IterateKnownMarketIDs) is strictly ascending and lists exactly the created
    ids, and every market's address holds an account. *)
Theorem C13_market_ids : forall ops, let s := crun ops in
  NoDup (markets_created_from cinit ops) /\
  StronglySorted N.lt (known_markets (cs_kv s)) /\
  (forall m, m < two32 -> (In m (known_markets (cs_kv s)) <-> In m (markets_created_from cinit ops))) /\
  (forall m, In m (markets_created_from cinit ops) -> m < two32 /\ In m (cs_accts s)).
Proof. exact market_ids. Qed.
Print Assumptions C13_market_ids.

(** Each successful creation uses an id that identified no market before, the requested id when
    one was given, and never removes a market. *)
Theorem C13_market_creation_fresh : forall ops id acc s' mid,
  create_market (crun ops) id acc = Some (s', mid) ->
  mid < two32 /\
  ~ In mid (known_markets (cs_kv (crun ops))) /\
  In mid (known_markets (cs_kv s')) /\
  (id <> 0 -> mid = id) /\
  (forall m, In m (known_markets (cs_kv (crun ops))) -> In m (known_markets (cs_kv s'))).
Proof. exact create_market_fresh. Qed.
Print Assumptions C13_market_creation_fresh.

(** nextMarketID: the id it hands out is not in use, becomes the last automatic id, and (unless
    the uint32 counter could wrap) is the SMALLEST unused id above the previous automatic id; its
    loop terminates within (number of store entries + 1) iterations. *)
Theorem C13_next_market_id : forall kv kv' mid,
  next_market_id kv = Some (kv', mid) ->
  mid < two32 /\ has kv (k_known mid) = false /\ last_market_id kv' = mid /\
  (last_market_id kv + N.of_nat (length kv) + 1 < two32 ->
     last_market_id kv < mid /\ forall j, last_market_id kv < j -> j < mid -> has kv (k_known j) = true).
Proof. exact next_market_id_spec. Qed.
Print Assumptions C13_next_market_id.

Theorem C13_next_market_id_terminates : forall kv id,
  sorted_keys kv -> id < two32 -> N.of_nat (length kv) < two32 ->
  next_free (S (length kv)) kv id <> None.
Proof. exact next_free_total. Qed.
Print Assumptions C13_next_market_id_terminates.

(** Commitments: after ANY history of commit / release / settle-commitments / close-market (and
    market operations), GetMarketCommitments, GetAllCommitments and GetAccountCommitments list
    exactly the non-zero entries of the commitment store ([get_commitment] = GetCommitment), each
    (market, account) once, nothing else; every stored amount is a valid non-zero sdk.Coins and
    its market exists. *)
Theorem C13_commitments_consistent : forall ops, let kv := cs_kv (crun ops) in
  (forall m, m < two32 ->
     NoDup (map fst (market_commitments kv m)) /\
     forall a c, In (a, c) (market_commitments kv m) <-> (a <> [] /\ c <> [] /\ get_commitment kv m a = c)) /\
  (NoDup (map fst (all_commitments kv)) /\
   (forall m a c, In (m, a, c) (all_commitments kv) -> m < two32) /\
   forall m a c, m < two32 -> (In (m, a, c) (all_commitments kv) <-> (a <> [] /\ c <> [] /\ get_commitment kv m a = c))) /\
  (forall a, a <> [] ->
     NoDup (map fst (account_commitments kv a)) /\
     forall m c, m < two32 -> (In (m, c) (account_commitments kv a) <-> (c <> [] /\ get_commitment kv m a = c))) /\
  (forall m a, m < two32 -> a <> [] -> get_commitment kv m a <> [] ->
     cvalid (get_commitment kv m a) = true /\ In m (known_markets kv)).
Proof. exact commitments_consistent. Qed.
Print Assumptions C13_commitments_consistent.

(** Paging the commitment listings (query.Paginate over the all-commitments or a per-market prefix
    store of any reachable state): following next_key and paging by offsets both return every
    entry exactly once in order, in both directions, and every entry yields exactly one listed
    commitment (so the pages concatenate to the complete listing and a page holds [limit] items). *)
Theorem C13_paging_complete_commitments : forall ops p limit reverse fuel,
  let l := pstore (cs_kv (crun ops)) p in
  (p = p_commit_all \/ exists m, p = p_commit_mkt m) ->
  1 <= limit -> N.of_nat (length l) + limit + 1 < two64 -> (length l < fuel)%nat ->
  follow_keys (fun rq => sdk_paginate l rq) fuel limit reverse [] = Some (if reverse then rev l else l) /\
  follow_offsets (fun rq => sdk_paginate l rq) fuel limit reverse 0 = Some (if reverse then rev l else l).
Proof. exact paging_complete_commitments. Qed.
Print Assumptions C13_paging_complete_commitments.

Theorem C13_commitment_entries_listed : forall ops, let kv := cs_kv (crun ops) in
  (forall m e, m < two32 -> In e (pstore kv (p_commit_mkt m)) -> exists a c, commitment_of_entry e = [(a, c)]) /\
  (forall e, In e (pstore kv p_commit_all) -> exists m a c, commitment_of_entry_all e = [(m, a, c)]).
Proof. exact commitment_entries_listed. Qed.
Print Assumptions C13_commitment_entries_listed.

(** Non-vacuity for the commitment / market part: the example history creates markets 1, 2 (auto)
    and 5 (explicit), is refused the automatic id 3 (a foreign account sits on its address) and a
    second market 5, and ends with commitments in markets 1 and 5 after a release, a settlement
    and the closure of market 2. *)
Example C13_commitments_nonvacuous :
  let s := crun example_chistory in
  markets_created_from cinit example_chistory = [1; 2; 5] /\
  known_markets (cs_kv s) = [1; 2; 5] /\
  market_commitments (cs_kv s) 1 = [([1;1;1], [(aaa, 5%Z)]); ([2;2;2], [(bbb, 11%Z)])] /\
  account_commitments (cs_kv s) [1;1;1] = [(1, [(aaa, 5%Z)]); (5, [(aaa, 1%Z)])] /\
  market_commitments (cs_kv s) 2 = [].
Proof. exact example_chistory_ok. Qed.

(** Non-vacuity: a concrete history (two markets, denoms "aaa"/"aaab", a partial fill, an
    external-id change, a cancellation) reaches a state with open orders whose listings are
    non-empty, and paging its asset listing with limit 1 takes several pages. *)
Example C13_nonvacuous :
  let s := run example_history in
  by_asset s [97;97;97] = [1; 4] /\ by_asset s [97;97;97;98] = [2] /\
  by_market s 1 = [1; 2] /\ get_order_by_ext s 1 [120] <> None /\
  follow_keys (fun rq => filtered_paginate_after_order (index_hit None) (pstore s (p_asset [97;97;97])) rq 0)
     5 1 true [] = Some (matching (index_hit None) (pstore s (p_asset [97;97;97])) true 0) /\
  length (matching (index_hit None) (pstore s (p_asset [97;97;97])) true 0) = 2%nat.
Proof. exact example_history_ok. Qed.
